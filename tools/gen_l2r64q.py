"""Suite `l2r64q`: exact-representation tie of the roaring64 POINT MUTATORS and READ-ONLY drivers
(lean/RModel/Impl/Rep64Mut.lean, lean/RModel/Impl/Rep64Query.lean).

Commands (harness/l2r64q.go <-> lean/RModel/Driver/L2R64Q.lean); repr64 = cow=<0|1>|<high>@<flag>@<repr32>|...
  l2mut64 <add|cadd|rem|crem> x v | l2mut64 addint x <int64> | l2mut64 addmany x v.. | l2mut64 clear x
        -> <repr64 x before> <true|false|-> <repr64 x after>
  l2q64 <card|empty|min|max> x | l2q64 <has|rank|sel> x v | l2q64 hasint x <int64>     -> <repr64 x> <answer>
  l2q64 <andcard|orcard|isect|eq> x y                                                    -> <repr64 x> <repr64 y> <answer>
  l2agg64 <fastor|fastand> z x1 .. xn      -> <repr64 x1> .. <repr64 xn> <repr64 z> <repr64 x1 after> .. <repr64 xn after>
  l2agg64 paror:<w> z x1 .. xn             -> the same, followed by ncpu=<runtime.NumCPU()>      [paror]  (roaring64.ParOr(w, ..))

What is generated
  * values at k*2^32-1, k*2^32, k*2^32+1 for the keys in use and for 0 / 0x7FFFFFFF / 0x80000000 / 0xFFFFFFFF, the 16-bit chunk
    borders inside a bucket, 0 and 2^64-1; AddInt / ContainsInt of negative ints (two's complement: top buckets);
  * Add creating a bucket before the first / between two / after the last key (getIndex: empty array, last-key shortcut, miss),
    arrays of more than 16 keys (the bisection part of binarySearch);
  * removal of the last value of a bucket (the bucket must disappear: first / middle / last / only bucket), Remove / CheckedRemove of an
    absent value in a present / an absent bucket;
  * flagged buckets: `cowclone64` first (both owners flagged), then Add / CheckedAdd / Remove / CheckedRemove (also of an absent value:
    the gate clones and unflags anyway) on either owner, the other owner must be untouched; inner bitmaps whose own switch is on (`as64`);
  * AddMany: no value, one value, one bucket sorted / unsorted / with repeats, alternating buckets (every element its own batch),
    sorted over several buckets, batches that create buckets in front / in the middle / at the end, into flagged buckets;
  * Clear of a copy-on-write bitmap (the switch is reset), then mutation;
  * queries on bitmaps whose content the generator knows exactly: Rank below the first value, across empty / non-adjacent buckets,
    at bucket borders, above the last value; Select at 0, at every cumulative bucket cardinality -1 / +0, at cardinality-1,
    cardinality, cardinality+1 and 2^64-1; Contains of members / neighbours / absent buckets; Minimum / Maximum of the empty bitmap
    (Go panics), Select / Rank / Contains on the empty bitmap;
  * pairs: equal sets held under different flags / switches / container kinds (clone, copy-on-write clone, RunOptimize), sets that
    differ in the first / a middle / the last bucket only, in one key, in length; key layouts same / subset / shifted / disjoint /
    overlapping / empty; many-bucket bitmaps against sparse ones (gallop + bisection in advanceUntil), self pairs.
  * aggregates: 0, 1, 2 .. 5 inputs; the same object several times; inputs with the switch on / flagged buckets (copy-on-write
    clones) / inner bitmaps with their own switch on; key layouts same / subset / shifted / disjoint; an empty input in any position
    (FastAnd: empty result, FastOr: skipped buckets); results fed back as inputs; mutation of the result must not reach the inputs.
  * [paror] ParOr (`parors`, suite `l2r64qpar`): all inputs in ONE bucket (the 32-bit ParOr path; inner contents over 1 .. 40 16-bit
    chunks so that the 32-bit chunk grid is exercised too), key spans of 2 .. 70 buckets with w in 1,2,3,4,16 (chunkSize 1 and > 1,
    re-trimmed grids) and now and then w = 0 / a huge w, spans placed at key 0 / around 0x7FFFFFFF|0x80000000 / ending at 0xFFFFFFFF
    (the historical uint32 wrap of the chunk bounds), 2 .. 6 inputs, empty inputs in any position (also: only empty inputs, one
    non-empty input = the Clone path), the same object twice, flagged buckets (cowclone64) / switches on / inner bitmaps with
    their own switch on, the first two inputs on the middle keys and later inputs bringing keys below / between / above the keys
    already in a chunk, results fed back, mutation of the result must not reach the inputs (alias64, dig64).
Domain: uint64 value arguments (int64 for the *Int forms); bitmaps as the library itself produces them (the exact check applies to
Rep64.wf operands; an `as64` of an empty 32-bit bitmap is not well-formed and only gets the set-level checks)."""
from genlib import suite
from gen_r64 import B32, MAXV
from gen_l2r64 import L

KEYS = [0, 1, 2, 0x7FFFFFFF, 0x80000000, 0xFFFFFFFE, 0xFFFFFFFF]
INNER = [0, 1, 65535, 65536, 65537, 131071, 131072, 0x7FFFFFFF, 0x80000000, B32 - 65537, B32 - 65536, B32 - 2, B32 - 1]


class Q(L):
    def __init__(self, g, scale):
        L.__init__(self, g, scale)
        self.known = {}          # name -> python set (only for bitmaps built by `known_build` and mutated through `mut`)

    # ------------------------------------------------------------------ values
    def bval(self, homes, anchors):
        """boundary-heavy value"""
        r = self.r
        c = r.random()
        if c < 0.35:
            k = r.choice(list(homes) + KEYS)
            v = (k << 32) + r.choice([-1, 0, 1])
            return max(0, min(MAXV, v))
        if c < 0.55:
            k = r.choice(list(homes) + KEYS)
            return (k << 32) | r.choice(INNER)
        if c < 0.6:
            return r.choice([0, MAXV, MAXV - 1, 1])
        return self.val(homes, anchors)

    # ------------------------------------------------------------------ mutators
    def mut(self, op, x, *args):
        g = self.g
        g.emit("l2mut64 %s %s%s" % (op, x, "".join(" %d" % a for a in args)))
        g.count("l2mut64:" + op)
        s = self.known.get(x)
        if s is not None:
            if op in ("add", "cadd"):
                s.add(args[0])
            elif op in ("rem", "crem"):
                s.discard(args[0])
            elif op == "addint":
                s.add(args[0] % (1 << 64))
            elif op == "addmany":
                s.update(args)
            elif op == "clear":
                s.clear()

    def point(self, x, homes, anchors):
        r = self.r
        op = r.choices(["add", "cadd", "rem", "crem", "addint"], [5, 5, 4, 6, 1])[0]
        if op == "addint":
            c = r.random()
            if c < 0.5:
                v = -r.choice([1, 2, 65536, 65537, B32, B32 + 1, 1 << 62, (1 << 63)])
            else:
                v = min((1 << 63) - 1, self.bval(homes, anchors))
            self.mut(op, x, v)
        else:
            self.mut(op, x, self.bval(homes, anchors))

    def last_value(self, x, homes, anchors):
        """put exactly one value into a (possibly new) bucket, then take it out again: the bucket must disappear"""
        g, r = self.g, self.r
        k = r.choice(list(homes) + KEYS + [r.randrange(B32)])
        lo, hi = k << 32, min(MAXV, (k + 1) << 32)
        g.emit("remr64 %s %d %d" % (x, lo, hi))
        if x in self.known:
            self.known[x] = set(v for v in self.known[x] if not (lo <= v < hi))
            if hi == MAXV:
                self.known[x].discard(MAXV)
        if k == 0xFFFFFFFF:
            self.mut("rem", x, MAXV)
        v = lo + r.choice(INNER)
        self.mut(r.choice(["add", "cadd"]), x, v)
        if r.random() < 0.3:
            self.mut(r.choice(["rem", "crem"]), x, v ^ 1)          # absent value in the present bucket
        if r.random() < 0.3:
            y = g.fresh("c")
            g.emit("cowclone64 %s %s" % (y, x))
            g.count("flags:cowclone64")
        self.mut(r.choice(["rem", "crem"]), x, v)
        g.count("lastvalue")
        self.mut(r.choice(["rem", "crem"]), x, v)                  # absent bucket now
        if r.random() < 0.5:
            g.emit("wf64 %s" % x)

    def addmany(self, x, homes, anchors):
        r = self.r
        shape = r.choice(["none", "one", "bucket-sorted", "bucket-unsorted", "repeat", "alternate", "sorted-all", "new-buckets",
                          "chunks", "borders"])
        self.g.count("addmany:" + shape)
        if shape == "none":
            vals = []
        elif shape == "one":
            vals = [self.bval(homes, anchors)]
        elif shape in ("bucket-sorted", "bucket-unsorted", "repeat"):
            b = self.bucket(homes)
            vals = [(b << 32) | self.low(anchors) for _ in range(r.choice([2, 5, 30, 200]))]
            if shape == "bucket-sorted":
                vals.sort()
            if shape == "repeat":
                vals = vals[:4] * 3
        elif shape == "alternate":
            vals = [self.bval(homes, anchors) for _ in range(r.choice([3, 8, 20]))]
        elif shape == "sorted-all":
            vals = sorted(self.bval(homes, anchors) for _ in range(r.choice([3, 8, 40])))
        elif shape == "new-buckets":
            ks = r.sample(range(0, 12), 4) + [r.choice(KEYS)]
            vals = []
            for k in ks:
                vals += [(k << 32) | r.choice(INNER) for _ in range(r.choice([1, 2, 3]))]
        elif shape == "chunks":
            # several 16-bit chunks of one bucket, then back to an earlier chunk (the 32-bit cached container changes)
            b = self.bucket(homes)
            a = r.choice(anchors) >> 16
            vals = []
            for i in [0, 0, 1, 1, 0, 2, 2, 1]:
                vals.append((b << 32) | min(B32 - 1, ((a + i) << 16) + r.randrange(65536)))
        else:
            k = r.choice(list(homes) + KEYS)
            e = k << 32
            vals = [max(0, e - 1), e, min(MAXV, e + 1), max(0, e - 1), min(MAXV, e + B32 - 1), min(MAXV, e + B32)]
        self.mut("addmany", x, *vals)

    def muts(self, n):
        g, r = self.g, self.r
        for _ in range(n):
            x = g.fresh("m")
            c = r.random()
            if c < 0.45:
                homes, anchors = self.build(x)
            elif c < 0.6:
                homes, anchors = self.homes(), self.anchors()
                g.emit("new64 %s" % x)
                if r.random() < 0.5:
                    g.emit("setcow64 %s 1" % x)
            elif c < 0.75:
                # more than 16 keys: the bisection part of the key search
                homes, anchors = [3 * i for i in range(r.choice([17, 18, 33, 40]))], self.anchors()
                g.emit("new64 %s" % x)
                g.emit("addstride64 %s %d %d %d" % (x, r.choice(INNER), 3 * B32, len(homes)))
                g.count("build64:manykeys")
                homes = homes + [1, 2, 4, 3 * len(homes), 3 * len(homes) - 2]
            elif c < 0.85:
                x = self.inner_cow()
                homes, anchors = [0, 1], [0, 65536, B32 - 1]
            else:
                self.known_build(x)
                homes, anchors = sorted(set(v >> 32 for v in self.known[x])) or [0], self.anchors()
            owners = [x]
            for _ in range(r.choice([2, 3, 4])):
                k = r.random()
                if k < 0.45:
                    y = g.fresh("c")
                    g.emit("cowclone64 %s %s" % (y, owners[0]))
                    if owners[0] in self.known:
                        self.known[y] = set(self.known[owners[0]])
                    owners.append(y)
                    g.count("flags:cowclone64")
                elif k < 0.55:
                    g.emit("setcow64 %s %d" % (owners[0], r.randrange(2)))
                elif k < 0.62:
                    g.emit("opt64 %s" % owners[0])
                for _ in range(r.choice([2, 4, 7])):
                    t = r.choice(owners)
                    k = r.random()
                    if k < 0.6:
                        self.point(t, homes, anchors)
                    elif k < 0.75:
                        self.addmany(t, homes, anchors)
                    elif k < 0.9:
                        self.last_value(t, homes, anchors)
                    elif k < 0.93:
                        self.mut("clear", t)
                        self.point(t, homes, anchors)
                    else:
                        self.unary(t, homes, anchors, 3)
                for t in owners:
                    if r.random() < 0.5:
                        g.emit("dig64 %s" % t)
                    if r.random() < 0.3:
                        g.emit("wf64 %s" % t)
            if len(owners) > 1 and r.random() < 0.5:
                g.emit("l2q64 eq %s %s" % (owners[0], owners[1]))
                g.count("l2q64:eq")
        # the empty bitmap, both ends of the universe, malformed lines
        g.emit("new64 e4")
        for v in (0, MAXV, B32 - 1, B32):
            self.mut("crem", "e4", v)
            self.mut("cadd", "e4", v)
            self.mut("cadd", "e4", v)
        self.mut("addint", "e4", -1)
        self.mut("addint", "e4", -(1 << 63))
        self.mut("addint", "e4", (1 << 63) - 1)
        self.mut("addmany", "e4")
        self.mut("clear", "e4")
        self.mut("clear", "e4")
        g.emit("l2mut64 nand e4 1")
        g.emit("l2mut64 add nosuch 1")
        g.emit("l2mut64 add e4")
        g.emit("l2mut64 add e4 18446744073709551616")

    # ------------------------------------------------------------------ queries
    def known_build(self, x):
        """a bitmap whose exact content the generator knows (python set): explicit values and short ranges"""
        g, r = self.g, self.r
        ks = r.choice([[0, 1, 2], [0, 2, 5], [1, 0x7FFFFFFF, 0x80000000, 0xFFFFFFFF], [0xFFFFFFFE, 0xFFFFFFFF], [7],
                       [0, 0xFFFFFFFF], [3, 4, 9, 10, 11], [r.randrange(B32)]])
        s = set()
        g.emit("new64 %s" % x)
        for k in ks:
            base = k << 32
            sh = r.choice(["edges", "few", "range", "chunks", "one"])
            if sh == "edges":
                vs = [v for v in INNER if r.random() < 0.5] or [0]
            elif sh == "few":
                a = r.choice(INNER)
                vs = [max(0, min(B32 - 1, a + r.randrange(-50, 51))) for _ in range(r.choice([2, 10, 60]))]
            elif sh == "one":
                vs = [r.choice(INNER)]
            elif sh == "chunks":
                a = r.randrange(0, 65000)
                vs = [((a + i) << 16) + r.randrange(65536) for i in range(r.choice([2, 5, 9]))]
            else:
                a = r.choice([0, 65000, 131072 - 5, B32 - 70000, r.randrange(B32 - 70000)])
                n = r.choice([2, 100, 5000, 65536, 69000])
                lo, hi = base + a, min(MAXV, base + min(B32, a + n))
                g.emit("addr64 %s %d %d" % (x, lo, hi))
                s.update(range(lo, hi))
                vs = []
            if vs:
                vals = [base + v for v in vs]
                g.emit("l2mut64 addmany %s %s" % (x, " ".join(map(str, vals))))
                g.count("l2mut64:addmany")
                s.update(vals)
        if r.random() < 0.3:
            g.emit("opt64 %s" % x)
        self.known[x] = s
        g.count("build64:known")

    def q(self, q, x, *args):
        g = self.g
        g.emit("l2q64 %s %s%s" % (q, x, "".join(" %s" % a for a in args)))
        g.count("l2q64:" + q)

    def unary(self, x, homes, anchors, n):
        r = self.r
        for _ in range(n):
            q = r.choices(["card", "empty", "has", "hasint", "min", "max", "rank", "sel"], [1, 1, 4, 1, 1, 1, 4, 3])[0]
            if q in ("card", "empty", "min", "max"):
                self.q(q, x)
            elif q == "hasint":
                self.q(q, x, r.choice([-1, -2, -65536, -B32, -B32 - 1, -(1 << 63), 0, 1, (1 << 63) - 1,
                                       min((1 << 63) - 1, self.bval(homes, anchors))]))
            elif q == "sel":
                self.q(q, x, r.choice([0, 1, 2, 3, 10, 100, 65535, 65536, 70000, B32 - 1, B32, MAXV, r.randrange(200)]))
            else:
                self.q(q, x, self.bval(homes, anchors))

    def known_queries(self, x):
        r = self.r
        s = sorted(self.known[x])
        card = len(s)
        # Select around every cumulative bucket cardinality
        idx = {0, 1, card - 1, card, card + 1, MAXV, B32}
        cum = 0
        prev = None
        for v in s:
            k = v >> 32
            if prev is not None and k != prev:
                idx.update([cum - 1, cum, cum + 1])
            prev = k
            cum += 1
        for i in sorted(i for i in idx if 0 <= i <= MAXV):
            self.q("sel", x, i)
        # Rank / Contains around members and bucket borders, across the gaps between buckets
        pts = set([0, MAXV])
        ks = sorted(set(v >> 32 for v in s))
        for k in ks + [k + 1 for k in ks] + [k - 1 for k in ks if k > 0]:
            if k <= 0xFFFFFFFF:
                pts.update([max(0, (k << 32) - 1), k << 32, min(MAXV, (k << 32) + 1), min(MAXV, (k << 32) + B32 - 1)])
        for v in (s[:2] + s[-2:] + (r.sample(s, min(4, card)) if s else [])):
            pts.update([max(0, v - 1), v, min(MAXV, v + 1)])
        for p in sorted(pts):
            self.q("rank", x, p)
            if r.random() < 0.6:
                self.q("has", x, p)
        for q in ("card", "empty", "min", "max"):
            self.q(q, x)
        self.g.count("known-queries")

    def pairq(self, a, b):
        for q in ("andcard", "orcard", "isect", "eq"):
            self.q(q, a, b)
            self.q(q, b, a)

    def equal_pairs(self, x, homes, anchors):
        """the same set under different flags / switches / container kinds, then small differences"""
        g, r = self.g, self.r
        y = g.fresh("p")
        how = r.choice(["clone64", "cowclone64", "cowclone64"])
        g.emit("%s %s %s" % (how, y, x))
        if r.random() < 0.4:
            g.emit("opt64 %s" % r.choice([x, y]))
        if r.random() < 0.3:
            g.emit("setcow64 %s %d" % (r.choice([x, y]), r.randrange(2)))
        self.pairq(x, y)
        g.count("pair:equal-" + how)
        # writes on one side through the flag gate; the sets now differ in one bucket (or not: an absent value was removed)
        v = self.bval(homes, anchors)
        self.mut(r.choice(["crem", "cadd", "rem", "add"]), y, v)
        self.pairq(x, y)
        self.mut(r.choice(["crem", "cadd"]), x, v)
        self.pairq(x, y)
        # a fresh clone that differs INSIDE one bucket only (same keys, same length): the first, a middle or the last one
        y2 = g.fresh("p")
        g.emit("%s %s %s" % (r.choice(["clone64", "cowclone64"]), y2, x))
        hs = sorted(homes)
        k = r.choice([hs[0], hs[-1], hs[-1], hs[len(hs) // 2]])
        v1 = (k << 32) | r.choice(INNER)
        self.mut("add", x, v1)
        self.mut("add", y2, v1)
        self.q("eq", x, y2)
        self.q("eq", y2, x)
        self.mut(r.choice(["add", "cadd"]), y2, v1 ^ r.choice([1, 2, 65536, 1 << 31]))
        self.pairq(x, y2)
        g.count("pair:differ-inside")
        # differ in the first / last bucket, in one key, in length
        k = r.choice(["first", "last", "key", "longer"])
        g.count("pair:differ-" + k)
        if k == "first":
            self.q("min", y)
            self.mut("add", y, 0) if r.random() < 0.5 else self.mut("crem", y, v)
        elif k == "last":
            self.mut("add", y, MAXV) if r.random() < 0.5 else self.mut("addint", y, -2)
        elif k == "key":
            b = self.bucket(homes)
            g.emit("remr64 %s %d %d" % (y, b << 32, min(MAXV, (b + 1) << 32)))
            self.mut("add", y, ((b ^ 1) << 32) | r.choice(INNER))
        else:
            self.mut("add", y, (r.randrange(B32) << 32) | r.choice(INNER))
        self.pairq(x, y)

    def queries(self, n):
        g, r = self.g, self.r
        for _ in range(n):
            c = r.random()
            if c < 0.35:
                x = g.fresh("k")
                self.known_build(x)
                if r.random() < 0.3:
                    y = g.fresh("c")
                    g.emit("cowclone64 %s %s" % (y, x))
                self.known_queries(x)
                homes, anchors = sorted(set(v >> 32 for v in self.known[x])) or [0], self.anchors()
                if r.random() < 0.5:
                    self.equal_pairs(x, homes, anchors)
            elif c < 0.6:
                a, b, homes, anchors = self.pair()
                g.count("qpair:random")
                self.pairq(a, b)
                self.unary(a, homes, anchors, 6)
                self.unary(b, homes, anchors, 3)
                self.q("eq", a, a)
                self.q("andcard", b, b)
            elif c < 0.8:
                a, b, homes, anchors = self.derived()
                g.count("qpair:derived")
                self.pairq(a, b)
                self.unary(a, homes, anchors, 4)
                self.equal_pairs(a, homes, anchors)
            elif c < 0.9:
                # many buckets against few: advanceUntil gallops and bisects
                a, b = g.fresh("w"), g.fresh("w")
                nk = r.choice([20, 40, 70])
                st = r.choice([1, 2, 3])
                off = r.choice(INNER)
                g.emit("new64 %s" % a)
                g.emit("addstride64 %s %d %d %d" % (a, off, st * B32, nk))
                g.emit("new64 %s" % b)
                ks = sorted(r.sample(range(0, st * nk + 3), r.choice([1, 2, 5, 9])))
                vals = [(k << 32) | r.choice([off, off, off ^ 1]) for k in ks]
                g.emit("addmany64 %s %s" % (b, " ".join(map(str, vals))))
                if r.random() < 0.5:
                    g.emit("addmany64 %s %d %d" % (b, ((st * nk - st) << 32) | off, ((st * nk + 5) << 32) | off))
                g.count("qpair:gallop")
                self.pairq(a, b)
                homes, anchors = [st * i for i in range(nk)], [off, off, off]
                self.unary(a, homes, anchors, 6)
                for i in (0, 1, 15, 16, 17, nk - 1, nk, nk + 1):
                    self.q("sel", a, i)
                for k in (0, st, 16 * st, 17 * st, st * (nk - 1), st * nk):
                    self.q("rank", a, (k << 32) | off)
                    self.q("has", a, (k << 32) | off)
                    self.q("has", a, ((k + 1) << 32) | off)
            else:
                x = self.inner_cow()
                homes, anchors = [0, 1], [0, 65536, B32 - 1]
                self.unary(x, homes, anchors, 5)
                self.equal_pairs(x, homes, anchors)
        # the empty bitmap
        g.emit("new64 e3")
        g.emit("new64 e2")
        g.emit("setcow64 e2 1")
        for q in ("card", "empty", "min", "max"):
            self.q(q, "e3")
        for v in (0, 1, MAXV):
            self.q("has", "e3", v)
            self.q("rank", "e3", v)
            self.q("sel", "e3", v)
        self.q("hasint", "e3", -1)
        self.pairq("e3", "e2")
        self.q("eq", "e3", "e3")
        g.emit("l2q64 nand e3")
        g.emit("l2q64 card nosuch")
        g.emit("l2q64 eq e3 nosuch")
        g.emit("l2q64 has e3")
        g.emit("l2q64 has e3 18446744073709551616")


    # ------------------------------------------------------------------ aggregates
    def aggs(self, n):
        g, r = self.g, self.r
        for _ in range(n):
            c = r.random()
            if c < 0.4:
                a, b, homes, anchors = self.pair()
            elif c < 0.8:
                a, b, homes, anchors = self.derived()
            else:
                a = self.inner_cow()
                b = g.fresh("a")
                homes, anchors = self.build(b, r.choice([[0], [0, 1], [1, 2]]))
            pool = [a, b]
            for _ in range(r.choice([0, 1, 2, 3])):
                x = g.fresh("a")
                k = r.random()
                if k < 0.4:
                    self.build(x, [h for h in homes if r.random() < 0.7] or homes[:1], anchors)
                elif k < 0.6:
                    g.emit("%s %s %s" % (r.choice(["clone64", "cowclone64"]), x, r.choice(pool)))
                    g.emit("l2mut64 %s %s %d" % (r.choice(["cadd", "crem"]), x, self.bval(homes, anchors)))
                elif k < 0.75:
                    g.emit("new64 %s" % x)
                else:
                    self.build(x)
                pool.append(x)
            if r.random() < 0.3:
                y = g.fresh("c")
                g.emit("cowclone64 %s %s" % (y, r.choice(pool)))
                g.count("flags:cowclone64")
            if r.random() < 0.3:
                g.emit("setcow64 %s 1" % r.choice(pool))
            zs = []
            for op in ("fastor", "fastand"):
                for k in sorted(set([0, 1, 2, len(pool), r.randrange(2, len(pool) + 1)])):
                    args = r.sample(pool, min(k, len(pool)))
                    if k >= 2 and r.random() < 0.2:
                        args.append(args[0])
                    z = g.fresh("z")
                    g.emit("l2agg64 %s %s%s" % (op, z, "".join(" " + x for x in args)))
                    g.count("l2agg64:%s:%d" % (op, len(args)))
                    zs.append(z)
            z1, z2 = r.sample(zs, 2)
            g.emit("l2mut64 add %s %d" % (z1, self.bval(homes, anchors)))
            g.emit("l2mut64 crem %s %d" % (z2, self.bval(homes, anchors)))
            for x in pool[:2]:
                g.emit("dig64 %s" % x)
            g.emit("l2agg64 %s %s %s %s %s" % (r.choice(["fastor", "fastand"]), g.fresh("z"), z1, z2, r.choice(pool)))
            g.emit("wf64 %s" % z1)
        g.emit("l2agg64 fastnand z0")
        g.emit("l2agg64 fastor z0 nosuch")


    # ------------------------------------------------------------------ [paror] ParOr
    def par_fill(self, x, keys, anchors, rich):
        """put something into every bucket of `keys` (ascending)"""
        g, r = self.g, self.r
        g.emit("new64 %s" % x)
        plain = []
        for k in keys:
            base = k << 32
            c = r.random()
            if rich and c < 0.12:
                self.fill_bucket(x, k, anchors)
            elif c < 0.25:
                s = self.low(anchors)
                g.emit("addr64 %s %d %d" % (x, base + s, min(MAXV, base + min(B32, s + r.choice([2, 70, 5000, 65536, 70000])))))
            else:
                for _ in range(r.choice([1, 1, 2, 4])):
                    plain.append(base + (r.choice(INNER) if r.random() < 0.4 else self.low(anchors)))
        if plain:
            r.shuffle(plain)
            g.emit("addmany64 %s %s" % (x, " ".join(map(str, plain))))
        if r.random() < 0.15:
            g.emit("opt64 %s" % x)

    def par_span(self):
        """(first key, number of keys)"""
        r = self.r
        c = r.random()
        if c < 0.3:
            n = r.choice([2, 3, 4, 5, 7, 8, 9])
        elif c < 0.6:
            n = r.choice([12, 13, 16, 17, 20, 31, 33])
        else:
            n = r.choice([48, 63, 64, 65, 70])
        where = r.choice(["zero", "top", "top", "mid", "mid-below", "random", "low"])
        if where == "zero":
            b = 0
        elif where == "top":
            b = 0xFFFFFFFF - (n - 1)
        elif where == "mid":
            b = 0x80000000 - r.randrange(0, n)
        elif where == "mid-below":
            b = 0x7FFFFFFF - (n - 1)
        elif where == "low":
            b = r.choice([1, 2, 5])
        else:
            b = r.randrange(0, 0xFFFFFFFF - n)
        self.g.count("parspan:" + where)
        return b, n

    def parors(self, n):
        g, r = self.g, self.r
        for _ in range(n):
            anchors = self.anchors()
            kind = r.choices(["one-bucket", "span", "span", "span", "pair"], [3, 5, 5, 5, 2])[0]
            pool = []
            if kind == "one-bucket":
                k = r.choice([0, 1, 0x7FFFFFFF, 0x80000000, 0xFFFFFFFE, 0xFFFFFFFF, r.randrange(B32)])
                lo, nk = k, 1
                for i in range(r.choice([2, 3, 4])):
                    x = g.fresh("a")
                    g.emit("new64 %s" % x)
                    # several 16-bit chunks: the 32-bit ParOr has a chunk grid of its own
                    a = r.choice([0, 1, 100, 65535 - 45, r.randrange(0, 65000)])
                    nch = r.choice([1, 2, 5, 17, 40])
                    vs = [(k << 32) | min(B32 - 1, ((a + r.randrange(nch)) << 16) + r.choice([0, 1, 65535, r.randrange(65536)]))
                          for _ in range(r.choice([1, 3, 10, 40]))]
                    g.emit("addmany64 %s %s" % (x, " ".join(map(str, vs))))
                    if r.random() < 0.3:
                        s = (k << 32) | min(B32 - 70000, ((a + r.randrange(nch)) << 16))
                        g.emit("addr64 %s %d %d" % (x, s, s + r.choice([10, 5000, 65536, 70000])))
                    if r.random() < 0.2:
                        g.emit("opt64 %s" % x)
                    pool.append(x)
                if k == 0 and r.random() < 0.5:
                    pool.append(self.inner_cow())  # bucket 0 with the inner switch on
                g.count("parkind:one-bucket")
            elif kind == "pair":
                a, b, homes, anchors = self.pair() if r.random() < 0.5 else self.derived()
                pool += [a, b]
                lo, nk = min(homes), max(homes) - min(homes) + 1
                g.count("parkind:pair")
            else:
                lo, nk = self.par_span()
                allk = list(range(lo, lo + nk))
                mid = allk[nk // 3: max(nk // 3 + 1, 2 * nk // 3)]
                ninp = r.choice([2, 3, 3, 4, 5])
                for i in range(ninp):
                    x = g.fresh("a")
                    if i < 2:
                        # the first two inputs make the chunk (orOnRange); mostly on the middle keys
                        src = mid if r.random() < 0.6 else allk
                        dens = r.choice([0.15, 0.4, 0.8, 1.0])
                    else:
                        # later inputs (iorOnRange): keys below / between / above what is there, and equal keys
                        src = allk
                        dens = r.choice([0.1, 0.3, 0.6, 1.0])
                    ks = [k for k in src if r.random() < dens] or [r.choice(src)]
                    if r.random() < 0.3:
                        ks = sorted(set(ks + [lo, lo + nk - 1]))
                    self.par_fill(x, ks, anchors, rich=(nk <= 9))
                    pool.append(x)
                g.count("parkind:span")
                g.count("parinputs:%d" % ninp)
            # flags and switches
            for x in list(pool):
                c = r.random()
                if c < 0.25:
                    y = g.fresh("c")
                    g.emit("cowclone64 %s %s" % (y, x))      # every bucket of x (and of y) is flagged, x's switch is on
                    g.count("flags:cowclone64")
                    if r.random() < 0.4:
                        pool.append(y)
                    if r.random() < 0.3:
                        # unflag some buckets again by writing to them
                        g.emit("l2mut64 cadd %s %d" % (x, ((lo + r.randrange(nk)) << 32) | r.choice(INNER)))
                elif c < 0.35:
                    g.emit("setcow64 %s 1" % x)
            # empty inputs
            ne = r.choice([0, 0, 0, 1, 1, 2])
            for _ in range(ne):
                x = g.fresh("e")
                g.emit("new64 %s" % x)
                if r.random() < 0.3:
                    g.emit("setcow64 %s 1" % x)
                pool.append(x)
            zs = []
            nkeys = nk
            ws = [1, 2, 3, 4, 16]
            for w in r.sample(ws, r.choice([2, 3, 5])) + ([0] if r.random() < 0.3 else []) + ([r.choice([17, 100, 1000, 1 << 16])] if kind != "pair" and r.random() < 0.15 else []):
                args = list(pool)
                r.shuffle(args)
                if kind != "one-bucket" and r.random() < 0.5:
                    # keep the construction order: the first two inputs sit on the middle keys
                    args = list(pool)
                    for _ in range(ne):
                        e = args.pop()
                        args.insert(r.randrange(len(args) + 1), e)
                if r.random() < 0.2:
                    args.insert(r.randrange(len(args) + 1), r.choice(args))     # the same object twice
                    g.count("paror:same-object-twice")
                z = g.fresh("z")
                g.emit("l2agg64 paror:%d %s%s" % (w, z, "".join(" " + x for x in args)))
                g.count("l2agg64:paror:w=%d" % w)
                g.count("l2agg64:paror:n=%d" % len(args))
                if w >= 1:
                    g.count("pargrid:" + ("one-key" if nkeys == 1 else "size1" if 4 * w > nkeys else "size>1"))
                zs.append(z)
            # shortcuts: no input, only empty inputs, one non-empty input among empty ones (Clone)
            c = r.random()
            if c < 0.15:
                g.emit("l2agg64 paror:%d %s" % (r.choice(ws), g.fresh("z")))
            elif c < 0.3:
                g.emit("new64 e7")
                g.emit("l2agg64 paror:%d %s e7 e7" % (r.choice(ws), g.fresh("z")))
            elif c < 0.6:
                g.emit("new64 e7")
                args = ["e7", pool[0], "e7"][r.randrange(2):][:r.choice([1, 2, 3])]
                if pool[0] not in args:
                    args.append(pool[0])
                z = g.fresh("z")
                g.emit("l2agg64 paror:%d %s %s" % (r.choice(ws), z, " ".join(args)))
                g.count("paror:clone-path")
                zs.append(z)
            # the result is independent of the inputs: no shared inner bitmap, mutation does not reach them
            z1 = r.choice(zs)
            names = []
            for x in pool:
                if x not in names:
                    names.append(x)
            g.emit("alias64 %s %s" % (z1, " ".join(names)))
            g.emit("wf64 %s" % z1)
            g.emit("l2mut64 cadd %s %d" % (z1, ((lo + r.randrange(nk)) << 32) | r.choice(INNER)))
            g.emit("l2mut64 crem %s %d" % (z1, ((lo + r.randrange(nk)) << 32) | r.choice(INNER)))
            for x in names[:3]:
                g.emit("dig64 %s" % x)
            # results fed back
            if len(zs) >= 2:
                z2 = r.choice(zs)
                g.emit("l2agg64 paror:%d %s %s %s %s" % (r.choice(ws), g.fresh("z"), z1, z2, r.choice(pool)))
                g.emit("l2agg64 fastor %s %s %s" % (g.fresh("z"), z1, z2))
        g.emit("l2agg64 paror: z0")
        g.emit("l2agg64 paror:x z0")
        g.emit("l2agg64 paror:2 z0 nosuch")
        g.emit("l2agg64 paror:1048577 z0")


@suite("l2r64q")
def _l2r64q(g, scale):
    q = Q(g, scale)
    q.muts(max(1, int(8 * scale)))
    q.queries(max(1, int(8 * scale)))
    q.aggs(max(1, int(4 * scale)))
    q.parors(max(1, int(3 * scale)))      # [paror]


@suite("l2r64qpar")                       # [paror]
def _l2r64qpar(g, scale):
    Q(g, scale).parors(max(1, int(24 * scale)))


@suite("l2r64qagg")
def _l2r64qagg(g, scale):
    Q(g, scale).aggs(max(1, int(12 * scale)))


@suite("l2r64qmut")
def _l2r64qmut(g, scale):
    Q(g, scale).muts(max(1, int(16 * scale)))


@suite("l2r64qq")
def _l2r64qq(g, scale):
    Q(g, scale).queries(max(1, int(16 * scale)))
