"""Suite `kernl2`: the exact-representation tie of the L2 container model (lean/RModel/Impl/ContOps.lean).

Only WELL-FORMED operands (the exact check applies to nothing else), every 3x3 kind pairing, the four non-in-place
kernels and / or / xor / andNot, with shapes aimed at every re-typing decision of the Go kernels:
  * result empty / single / full (or, xor -> run container [0,65535]) / full minus one
  * result cardinality exactly 4095 / 4096 / 4097 (array <-> bitmap)
  * an operand that is the full run container (isFull shortcuts), the full bitmap
  * array x array with len a + len b > 4096 (bitmap path) and the result on either side of 4096
  * run x run / run x array results around the run-minimality boundary 2+4r < min(8224, 2c)
  * unary `toEfficientContainer` for the three kinds
Domain: containers as the library itself can produce them (Cont.wf)."""
from genlib import suite, CH
from gen_kern import rand_set, card, wf_render, interval_set, ivs_union, thresh_cases

OPS = ["and", "or", "xor", "andNot"]


def complement(ivs):
    out = []
    pos = 0
    for a, b in ivs:
        if a > pos:
            out.append((pos, a - 1))
        pos = b + 1
    if pos < CH:
        out.append((pos, CH - 1))
    return out


def striped(r, lo, n, runlen, gap):
    """n runs of `runlen` values separated by `gap` absent values"""
    out = []
    pos = lo
    for _ in range(n):
        if pos + runlen - 1 >= CH:
            break
        out.append((pos, pos + runlen - 1))
        pos += runlen + gap
    return out


def shapes(g):
    """pairs of sets (a, b) chosen for the branch they drive"""
    r = g.r
    full = [(0, CH - 1)]
    v = g.lowval()
    fm1 = [(x, y) for (x, y) in [(0, v - 1), (v + 1, CH - 1)] if x <= y]
    s = rand_set(g)
    while card(s) == 0:
        s = rand_set(g)
    prs = []
    prs.append(("full-any", full, s))
    prs.append(("any-full", s, full))
    prs.append(("fm1-single", fm1, [(v, v)]))            # or -> full, xor -> full, and -> empty
    prs.append(("single-fm1", [(v, v)], fm1))
    prs.append(("compl", s, complement(s)))               # or/xor -> full, and -> empty, andNot -> s
    prs.append(("same", s, list(s)))                      # xor/andNot -> empty
    sub = [iv for iv in s if r.random() < 0.5] or s[:1]
    prs.append(("subset", s, sub))
    prs.append(("superset", sub, s))
    # array x array on the bitmap path: two halves of ~2100..4096 values each
    n1, n2 = r.choice([(2049, 2048), (2048, 2048), (4096, 1), (4096, 4096), (3000, 3000), (4000, 97)])
    lo = r.choice([0, 5, 1000, 30000])
    a = striped(r, lo, n1, 1, 1) if r.random() < 0.5 else interval_set(r, lo, n1, r.choice([700, 1500]))
    ov = r.choice(["disjoint", "overlap", "equalish"])
    if ov == "disjoint":
        b = striped(r, a[-1][1] + 3, n2, 1, r.choice([1, 2]))
    elif ov == "overlap":
        b = striped(r, lo + 1, n2, 1, 1) if r.random() < 0.5 else striped(r, lo, n2, 1, 1)
    else:
        b = striped(r, lo, n2, 1, 1)
    if a and b:
        prs.append(("arrarr-big:" + ov, a, b))
    # run-minimality boundary for run x run / run x array results: k runs of length 2 (+extra) -> card 2k+e
    k = r.choice([1, 2, 3, 10, 100, 1000])
    e = r.choice([0, 1, 2, 3])
    base = striped(r, r.randrange(0, 100), k, 2, 3)
    if base:
        ext = [(base[0][0], base[0][1] + e)] + base[1:] if e < 3 else base
        wide = [(x, y + 1) for x, y in ext]
        prs.append(("runmin-and", wide, ivs_union(ext, [(ext[-1][1] + 10, ext[-1][1] + 20)])))
        prs.append(("runmin-or", ext, ext[: max(1, len(ext) // 2)]))
        prs.append(("runmin-andnot", wide, [(y + 1, y + 1) for x, y in ext]))
    # long runs with holes punched by an array
    big = interval_set(r, r.choice([0, 64, 1000]), r.choice([5000, 20000, 60000]), r.choice([1, 2, 7]))
    holes = sorted(set(r.randrange(big[0][0], big[-1][1] + 1) for _ in range(r.choice([1, 5, 300, 3000]))))
    prs.append(("big-holes", big, [(h, h) for h in holes]))
    prs.append(("holes-big", [(h, h) for h in holes], big))
    # many runs (~2050): run/bitmap size boundary
    if r.random() < 0.3:
        kk = r.choice([2040, 2054, 2055, 2056])
        many = striped(r, r.randrange(0, 20), kk, r.choice([4, 6]), r.choice([1, 2]))
        prs.append(("manyruns", many, [(x + 1, y) for x, y in many]))
        prs.append(("manyruns-or", many, [(y + 1, y + 1) for x, y in many[:-1]]))
    # run x run results that are NOT best stored as runs (toEfficientContainer -> bitmap / array after the interval kernels)
    c = r.random()
    if c < 0.25:
        # or: two interleaved run containers, together more than 2055 runs -> bitmap
        n = r.choice([1028, 1100, 1500])
        prs.append(("rr-or-bitmap", striped(r, 0, n, 3, 9), striped(r, 6, n, 3, 9)))
    elif c < 0.5:
        # and: every run of b straddles two runs of a -> two pieces per period, ~3000 pieces -> bitmap
        n = r.choice([1030, 1500])
        prs.append(("rr-and-bitmap", striped(r, 0, n, 8, 4), striped(r, 4, n, 10, 2)))
    elif c < 0.75:
        # andNot: one long run minus >= 2055 short runs -> more than 2055 pieces -> bitmap
        n = r.choice([2055, 2054, 2050])
        prs.append(("rr-andnot-bitmap", [(0, 6 * n + r.choice([0, 5, 100]))], striped(r, 2, n, 3, 3)))
    else:
        # and / andNot leaving few short pieces -> array
        n = r.choice([3, 50, 900])
        prs.append(("rr-and-array", striped(r, 0, n, 4, 4), striped(r, 3, n, 4, 4)))
    # threshold results (shared with kernthresh)
    T, R, D, cases = thresh_cases(g)
    for op, a, b in cases:
        prs.append(("thresh-%s-%d" % (op, T), a, b))
    return prs


@suite("kernl2")
def _kernl2(g, scale):
    r = g.r
    for _ in range(max(1, int(4 * scale))):
        for name, a, b in shapes(g):
            if card(a) == 0 or card(b) == 0:
                continue
            for ka in ("A", "B", "R"):
                ca = wf_render(g, a, ka)
                if ca is None:
                    continue
                for kb in ("A", "B", "R"):
                    cb = wf_render(g, b, kb)
                    if cb is None:
                        continue
                    for op in OPS:
                        g.emit("kern %s %s %s" % (op, ca, cb))
                        g.emit("kernwf %s %s %s" % (op, ca, cb))
                        g.count("l2:%s%s:%s" % (ka, kb, op))
                    g.count("l2shape:" + name.split("-")[0].split(":")[0])
        # unary: toEfficientContainer of the three kinds (wf operands)
        for _ in range(12):
            s = rand_set(g)
            for ka in ("A", "B", "R"):
                ca = wf_render(g, s, ka)
                if ca is not None:
                    g.emit("kern toEfficientContainer %s -" % ca)
                    g.count("l2:toEfficient:" + ka)
