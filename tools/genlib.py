#!/usr/bin/env python3
"""Script generators for the correspondence suites.  All randomness from one random.Random(seed)."""
import random

U32 = 1 << 32
CH = 65536


def self_first(lines):
    """first value added by an `addstride %s <start> ..` template line"""
    return int(lines[0].split()[2])


class G:
    def __init__(self, seed, tier="quick"):
        self.r = random.Random(seed)
        self.tier = tier
        self.lines = []
        self.hist = {}          # histogram of shapes / classes actually emitted
        self.n = 0

    def emit(self, s):
        self.lines.append(s)

    def count(self, k):
        self.hist[k] = self.hist.get(k, 0) + 1

    def fresh(self, p="b"):
        self.n += 1
        return "%s%d" % (p, self.n)

    # ---------------------------------------------------------------- values
    def key(self):
        r = self.r
        return r.choice([0, 0, 1, 1, 2, 3, 5, 7, 100, 0x7FFF, 0x8000, 0xFFFE, 0xFFFF, 0xFFFF, r.randrange(65536)])

    def lowval(self):
        r = self.r
        c = r.random()
        if c < 0.35:
            return r.choice([0, 1, 2, 62, 63, 64, 65, 127, 128, 4095, 4096, 4097, 32767, 32768, 65534, 65535, 65533, 1023, 1024])
        return r.randrange(CH)

    def val_near(self, keys):
        """a value in/near one of the given chunk keys"""
        r = self.r
        if keys and r.random() < 0.85:
            k = r.choice(list(keys))
        else:
            k = self.key()
        c = r.random()
        if c < 0.1 and k > 0:
            return k * CH - 1
        if c < 0.2 and k < 65535:
            return (k + 1) * CH
        return k * CH + self.lowval()

    # ---------------------------------------------------------------- chunk shapes
    def chunk_ops(self, x, k):
        """emit ops that populate chunk k of bitmap x with a random shape; returns the shape name"""
        r = self.r
        base = k * CH
        shapes = ["single", "sparse", "arr4094", "arr4096", "bm4097", "dense", "blocks", "runs", "full", "fullminus",
                  "prefix", "suffix", "alt", "edges", "fewblocks"]
        w = [4, 8, 2, 3, 3, 2, 8, 8, 4, 3, 3, 3, 2, 4, 6]
        sh = r.choices(shapes, w)[0]
        if sh == "single":
            self.emit("add %s %d" % (x, base + self.lowval()))
        elif sh == "sparse":
            n = r.randrange(2, 64)
            self.emit("addmany %s %s" % (x, " ".join(str(base + self.lowval()) for _ in range(n))))
        elif sh in ("arr4094", "arr4096", "bm4097"):
            n = {"arr4094": r.choice([4094, 4095]), "arr4096": 4096, "bm4097": r.choice([4097, 4098, 4100])}[sh]
            # spread: n values as a few blocks so lines stay short, + some scattered singles
            vals = sorted(r.sample(range(0, CH, 2), 40))
            left = n - 40
            start = r.randrange(0, CH - 2 * left - 2) | 1
            # a block of odd numbers would be long; use ranges: one range of `left` consecutive values disjoint from evens? simpler:
            self.emit("addmany %s %s" % (x, " ".join(str(base + v) for v in vals)))
            self.emit("addr %s %d %d" % (x, base + start, base + start + left))
            # the range may swallow some of the singles; fine (cardinality near the threshold either way)
        elif sh == "dense":
            n = r.choice([5000, 9000, 20000])
            vals = r.sample(range(CH), n)
            self.emit("addmany %s %s" % (x, " ".join(str(base + v) for v in vals)))
        elif sh == "blocks":
            nb = r.randrange(20, 120)
            pts = sorted(r.sample(range(CH + 1), 2 * nb))
            for i in range(0, 2 * nb, 2):
                self.emit("addr %s %d %d" % (x, base + pts[i], base + pts[i + 1]))
        elif sh == "fewblocks":
            nb = r.randrange(1, 5)
            pts = sorted(r.sample(range(CH + 1), 2 * nb))
            for i in range(0, 2 * nb, 2):
                self.emit("addr %s %d %d" % (x, base + pts[i], base + pts[i + 1]))
        elif sh == "runs":
            nb = r.randrange(1, 30)
            pts = sorted(r.sample(range(CH + 1), 2 * nb))
            for i in range(0, 2 * nb, 2):
                self.emit("addr %s %d %d" % (x, base + pts[i], base + pts[i + 1]))
        elif sh == "full":
            self.emit("addr %s %d %d" % (x, base, base + CH))
        elif sh == "fullminus":
            self.emit("addr %s %d %d" % (x, base, base + CH))
            self.emit("rem %s %d" % (x, base + self.lowval()))
        elif sh == "prefix":
            self.emit("addr %s %d %d" % (x, base, base + r.choice([1, 2, 64, 4096, 4097, 30000, 65535])))
        elif sh == "suffix":
            self.emit("addr %s %d %d" % (x, base + r.choice([65535, 65534, 65472, 61440, 61439, 30000, 1]), base + CH))
        elif sh == "alt":
            step = r.choice([2, 3, 16])
            hi = r.choice([8192, 8194, 30000, CH])
            self.emit("addmany %s %s" % (x, " ".join(str(base + v) for v in range(r.randrange(step), hi, step))))
        elif sh == "edges":
            vals = [0, 63, 64, 65, 4095, 4096, 4097, 65534, 65535]
            vals = [v for v in vals if r.random() < 0.7] or [65535]
            self.emit("addmany %s %s" % (x, " ".join(str(base + v) for v in vals)))
        self.count("shape:" + sh)
        return sh

    def keyset(self, n=None):
        r = self.r
        if n is None:
            n = r.choices([1, 2, 3, 4, 5, 8, 20], [4, 6, 5, 4, 3, 2, 1])[0]
        layout = r.choice(["low", "rand", "top", "mixed", "adjacent"])
        if layout == "low":
            ks = r.sample(range(0, max(n + 2, 8)), n)
        elif layout == "rand":
            ks = r.sample(range(65536), n)
        elif layout == "top":
            ks = r.sample(range(65536 - max(n + 2, 6), 65536), n)
        elif layout == "adjacent":
            s = r.choice([0, 1, 1000, 65536 - n])
            ks = list(range(s, s + n))
        else:
            ks = list({self.key() for _ in range(n)})
        self.count("keylayout:" + layout)
        return sorted(set(k for k in ks if 0 <= k < 65536))

    def build(self, x, keys=None, opt=None):
        """new bitmap x with random chunks on `keys`"""
        r = self.r
        self.emit("new %s" % x)
        if keys is None:
            keys = self.keyset()
        for k in keys:
            self.chunk_ops(x, k)
        if opt is None:
            opt = r.random() < 0.45
        if opt:
            self.emit("opt %s" % x)
            self.count("build:opt")
        c = r.random()
        if c < 0.15:
            self.emit("setcow %s 1" % x)
            self.count("build:cow")
        return keys

    # ---------------------------------------------------------------- suites
    def hist_fixed_episodes(self):
        """deterministic mutation cases: checked removals that MISS in chunks holding one / two values (every stored form); ranges that
        start or end exactly at the bitmap's minimum / maximum; removals of the first / last / an inner value of runs at the point where
        the run form stops being the smaller one; checked removals walking a bitmap chunk down through 4096"""
        for form in ("plain", "opt", "viaflip"):
            x = self.fresh("hf")
            vs = [100, CH + 5, 2 * CH + 7, 2 * CH + 8, 9 * CH + 65535]
            if form == "viaflip":
                self.emit("new %s" % x)
                for v in vs:
                    self.emit("flip %s %d %d" % (x, v, v + 1))
            else:
                self.emit("of %s %s" % (x, " ".join(map(str, vs))))
            if form == "opt":
                self.emit("opt %s" % x)
            for q in (101, 99, CH + 6, CH + 4, CH + 65535, 2 * CH + 9, 9 * CH, 9 * CH + 65534, 5 * CH + 5):
                self.emit("crem %s %d" % (x, q))
                self.emit("rem %s %d" % (x, q + 1 if q % 2 else q))
                self.emit("card %s" % x)
            self.emit("crem %s %d" % (x, CH + 5))
            self.emit("crem %s %d" % (x, CH + 5))
            self.emit("cadd %s %d" % (x, CH + 5))
            self.emit("cadd %s %d" % (x, CH + 5))
            self.emit("wf %s" % x)
            self.count("hist:fixed-checked-miss")
        for kind in ("A", "R", "B"):
            for hi in (3 * CH + 500, 3 * CH + 65535, 0xFFFFFFFF):
                x = self.fresh("hf")
                self.emit("new %s" % x)
                lo = hi - 70000
                if kind == "A":
                    self.emit("addstride %s %d 700 101" % (x, lo))
                elif kind == "R":
                    self.emit("addr %s %d %d" % (x, lo, lo + 30000)); self.emit("addr %s %d %d" % (x, hi - 9000, hi + 1)); self.emit("opt %s" % x)
                else:
                    self.emit("addstride %s %d 2 35001" % (x, lo))
                for op, a, b in (("remr", hi, hi + 1), ("remr", hi, min(U32, hi + 70000)), ("flip", hi, hi + 1), ("addr", hi, hi + 1),
                                 ("remr", lo, lo + 1), ("remr", max(0, lo - 70000), lo + 1), ("remr", lo - 1, lo), ("remr", hi + 1 if hi < U32 - 1 else hi, U32),
                                 ("flip", lo - 5, lo + 1), ("remr", hi - 1, hi), ("remr", hi - 1, U32)):
                    y = self.fresh("hf")
                    self.emit("clone %s %s" % (y, x))
                    self.emit("%s %s %d %d" % (op, y, a, b))
                    self.emit("max %s" % y)
                    self.emit("min %s" % y)
                self.count("hist:fixed-range-at-extremes")
        # run chunks on the border where the array form becomes the smaller one (values == 2*runs + 2 ...): drop first / last / inner value
        for nruns, extra in ((1, 2), (1, 3), (2, 2), (3, 2), (499, 2), (5, 1)):
            for which in ("first", "last", "inner", "single"):
                x = self.fresh("hf")
                self.emit("new %s" % x)
                for j in range(nruns - 1):
                    self.emit("addr %s %d %d" % (x, 7 * CH + 100 * j, 7 * CH + 100 * j + 2))
                b0 = 7 * CH + 100 * (nruns - 1)
                self.emit("addr %s %d %d" % (x, b0, b0 + 2 + extra))
                self.emit("opt %s" % x)
                v = {"first": b0, "last": b0 + 1 + extra, "inner": b0 + 1, "single": 7 * CH}[which]
                self.emit("rem %s %d" % (x, v))
                self.emit("wf %s" % x)
                self.emit("crem %s %d" % (x, v + 1 if which != "last" else v - 1))
                self.emit("wf %s" % x)
                self.emit("size %s" % x)
            self.count("hist:fixed-run-border-remove")
        # checked removals only: a bitmap chunk walked down through 4096, a run chunk thinned out
        x = self.fresh("hf")
        self.emit("new %s" % x)
        self.emit("addstride %s %d 3 4200" % (x, 4 * CH))
        for j in range(210):
            self.emit("crem %s %d" % (x, 4 * CH + 3 * j * 20))
            if 98 <= j <= 108 or j == 209:
                self.emit("wf %s" % x)
                self.emit("size %s" % x)
        x = self.fresh("hf")
        self.emit("new %s" % x)
        self.emit("addr %s %d %d" % (x, 6 * CH + 1000, 6 * CH + 4000))
        self.emit("opt %s" % x)
        for j in range(1500):
            self.emit("crem %s %d" % (x, 6 * CH + 1001 + 2 * j))
            if j % 250 == 249:
                self.emit("wf %s" % x)
                self.emit("size %s" % x)
        self.count("hist:fixed-checked-only-walk")

    def suite_hist(self, nhist, steps):
        """C02: mutation histories, digest after every step"""
        r = self.r
        # ranges over run chunks: the removed / flipped / added interval starts before the first run (or in an earlier chunk) and
        # ends INSIDE the last run; starts inside a run and ends in a gap; covers whole runs
        for k in (r.choice([0, 1, 3]), r.choice([700, 65534])):
            base = k * CH
            x = self.fresh()
            self.emit("new %s" % x)
            self.emit("addr %s %d %d" % (x, base + 4464, base + 14464))
            self.emit("addr %s %d %d" % (x, base + 24464, base + 29464))
            if k > 0:
                self.emit("addr %s %d %d" % (x, base - 20000, base - 19000))
            for (a, b) in [(base + 3464, base + 26464), (base - 30000 if k > 0 else 0, base + 27000), (base + 5000, base + 20000),
                           (base + 100, base + 4464), (base + 14464, base + 24464), (base + 29463, base + 40000)]:
                for op in ("remr", "flip", "addr"):
                    y = self.fresh()
                    self.emit("clone %s %s" % (y, x))
                    self.emit("%s %s %d %d" % (op, y, max(0, a), b))
                    # … and the chunk is flipped afterwards (runs that touch without having been fused would show here)
                    self.emit("flip %s %d %d" % (y, base, base + 40000))
                    self.emit("wf %s" % y)
            self.emit("dig %s" % x)
            self.count("hist:run-range-episode")
        self.hist_fixed_episodes()
        for _ in range(nhist):
            x = self.fresh()
            if r.random() < 0.5:
                keys = set(self.build(x))
            else:
                self.emit("new %s" % x)
                keys = set(self.keyset())
            self.shadows = []
            for i in range(steps):
                self.hist_step(x, keys)
                if i == steps // 2 and self.shadows:
                    for y in self.shadows:
                        self.emit("dig %s" % y)
            # degenerate ranges: an exclusive end of 0 is an empty range whatever the start is
            if r.random() < 0.6 or not getattr(self, "_end0_done", False):
                self._end0_done = True
                for op0 in ("remr", "addr", "flip"):
                    self.emit("%s %s %d 0" % (op0, x, r.choice([0, 1, 65536, self.val_near(keys), U32 - 1])))
                self.count("hist:end0")
            # the copies taken along the way still hold what they held when they were taken (or what was added to them since)
            for y in self.shadows:
                self.emit("dig %s" % y)
            self.shadows = []
            self.emit("wf %s" % x)
            self.emit("size %s" % x)

    def rng(self, keys):
        """a [s,e) range from the boundary pool"""
        r = self.r
        c = r.random()
        if r.random() < 0.03:
            # degenerate: the exclusive end is 0 (an empty range whatever the start is)
            self.count("rng:end0")
            return r.choice([0, 1, self.val_near(keys), 65536, U32 - 1]), 0
        if c < 0.15:
            k = r.choice(list(keys)) if keys else self.key()
            return k * CH, (k + 1) * CH
        if c < 0.25:
            k = r.choice(list(keys)) if keys else self.key()
            n = r.choice([2, 3])
            return k * CH + self.lowval(), min(U32, (k + n) * CH + r.choice([0, 1, -1, self.lowval()]))
        if c < 0.3:
            return self.val_near(keys), U32
        a, b = self.val_near(keys), self.val_near(keys)
        if c < 0.9 and a > b:
            a, b = b, a
        if c < 0.6:
            b = min(U32, a + r.choice([1, 2, 10, 100, 4096, 5000, 65536]))
        return a, b

    def hist_step(self, x, keys, force=None):
        r = self.r
        op = force or r.choices(["add", "cadd", "addint", "addmany", "rem", "crem", "addr", "remr", "flip", "clear", "opt",
                        "cloneswap", "detach", "setcow", "query", "walk4096", "fillempty", "emptyedge", "trimruns", "addmanyrun"],
                       [10, 8, 2, 4, 8, 8, 8, 8, 8, 0.3, 2, 2, 1, 1, 6, 2.5, 1, 2.5, 1.2, 0.8])[0]
        self.count("histop:" + op)
        if op in ("add", "cadd", "addint", "rem", "crem"):
            self.emit("%s %s %d" % (op, x, self.val_near(keys)))
        elif op == "addmany" and r.random() < 0.3:
            k = r.choice(list(keys)) if keys else self.key()
            self.emit("addmanyfrom %s %d %d %d" % (x, k * CH if r.random() < 0.7 else self.val_near(keys), r.choice([1, 3, 10, 40]), r.choice([1, 2, 3, 257, 1543])))
            self.count("histop:addmanyfrom")
        elif op == "addmany":
            n = r.choice([1, 2, 5, 30])
            if r.random() < 0.5:
                k = r.choice(list(keys)) if keys else self.key()
                vals = [k * CH + self.lowval() for _ in range(n)]   # same-chunk fast path
            else:
                vals = [self.val_near(keys) for _ in range(n)]
            self.emit("addmany %s %s" % (x, " ".join(map(str, vals))))
        elif op in ("addr", "remr", "flip"):
            a, b = self.rng(keys)
            self.emit("%s %s %d %d" % (op, x, a, b))
        elif op == "clear":
            self.emit("clear %s" % x)
        elif op == "opt":
            self.emit("opt %s" % x)
        elif op == "cloneswap":
            y = self.fresh()
            how = r.choice(["clone", "cowclone", "cowclone"])
            self.emit("%s %s %s" % (how, y, x))
            if hasattr(self, "shadows"):
                self.shadows.append(y)
            c = r.random()
            if how == "cowclone" and c < 0.5:
                # containers are shared now; switching copy-on-write off on either side is content-neutral, and the next
                # write on that side must still leave the other side alone
                side, other = (x, y) if r.random() < 0.5 else (y, x)
                self.emit("setcow %s 0" % side)
                self.count("histop:cow-switched-off-while-shared")
                for _ in range(3):
                    op2 = r.choice(["add", "rem", "crem", "cadd", "addr", "remr", "flip"])
                    if op2 in ("addr", "remr", "flip"):
                        a, b = self.rng(keys)
                        self.emit("%s %s %d %d" % (op2, side, a, b))
                    else:
                        self.emit("%s %s %d" % (op2, side, self.val_near(keys)))
                    self.emit("dig %s" % other)
                if side == y:
                    self.emit("dig %s" % x)
            elif how == "cowclone" and c < 0.75:
                # RunOptimize (content-neutral) on one side while the containers are shared, then an in-place union with a sparse
                # bitmap on that side: the other side keeps its content AND its size
                side, other = (x, y) if r.random() < 0.5 else (y, x)
                z = self.fresh()
                self.emit("opt %s" % side)
                k = r.choice(list(keys)) if keys else 0
                self.emit("of %s %s" % (z, " ".join(str(k * CH + v) for v in sorted(r.sample(range(CH), r.choice([5, 300, 900]))))))
                self.emit("ior %s %s" % (side, z))
                self.emit("dig %s" % other)
                self.emit("size %s" % other)
                self.emit("wf %s" % other)
                self.count("histop:cow-opt-ior")
            else:
                self.emit("add %s %d" % (y, self.val_near(keys)))
                self.emit("dig %s" % x)
        elif op == "detach":
            self.emit("detach %s" % x)
        elif op == "setcow":
            self.emit("setcow %s %d" % (x, r.randrange(2)))
        elif op == "query":
            self.emit(r.choice(["card %s", "empty %s", "wf %s", "size %s"]) % x)
        elif op == "walk4096":
            # walk one chunk across the 4095/4096/4097 array<->bitmap threshold, with every point mutator,
            # starting from an ARRAY chunk (scattered values) or from a RUN chunk (one range)
            k = r.choice(list(keys)) if keys else 0
            base = k * CH
            self.emit("remr %s %d %d" % (x, base, base + CH))
            n0 = r.choice([4094, 4095, 4096])
            if r.random() < 0.7:
                off = r.randrange(0, 50)
                self.emit("addmany %s %s" % (x, " ".join(str(base + off + 2 * i) for i in range(n0))))   # array chunk
                fresh_vals = [base + off + 2 * i + 1 for i in r.sample(range(n0), 4)]
                old_vals = [base + off + 2 * i for i in r.sample(range(n0), 4)]
                self.count("walk4096:array")
            else:
                self.emit("addr %s %d %d" % (x, base + 10, base + 10 + n0))                                  # run chunk
                fresh_vals = [base + 9000, base + 9002, base + 9004, base + 9]
                old_vals = [base + 10, base + 20, base + 10 + n0 - 1, base + 4000]
                self.count("walk4096:run")
            up = r.choice(["cadd", "add", "addint", "mixed", "addmany"])
            if up == "addmany":
                self.emit("addmany %s %s" % (x, " ".join(map(str, fresh_vals))))
            else:
                for v in fresh_vals:
                    self.emit("%s %s %d" % (r.choice(["cadd", "add", "addint"]) if up == "mixed" else up, x, v))
            self.emit("card %s" % x)
            self.emit("wf %s" % x)
            down = r.choice(["crem", "rem", "mixed"])
            for v in fresh_vals[:2] + old_vals:
                self.emit("%s %s %d" % (r.choice(["crem", "rem"]) if down == "mixed" else down, x, v))
            self.emit("card %s" % x)
            self.emit("wf %s" % x)
        elif op == "emptyedge":
            # empty a chunk through the PARTIAL first / last chunk path of a multi-chunk range operation:
            # the chunk's content [a,b) is known, the range starts (ends) strictly inside the chunk and covers all of it
            k = r.choice([q for q in keys if 0 < q < 65535] or [5])
            base = k * CH
            a = r.choice([1, 7, 100, 4096, 60000])
            b = min(CH - 1, a + r.choice([1, 2, 50, 5000]))
            self.emit("remr %s %d %d" % (x, base, base + CH))
            if r.random() < 0.5:
                self.emit("addr %s %d %d" % (x, base + a, base + b))
            else:
                self.emit("addmany %s %s" % (x, " ".join(str(base + v) for v in sorted(set([a, b - 1] + [r.randrange(a, b) for _ in range(5)])))))
            if r.random() < 0.4:
                self.emit("opt %s" % x)
            side = r.choice(["last", "last", "first"])
            mut = r.choice(["remr", "remr", "flip"])
            if side == "last":
                s0 = (k - 1) * CH + r.choice([0, 1, 30000, 65535]) - r.choice([0, 0, CH])
                e0 = base + b + r.choice([0, 0, 1, 10])
            else:
                s0 = base + r.choice([a, a, max(1, a - 1), 1])
                e0 = (k + 1) * CH + r.choice([1, 5, 65535, CH, CH + 7])
            s0 = max(0, s0)
            e0 = min(U32, e0)
            if mut == "flip":
                # make the rest of the flipped range present first so that flipping removes it as well
                self.emit("addr %s %d %d" % (x, s0, base + a))
                if side == "first":
                    self.emit("addr %s %d %d" % (x, base + b, e0))
            self.emit("%s %s %d %d" % (mut, x, s0, e0))
            self.emit("wf %s" % x)
            self.emit("card %s" % x)
            self.emit("empty %s" % x)
            self.count("emptyedge:%s:%s" % (side, mut))
        elif op == "addmanyrun":
            # one batch of AddMany whose LAST group of values lands, scattered, in a chunk that is a run container
            k = r.choice(list(keys)) if keys else 0
            base = k * CH
            self.emit("remr %s %d %d" % (x, base, base + CH))
            a = r.randrange(0, 60000)
            self.emit("addr %s %d %d" % (x, base + a, base + a + r.choice([20, 100])))
            other = [((k + 1) % 65536) * CH + r.randrange(CH)] if r.random() < 0.5 and k < 65535 else []
            vals = other + [base + v for v in sorted(r.sample(range(CH), r.choice([300, 400, 700])))]
            self.emit("addmany %s %s" % (x, " ".join(map(str, vals))))
        elif op == "trimruns":
            # a run chunk (>= 3 runs) whose runs are trimmed one value at a time from their ends, never re-optimised:
            # the chunk must stop being a run container when runs no longer pay (size bound, Validate)
            k = r.choice(list(keys)) if keys else 0
            base = k * CH
            self.emit("remr %s %d %d" % (x, base, base + CH))
            nr = r.choice([3, 5, 40])
            ln = r.choice([4, 10])
            starts = [100 + i * (ln + r.choice([3, 7])) for i in range(nr)]
            for st_ in starts:
                self.emit("addr %s %d %d" % (x, base + st_, base + st_ + ln))
            self.emit("opt %s" % x)
            for step in range(ln - 1):
                for st_ in starts:
                    v = base + st_ + (step // 2 if step % 2 == 0 else ln - 1 - step // 2)
                    self.emit("%s %s %d" % (r.choice(["rem", "crem"]), x, v))
                if step in (ln // 2, ln - 2):
                    self.emit("size %s" % x)
                    self.emit("wf %s" % x)
            self.count("trimruns")
        elif op == "fillempty":
            k = r.choice(list(keys)) if keys else 0
            base = k * CH
            self.emit("addr %s %d %d" % (x, base, base + CH - 1))
            self.emit("cadd %s %d" % (x, base + CH - 1))
            self.emit("wf %s" % x)
            self.emit("crem %s %d" % (x, base + self.lowval()))
            self.emit("remr %s %d %d" % (x, base, base + CH))
            self.emit("wf %s" % x)

    def pair(self):
        """two operands with a random key alignment class"""
        r = self.r
        a, b = self.fresh(), self.fresh()
        ka = self.keyset()
        c = r.choice(["same", "subset", "interleave", "disjoint", "overlap", "trailing"])
        if c == "same":
            kb = list(ka)
        elif c == "subset":
            kb = [k for k in ka if r.random() < 0.6] or ka[:1]
        elif c == "interleave":
            kb = sorted(set(min(65535, k + 1) for k in ka))
        elif c == "disjoint":
            kb = sorted(set(k ^ 0x4000 for k in ka))
        elif c == "trailing":
            kb = list(ka) + [min(65535, max(ka) + i) for i in range(1, 4)]
            kb = sorted(set(kb))
        else:
            kb = sorted(set(list(ka)[: len(ka) // 2 + 1] + self.keyset()))
        self.count("align:" + c)
        self.build(a, ka)
        self.build(b, kb)
        return a, b, set(ka) | set(kb)

    def alg_fixed_halves_and_combs(self):
        """deterministic algebra cases: (a) two DISJOINT chunks of 32767 / 32768 / 32769 values each (evens-odds, lower-upper half, a
        scattered half and its complement), as built, run-optimised and mixed — every form and every shortcut; (b) 'combs' of ~1500
        intervals that meet another comb only at end points (results made of thousands of isolated values), a long interval minus a
        comb that leaves single values, and their sizes"""
        k = 11 * CH
        shapes = []
        for name, a_lines, b_lines in (
                ("even-odd", ["addstride %%s %d 2 32768" % k], ["addstride %%s %d 2 32768" % (k + 1)]),
                ("low-high", ["addstride %%s %d 1 32768" % k], ["addstride %%s %d 1 32768" % (k + 32768)]),
                ("scatter", ["addstride %%s %d 4 16384" % k, "addstride %%s %d 4 16384" % (k + 1)],
                            ["addstride %%s %d 4 16384" % (k + 2), "addstride %%s %d 4 16384" % (k + 3)])):
            for da, db in ((0, 0), (-1, 0), (0, 1), (1, 1)):
                a, b = self.fresh("hv"), self.fresh("hv")
                for nm, lines, d in ((a, a_lines, da), (b, b_lines, db)):
                    self.emit("new %s" % nm)
                    for l in lines:
                        self.emit(l % nm)
                    if d == -1:
                        self.emit("rem %s %d" % (nm, self_first(lines)))
                if da == 1:
                    self.emit("add %s %d" % (a, k + 65535 if name != "low-high" else k + 40000))   # one value of b's territory
                for opt in ((), (a,), (a, b)):
                    for o in opt[-1:]:
                        self.emit("opt %s" % o)
                    for q in ("isect", "andcard", "orcard"):
                        self.emit("%s %s %s" % (q, a, b))
                        self.emit("%s %s %s" % (q, b, a))
                    z = self.fresh("hv")
                    self.emit("and %s %s %s" % (z, a, b))
                    self.emit("xor %s %s %s" % (self.fresh("hv"), a, b))
                    z = self.fresh("hv")
                    self.emit("clone %s %s" % (z, a))
                    self.emit("iand %s %s" % (z, b))
                self.count("alg:fixed-halves:" + name)
        # (b)
        base = 13 * CH
        a, b, c, d = (self.fresh("cb") for _ in range(4))
        for nm, off in ((a, 0), (b, 20)):
            self.emit("new %s" % nm)
            for j in range(21):
                self.emit("addstride %s %d 40 1500" % (nm, base + off + j))
            self.emit("opt %s" % nm)
        self.emit("new %s" % c)
        self.emit("addr %s %d %d" % (c, base, base + 65536))
        self.emit("new %s" % d)
        for j in range(1, 31):
            self.emit("addstride %s %d 31 2055" % (d, base + j))
        self.emit("opt %s" % d)
        for x, y in ((a, b), (b, a)):
            z = self.fresh("cb")
            self.emit("and %s %s %s" % (z, x, y)); self.emit("wf %s" % z); self.emit("size %s" % z)
            z = self.fresh("cb")
            self.emit("clone %s %s" % (z, x)); self.emit("iand %s %s" % (z, y)); self.emit("wf %s" % z); self.emit("size %s" % z)
            self.emit("fastand %s %s %s" % (self.fresh("cb"), x, y))
            z = self.fresh("cb")
            self.emit("xor %s %s %s" % (z, x, y)); self.emit("wf %s" % z); self.emit("size %s" % z)
        for form in ("andnot", "iandnot"):
            z = self.fresh("cb")
            if form == "andnot":
                self.emit("andnot %s %s %s" % (z, c, d))
            else:
                self.emit("clone %s %s" % (z, c)); self.emit("iandnot %s %s" % (z, d))
            self.emit("wf %s" % z); self.emit("size %s" % z)
            self.emit("opt %s" % z); self.emit("size %s" % z)
        self.count("alg:fixed-combs")
        # (c) a RUN receiver minus an ARRAY argument that punches 2040…2100 isolated holes into its runs (the difference has about as
        #     many runs as a run container may keep: it comes out as a run, an array or a bitmap container depending on the count),
        #     both forms, then cardinality, size, validity and a second difference on the result
        base = 17 * CH
        for holes in (2040, 2047, 2048, 2049, 2100, 4096):
            for span in (9000, 65536):
                if holes * 2 + 2 > span:
                    continue
                x, y = self.fresh("rh"), self.fresh("rh")
                self.emit("new %s" % x); self.emit("addr %s %d %d" % (x, base, base + span)); self.emit("opt %s" % x)
                self.emit("new %s" % y); self.emit("addstride %s %d 2 %d" % (y, base + 1, holes))
                z = self.fresh("rh")
                self.emit("andnot %s %s %s" % (z, x, y)); self.emit("card %s" % z); self.emit("wf %s" % z); self.emit("size %s" % z)
                self.emit("iandnot %s %s" % (x, y)); self.emit("card %s" % x); self.emit("wf %s" % x); self.emit("size %s" % x)
                self.emit("eq %s %s" % (x, z))
                self.emit("iandnot %s %s" % (x, y)); self.emit("card %s" % x)
                self.emit("rem %s %d" % (x, base)); self.emit("card %s" % x); self.emit("wf %s" % x)
            self.count("alg:fixed-run-minus-array-holes")

    def alg_inplace_key_grid(self):
        """EXHAUSTIVE small key layouts for the in-place drivers (their merge loops over the two key arrays, the bulk tails, dropped
        empty results): every key of 0..3 is absent / receiver-only / argument-only / in both with EQUAL chunks (xor and andnot cancel
        them, and keeps them) / in both with different chunks — 5^4 layouts for `ixor` and `ior`, 5^3 for `iand` and `iandnot`"""
        import itertools
        for ops, nk in ((("ixor", "ior"), 4), (("iand", "iandnot"), 3)):
            for lay in itertools.product(range(5), repeat=nk):
                rs, as_ = [], []
                for k, c in enumerate(lay):
                    kk = 7 + 2 * k
                    if c in (1, 3, 4):
                        rs.append("%d:A:1,2" % kk)
                    if c == 2:
                        as_.append("%d:A:2,3" % kk)
                    elif c == 3:
                        as_.append("%d:A:1,2" % kk)
                    elif c == 4:
                        as_.append("%d:A:2,3" % kk)
                for op in ops:
                    x, y = self.fresh("kg"), self.fresh("kg")
                    self.emit(("mkrepr %s cow=0;%s" % (x, ";".join(rs))).rstrip(";") if rs else "new %s" % x)
                    self.emit(("mkrepr %s cow=0;%s" % (y, ";".join(as_))).rstrip(";") if as_ else "new %s" % y)
                    self.emit("%s %s %s" % (op, x, y))
            self.count("alg:inplace-key-grid:%d" % nk)

    def suite_alg(self, npairs):
        """C01: every binary op, both forms, shortcuts, self-ops; operands unchanged"""
        r = self.r
        # the same object on both sides, for empty, emptied and non-empty bitmaps: every read-only shortcut and every form
        e0, e1, e2 = self.fresh(), self.fresh(), self.fresh()
        self.emit("new %s" % e0)
        self.build(e1)
        self.emit("iandnot %s %s" % (e1, e1))
        self.build(e2)
        for x in (e0, e1, e2):
            for q in ("isect", "andcard", "orcard", "eq"):
                self.emit("%s %s %s" % (q, x, x))
            for op in ("and", "or", "xor", "andnot"):
                self.emit("%s %s %s %s" % (op, self.fresh(), x, x))
            self.count("alg:selfops")
        for x in (e0, e1):
            self.emit("isect %s %s" % (x, e2))
            self.emit("isect %s %s" % (e2, x))
            self.emit("isect %s %s" % (e0, e1))
        self.alg_fixed_halves_and_combs()
        self.alg_inplace_key_grid()
        # operands that TOUCH: the smallest value of one chunk is the largest value of the other's; the receiver grown by single
        # insertions (its slice has spare capacity), a clone of it (exact capacity) and an edited one
        # in-place Xor whose merge first meets an argument-only key BEFORE a receiver key (or a cancelling pair) and LATER, at a higher
        # key, a pair of equal chunks that cancels: keys, containers and flags must stay in step
        for variant in range(3):
            x, y = self.fresh(), self.fresh()
            ks = sorted(r.sample(range(2, 60000), 4))
            same = "%d:A:1,2,3,70" % ks[3]
            xs = ["%d:A:5,9" % ks[1], "%d:R:10+300" % ks[2], same]
            yarg = ["%d:A:4" % ks[0], "%d:A:8" % ks[2], same] if variant == 0 else \
                   ["%d:A:5,9" % ks[1], "%d:R:10+300" % ks[2], same] if variant == 1 else ["%d:A:4" % ks[0], same, "%d:A:1" % (ks[3] + 1)]
            self.emit("mkrepr %s cow=%d;%s" % (x, r.randrange(2), ";".join(xs)))
            self.emit("mkrepr %s cow=0;%s" % (y, ";".join(yarg)))
            self.emit("ixor %s %s" % (x, y))
            self.emit("wf %s" % x)
            self.emit("add %s %d" % (x, ks[1] * CH + 77))
            c = self.fresh()
            self.emit("clone %s %s" % (c, x))
            self.emit("wf %s" % c)
            self.count("alg:ixor-cancel-after-insert")
        # a run operand built by ascending range insertions (its interval slice has spare capacity), united with several operands
        # whose runs all lie beyond its last run: EARLIER results are looked at again after the later calls
        for k in (self.key(), self.key()):
            base = k * CH
            x = self.fresh()
            self.emit("new %s" % x)
            for j in range(r.choice([3, 5])):
                self.emit("addr %s %d %d" % (x, base + 1000 * j + 10, base + 1000 * j + 200))
            ys, zs = [], []
            for j in range(3):
                y = self.fresh()
                self.emit("new %s" % y)
                for t in range(r.choice([1, 2, 3])):
                    self.emit("addr %s %d %d" % (y, base + 20000 + 5000 * j + 700 * t, base + 20000 + 5000 * j + 700 * t + 150 + j))
                ys.append(y)
            for y in ys:
                z = self.fresh()
                self.emit("or %s %s %s" % (z, x, y))
                zs.append(z)
            self.emit("orcard %s %s" % (x, ys[0]))
            c = self.fresh()
            self.emit("cowclone %s %s" % (c, x))
            self.emit("ior %s %s" % (c, ys[1]))
            for z in zs:
                self.emit("dig %s" % z)
            self.emit("dig %s" % x)
            self.count("alg:spare-capacity-runs")
        for n1, n2 in [(3, 1), (50, 4), (100, 20), (600, 300)]:
            k = self.key()
            base = k * CH
            lo = sorted(r.sample(range(0, 30000), n1))
            hi = sorted(r.sample(range(lo[-1] + 1, 65536), n2))
            for op in ("ior", "ixor", "iand", "iandnot"):
                x, y, c = self.fresh(), self.fresh(), self.fresh()
                self.emit("new %s" % x)
                for v in lo[:-1]:
                    self.emit("add %s %d" % (x, base + v)) if len(lo) <= 60 else None
                if len(lo) > 60:
                    for i in range(0, len(lo) - 1, 7):
                        self.emit("addmany %s %s" % (x, " ".join(str(base + v) for v in lo[i:min(len(lo) - 1, i + 7)])))
                self.emit("add %s %d" % (x, base + lo[-1]))
                self.emit("of %s %s" % (y, " ".join(str(base + v) for v in [lo[-1]] + hi)))
                self.emit("clone %s %s" % (c, x))
                self.emit("%s %s %s" % (op, x, y))
                self.emit("card %s" % x)
                self.emit("%s %s %s" % (op, c, y))
                e = self.fresh()
                self.emit("clone %s %s" % (e, y))
                self.emit("%s %s %s" % (op, e, c))
                self.count("alg:touching")
        for _ in range(npairs):
            a, b, keys = self.pair()
            for op in ("and", "or", "xor", "andnot"):
                y = self.fresh()
                self.emit("%s %s %s %s" % (op, y, a, b))
                if r.random() < 0.3:
                    self.emit("wf %s" % y)
                    self.emit("size %s" % y)
                y = self.fresh()
                self.emit("%s %s %s %s" % (op, y, b, a))
            self.emit("andcard %s %s" % (a, b))
            self.emit("orcard %s %s" % (a, b))
            self.emit("isect %s %s" % (a, b))
            self.emit("eq %s %s" % (a, b))
            # in-place forms on clones
            for op in ("iand", "ior", "ixor", "iandnot"):
                c = self.fresh()
                self.emit("%s %s %s" % (r.choice(["clone", "clone", "cowclone"]), c, a))
                self.emit("%s %s %s" % (op, c, b))
                self.emit("wf %s" % c)
                if r.random() < 0.3:
                    self.emit("size %s" % c)
                self.emit("dig %s" % a)
                c = self.fresh()
                self.emit("clone %s %s" % (c, b))
                self.emit("%s %s %s" % (op, c, a))
            # self operations
            c = self.fresh()
            self.emit("clone %s %s" % (c, a))
            op = r.choice(["iand", "ior", "ixor", "iandnot"])
            self.emit("%s %s %s" % (op, c, c))
            y = self.fresh()
            self.emit("%s %s %s %s" % (r.choice(["and", "or", "xor", "andnot"]), y, a, a))
            self.emit("andcard %s %s" % (a, a))
            self.emit("orcard %s %s" % (b, b))
            self.emit("isect %s %s" % (b, b))

    def qargs(self, keys):
        return self.val_near(keys)

    def suite_query(self, nb, nq):
        """C03 scalar queries"""
        r = self.r
        for _ in range(nb):
            x = self.fresh()
            keys = set(self.build(x))
            self.emit("card %s" % x)
            self.emit("empty %s" % x)
            self.emit("min %s" % x)
            self.emit("max %s" % x)
            self.emit("toarr %s" % x)
            self.emit("chkeq %s" % x)
            self.emit("l2cksum %s" % x)
            for _ in range(nq):
                q = r.choice(["has", "rank", "sel", "cir", "iwi"])
                if q in ("has", "rank"):
                    self.emit("%s %s %d" % (q, x, self.qargs(keys)))
                elif q == "sel":
                    self.emit("sel %s %d" % (x, r.choice([0, 1, 2, 4095, 4096, 65535, 65536, r.randrange(1 << 20), r.randrange(U32)])))
                else:
                    a, b = self.rng(keys)
                    self.emit("%s %s %d %d" % (q, x, a, b))
            self.emit("dig %s" % x)      # queries never modify
            y = self.fresh()
            self.emit("clone %s %s" % (y, x))
            self.emit("eq %s %s" % (x, y))
            self.emit("opt %s" % y)
            self.emit("eq %s %s" % (x, y))
            self.emit("l2cksum %s" % y)
            self.emit("add %s %d" % (y, self.val_near(keys)))
            self.emit("eq %s %s" % (x, y))
        # Equals between the SAME set reached through different histories: consecutive ranges united in place / statically / in the
        # other order / built directly / shifted across a chunk edge — in both operand orders of Equals
        for k in (0, 9):
            base = k * CH
            a, b, c = self.fresh("eqh"), self.fresh("eqh"), self.fresh("eqh")
            self.emit("new %s" % a); self.emit("addr %s %d %d" % (a, base + 100, base + 4465)); self.emit("opt %s" % a)
            self.emit("new %s" % b); self.emit("addr %s %d %d" % (b, base + 4465, base + 9000)); self.emit("addr %s %d %d" % (b, base + 20000, base + 20010)); self.emit("opt %s" % b)
            self.emit("new %s" % c); self.emit("addr %s %d %d" % (c, base + 100, base + 9000)); self.emit("addr %s %d %d" % (c, base + 20000, base + 20010)); self.emit("opt %s" % c)
            forms = []
            z = self.fresh("eqh"); self.emit("clone %s %s" % (z, a)); self.emit("ior %s %s" % (z, b)); forms.append(z)
            z = self.fresh("eqh"); self.emit("clone %s %s" % (z, b)); self.emit("ior %s %s" % (z, a)); forms.append(z)
            z = self.fresh("eqh"); self.emit("or %s %s %s" % (z, a, b)); forms.append(z)
            z = self.fresh("eqh"); self.emit("or %s %s %s" % (z, b, a)); forms.append(z)
            z0 = self.fresh("eqh"); self.emit("off %s %s %d" % (z0, c, -4465 - 100)); z = self.fresh("eqh"); self.emit("off %s %s %d" % (z, z0, 4465 + 100)); forms.append(z)
            for z in forms:
                self.emit("eq %s %s" % (z, c)); self.emit("eq %s %s" % (c, z))
                self.emit("l2cksum %s" % z)
            for i in range(len(forms) - 1):
                self.emit("eq %s %s" % (forms[i], forms[i + 1]))
            self.count("query:fixed-equals-across-histories")
        # range queries whose START lies in an unpopulated chunk and whose END chunk is the first populated one / has populated
        # chunks in between, with every order of the low 16 bits of start, end and the stored values
        for kind in ("A", "R", "B"):
            x = self.fresh("cq")
            self.emit("new %s" % x)
            for k in (3, 9, 12, 13):
                base = k * CH
                if kind == "A":
                    self.emit("of %s %s" % (x, " ".join(str(base + v) for v in (5, 17, 300, 40000, 65535))))
                elif kind == "R":
                    self.emit("addr %s %d %d" % (x, base + 5, base + 18)); self.emit("addr %s %d %d" % (x, base + 40000, base + 65536)); self.emit("opt %s" % x)
                else:
                    self.emit("addstride %s %d 3 9000" % (x, base + 5))
            for s0, e0 in ((0x12, 0x30012), (8 * CH + 65531, 9 * CH + 6), (1 * CH + 300, 3 * CH + 18), (2 * CH + 65535, 3 * CH + 6), (5 * CH + 17, 9 * CH + 65536),
                           (4 * CH + 40001, 12 * CH + 400), (10 * CH + 6, 12 * CH + 6), (10 * CH + 6, 13 * CH + 5), (0, 3 * CH + 18), (11 * CH, 12 * CH + 17),
                           (3 * CH + 6, 9 * CH + 6), (14 * CH + 1, 20 * CH), (13 * CH + 65535, 14 * CH + 9), (3 * CH + 17, 3 * CH + 18)):
                self.emit("cir %s %d %d" % (x, s0, e0))
                self.emit("iwi %s %d %d" % (x, s0, e0))
            self.count("query:fixed-range-start-in-gap")
        # checksum on fixed shapes: every kind, a full chunk in run and in bitmap form, top key, values with high bytes set
        for spec in ("cow=0;0:A:1,5,9;3:R:10+99;7:A:65535", "cow=1;65535:R:0+65535", "cow=0;2:B:65536:ffffffffffffffff*1024",
                     "cow=0;258:A:256,257,65280;513:R:256+255,65024+511", "cow=0;1:B:32768:aaaaaaaaaaaaaaaa*1024;2:B:32768:5555555555555555*1024"):
            x = self.fresh("ck")
            self.emit("mkrepr %s %s" % (x, spec))
            self.emit("l2cksum %s" % x)
            self.emit("dig %s" % x)
        self.emit("new e0")
        self.emit("l2cksum e0")
        for q in ("card e0", "empty e0", "min e0", "max e0", "sel e0 0", "rank e0 5", "cir e0 0 4294967296", "iwi e0 0 4294967296", "toarr e0"):
            self.emit(q)

    def suite_nbr(self, nb, nq):
        """C15 neighbour queries"""
        r = self.r
        for _ in range(nb):
            x = self.fresh()
            c = r.random()
            if c < 0.3:
                # adjacent full chunks / chunks full to an edge
                self.emit("new %s" % x)
                k = r.choice([0, 1, 5, 65533])
                self.emit("addr %s %d %d" % (x, k * CH + r.choice([0, 0, 1, 100]), (k + 2) * CH + r.choice([0, 0, 5, -1])))
                if r.random() < 0.5:
                    self.emit("addr %s %d %d" % (x, (k + 2) * CH + 100, (k + 3) * CH))
                keys = {k, k + 1, k + 2}
                if r.random() < 0.5:
                    self.emit("opt %s" % x)
                self.count("nbr:fullchunks")
            else:
                keys = set(self.build(x))
            for _ in range(nq):
                t = self.val_near(keys)
                self.emit("%s %s %d" % (r.choice(["nv", "pv", "nav", "pav"]), x, t))
        self.nbr_fixed_episodes()
        self.emit("new e1")
        for q in ("nv e1 0", "pv e1 5", "nav e1 0", "pav e1 4294967295", "nav e1 4294967295"):
            self.emit(q)
        self.emit("addr e1 0 4294967296")
        for q in ("nv e1 0", "pv e1 5", "nav e1 0", "pav e1 4294967295", "nav e1 4294967295", "pav e1 0"):
            self.emit(q)

    def nbr_fixed_episodes(self):
        """deterministic neighbour-query cases: long solid / hollow stretches of a BITMAP chunk probed at every word distance,
        and walks across completely full chunks in each of the three stored forms"""
        r = self.r
        # (a) bitmap chunk (evens elsewhere keep it a bitmap container) with a solid stretch and a hollow stretch
        for k, lo, hi in ((7, 12810, 14000), (0, 3, 1500), (65535, 64000, 65536), (9, 0, 1100)):
            x = self.fresh("nb")
            self.emit("new %s" % x)
            self.emit("addstride %s %d 2 %d" % (x, k * CH + 20000, 15000))       # 15000 scattered values: bitmap container
            self.emit("addr %s %d %d" % (x, k * CH + lo, k * CH + hi))
            self.emit("remr %s %d %d" % (x, k * CH + 50000, k * CH + 51300))     # hollow stretch inside the evens
            if k == 9:
                self.emit("addr %s %d %d" % (x, 8 * CH + 65000, 9 * CH))
            for base, n in ((lo, hi - lo), (50000, 1300)):
                for t in range(base - 2, base + n + 66, 64):
                    for d in (0, 1, 63):
                        v = k * CH + t + d
                        if 0 <= v < U32:
                            for q in ("pav", "nav", "pv", "nv"):
                                self.emit("%s %s %d" % (q, x, v))
            self.count("nbr:fixed-word-distances")
        # (a2) MANY chunks (the key search gallops and bisects) with every target chunk absent, in a gap between existing keys: keys
        #      2, 5, 8, ... (70 of them), each holding the same four values; targets in the gaps with every order of the low bits
        x = self.fresh("nb")
        self.emit("new %s" % x)
        for v in (5, 300, 40000, 65535):
            self.emit("addstride %s %d %d 70" % (x, 2 * CH + v, 3 * CH))
        for j in range(0, 70):
            for k in (3 * j + 3, 3 * j + 4):          # the two absent keys after key 3j+2
                for low in (6, 299, 65535):
                    t = k * CH + low
                    for q in ("nv", "pv"):
                        self.emit("%s %s %d" % (q, x, t))
        for t in (0, CH, 2 * CH + 4, 2 * CH + 6, 209 * CH + 65535, 212 * CH, U32 - 1):
            for q in ("nv", "pv", "nav", "pav"):
                self.emit("%s %s %d" % (q, x, t))
        self.count("nbr:fixed-many-chunks-gaps")
        # (a3) run chunks with 16+ runs whose top is a comb of isolated single values (…, 65531, 65533, 65535) / (…, 65530, 65532, 65534)
        for top in (65535, 65534):
            for k in (0, 6, 65535):
                x = self.fresh("nb")
                self.emit("new %s" % x)
                for j in range(20):
                    self.emit("addr %s %d %d" % (x, k * CH + 1000 * j, k * CH + 1000 * j + 17 + j))
                self.emit("addstride %s %d 2 40" % (x, k * CH + top - 78))
                self.emit("opt %s" % x)
                for t in range(top - 84, top + 1):
                    for q in ("nv", "pv", "nav", "pav"):
                        self.emit("%s %s %d" % (q, x, k * CH + t))
                self.count("nbr:fixed-run-comb-top")
        # (a4) neighbour queries on RESULTS: unions of run chunks whose runs touch end to start (every form and order), and a range
        #      removal that takes everything the first chunk of the range holds
        for k, ytail in ((3, False), (65535, True), (9, False)):
            xr, yr = self.fresh("nb"), self.fresh("nb")
            self.emit("new %s" % xr); self.emit("addr %s %d %d" % (xr, k * CH, k * CH + 300)); self.emit("addr %s %d %d" % (xr, k * CH + 600, k * CH + 900))
            if k == 9:
                self.emit("addr %s %d %d" % (xr, k * CH + 2600, k * CH + 2700))
            self.emit("opt %s" % xr)
            self.emit("new %s" % yr); self.emit("addr %s %d %d" % (yr, k * CH + 250, k * CH + 600))
            if ytail or k == 9:
                self.emit("addr %s %d %d" % (yr, k * CH + 2000, k * CH + 2600))
            self.emit("opt %s" % yr)
            for form in ("or-xy", "or-yx", "ior-x", "ior-y", "fastor-yx", "paror-yx"):
                z = self.fresh("nb")
                if form == "or-xy":
                    self.emit("or %s %s %s" % (z, xr, yr))
                elif form == "or-yx":
                    self.emit("or %s %s %s" % (z, yr, xr))
                elif form == "ior-x":
                    self.emit("clone %s %s" % (z, xr)); self.emit("ior %s %s" % (z, yr))
                elif form == "ior-y":
                    self.emit("clone %s %s" % (z, yr)); self.emit("ior %s %s" % (z, xr))
                elif form == "fastor-yx":
                    self.emit("fastor %s %s %s" % (z, yr, xr))
                else:
                    self.emit("paror %s 2 %s %s" % (z, yr, xr))
                for t in (0, 100, 249, 250, 299, 300, 301, 598, 599, 600, 601, 899, 900, 901, 1999, 2000, 2599, 2600):
                    for q in ("nav", "pav", "nv", "pv"):
                        self.emit("%s %s %d" % (q, z, k * CH + t))
            self.count("nbr:fixed-results-of-touching-run-unions")
        for kind in ("A", "R", "B"):
            x = self.fresh("nb")
            self.emit("new %s" % x)
            self.emit("of %s %d %d" % (x, 2 * CH + 200, 7 * CH + 20))
            if kind == "A":
                self.emit("of %s %d %d %d" % (self.fresh("nb"), 1, 2, 3)); self.emit("addmany %s %d %d %d" % (x, 4 * CH + 500, 4 * CH + 600, 4 * CH + 65535))
            elif kind == "R":
                self.emit("addr %s %d %d" % (x, 4 * CH + 500, 4 * CH + 9000))
            else:
                self.emit("addstride %s %d 3 9000" % (x, 4 * CH + 500))
            self.emit("addr %s %d %d" % (x, 5 * CH, 5 * CH + 10)); self.emit("addr %s %d %d" % (x, 6 * CH + 10, 6 * CH + 20))
            self.emit("remr %s %d %d" % (x, 4 * CH + 400, 6 * CH + 15))      # everything chunk 4 holds lies at or above the range start
            for t in (3 * CH, 4 * CH, 4 * CH + 399, 4 * CH + 700, 5 * CH, 6 * CH + 3, 6 * CH + 14, 6 * CH + 15, 7 * CH):
                for q in ("nv", "pv", "nav", "pav"):
                    self.emit("%s %s %d" % (q, x, t))
            self.emit("wf %s" % x)
            self.count("nbr:fixed-after-range-removal-emptying-first-chunk")
        # (b) a completely full chunk stored as bitmap / run / after in-place xor, between a chunk solid to its upper edge and a
        #     chunk that starts with a solid prefix; also as the last chunk 0xFFFF
        for k in (19, 20, 0xB0C4, 0xFFFD, 0xFFFE):
            for how in ("topup", "run", "ixor", "dense"):
                x = self.fresh("nb")
                self.emit("new %s" % x)
                self.emit("addr %s %d %d" % (x, k * CH + 51234, (k + 1) * CH))
                f = (k + 1) * CH
                if how == "topup":
                    self.emit("addstride %s %d 2 32768" % (x, f))
                    self.emit("addr %s %d %d" % (x, f, f + CH))
                elif how == "run":
                    self.emit("addr %s %d %d" % (x, f, f + CH))
                elif how == "ixor":
                    y = self.fresh("nb")
                    self.emit("new %s" % y)
                    self.emit("addstride %s %d 2 32768" % (x, f))
                    self.emit("addstride %s %d 2 32768" % (y, f + 1))
                    self.emit("ixor %s %s" % (x, y))
                else:
                    self.emit("addstride %s %d 2 32768" % (x, f))
                    self.emit("addstride %s %d 2 32768" % (x, f + 1))
                if k + 2 <= 0xFFFF:
                    self.emit("addr %s %d %d" % (x, f + CH, f + CH + 321))
                    self.emit("addstride %s %d 7 50" % (x, f + CH + 1000))
                for t in (k * CH + 51234, k * CH + 65535, f, f + 1, f + 65535, k * CH + 51233, k * CH + 60000):
                    if t < U32:
                        self.emit("nav %s %d" % (x, t))
                        self.emit("pav %s %d" % (x, min(U32 - 1, t + CH)))
                        self.emit("nv %s %d" % (x, t))
                self.count("nbr:fixed-full-chunk-" + how)

    def suite_xform(self, nb):
        """C16: AddOffset / static Flip"""
        r = self.r
        for _ in range(nb):
            x = self.fresh()
            keys = set(self.build(x))
            for _ in range(4):
                c = r.random()
                if c < 0.3:
                    d = r.choice([1, -1]) * CH * r.choice([0, 1, 2, 65535, 65536, r.randrange(65536)])
                elif c < 0.6:
                    d = r.choice([1, -1]) * r.choice([1, 63, 64, 65, 1000, 65535, 65537, 4294967295, 4294967296, 4294967297])
                else:
                    d = r.randrange(-U32 - 5, U32 + 5)
                y = self.fresh()
                self.emit("off %s %s %d" % (y, x, d))
                self.emit("wf %s" % y)
                if 0 <= d < U32 and r.random() < 0.5:
                    self.emit("off32 %s %s %d" % (self.fresh(), x, d))
            for _ in range(3):
                a, b = self.rng(keys)
                y = self.fresh()
                self.emit("sflip %s %s %d %d" % (y, x, a, b))
                z = self.fresh()
                self.emit("clone %s %s" % (z, x))
                self.emit("flip %s %d %d" % (z, a, b))
                self.emit("eq %s %s" % (y, z))
                self.emit("wf %s" % y)


    def offset_join_episode(self):
        """two consecutive chunks whose shifted halves meet under one key as ARRAY parts holding more than 4096 values together"""
        r = self.r
        k = r.choice([0, 5, 40000, 65533])
        x = self.fresh()
        up = sorted(r.sample(range(40000, 65536), 3000))
        lo = sorted(r.sample(range(0, 25000), 3000))
        self.emit("mkrepr %s cow=0;%d:A:%s;%d:A:%s" % (x, k, ",".join(map(str, up)), k + 1, ",".join(map(str, lo))))
        for d in (30000, 35000, -30000, 16384, 65536 + 30000, -(65536 + 31000)):
            y = self.fresh()
            self.emit("off %s %s %d" % (y, x, d))
            self.emit("wf %s" % y)
            self.emit("ser %s" % y)
            self.count("xform:offset-join")

    def sflip_edit_episode(self):
        """static Flip over ranges that cover several whole chunks ABSENT from the operand, then point / range edits of the result
        inside those chunks: each created chunk must be its own container"""
        # static Flip of a range lying INSIDE a block of consecutive present values of an array chunk (members above the range), of a
        # range ending exactly at the block's end, and of ranges with absent values: result, then the OPERAND again
        x = self.fresh("sf")
        self.emit("new %s" % x)
        self.emit("addr %s %d %d" % (x, 1234 * CH + 100, 1234 * CH + 400))
        self.emit("of %s %s" % (self.fresh("sf"), "1"))
        self.emit("addmany %s %d %d %d" % (x, 1234 * CH + 5000, 1234 * CH + 5002, 1234 * CH + 60000))
        self.emit("addmany %s %d %d" % (x, 1235 * CH + 1, 1236 * CH + 2))
        for lo, hi in ((150, 200), (100, 400), (100, 150), (350, 400), (399, 400), (90, 200), (150, 5001), (5000, 5001), (60000, 60001)):
            y = self.fresh("sf")
            self.emit("sflip %s %s %d %d" % (y, x, 1234 * CH + lo, 1234 * CH + hi))
            self.emit("dig %s" % x)
            self.emit("toarr %s" % x)
            self.emit("wf %s" % y)
            self.count("xform:sflip-inside-present-block")
        # AddOffset (32-bit entry point) pushing PART of the bitmap beyond 2^32, and its 64-bit sibling
        x = self.fresh("sf")
        self.emit("of %s %s" % (x, " ".join(map(str, [7, 70000, U32 - 70000, U32 - 3000, U32 - 1]))))
        self.emit("addr %s %d %d" % (x, U32 - 200000, U32 - 190000))
        for d in (1, 2999, 3000, 3001, 69999, 70000, 70001, 190000, 200001, U32 - 8, U32 - 7, U32 - 1):
            self.emit("off32 %s %s %d" % (self.fresh("sf"), x, d))
            self.emit("off %s %s %d" % (self.fresh("sf"), x, d))
        self.emit("dig %s" % x)
        self.count("xform:off32-partly-out-of-range")
        # AddOffset results are bitmaps of their own: a chunk whose shifted values straddle a chunk border is split into two containers;
        # the result is then grown in the LOW part (a value above its maximum, a range, a union) and the HIGH part is looked at again
        for kind, build in (("A", ["of %s 100 200 60000 61000 65535"]), ("A2", ["of %s 3 60000 61000", "addmany %s 131072 262149"]),
                            ("R", ["new %s", "addr %s 50000 65000", "addr %s 100 120", "opt %s"]),
                            ("B", ["new %s", "addstride %s 1 7 9000"])):
            x = self.fresh("ao")
            for l in build:
                self.emit(l % x)
            for d in (10000, 5537, -50001, 65535, 70000):
                for grow in ("add", "addr", "ior", "addmany"):
                    y = self.fresh("ao")
                    self.emit("off %s %s %d" % (y, x, d))
                    base = ((100 + d) // CH) * CH if d > 0 else 0
                    v = base + 20000 + (d % 7)
                    if grow == "add":
                        self.emit("add %s %d" % (y, v)); self.emit("add %s %d" % (y, v + 30000))
                    elif grow == "addr":
                        self.emit("addr %s %d %d" % (y, v, v + 3))
                    elif grow == "addmany":
                        self.emit("addmany %s %d %d %d" % (y, v, v + 1, v + 40000))
                    else:
                        z = self.fresh("ao")
                        self.emit("of %s %d %d" % (z, v, v + 9))
                        self.emit("ior %s %s" % (y, z))
                    self.emit("toarr %s" % y) if kind != "B" else self.emit("dig %s" % y)
                    self.emit("wf %s" % y)
                self.emit("dig %s" % x)
            self.count("xform:offset-then-grow:" + kind)
        for vals in ([5, 3 * CH + 7, 10 * CH + 3], []):
            x = self.fresh("sf")
            self.emit("new %s" % x)
            if vals:
                self.emit("of %s %s" % (x, " ".join(map(str, vals))))
            for lo, hi in ((100, 9 * CH), (0, 4 * CH), (CH, 3 * CH), (12 * CH, 15 * CH + 9)):
                y = self.fresh("sf")
                self.emit("sflip %s %s %d %d" % (y, x, lo, hi))
                self.emit("wf %s" % y)
                k0 = (lo + CH - 1) // CH
                self.emit("rem %s %d" % (y, k0 * CH + 50))
                self.emit("card %s" % y)
                self.emit("has %s %d" % (y, (k0 + 1) * CH + 50))
                self.emit("remr %s %d %d" % (y, (k0 + 1) * CH + 10, (k0 + 1) * CH + 20))
                self.emit("card %s" % y)
                self.emit("crem %s %d" % (y, k0 * CH + 15))
                self.emit("dig %s" % y)
                self.emit("wf %s" % y)
                self.emit("dig %s" % x)
                self.count("xform:sflip-then-edit")

    def suite_dense(self, nb):
        """C16: dense conversions"""
        r = self.r
        for _ in range(nb):
            x = self.fresh()
            keys = sorted(set(r.choice([0, 0, 1, 2, 3, 5, 17]) for _ in range(r.choice([1, 2, 3]))))
            self.build(x, keys)
            self.emit("dense %s" % x)
        self.emit("new e2")
        self.emit("dense e2")
        # full chunks of irregular words (they stay bitmap containers whatever RunOptimize thinks), borrowed, optimized, then edited
        for nchunks in (1, 2):
            y = self.fresh()
            ws = ["%x" % (r.getrandbits(64) | 1) for _ in range(1024 * nchunks)]
            self.emit("fromdense %s 0 %s" % (y, ".".join(ws)))
            self.emit("opt %s" % y)
            for c in range(nchunks):
                self.emit("%s %s %d" % (r.choice(["add", "rem"]), y, c * CH + r.randrange(CH)))
                self.emit("flip %s %d %d" % (y, c * CH + 100, c * CH + 200))
            self.emit("densechk")
            self.emit("wf %s" % y)
            self.count("dense:opt-then-edit-full")
        # a trailing partial chunk that is dense (more than 4096 bits: becomes a bitmap container), with and without spare capacity
        for n, copy in [(1500, 0), (1500, 1), (1025 + 70, 0), (500, 0), (2048 + 100, 0)]:
            y = self.fresh()
            full = n - (n // 1024) * 1024
            lead = ["%x*%d" % (r.getrandbits(64), 1024)] * (n // 1024)
            tail = ["ffffffffffffffff*%d" % full] if r.random() < 0.5 else ["%x" % (r.getrandbits(64) | 1) for _ in range(full)]
            self.emit("fromdense %s %d %s spare" % (y, copy, ".".join(lead + tail)))
            self.emit("card %s" % y)
            self.emit("wf %s" % y)
            self.emit("toarr %s" % y)
            self.emit("add %s %d" % (y, n * 64 - 1))
            self.emit("densechk")
            self.count("dense:spare-capacity")
        for _ in range(nb):
            # word slices: lengths not multiple of 1024, dense and sparse chunks, trailing partial chunk
            n = r.choice([0, 1, 2, 63, 64, 1023, 1024, 1025, 1500, 2048, 2049, 3000])
            ws = []
            i = 0
            while i < n:
                ln = min(n - i, r.choice([1, 1, 3, 70, 200, 1024]))
                mode = r.random()
                if mode < 0.35:
                    ws.append("0*%d" % ln if ln > 1 else "0")
                elif mode < 0.5:
                    ws.append("ffffffffffffffff*%d" % ln if ln > 1 else "ffffffffffffffff")
                else:
                    for _ in range(min(ln, 40)):
                        ws.append("%x" % (r.getrandbits(64) if r.random() < 0.6 else (1 << r.randrange(64))))
                    ln = min(ln, 40)
                i += ln
            y = self.fresh()
            copy = r.randrange(2)
            cmd = "fromdense %s %d" % (y, copy) if r.random() < 0.8 else "frombitset %s" % y
            # `spare`: the words are the front part of a larger buffer of the caller's whose rest is not zero (len < cap)
            spare = " spare" if cmd.startswith("fromdense") and ws and r.random() < 0.5 else ""
            self.emit("%s %s%s" % (cmd, ".".join(ws) if ws else "", spare))
            self.emit("wf %s" % y)
            if r.random() < 0.5:
                # RunOptimize is content-neutral; a chunk that stays a bitmap container still borrows the caller's words
                self.emit("opt %s" % y)
                for _ in range(2):
                    self.emit("%s %s %d" % (r.choice(["add", "rem", "cadd", "crem"]), y, r.randrange(0, max(1, n * 64))))
                self.emit("densechk")
                self.count("dense:opt-then-edit")
            # mutate the bitmap in chunks that may share the caller's words, then check the words are untouched
            for _ in range(4):
                self.hist_step(y, set(range(0, max(1, (n * 64) // CH + 1))))
            self.emit("densechk")
            self.emit("dense %s" % y)


SUITES = {}


def suite(name):
    def deco(f):
        SUITES[name] = f
        return f
    return deco


@suite("hist")
def _hist(g, scale):
    g.suite_hist(int(12 * scale), 60)


@suite("alg")
def _alg(g, scale):
    g.suite_alg(int(14 * scale))


@suite("query")
def _query(g, scale):
    g.suite_query(int(25 * scale), 40)


@suite("nbr")
def _nbr(g, scale):
    g.suite_nbr(int(30 * scale), 40)


@suite("sizeb")
def _sizeb(g, scale):
    """C14 with a TIGHT bound: bitmaps confined to chunk 0 (so that the universe term of the bound is minimal), driven through
    the histories that change a chunk's best representation (run trimming, threshold walks, fill/empty), `size` after each"""
    r = g.r
    # copy-on-write clone, RunOptimize on one side (content-neutral), in-place union with a sparse bitmap on that side: the OTHER
    # side keeps its content and its size
    for side_is_clone in (False, True):
        x, y, z = g.fresh(), g.fresh(), g.fresh()
        g.emit("new %s" % x)
        g.emit("addr %s 1000 3000" % x)
        g.emit("addr %s 70000 70100" % x)
        g.emit("opt %s" % x)
        g.emit("cowclone %s %s" % (y, x))
        side, other = (y, x) if side_is_clone else (x, y)
        g.emit("opt %s" % side)
        g.emit("of %s %s" % (z, " ".join(str(v) for v in sorted(r.sample(range(0, 65536), 600)))))
        g.emit("ior %s %s" % (side, z))
        g.emit("dig %s" % other)
        g.emit("size %s" % other)
        g.emit("wf %s" % other)
        g.count("sizeb:cow-opt-ior")
    # chunks with very many short runs: the run form stops being the smallest one at 2056 runs (2+4*runs >= 8224); every way of
    # reaching such a chunk (RunOptimize, in-place and static union of two run chunks lying one beyond the other, offset join)
    for na, nb in ((2000, 2000), (1026, 1026), (1030, 1025), (2055, 1), (2047, 3), (1500, 555)):
        a, b, c = g.fresh(), g.fresh(), g.fresh()
        for nm, base, n in ((a, 0, na), (b, 33000, nb)):
            g.emit("new %s" % nm)
            for off in (0, 1, 2):
                g.emit("addstride %s %d 15 %d" % (nm, base + off, n))
            g.emit("opt %s" % nm)
            g.emit("size %s" % nm)
        g.emit("or %s %s %s" % (c, a, b))
        g.emit("size %s" % c); g.emit("wf %s" % c)
        c = g.fresh()
        g.emit("clone %s %s" % (c, b))
        g.emit("ior %s %s" % (c, a))          # operand wholly below the receiver
        g.emit("size %s" % c)
        c = g.fresh()
        g.emit("off %s %s %d" % (c, a, 16384))
        g.emit("size %s" % c)
        g.emit("ior %s %s" % (a, b))          # operand wholly beyond the receiver
        g.emit("size %s" % a); g.emit("wf %s" % a)
        g.emit("opt %s" % a)
        g.emit("size %s" % a)
        g.count("sizeb:many-short-runs-union")
    # an in-place intersection (bitmap receiver; bitmap / array / run argument; the many-way forms) whose result holds EXACTLY 4096 /
    # 4095 / 4097 values, followed by single removals and insertions: the chunk must end up in its smallest form
    for target in (4096, 4095, 4097):
        for argkind in ("B", "A", "R"):
            x, y = g.fresh("t4"), g.fresh("t4")
            g.emit("new %s" % x)
            g.emit("addstride %s %d 2 6000" % (x, 5 * CH))                     # evens 0..11998: bitmap container
            g.emit("new %s" % y)
            if argkind == "B":
                g.emit("addstride %s %d 1 %d" % (y, 5 * CH, 2 * target - 1))    # covers exactly `target` evens
            elif argkind == "R":
                g.emit("addr %s %d %d" % (y, 5 * CH, 5 * CH + 2 * target - 1)); g.emit("opt %s" % y)
            else:
                g.emit("addstride %s %d 2 %d" % (y, 5 * CH, min(target, 4096)))
                if target > 4096:
                    continue
            for form in ("iand", "fastand3"):
                z = g.fresh("t4")
                if form == "iand":
                    g.emit("clone %s %s" % (z, x)); g.emit("iand %s %s" % (z, y))
                else:
                    g.emit("fastand %s %s %s %s" % (z, x, x, y))
                g.emit("size %s" % z); g.emit("wf %s" % z)
                for i in range(5):
                    g.emit("rem %s %d" % (z, 5 * CH + 2 * i))
                g.emit("size %s" % z); g.emit("wf %s" % z)
                for i in range(1000):
                    g.emit("crem %s %d" % (z, 5 * CH + 100 + 2 * i))
                g.emit("size %s" % z); g.emit("wf %s" % z)
                g.emit("add %s %d" % (z, 5 * CH + 1)); g.emit("size %s" % z)
            g.count("sizeb:inplace-and-to-%d" % target)
    # an array chunk whose storage was enlarged by an in-place union (the union allocates twice the combined size), then a range / bulk
    # insertion that takes it past 4096 values within that capacity; also through the many-way unions and the offset join
    for n1, n2, radd in ((1500, 1500, 2000), (1000, 1000, 2200), (2000, 2000, 200), (700, 700, 3000)):
        for form in ("ior", "fastor3", "ior-addmany"):
            # everything in chunk 0, so that the universe term of the bound is one chunk
            a, b = g.fresh("ag"), g.fresh("ag")
            g.emit("new %s" % a); g.emit("addstride %s %d 20 %d" % (a, 1, n1))
            g.emit("new %s" % b); g.emit("addstride %s %d 20 %d" % (b, 8, n2))
            z = a
            if form == "fastor3":
                c = g.fresh("ag"); z = g.fresh("ag")
                g.emit("of %s %d %d" % (c, 3, 40003))
                g.emit("fastor %s %s %s %s" % (z, a, b, c))
            else:
                g.emit("ior %s %s" % (a, b))
            g.emit("size %s" % z)
            if form == "ior-addmany":
                g.emit("addmanyfrom %s %d %d 1" % (z, 42000, radd))
            else:
                g.emit("addr %s %d %d" % (z, 42000, 42000 + radd))
            g.emit("size %s" % z); g.emit("wf %s" % z)
            g.emit("add %s %d" % (z, 41000)); g.emit("size %s" % z); g.emit("wf %s" % z)
        g.count("sizeb:array-grown-by-union-then-range")
    # bitmaps built from dense words whose LAST chunk is partial (fewer than 1024 words) and holds few / ~4 per word / many values
    for words in ("3fffffff*100", "ffffffffffffffff*2048.ff*300", "1*50", "1f*820", "ffff*256", "ffffffffffffffff*1024.ffffffffffffffff*65",
                  "7*1000", "ffffffffffffffff*63.1", "0*1024.f*400"):
        for copy in (0, 1):
            y = g.fresh("fd")
            g.emit("fromdense %s %d %s" % (y, copy, words))
            g.emit("size %s" % y); g.emit("wf %s" % y)
        y = g.fresh("fd")
        g.emit("frombitset %s %s" % (y, words))
        g.emit("size %s" % y); g.emit("wf %s" % y)
        g.count("sizeb:fromdense-partial-last-chunk")
    for n in (2046, 2047, 2048, 2049, 2050, 2053, 2055, 2056, 2057):
        a = g.fresh()
        g.emit("new %s" % a)
        for off in (0, 1, 2):
            g.emit("addstride %s %d 16 %d" % (a, off, n))
        g.emit("size %s" % a)
        g.emit("opt %s" % a)
        g.emit("size %s" % a); g.emit("wf %s" % a)
        c = g.fresh()
        g.emit("off %s %s %d" % (c, a, 32768))
        g.emit("size %s" % c)
        g.count("sizeb:runs-at-2048..2056")
    for _ in range(int(14 * scale)):
        x = g.fresh()
        g.emit("new %s" % x)
        for _ in range(r.choice([1, 2, 3])):
            g.hist_step(x, {0}, force=r.choice(["trimruns", "trimruns", "walk4096", "fillempty", "emptyedge", "addmanyrun"]))
            g.emit("size %s" % x)
            g.emit("wf %s" % x)
        for _ in range(6):
            g.hist_step(x, {0}, force=r.choice(["add", "rem", "crem", "addr", "remr", "flip"]))
        g.emit("size %s" % x)
        g.emit("opt %s" % x)
        g.emit("size %s" % x)


@suite("xform")
def _xform(g, scale):
    g.offset_join_episode()
    g.sflip_edit_episode()
    g.suite_xform(int(25 * scale))


@suite("dense")
def _dense(g, scale):
    g.suite_dense(int(25 * scale))


