"""Suite `l2q`: exact tie of the bitmap-level L2 model of the READ-ONLY drivers (lean/RModel/Impl/RepQuery.lean).

`l2q <card|empty|has|min|max|rank|sel|cir|iwi|nv|pv|nav|pav> x [args]` and `l2q2 <andcard|orcard|isect|eq> x y`.

The generator keeps a shadow of every bitmap it builds (chunk key -> sorted low-bit intervals), so that the query arguments
can be aimed at the places where the key arithmetic of the drivers matters:
  * bitmaps with gaps between chunks; targets in ABSENT chunks (below the first key, between keys, above the last), in the
    chunk just before / after a present one, at key 0 and 65535, at 0 and 2^32-1;
  * low bits equal to / one off / larger / smaller than the extremes of the target's chunk AND of the neighbouring chunks
    (answer in a later / earlier chunk), at the edges of the intervals inside the chunk;
  * chunks that are full / full minus one value / single-valued / prefixes / suffixes, runs of adjacent full chunks framed by a
    suffix chunk and a prefix chunk (NextAbsentValue / PreviousAbsentValue walking over several keys, -1 at both ends of the
    universe);
  * ranges: a == b, b == 0, b == 2^32, a == 0, one value, inside one chunk, first / last chunk partial, chunk-aligned, spanning
    absent chunks, ending in an absent chunk, b < a;
  * Select at 0, at the cumulative-cardinality boundaries (c-1, c, c+1), at card-1, card, card+1, 2^32-1;
  * pairs for Equals / Intersects / AndCardinality / OrCardinality: the same set in DIFFERENT container kinds (mixed-kind
    `equals` through the iterators), one trailing value more / less / moved, one value changed in a middle chunk, prefix / suffix
    chunk lists, a chunk missing in the middle, chunks added in a gap, same keys with disjoint contents, complemented chunk,
    array-vs-array with a length ratio above 64 (galloping), run-vs-array with more than 64 values per run, unrelated pairs
    in all key alignments, empty operands, an operand with itself.
Container kinds are FORCED through `mkrepr` (every kind that is well-formed for the content: array iff card <= 4096, bitmap iff
card > 4096, run iff 2+4*nruns < min(8224, 2*card)) or left to the library (`addr` / `addmany` / `opt`).
Domain: well-formed bitmaps (as the library produces them, and raw representations satisfying Rep.wf); uint32 targets;
ranges with both ends <= 2^32 (CardinalityInRange / IntersectsWithInterval document [start,end) with end up to 1<<32)."""
from genlib import suite, CH, U32

LOWPOOL = [0, 1, 2, 62, 63, 64, 65, 127, 128, 4095, 4096, 4097, 32767, 32768, 65533, 65534, 65535, 1023, 1024]


def norm(ivs):
    """sorted, merged, non-empty half-open intervals inside [0, CH)"""
    out = []
    for lo, hi in sorted((max(0, a), min(CH, b)) for a, b in ivs):
        if lo >= hi:
            continue
        if out and lo <= out[-1][1]:
            out[-1] = (out[-1][0], max(out[-1][1], hi))
        else:
            out.append((lo, hi))
    return out


def card(ivs):
    return sum(b - a for a, b in ivs)


def complement(ivs):
    out, p = [], 0
    for a, b in ivs:
        if p < a:
            out.append((p, a))
        p = b
    if p < CH:
        out.append((p, CH))
    return out


def of_vals(vals):
    return norm([(v, v + 1) for v in vals])


def shape(g):
    """random chunk content: (name, intervals)"""
    r = g.r
    names = ["single", "few", "arrmid", "arr4096", "bm4097", "dense", "runs", "longruns", "full", "fullminus", "prefix",
             "suffix", "edges", "alt", "bigarr"]
    w = [6, 8, 4, 2, 2, 1.5, 6, 5, 5, 3, 4, 4, 4, 3, 2]
    sh = r.choices(names, w)[0]
    if sh == "single":
        ivs = of_vals([r.choice(LOWPOOL) if r.random() < 0.6 else r.randrange(CH)])
    elif sh == "few":
        ivs = of_vals([r.choice(LOWPOOL) if r.random() < 0.3 else r.randrange(CH) for _ in range(r.randrange(2, 40))])
    elif sh == "arrmid":
        ivs = of_vals(r.sample(range(CH), r.choice([70, 100, 200, 700, 2000])))
    elif sh == "bigarr":
        ivs = of_vals(r.sample(range(0, CH, 2), r.choice([300, 1000, 4000])))
    elif sh in ("arr4096", "bm4097"):
        n = 4096 if sh == "arr4096" else r.choice([4097, 4098])
        # a block + scattered singles, exactly n values
        off = r.randrange(0, 20000)
        blk = n - 40
        singles = r.sample(range(off + blk + 2, CH, 2), 40)
        ivs = norm([(off, off + blk)] + [(v, v + 1) for v in singles])
    elif sh == "dense":
        ivs = of_vals(r.sample(range(CH), r.choice([5000, 9000, 30000])))
    elif sh == "runs":
        nb = r.randrange(1, 30)
        pts = sorted(r.sample(range(CH + 1), 2 * nb))
        ivs = norm([(pts[i], pts[i + 1]) for i in range(0, 2 * nb, 2)])
    elif sh == "longruns":
        nb = r.randrange(1, 6)
        ivs = []
        for _ in range(nb):
            a = r.randrange(CH - 70)
            ivs.append((a, a + r.choice([65, 66, 100, 129, 1000, 5000])))
        ivs = norm(ivs)
    elif sh == "full":
        ivs = [(0, CH)]
    elif sh == "fullminus":
        v = r.choice(LOWPOOL) if r.random() < 0.7 else r.randrange(CH)
        ivs = norm([(0, v), (v + 1, CH)])
    elif sh == "prefix":
        ivs = [(0, r.choice([1, 2, 64, 65, 4096, 4097, 30000, 65535]))]
    elif sh == "suffix":
        ivs = [(r.choice([65535, 65534, 65472, 61440, 61439, 30000, 1]), CH)]
    elif sh == "edges":
        vals = [v for v in [0, 63, 64, 65, 4095, 4096, 4097, 65534, 65535] if r.random() < 0.7] or [65535]
        ivs = of_vals(vals)
    else:  # alt
        step = r.choice([2, 3, 16])
        hi = r.choice([8192, 8194, 30000, CH])
        ivs = of_vals(range(r.randrange(step), hi, step))
    g.count("shape:" + sh)
    return sh, ivs


def kinds_for(ivs):
    c, n = card(ivs), len(ivs)
    ks = []
    if 0 < c <= 4096:
        ks.append("A")
    if c > 4096:
        ks.append("B")
    if c > 0 and 2 + 4 * n < min(8224, 2 * c):
        ks.append("R")
    return ks


def render(ivs, kind):
    if kind == "A":
        return "A:" + ",".join(str(v) for a, b in ivs for v in range(a, b))
    if kind == "R":
        return "R:" + ",".join("%d+%d" % (a, b - 1 - a) for a, b in ivs)
    big = 0
    for a, b in ivs:
        big |= ((1 << (b - a)) - 1) << a
    m = (1 << 64) - 1
    words = [(big >> (64 * i)) & m for i in range(1024)]
    toks, i = [], 0
    while i < 1024:
        j = i
        while j < 1024 and words[j] == words[i]:
            j += 1
        toks.append("%x" % words[i] + ("*%d" % (j - i) if j - i > 1 else ""))
        i = j
    return "B:%d:%s" % (card(ivs), ".".join(toks))


def emit_bitmap(g, x, bm, how=None, kinds=None):
    """create bitmap x with the content of the shadow `bm` (key -> intervals); kinds: optional key -> forced kind"""
    r = g.r
    if how is None:
        how = r.choice(["raw", "raw", "ops", "opsopt"])
    if kinds:
        how = "raw"
    if how == "raw":
        parts = ["cow=%d" % (1 if r.random() < 0.2 else 0)]
        for k in sorted(bm):
            ks = kinds_for(bm[k])
            kd = kinds[k] if kinds and k in kinds and kinds[k] in ks else r.choice(ks)
            g.count("kind:" + kd)
            parts.append("%d:%s%s" % (k, render(bm[k], kd), "/f" if r.random() < 0.1 else ""))
        g.emit("mkrepr %s %s" % (x, ";".join(parts)))
    else:
        g.emit("new %s" % x)
        for k in sorted(bm):
            base = k * CH
            singles = [a for a, b in bm[k] if b - a == 1]
            for a, b in bm[k]:
                if b - a > 1:
                    g.emit("addr %s %d %d" % (x, base + a, base + b))
            for i in range(0, len(singles), 400):
                g.emit("addmany %s %s" % (x, " ".join(str(base + v) for v in singles[i:i + 400])))
        if how == "opsopt":
            g.emit("opt %s" % x)
    g.count("build:" + how)


def keyset(g):
    r = g.r
    n = r.choices([1, 2, 3, 4, 5, 8], [3, 5, 5, 4, 3, 2])[0]
    layout = r.choice(["low", "gaps", "top", "mixed", "adjacent", "ends"])
    if layout == "low":
        ks = r.sample(range(0, max(n + 2, 8)), n)
    elif layout == "gaps":
        ks = r.sample(range(0, 65536, 7), n)
    elif layout == "top":
        ks = r.sample(range(65536 - max(n + 2, 6), 65536), n)
    elif layout == "adjacent":
        s = r.choice([0, 1, 1000, 65536 - n])
        ks = list(range(s, s + n))
    elif layout == "ends":
        ks = [0, 65535] + r.sample(range(1, 65535), max(0, n - 2))
    else:
        ks = list({g.key() for _ in range(n)})
    g.count("keylayout:" + layout)
    return sorted(set(k for k in ks if 0 <= k < 65536))


def random_bm(g, keys=None):
    if keys is None:
        keys = keyset(g)
    return {k: shape(g)[1] for k in keys}


def fullrun_bm(g):
    """a suffix chunk, m adjacent full chunks, a prefix chunk - anywhere, at key 0, at key 65535"""
    r = g.r
    m = r.choice([1, 2, 3])
    where = r.choice(["mid", "bottom", "top", "whole-bottom", "whole-top"])
    bm = {}
    if where == "mid":
        s = r.choice([1, 5, 1000, 65530 - m])
        bm[s - 1] = [(r.choice([65535, 65000, 1]), CH)]
        for i in range(m):
            bm[s + i] = [(0, CH)]
        bm[s + m] = [(0, r.choice([1, 100, 65535]))]
    elif where == "bottom":
        for i in range(m):
            bm[i] = [(0, CH)]
        bm[m] = [(0, r.choice([1, 100, 65535]))]
    elif where == "top":
        bm[65535 - m] = [(r.choice([65535, 65000, 1]), CH)]
        for i in range(m):
            bm[65536 - m + i] = [(0, CH)]
    elif where == "whole-bottom":
        for i in range(m):
            bm[i] = [(0, CH)]
        if r.random() < 0.5:
            bm[m + 1] = [(0, CH)]      # a gap of exactly one key, then a full chunk again
    else:
        for i in range(m):
            bm[65536 - m + i] = [(0, CH)]
        if r.random() < 0.5:
            bm[65534 - m] = [(0, CH)]
    g.count("fullrun:" + where)
    return bm


# ---------------------------------------------------------------- arguments

def targets(g, bm, n):
    r = g.r
    keys = sorted(bm)
    ck = {0, 1, 65534, 65535}
    for k in keys:
        ck |= {k - 1, k, k + 1}
    for a, b in zip(keys, keys[1:]):
        if b - a > 1:
            ck.add((a + b) // 2)
    ck = sorted(k for k in ck if 0 <= k < 65536)
    out = [0, U32 - 1]
    for _ in range(n):
        kk = r.choice(ck) if r.random() < 0.9 else r.randrange(65536)
        lows = {0, 65535, r.choice(LOWPOOL), r.randrange(CH)}
        # extremes and interval edges of the chunk itself and of its present neighbours
        near = [k for k in keys if k == kk]
        below = [k for k in keys if k < kk][-1:]
        above = [k for k in keys if k > kk][:1]
        for k in near + below + above:
            ivs = bm[k]
            lo, hi = ivs[0][0], ivs[-1][1] - 1
            lows |= {lo - 1, lo, lo + 1, hi - 1, hi, hi + 1}
            a, b = r.choice(ivs)
            lows |= {a - 1, a, b - 1, b}
        low = r.choice(sorted(v for v in lows if 0 <= v < CH))
        out.append(kk * CH + low)
        g.count("target:" + ("present" if near else "below-first" if not below else "above-last" if not above else "gap"))
    return out


def ranges(g, bm, n):
    r = g.r
    ts = targets(g, bm, 2 * n + 4)
    keys = sorted(bm)
    out = [(0, 0), (0, U32), (5, 0), (U32, U32), (U32 - 1, U32), (0, 1), (ts[2], ts[2]), (ts[3], 0), (ts[3], U32), (0, ts[3])]
    for i in range(n):
        a, b = ts[2 * i + 4], ts[2 * i + 5]
        c = r.random()
        if c < 0.35:
            a, b = min(a, b), max(a, b) + r.choice([0, 1])
            g.count("range:pair")
        elif c < 0.5:
            b = min(U32, a + r.choice([1, 2, 64, 100, 4096, 65536, 65537, 200000]))
            g.count("range:short")
        elif c < 0.65:
            k = r.choice(keys) if keys else 0
            a, b = k * CH, min(U32, (k + r.choice([1, 1, 2, 3])) * CH)
            g.count("range:chunk-aligned")
        elif c < 0.75:
            a, b = (a // CH) * CH + r.choice(LOWPOOL), (a // CH) * CH + r.choice(LOWPOOL) + 1
            g.count("range:same-chunk")
        elif c < 0.85:
            g.count("range:unordered")
        else:
            b = min(U32, (b // CH + 1) * CH) if r.random() < 0.5 else (b // CH) * CH
            g.count("range:end-aligned")
        out.append((a, b))
    return out


def select_args(g, bm, n):
    r = g.r
    cum, out = 0, [0, 1, U32 - 1]
    for k in sorted(bm):
        cum += card(bm[k])
        out += [cum - 1, cum, cum + 1]
    out += [r.randrange(cum + 2) for _ in range(n)]
    return [v for v in out if 0 <= v < U32]


def unary(g, x, bm, n):
    r = g.r
    for q in ("card", "empty", "min", "max"):
        g.emit("l2q %s %s" % (q, x))
        g.count("l2q:" + q)
    for t in targets(g, bm, n):
        for q in r.sample(["has", "rank", "nv", "pv", "nav", "pav"], 3):
            g.emit("l2q %s %s %d" % (q, x, t))
            g.count("l2q:" + q)
    for i in r.sample(select_args(g, bm, 4), min(8, len(select_args(g, bm, 0)))):
        g.emit("l2q sel %s %d" % (x, i))
        g.count("l2q:sel")
    for a, b in r.sample(ranges(g, bm, n), min(n + 4, 14)):
        for q in ("cir", "iwi"):
            g.emit("l2q %s %s %d %d" % (q, x, a, b))
            g.count("l2q:" + q)


# ---------------------------------------------------------------- pairs

def derive(g, bm):
    """a variant of bm: (name, shadow)"""
    r = g.r
    keys = sorted(bm)
    y = {k: list(v) for k, v in bm.items()}
    how = r.choice(["same", "same", "trail+", "trail-", "trailmove", "midtouch", "prefix", "suffix", "dropmid", "addgap",
                    "addafter", "addbefore", "disjoint", "complement", "firsttouch"])
    if not keys:
        how = "addafter"
    if how == "trail+":
        k = keys[-1]
        hi = y[k][-1][1]
        if hi < CH:
            y[k] = norm(y[k] + [(hi + r.choice([0, 1, 5]), hi + r.choice([0, 1, 5]) + 1)]) if hi + 6 < CH else norm(y[k] + [(CH - 1, CH)])
        else:
            y[k] = norm(y[k][:-1] + [(y[k][-1][0], CH - 1)]) or [(0, 1)]
    elif how == "trail-":
        k = keys[-1]
        a, b = y[k][-1]
        y[k] = norm(y[k][:-1] + [(a, b - 1)])
        if not y[k]:
            del y[k]
    elif how == "trailmove":
        k = keys[-1]
        a, b = y[k][-1]
        y[k] = norm(y[k][:-1] + [(a, b - 1)] + ([(b, b + 1)] if b < CH else [(max(0, a - 2), max(0, a - 2) + 1)]))
    elif how in ("midtouch", "firsttouch"):
        k = keys[len(keys) // 2] if how == "midtouch" else keys[0]
        v = r.choice([y[k][0][0], y[k][-1][1] - 1, r.choice(LOWPOOL), r.randrange(CH)])
        inside = any(a <= v < b for a, b in y[k])
        if inside:
            y[k] = norm([p for a, b in y[k] for p in ((a, min(b, v)), (max(a, v + 1), b))])
            if not y[k]:
                y[k] = [((v + 1) % CH, (v + 1) % CH + 1)]
        else:
            y[k] = norm(y[k] + [(v, v + 1)])
    elif how == "prefix":
        for k in keys[max(1, len(keys) - r.choice([1, 2])):]:
            del y[k]
    elif how == "suffix":
        for k in keys[:min(len(keys) - 1, r.choice([1, 2]))]:
            del y[k]
    elif how == "dropmid":
        if len(keys) >= 3:
            del y[keys[len(keys) // 2]]
    elif how == "addgap":
        cand = [k + 1 for k in keys if k + 1 < 65536 and k + 1 not in y] + [k - 1 for k in keys if k > 0 and k - 1 not in y]
        if cand:
            y[r.choice(cand)] = shape(g)[1]
    elif how == "addafter":
        top = keys[-1] if keys else 0
        if top < 65535:
            y[min(65535, top + r.choice([1, 2, 100]))] = shape(g)[1]
    elif how == "addbefore":
        if keys[0] > 0:
            y[max(0, keys[0] - r.choice([1, 2, 100]))] = shape(g)[1]
    elif how == "disjoint":
        k = r.choice(keys)
        comp = complement(y[k])
        if comp:
            # a part of the complement (keeps the key, no common value)
            a, b = r.choice(comp)
            y[k] = [(a, min(b, a + r.choice([1, 3, 100, CH])))] if r.random() < 0.7 else comp
    elif how == "complement":
        k = r.choice(keys)
        comp = complement(y[k])
        if comp:
            y[k] = comp
    g.count("derive:" + how)
    return how, y


def special_pair(g):
    """galloping arrays / runs against arrays"""
    r = g.r
    k = g.key()
    c = r.random()
    if c < 0.5:
        big = sorted(r.sample(range(CH), r.choice([200, 700, 3000])))
        nsmall = r.choice([1, 2, 3])
        small = [r.choice(big) if r.random() < 0.6 else r.randrange(CH) for _ in range(nsmall)]
        small += [r.choice([big[0], big[-1], max(0, big[0] - 1), min(CH - 1, big[-1] + 1)])] if r.random() < 0.5 else []
        x, y = {k: of_vals(small)}, {k: of_vals(big)}
        kx, ky = {k: "A"}, {k: "A"}
        g.count("special:gallop")
    else:
        runs = []
        for _ in range(r.randrange(1, 6)):
            a = r.randrange(CH - 70)
            runs.append((a, min(CH, a + r.choice([65, 66, 129, 1000, 5000]))))
        runs = norm(runs)
        vals = []
        for a, b in runs:
            vals += [a - 1, a, a + 1, b - 2, b - 1, b, r.randrange(a, b)]
        vals = [v for v in vals if 0 <= v < CH and r.random() < 0.6] or [runs[0][0]]
        vals += r.sample(range(CH), r.choice([0, 3, 100]))
        x, y = {k: runs}, {k: of_vals(vals)}
        kx, ky = {k: "R"}, {k: "A"}
        g.count("special:run-vs-array")
    # surround with other chunks now and then
    if r.random() < 0.5:
        for kk in keyset(g):
            if kk != k:
                s = shape(g)[1]
                if r.random() < 0.7:
                    x[kk] = s
                if r.random() < 0.7:
                    y[kk] = s if r.random() < 0.5 else shape(g)[1]
    return x, kx, y, ky


def binary(g, a, b):
    for q in ("andcard", "orcard", "isect", "eq"):
        g.emit("l2q2 %s %s %s" % (q, a, b))
        g.count("l2q2:" + q)
    q = g.r.choice(["andcard", "orcard", "isect", "eq"])
    g.emit("l2q2 %s %s %s" % (q, b, a))
    g.count("l2q2:" + q)


def gen(g, scale):
    r = g.r
    n = max(1, int(8 * scale))
    # unary queries
    for i in range(n):
        x = g.fresh()
        bm = fullrun_bm(g) if r.random() < 0.25 else random_bm(g)
        emit_bitmap(g, x, bm)
        unary(g, x, bm, r.choice([6, 10]))
    e = g.fresh("e")
    g.emit("new %s" % e)
    unary(g, e, {}, 3)
    # binary queries
    for i in range(max(1, int(14 * scale))):
        c = r.random()
        x, y = g.fresh(), g.fresh()
        if c < 0.55:
            bx = random_bm(g)
            _, by = derive(g, bx)
            emit_bitmap(g, x, bx)
            emit_bitmap(g, y, by)
            g.count("pairkind:derived")
        elif c < 0.75:
            bx, kx, by, ky = special_pair(g)
            emit_bitmap(g, x, bx, kinds=kx)
            emit_bitmap(g, y, by, kinds=ky)
            g.count("pairkind:special")
        else:
            ka = keyset(g)
            al = r.choice(["same", "subset", "interleave", "disjoint", "overlap", "trailing"])
            if al == "same":
                kb = list(ka)
            elif al == "subset":
                kb = [k for k in ka if r.random() < 0.6] or ka[:1]
            elif al == "interleave":
                kb = sorted(set(min(65535, k + 1) for k in ka))
            elif al == "disjoint":
                kb = sorted(set(k ^ 0x4000 for k in ka))
            elif al == "trailing":
                kb = sorted(set(list(ka) + [min(65535, max(ka) + i) for i in range(1, 4)]))
            else:
                kb = sorted(set(list(ka)[: len(ka) // 2 + 1] + keyset(g)))
            g.count("align:" + al)
            bx, by = random_bm(g, ka), random_bm(g, kb)
            emit_bitmap(g, x, bx)
            emit_bitmap(g, y, by)
            g.count("pairkind:random")
        binary(g, x, y)
        if r.random() < 0.3:
            binary(g, x, x)
            g.count("pairkind:self")
        if r.random() < 0.3:
            binary(g, x, e)
            g.count("pairkind:empty")
    binary(g, e, e)
    # robustness: undefined names, unknown queries, malformed arguments -> skip on both sides
    g.emit("l2q card nosuch")
    g.emit("l2q frob %s" % e)
    g.emit("l2q has %s" % e)
    g.emit("l2q has %s 4294967296" % e)
    g.emit("l2q2 eq %s nosuch" % e)
    g.emit("l2q2 frob %s %s" % (e, e))


@suite("l2q")
def _l2q(g, scale):
    gen(g, scale)
