#!/bin/bash
# Evaluate seeded changes in isolation: a copy of /verif (with its build cache) and a separate worktree of /repo,
# so that neither /repo nor the live /verif build is disturbed.  usage: seed_batch.sh <out.jsonl> "<seed-dir> <pkg> <PROP>..." ...
set -u
OUT=$1; shift
S=${EVAL_SUFFIX:-}; EV=/tmp/evalverif$S; ER=/tmp/evalrepo$S
mkdir -p $EV
rsync -a --delete --exclude .git --exclude scratch --exclude replays /verif/ $EV/
# EVAL_REV=<commit>: evaluate with the tracked files of an EARLIER state of /verif (to measure what that state reported)
if [ -n "${EVAL_REV:-}" ]; then git -C /verif archive "$EVAL_REV" | tar -x -C $EV; fi
if [ ! -d $ER ]; then git -C /repo worktree add -q --detach $ER HEAD; fi
git -C $ER checkout -q --detach $(git -C /repo rev-parse HEAD)
git -C $ER checkout -- .
for spec in "$@"; do
  echo "== $spec" >&2
  (cd $EV && VERIF_REPO=$ER python3 tools/seed_eval.py $spec) | python3 -c "import sys,json; d=json.load(sys.stdin); print(json.dumps(d))" >> $OUT
done
