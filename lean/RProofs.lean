import RProofs.BSet
