import RProofs.BSet
import RProofs.BSetQuery
import RProofs.Facts.Constants
import RProofs.Facts.Skeleton
import RProofs.Par
import RProofs.Properties.C14
import RProofs.Properties.C09
import RProofs.Facts.Bits
