import RProofs.BSet
import RProofs.BSetQuery
