import RProofs.BSet
import RProofs.BSetQuery
import RProofs.Facts.Constants
