import RModel.Spec.BSet
import RModel.Driver.Util
/-!
An independent reading of the published Roaring format specification
(https://github.com/RoaringBitmap/RoaringFormatSpec), written from the text of the specification and
sharing no definition with `Impl/Serial.lean`.  Constants are the literals of the specification.

The reading used here (so that a reviewer can compare it with the document):

1. *Cookie header.*  The stream starts with a 32-bit little-endian word.  If it equals 12346
   (`SERIAL_COOKIE_NO_RUNCONTAINER`) the next 32-bit word is the number of containers `n`.  Otherwise its
   16 least significant bits must equal 12347 (`SERIAL_COOKIE`); then `n` is the 16 most significant bits
   plus 1 and the header is followed by a bitset of `⌈n/8⌉` bytes whose `i`-th bit (least significant bit
   of the first byte first) is set iff container `i` is a run container.
2. *Descriptive header.*  `n` pairs of 16-bit little-endian words: the container's key (the 16 most
   significant bits of its values) and its cardinality minus 1.  Keys are strictly increasing.
3. *Offset header.*  Present iff the cookie is 12346, or the cookie is 12347 and `n ≥ 4`
   (`NO_OFFSET_THRESHOLD`): `n` 32-bit little-endian words, the `i`-th being the position, in bytes from the
   beginning of the stream, of the `i`-th container's storage.
4. *Containers*, in order.  A run container (flagged in the bitset) is a 16-bit number of runs followed by
   that many (start, length−1) pairs of 16-bit words, the runs sorted and non-overlapping;
   otherwise a container with cardinality ≤ 4096 is an array of `cardinality` sorted 16-bit values and a
   container with cardinality > 4096 is a bitset of 8192 bytes (65536 bits, bit `j` of the stream of
   64-bit little-endian words ⇔ value `j`).
   The cardinality in the descriptive header must match the content.
-/
namespace RModel.FormatSpec
open RModel

abbrev Bytes := Array UInt8

def u8 (b : Bytes) (i : Nat) : Option Nat := b[i]?.map (·.toNat)

def u16 (b : Bytes) (i : Nat) : Option Nat := do
  let lo ← u8 b i
  let hi ← u8 b (i + 1)
  pure (lo + 256 * hi)

def u32 (b : Bytes) (i : Nat) : Option Nat := do
  let lo ← u16 b i
  let hi ← u16 b (i + 2)
  pure (lo + 65536 * hi)

/-- `cnt` consecutive 16-bit words starting at byte `pos` -/
def words16 (b : Bytes) (pos cnt : Nat) : Option (List Nat) :=
  (List.range cnt).mapM fun k => u16 b (pos + 2 * k)

def strictlyIncreasing : List Nat → Bool
  | a :: c :: t => a < c && strictlyIncreasing (c :: t)
  | _ => true

/-- the values of a bitset container stored at byte `pos`, as a boundary list shifted by `base` -/
def bitsetBounds (b : Bytes) (pos base : Nat) : Option (BSet × Nat) := do
  let bytes ← (List.range 8192).mapM fun k => u8 b (pos + k)
  -- bit j of the container = bit (j % 8) of byte (j / 8)   (little-endian 64-bit words)
  let mut out : Array Nat := #[]
  let mut prev := false
  let mut count := 0
  let mut j := 0
  for byte in bytes do
    for t in [0:8] do
      let bit := byte / 2 ^ t % 2 == 1
      if bit then count := count + 1
      if bit != prev then out := out.push (base + j)
      prev := bit
      j := j + 1
  if prev then out := out.push (base + 65536)
  pure (out.toList, count)

/-- sorted, non-overlapping runs (start, length-1) inside the 16-bit range -/
def runsSorted : List (Nat × Nat) → Bool
  | [(s, l)] => s + l ≤ 65535
  | (s, l) :: (s', l') :: t => s + l < s' && runsSorted ((s', l') :: t)
  | [] => true

structure Decoded where
  set : BSet
  consumed : Nat

/-- decode one container; returns its set and the position after it -/
def container (b : Bytes) (isRun : Bool) (key card pos : Nat) : Option (BSet × Nat) :=
  let base := key * 65536
  if isRun then do
    let nr ← u16 b pos
    let ws ← words16 b (pos + 2) (2 * nr)
    let rec pairUp : List Nat → List (Nat × Nat)
      | s :: l :: t => (s, l) :: pairUp t
      | _ => []
    let runs := pairUp ws
    if !runsSorted runs then none
    else if (runs.map fun (_, l) => l + 1).sum != card then none
    else if nr == 0 then none
    else pure (Driver.unionAll (runs.map fun (s, l) => [base + s, base + s + l + 1]), pos + 2 + 4 * nr)
  else if card ≤ 4096 then do
    let vs ← words16 b pos card
    if !strictlyIncreasing vs then none
    else pure (Driver.unionAll (vs.map fun v => [base + v, base + v + 1]), pos + 2 * card)
  else do
    let (s, cnt) ← bitsetBounds b pos base
    if cnt != card then none else pure (s, pos + 8192)

/-- `specDecode bytes = some ⟨S, m⟩` : the first `m` bytes are a spec-conformant stream encoding `S` -/
def specDecode (b : Bytes) : Option Decoded := do
  let cookie ← u32 b 0
  let (n, runBits, pos) ←
    if cookie == 12346 then do
      let n ← u32 b 4
      pure (n, (none : Option Nat), 8)
    else if cookie % 65536 == 12347 then
      let n := cookie / 65536 + 1
      pure (n, some 4, 4 + (n + 7) / 8)
    else none
  if n > 65536 then none
  let hdr ← words16 b pos (2 * n)
  let keys := (List.range n).map fun i => hdr.getD (2 * i) 0
  let cards := (List.range n).map fun i => hdr.getD (2 * i + 1) 0 + 1
  if !strictlyIncreasing keys then none
  let pos := pos + 4 * n
  let hasOffsets := runBits.isNone || n ≥ 4
  let offs ← if hasOffsets then (List.range n).mapM (fun i => u32 b (pos + 4 * i)) else pure []
  let mut p := if hasOffsets then pos + 4 * n else pos
  let mut sets : Array BSet := #[]
  for i in [0:n] do
    let isRun ← match runBits with
      | none => pure false
      | some rb => do
        let byte ← u8 b (rb + i / 8)
        pure (byte / 2 ^ (i % 8) % 2 == 1)
    if hasOffsets then
      if offs.getD i 0 != p then none
    let (s, p') ← container b isRun (keys.getD i 0) (cards.getD i 0) p
    sets := sets.push s
    p := p'
  pure { set := Driver.unionAll sets.toList, consumed := p }

end RModel.FormatSpec
