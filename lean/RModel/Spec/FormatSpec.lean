import RModel.Spec.BSet
import RModel.Driver.Util
/-!
An independent reading of the published Roaring format specification
(https://github.com/RoaringBitmap/RoaringFormatSpec), written from the text of the specification and
sharing no definition with `Impl/Serial.lean`.  Constants are the literals of the specification.

The reading used here (so that a reviewer can compare it with the document):

1. *Cookie header.*  The stream starts with a 32-bit little-endian word.  If it equals 12346
   (`SERIAL_COOKIE_NO_RUNCONTAINER`) the next 32-bit word is the number of containers `n`.  Otherwise its
   16 least significant bits must equal 12347 (`SERIAL_COOKIE`); then `n` is the 16 most significant bits
   plus 1 and the header is followed by a bitset of `⌈n/8⌉` bytes whose `i`-th bit (least significant bit
   of the first byte first) is set iff container `i` is a run container.
2. *Descriptive header.*  `n` pairs of 16-bit little-endian words: the container's key (the 16 most
   significant bits of its values) and its cardinality minus 1.  Keys are strictly increasing.
3. *Offset header.*  Present iff the cookie is 12346, or the cookie is 12347 and `n ≥ 4`
   (`NO_OFFSET_THRESHOLD`): `n` 32-bit little-endian words, the `i`-th being the position, in bytes from the
   beginning of the stream, of the `i`-th container's storage.
4. *Containers*, in order.  A run container (flagged in the bitset) is a 16-bit number of runs followed by
   that many (start, length−1) pairs of 16-bit words, the runs sorted and non-overlapping;
   otherwise a container with cardinality ≤ 4096 is an array of `cardinality` sorted 16-bit values and a
   container with cardinality > 4096 is a bitset of 8192 bytes (65536 bits, bit `j` of the stream of
   64-bit little-endian words ⇔ value `j`).
   The cardinality in the descriptive header must match the content.
-/
namespace RModel.FormatSpec
open RModel

abbrev Bytes := Array UInt8

/-! Accessors: byte `i` of the stream, and the little-endian 16/32-bit words starting at byte `i`
(`none` past the end of the stream). -/

def u8 (b : Bytes) (i : Nat) : Option Nat := b[i]?.map (·.toNat)

def u16 (b : Bytes) (i : Nat) : Option Nat :=
  match u8 b i, u8 b (i + 1) with
  | some lo, some hi => some (lo + 256 * hi)
  | _, _ => none

def u32 (b : Bytes) (i : Nat) : Option Nat :=
  match u16 b i, u16 b (i + 2) with
  | some lo, some hi => some (lo + 65536 * hi)
  | _, _ => none

/-- `cnt` consecutive bytes starting at byte `pos` -/
def bytes8 (b : Bytes) : (pos cnt : Nat) → Option (List Nat)
  | _, 0 => some []
  | pos, cnt + 1 =>
    match u8 b pos, bytes8 b (pos + 1) cnt with
    | some x, some xs => some (x :: xs)
    | _, _ => none

/-- `cnt` consecutive 16-bit words starting at byte `pos` -/
def words16 (b : Bytes) : (pos cnt : Nat) → Option (List Nat)
  | _, 0 => some []
  | pos, cnt + 1 =>
    match u16 b pos, words16 b (pos + 2) cnt with
    | some x, some xs => some (x :: xs)
    | _, _ => none

def strictlyIncreasing : List Nat → Bool
  | a :: c :: t => a < c && strictlyIncreasing (c :: t)
  | _ => true

/-- the 8 bits of a byte, least significant first -/
def byteBits (x : Nat) : List Bool := (List.range 8).map fun t => x / 2 ^ t % 2 == 1

/-- boundaries of the set `{pos + j | bits[j]}`: a boundary wherever consecutive bits differ (`prev` = the bit just
below `pos`), and a closing boundary after the last bit if it is set -/
def edges : (pos : Nat) → (prev : Bool) → List Bool → BSet
  | pos, prev, [] => if prev then [pos] else []
  | pos, prev, bit :: t => if bit != prev then pos :: edges (pos + 1) bit t else edges (pos + 1) prev t

/-- the values of a bitset container stored at byte `pos`, as a boundary list shifted by `base`, and their number -/
def bitsetBounds (b : Bytes) (pos base : Nat) : Option (BSet × Nat) :=
  match bytes8 b pos 8192 with
  | none => none
  | some bytes =>
    -- bit j of the container = bit (j % 8) of byte (j / 8)   (little-endian 64-bit words)
    let bits := bytes.flatMap byteBits
    some (edges base false bits, bits.count true)

/-- sorted, non-overlapping runs (start, length-1) inside the 16-bit range -/
def runsSorted : List (Nat × Nat) → Bool
  | [(s, l)] => s + l ≤ 65535
  | (s, l) :: (s', l') :: t => s + l < s' && runsSorted ((s', l') :: t)
  | [] => true

/-- consecutive words taken two by two -/
def pairUp : List Nat → List (Nat × Nat)
  | s :: l :: t => (s, l) :: pairUp t
  | _ => []

structure Decoded where
  set : BSet
  consumed : Nat

/-- decode one container; returns its set and the position after it -/
def container (b : Bytes) (isRun : Bool) (key card pos : Nat) : Option (BSet × Nat) :=
  let base := key * 65536
  if isRun then
    match u16 b pos with
    | none => none
    | some nr =>
      match words16 b (pos + 2) (2 * nr) with
      | none => none
      | some ws =>
        let runs := pairUp ws
        if !runsSorted runs then none
        else if (runs.map fun (_, l) => l + 1).sum != card then none
        else if nr == 0 then none
        else some (Driver.unionAll (runs.map fun (s, l) => [base + s, base + s + l + 1]), pos + 2 + 4 * nr)
  else if card ≤ 4096 then
    match words16 b pos card with
    | none => none
    | some vs =>
      if !strictlyIncreasing vs then none
      else some (Driver.unionAll (vs.map fun v => [base + v, base + v + 1]), pos + 2 * card)
  else
    match bitsetBounds b pos base with
    | none => none
    | some (s, cnt) => if cnt != card then none else some (s, pos + 8192)

/-- is container `i` flagged as a run container?  `runBits` = position of the run bitset (cookie 12347 only) -/
def runFlag (b : Bytes) (runBits : Option Nat) (i : Nat) : Option Bool :=
  match runBits with
  | none => some false
  | some rb =>
    match u8 b (rb + i / 8) with
    | none => none
    | some byte => some (byte / 2 ^ (i % 8) % 2 == 1)

/-- the containers `i, i+1, …` described by the (key, cardinality) list, the first one stored at byte `p`;
`offs` = position of the offset header when there is one (its `i`-th word must then be the position of
container `i`).  Returns the containers' sets and the position after the last one. -/
def containers (b : Bytes) (runBits offs : Option Nat) : (i : Nat) → List (Nat × Nat) → (p : Nat) → Option (List BSet × Nat)
  | _, [], p => some ([], p)
  | i, (key, card) :: rest, p =>
    match runFlag b runBits i with
    | none => none
    | some isRun =>
      let offsetOk := match offs with
        | none => true
        | some o => u32 b (o + 4 * i) == some p
      if !offsetOk then none else
      match container b isRun key card p with
      | none => none
      | some (s, p') =>
        match containers b runBits offs (i + 1) rest p' with
        | none => none
        | some (ss, q) => some (s :: ss, q)

/-- cookie header: number of containers, position of the run bitset (if any), position of the descriptive header -/
def cookieHeader (b : Bytes) : Option (Nat × Option Nat × Nat) :=
  match u32 b 0 with
  | none => none
  | some cookie =>
    if cookie == 12346 then
      match u32 b 4 with
      | none => none
      | some n => some (n, none, 8)
    else if cookie % 65536 == 12347 then
      let n := cookie / 65536 + 1
      some (n, some 4, 4 + (n + 7) / 8)
    else none

/-- `specDecode bytes = some ⟨S, m⟩` : the first `m` bytes are a spec-conformant stream encoding `S` -/
def specDecode (b : Bytes) : Option Decoded :=
  match cookieHeader b with
  | none => none
  | some (n, runBits, pos) =>
    if n > 65536 then none else
    match words16 b pos (2 * n) with
    | none => none
    | some hdr =>
      let desc := pairUp hdr                       -- (key, cardinality - 1)
      if !strictlyIncreasing (desc.map (·.1)) then none else
      let pos := pos + 4 * n
      let hasOffsets := runBits.isNone || n ≥ 4
      let offs := if hasOffsets then some pos else none   -- word `i` is read (and must exist) with container `i`
      let p := if hasOffsets then pos + 4 * n else pos
      match containers b runBits offs 0 (desc.map fun (k, c) => (k, c + 1)) p with
      | none => none
      | some (sets, q) => some { set := Driver.unionAll sets, consumed := q }

end RModel.FormatSpec
