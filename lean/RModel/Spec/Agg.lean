import RModel.Spec.BSet
/-! L1 specification of the many-way aggregates (C11): plain folds of the binary operations.

`interL []` is `[]` by convention (domain assumption D1 of `Driver/Agg.lean`): the fold of an intersection has no
seed inside the bitmaps, and every Go aggregate returns the empty bitmap for the empty list. -/
namespace RModel.BSet

/-- union of all members (fold of `union`, seed ∅) -/
def unionL (l : List BSet) : BSet := l.foldl union []

/-- intersection of all members of a non-empty list (fold of `inter` seeded with the first member); ∅ for `[]` -/
def interL : List BSet → BSet
  | [] => []
  | a :: t => t.foldl inter a

/-- symmetric difference of all members (fold of `xor`, seed ∅) -/
def xorL (l : List BSet) : BSet := l.foldl xor []

/-- `x.AndAny(l)`: `x ∩ ⋃ l` -/
def andAny (x : BSet) (l : List BSet) : BSet := inter x (unionL l)

end RModel.BSet
