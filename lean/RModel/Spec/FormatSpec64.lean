import RModel.Spec.FormatSpec
/-!
An independent reading of the 64-bit extension of the Roaring format specification
("Extension for 64-bit implementations" in https://github.com/RoaringBitmap/RoaringFormatSpec), the portable
format shared by Java `Roaring64NavigableMap` (portable mode), C++ `Roaring64Map` and Go `roaring64`:

1. a 64-bit little-endian unsigned integer: the number `n` of 32-bit bitmaps ("buckets");
2. `n` times: a 32-bit little-endian unsigned integer (the 32 most significant bits shared by the bucket's
   values), followed by a 32-bit Roaring bitmap in the standard format (`FormatSpec.specDecode`) holding the 32
   least significant bits;
3. buckets appear by strictly increasing key.

Additional reading used here (canonical streams only): a bucket is never empty.  A stream with an empty bucket
denotes a set as well, but no writer produces it; the checker treats it as "not spec-valid" and then accepts
either an error or any bitmap from the decoder (it only insists that the decoder does not panic).
-/
namespace RModel.FormatSpec
open RModel

def u64 (b : Bytes) (i : Nat) : Option Nat := do
  let lo ← u32 b i
  let hi ← u32 b (i + 4)
  pure (lo + 4294967296 * hi)

/-- decode `n` buckets starting at byte `pos`; `prev` = previous key + 1 (0 at the start) -/
def buckets64 (b : Bytes) : Nat → Nat → Nat → List BSet → Option (List BSet × Nat)
  | 0, pos, _, acc => some (acc.reverse, pos)
  | n + 1, pos, prev, acc => do
    let key ← u32 b pos
    if key < prev then none
    let inner ← specDecode (b.extract (pos + 4) b.size)
    if inner.set.isEmpty then none
    buckets64 b n (pos + 4 + inner.consumed) (key + 1) (BSet.shiftUp inner.set (key * 4294967296) :: acc)

/-- `specDecode64 bytes = some ⟨S, m⟩`: the first `m` bytes are a spec-conformant 64-bit stream encoding `S` -/
def specDecode64 (b : Bytes) : Option Decoded := do
  let n ← u64 b 0
  -- every bucket takes at least 4 + 8 bytes: an honest count never exceeds the stream length
  if n * 12 + 8 > b.size then none
  let (sets, p) ← buckets64 b n 8 0 []
  pure { set := Driver.unionAll sets, consumed := p }

end RModel.FormatSpec
