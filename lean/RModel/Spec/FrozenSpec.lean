import RModel.Spec.BSet
import RModel.Driver.Util
/-!
An independent reading of the CRoaring *frozen* serialization layout, written from the layout description that
CRoaring carries in `src/roaring.c` ("FROZEN SERIALIZATION FORMAT DESCRIPTION", quoted verbatim in
`/repo/serialization_littleendian.go`) and sharing no definition with `Impl/Frozen.lean`.
All constants are literals.

The reading used here (so that a reviewer can compare it with the description):

1. *Trailer.*  The stream is described back to front.  Its last 4 bytes are `<header>`, a little-endian 32-bit word
   that is the bit union of a 15-bit cookie (the 15 least significant bits, which must equal 13766 =
   `FROZEN_COOKIE`) and the number of containers `n` in the remaining 17 most significant bits.
   A 32-bit bitmap has at most 65536 containers.
2. Immediately before the header: `<typecodes>`, `n` bytes; before them `<counts>`, `n` little-endian 16-bit words;
   before them `<keys>`, `n` little-endian 16-bit words.  `keys[i]` holds the 16 most significant bits of the values
   of container `i`; containers appear in strictly increasing key order.
3. The type code of a container is CRoaring's container type number: 1 = bitset (`BITSET_CONTAINER_TYPE`),
   2 = array (`ARRAY_CONTAINER_TYPE`), 3 = run (`RUN_CONTAINER_TYPE`).  (4, the copy-on-write "shared" wrapper, never
   appears in a stream.)
4. `counts[i]` is the cardinality minus one for bitset and array containers and the number of runs for run containers.
5. The stream *begins* with three flat arenas, each holding the data of all containers of one type in container order:
   `<bitset_data>`: 1024 little-endian 64-bit words (8192 bytes) per bitset container, bit `j % 64` of word `j / 64`
   (= bit `j % 8` of byte `j / 8`) set iff the container holds low value `j`;
   `<run_data>`: per run an `rle16_t`, i.e. two little-endian 16-bit words (value, length) denoting the values
   `value .. value + length` (length is the number of values minus one), runs sorted and non-overlapping;
   `<array_data>`: the values of the array containers as sorted little-endian 16-bit words.
6. The seven members follow each other without padding, so the total length is exactly
   `8192·#bitset + 4·Σruns + 2·Σarray + 5·n + 4`.
7. A container is never empty; the declared cardinality of a bitset container equals its population count.

The reading does not impose the array/bitset size threshold (4096): the layout description does not.
-/
namespace RModel.FrozenSpec
open RModel

abbrev Bytes := Array UInt8

def u8 (b : Bytes) (i : Nat) : Option Nat := b[i]?.map (·.toNat)

def u16 (b : Bytes) (i : Nat) : Option Nat := do
  let lo ← u8 b i
  let hi ← u8 b (i + 1)
  pure (lo + 256 * hi)

def ascending : List Nat → Bool
  | a :: c :: t => a < c && ascending (c :: t)
  | _ => true

/-- runs (value, length) sorted and pairwise disjoint, inside the 16-bit range -/
def runsDisjoint : List (Nat × Nat) → Bool
  | [(v, l)] => v + l ≤ 65535
  | (v, l) :: (v', l') :: t => v + l < v' && runsDisjoint ((v', l') :: t)
  | [] => true

/-- boundary list and population count of the 8192-byte bitset stored at byte `pos`, shifted by `base` -/
def bitset (b : Bytes) (pos base : Nat) : Option (BSet × Nat) := do
  let mut out : Array Nat := #[]
  let mut prev := false
  let mut count := 0
  for k in [0:8192] do
    let byte ← u8 b (pos + k)
    for t in [0:8] do
      let bit := byte / 2 ^ t % 2 == 1
      if bit then count := count + 1
      if bit != prev then out := out.push (base + 8 * k + t)
      prev := bit
  if prev then out := out.push (base + 65536)
  pure (out.toList, count)

/-- `frozenSpecDecode bytes = some S` : `bytes` is a conformant frozen stream and encodes the set `S` -/
def frozenSpecDecode (b : Bytes) : Option BSet := do
  let len := b.size
  if len < 4 then none
  let hlo ← u16 b (len - 4)
  let hhi ← u16 b (len - 2)
  let header := hlo + 65536 * hhi
  if header % 32768 != 13766 then none
  let n := header / 32768
  if n > 65536 then none
  if len < 4 + 5 * n then none
  let typesAt := len - 4 - n
  let countsAt := typesAt - 2 * n
  let keysAt := countsAt - 2 * n
  let mut bitsetAt := 0
  -- sizes of the arenas, from the type codes and counts
  let mut nBitset := 0
  let mut nRuns := 0
  let mut nVals := 0
  for i in [0:n] do
    let t ← u8 b (typesAt + i)
    let c ← u16 b (countsAt + 2 * i)
    if t == 1 then nBitset := nBitset + 1
    else if t == 2 then nVals := nVals + c + 1
    else if t == 3 then nRuns := nRuns + c
    else none
  let mut runAt := 8192 * nBitset
  let mut arrayAt := runAt + 4 * nRuns
  if arrayAt + 2 * nVals != keysAt then none
  let mut sets : Array BSet := #[]
  let mut prevKey : Option Nat := none
  for i in [0:n] do
    let t ← u8 b (typesAt + i)
    let c ← u16 b (countsAt + 2 * i)
    let key ← u16 b (keysAt + 2 * i)
    if let some p := prevKey then
      if key ≤ p then none
    prevKey := some key
    let base := key * 65536
    if t == 1 then
      let (s, cnt) ← bitset b bitsetAt base
      if cnt != c + 1 then none
      sets := sets.push s
      bitsetAt := bitsetAt + 8192
    else if t == 2 then
      let vs ← (List.range (c + 1)).mapM fun k => u16 b (arrayAt + 2 * k)
      if !ascending vs then none
      sets := sets.push (Driver.unionAll (vs.map fun v => [base + v, base + v + 1]))
      arrayAt := arrayAt + 2 * (c + 1)
    else
      if c == 0 then none
      let rs ← (List.range c).mapM fun k => do
        let v ← u16 b (runAt + 4 * k)
        let l ← u16 b (runAt + 4 * k + 2)
        pure (v, l)
      if !runsDisjoint rs then none
      sets := sets.push (Driver.unionAll (rs.map fun (v, l) => [base + v, base + v + l + 1]))
      runAt := runAt + 4 * c
  pure (Driver.unionAll sets.toList)

end RModel.FrozenSpec
