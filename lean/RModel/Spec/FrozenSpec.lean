import RModel.Spec.BSet
import RModel.Driver.Util
/-!
An independent reading of the CRoaring *frozen* serialization layout, written from the layout description that
CRoaring carries in `src/roaring.c` ("FROZEN SERIALIZATION FORMAT DESCRIPTION", quoted verbatim in
`/repo/serialization_littleendian.go`) and sharing no definition with `Impl/Frozen.lean`.
All constants are literals.

The reading used here (so that a reviewer can compare it with the description):

1. *Trailer.*  The stream is described back to front.  Its last 4 bytes are `<header>`, a little-endian 32-bit word
   that is the bit union of a 15-bit cookie (the 15 least significant bits, which must equal 13766 =
   `FROZEN_COOKIE`) and the number of containers `n` in the remaining 17 most significant bits.
   A 32-bit bitmap has at most 65536 containers.
2. Immediately before the header: `<typecodes>`, `n` bytes; before them `<counts>`, `n` little-endian 16-bit words;
   before them `<keys>`, `n` little-endian 16-bit words.  `keys[i]` holds the 16 most significant bits of the values
   of container `i`; containers appear in strictly increasing key order.
3. The type code of a container is CRoaring's container type number: 1 = bitset (`BITSET_CONTAINER_TYPE`),
   2 = array (`ARRAY_CONTAINER_TYPE`), 3 = run (`RUN_CONTAINER_TYPE`).  (4, the copy-on-write "shared" wrapper, never
   appears in a stream.)
4. `counts[i]` is the cardinality minus one for bitset and array containers and the number of runs for run containers.
5. The stream *begins* with three flat arenas, each holding the data of all containers of one type in container order:
   `<bitset_data>`: 1024 little-endian 64-bit words (8192 bytes) per bitset container, bit `j % 64` of word `j / 64`
   (= bit `j % 8` of byte `j / 8`) set iff the container holds low value `j`;
   `<run_data>`: per run an `rle16_t`, i.e. two little-endian 16-bit words (value, length) denoting the values
   `value .. value + length` (length is the number of values minus one), runs sorted and non-overlapping;
   `<array_data>`: the values of the array containers as sorted little-endian 16-bit words.
6. The seven members follow each other without padding, so the total length is exactly
   `8192·#bitset + 4·Σruns + 2·Σarray + 5·n + 4`.
7. A container is never empty; the declared cardinality of a bitset container equals its population count.

The reading does not impose the array/bitset size threshold (4096): the layout description does not.
-/
namespace RModel.FrozenSpec
open RModel

abbrev Bytes := Array UInt8

def u8 (b : Bytes) (i : Nat) : Option Nat := b[i]?.map (·.toNat)

def u16 (b : Bytes) (i : Nat) : Option Nat :=
  match u8 b i, u8 b (i + 1) with
  | some lo, some hi => some (lo + 256 * hi)
  | _, _ => none

/-- `cnt` consecutive bytes starting at byte `pos` -/
def bytes8 (b : Bytes) : (pos cnt : Nat) → Option (List Nat)
  | _, 0 => some []
  | pos, cnt + 1 =>
    match u8 b pos, bytes8 b (pos + 1) cnt with
    | some x, some xs => some (x :: xs)
    | _, _ => none

/-- `cnt` consecutive little-endian 16-bit words starting at byte `pos` -/
def words16 (b : Bytes) : (pos cnt : Nat) → Option (List Nat)
  | _, 0 => some []
  | pos, cnt + 1 =>
    match u16 b pos, words16 b (pos + 2) cnt with
    | some x, some xs => some (x :: xs)
    | _, _ => none

/-- consecutive words taken two by two: the `rle16_t` records (value, length) -/
def rlePairs : List Nat → List (Nat × Nat)
  | v :: l :: t => (v, l) :: rlePairs t
  | _ => []

def ascending : List Nat → Bool
  | a :: c :: t => a < c && ascending (c :: t)
  | _ => true

/-- runs (value, length) sorted and pairwise disjoint, inside the 16-bit range -/
def runsDisjoint : List (Nat × Nat) → Bool
  | [(v, l)] => v + l ≤ 65535
  | (v, l) :: (v', l') :: t => v + l < v' && runsDisjoint ((v', l') :: t)
  | [] => true

/-- the 8 bits of a byte, least significant first -/
def bitsOfByte (x : Nat) : List Bool := (List.range 8).map fun t => x / 2 ^ t % 2 == 1

/-- boundaries of `{pos + j | bits[j]}` (`prev` = the bit just below `pos`): one wherever consecutive bits differ, and
a closing one after the last bit if it is set -/
def boundaries : (pos : Nat) → (prev : Bool) → List Bool → BSet
  | pos, prev, [] => if prev then [pos] else []
  | pos, prev, bit :: t => if bit != prev then pos :: boundaries (pos + 1) bit t else boundaries (pos + 1) prev t

/-- boundary list and population count of the 8192-byte bitset stored at byte `pos`, shifted by `base` -/
def bitset (b : Bytes) (pos base : Nat) : Option (BSet × Nat) :=
  match bytes8 b pos 8192 with
  | none => none
  | some bytes =>
    -- low value j = bit (j % 8) of byte (j / 8)
    let bits := bytes.flatMap bitsOfByte
    some (boundaries base false bits, bits.count true)

/-- sizes of the arenas, from the type codes and counts of containers `i, i+1, …, i+cnt-1`:
(number of bitset containers, total number of runs, total number of array values), added to the given totals -/
def arenaSizes (b : Bytes) (typesAt countsAt : Nat) : (i cnt : Nat) → (nBitset nRuns nVals : Nat) → Option (Nat × Nat × Nat)
  | _, 0, nBitset, nRuns, nVals => some (nBitset, nRuns, nVals)
  | i, cnt + 1, nBitset, nRuns, nVals =>
    match u8 b (typesAt + i), u16 b (countsAt + 2 * i) with
    | some t, some c =>
      if t == 1 then arenaSizes b typesAt countsAt (i + 1) cnt (nBitset + 1) nRuns nVals
      else if t == 2 then arenaSizes b typesAt countsAt (i + 1) cnt nBitset nRuns (nVals + c + 1)
      else if t == 3 then arenaSizes b typesAt countsAt (i + 1) cnt nBitset (nRuns + c) nVals
      else none
    | _, _ => none

/-- containers appear in strictly increasing key order (`prevKey` = key of the previous container, if any) -/
def keyAfter (prevKey : Option Nat) (key : Nat) : Bool :=
  match prevKey with
  | some p => p < key
  | none => true

/-- the sets of containers `i, i+1, …, i+cnt-1`; `prevKey` = key of container `i-1`; `bitsetAt`, `runAt`, `arrayAt` =
where the data of the next container of each type starts in its arena -/
def containerSets (b : Bytes) (typesAt countsAt keysAt : Nat) :
    (i cnt : Nat) → (prevKey : Option Nat) → (bitsetAt runAt arrayAt : Nat) → Option (List BSet)
  | _, 0, _, _, _, _ => some []
  | i, cnt + 1, prevKey, bitsetAt, runAt, arrayAt =>
    match u8 b (typesAt + i), u16 b (countsAt + 2 * i), u16 b (keysAt + 2 * i) with
    | some t, some c, some key =>
      if !keyAfter prevKey key then none else
      let base := key * 65536
      if t == 1 then
        match bitset b bitsetAt base with
        | none => none
        | some (s, n) =>
          if n != c + 1 then none else
          (containerSets b typesAt countsAt keysAt (i + 1) cnt (some key) (bitsetAt + 8192) runAt arrayAt).map (s :: ·)
      else if t == 2 then
        match words16 b arrayAt (c + 1) with
        | none => none
        | some vs =>
          if !ascending vs then none else
          (containerSets b typesAt countsAt keysAt (i + 1) cnt (some key) bitsetAt runAt (arrayAt + 2 * (c + 1))).map
            (Driver.unionAll (vs.map fun v => [base + v, base + v + 1]) :: ·)
      else
        if c == 0 then none else
        match words16 b runAt (2 * c) with
        | none => none
        | some ws =>
          let rs := rlePairs ws
          if !runsDisjoint rs then none else
          (containerSets b typesAt countsAt keysAt (i + 1) cnt (some key) bitsetAt (runAt + 4 * c) arrayAt).map
            (Driver.unionAll (rs.map fun (v, l) => [base + v, base + v + l + 1]) :: ·)
    | _, _, _ => none

/-- `frozenSpecDecode bytes = some S` : `bytes` is a conformant frozen stream and encodes the set `S` -/
def frozenSpecDecode (b : Bytes) : Option BSet :=
  let len := b.size
  if len < 4 then none else
  match u16 b (len - 4), u16 b (len - 2) with
  | some hlo, some hhi =>
    let header := hlo + 65536 * hhi
    if header % 32768 != 13766 then none else
    let n := header / 32768
    if n > 65536 then none else
    if len < 4 + 5 * n then none else
    let typesAt := len - 4 - n
    let countsAt := typesAt - 2 * n
    let keysAt := countsAt - 2 * n
    -- sizes of the arenas, from the type codes and counts
    match arenaSizes b typesAt countsAt 0 n 0 0 0 with
    | none => none
    | some (nBitset, nRuns, nVals) =>
      let runAt := 8192 * nBitset
      let arrayAt := runAt + 4 * nRuns
      if arrayAt + 2 * nVals != keysAt then none else
      (containerSets b typesAt countsAt keysAt 0 n none 0 runAt arrayAt).map Driver.unionAll
  | _, _ => none

end RModel.FrozenSpec
