/-
L1: the verified executable oracle.

A set of naturals is represented by the strictly increasing list of its *boundaries*:
`x` is a member iff the number of boundaries `≤ x` is odd.  `[lo₀, hi₀, lo₁, hi₁, …]` therefore
denotes `[lo₀,hi₀) ∪ [lo₁,hi₁) ∪ …`, and a strictly increasing boundary list is automatically a
list of non-empty, disjoint, NON-ADJACENT half-open intervals (canonical form).  All Boolean
operations are one sweep (`combine`) parameterised by the truth table, so one theorem
(`mem_combine`, in RProofs) gives the meaning of and/or/xor/andNot at once, and uniqueness of
canonical forms (`canon_ext`) turns "same printed line" into "same set".

Core Lean only (this file is linked into the compiled driver).
-/
namespace RModel

abbrev BSet := List Nat

namespace BSet

/-- L0 membership: parity of the number of boundaries `≤ x`. -/
def mem : BSet → Nat → Bool
  | [], _ => false
  | b :: t, x => if x < b then false else !(mem t x)

/-- Canonical form within universe `[0,U)`: strictly increasing, bounded by `U`, even length. -/
def Canon (U : Nat) (s : BSet) : Prop :=
  s.Pairwise (· < ·) ∧ (∀ b ∈ s, b ≤ U) ∧ s.length % 2 = 0

/-- emit boundary `x` iff the output state changes -/
@[inline] def emit (c : Bool) (x : Nat) (r : BSet) : BSet := if c then x :: r else r

/-- Generic sweep. `ia`,`ib` are the current membership states of the two operands. -/
def combine (f : Bool → Bool → Bool) : (a b : BSet) → (ia ib : Bool) → BSet
  | [], [], _, _ => []
  | x :: a, [], ia, ib => emit (f (!ia) ib != f ia ib) x (combine f a [] (!ia) ib)
  | [], y :: b, ia, ib => emit (f ia (!ib) != f ia ib) y (combine f [] b ia (!ib))
  | x :: a, y :: b, ia, ib =>
      if x < y then emit (f (!ia) ib != f ia ib) x (combine f a (y :: b) (!ia) ib)
      else if y < x then emit (f ia (!ib) != f ia ib) y (combine f (x :: a) b ia (!ib))
      else emit (f (!ia) (!ib) != f ia ib) x (combine f a b (!ia) (!ib))
termination_by a b => a.length + b.length

def union (a b : BSet) : BSet := combine (· || ·) a b false false
def inter (a b : BSet) : BSet := combine (· && ·) a b false false
def xor (a b : BSet) : BSet := combine (· != ·) a b false false
def diff (a b : BSet) : BSet := combine (fun p q => p && !q) a b false false

/-- `[lo,hi)`; empty when `hi ≤ lo`. -/
def range (lo hi : Nat) : BSet := if lo < hi then [lo, hi] else []

def single (x : Nat) : BSet := [x, x + 1]

def compl (U : Nat) (s : BSet) : BSet := xor s (range 0 U)

def add (s : BSet) (x : Nat) : BSet := union s (single x)
def remove (s : BSet) (x : Nat) : BSet := diff s (single x)
def addRange (s : BSet) (lo hi : Nat) : BSet := union s (range lo hi)
def removeRange (s : BSet) (lo hi : Nat) : BSet := diff s (range lo hi)
def flipRange (s : BSet) (lo hi : Nat) : BSet := xor s (range lo hi)

/-- number of members `< n` -/
def rankLt : BSet → Nat → Nat
  | lo :: hi :: t, n => (min hi n - min lo n) + rankLt t n
  | _, _ => 0

def card : BSet → Nat
  | lo :: hi :: t => (hi - lo) + card t
  | _ => 0

/-- the `i`-th smallest member (0-based) -/
def select : BSet → Nat → Option Nat
  | lo :: hi :: t, i => if i < hi - lo then some (lo + i) else select t (i - (hi - lo))
  | _, _ => none

def minimum : BSet → Option Nat
  | lo :: _ :: _ => some lo
  | _ => none

def maximum : BSet → Option Nat
  | [_, hi] => some (hi - 1)
  | _ :: _ :: t => maximum t
  | _ => none

/-- least member `≥ t` -/
def nextValue : BSet → Nat → Option Nat
  | lo :: hi :: rest, t => if t < hi then some (max lo t) else nextValue rest t
  | _, _ => none

/-- greatest member `≤ t` -/
def prevValueAux : BSet → Nat → Option Nat → Option Nat
  | lo :: hi :: rest, t, acc => if t < lo then acc else prevValueAux rest t (some (min (hi - 1) t))
  | _, _, acc => acc

def prevValue (s : BSet) (t : Nat) : Option Nat := prevValueAux s t none

/-- least non-member `≥ t` (always exists in ℕ; callers compare with the universe bound) -/
def nextAbsent : BSet → Nat → Nat
  | lo :: hi :: rest, t => if t < lo then t else if t < hi then hi else nextAbsent rest t
  | _, t => t

/-- greatest non-member `≤ t`, if any -/
def prevAbsentAux : BSet → Nat → Option Nat
  | lo :: hi :: rest, t =>
      if t < lo then some t
      else if t < hi then (if lo = 0 then none else some (lo - 1))
      else prevAbsentAux rest t
  | _, t => some t

def prevAbsent (s : BSet) (t : Nat) : Option Nat := prevAbsentAux s t

def cardInRange (s : BSet) (lo hi : Nat) : Nat := rankLt s hi - rankLt s lo

def isEmpty (s : BSet) : Bool := List.isEmpty s

/-- shift every member up by `k` -/
def shiftUp (s : BSet) (k : Nat) : BSet := s.map (· + k)

/-- toggle a boundary at `0` -/
def toggle0 : BSet → BSet
  | 0 :: r => r
  | r => 0 :: r

/-- shift every member down by `k`, dropping what falls below `0` -/
def shiftDown : BSet → Nat → BSet
  | [], _ => []
  | b :: t, k => if b ≤ k then toggle0 (shiftDown t k) else (b - k) :: t.map (· - k)

/-- `{v + d | v ∈ s, 0 ≤ v + d < U}` -/
def shift (U : Nat) (s : BSet) (d : Int) : BSet :=
  inter (if d ≥ 0 then shiftUp s d.toNat else shiftDown s (-d).toNat) (range 0 U)

/-- restriction to `[lo,hi)` -/
def restrict (s : BSet) (lo hi : Nat) : BSet := inter s (range lo hi)

/-- the members as a list (only use on small sets) -/
def toList : BSet → List Nat
  | lo :: hi :: t => (List.range' lo (hi - lo)) ++ toList t
  | _ => []

def ofList (l : List Nat) : BSet := l.foldl add []

/-- Build from a *sorted* list of inclusive pairs without the quadratic fold. -/
def ofPairsSorted : List (Nat × Nat) → BSet
  | [] => []
  | (lo, hi) :: t => union [lo, hi + 1] (ofPairsSorted t)

end BSet
end RModel
