import RModel.Impl.Serial
import RModel.Impl.Rep64
/-!
L2: the 64-bit portable serializer and deserializer — `(*roaring64.Bitmap).WriteTo`, `GetSerializedSizeInBytes`,
`ReadFrom`, `FromUnsafeBytes` (`UnmarshalBinary`, `FromBase64` are `ReadFrom` on a `bytes.Reader` / `bytes.Buffer`) and
`Validate` — over a byte list, on the bucket representation `Rep64` of `Impl/Rep64.lean`.

How the Go code is read (`/repo/roaring64/roaring64.go`, `/repo/roaring64/roaringarray64.go`):

* `WriteTo`: 8 bytes little-endian `uint64(highlowcontainer.size())`, then per bucket, in array order, the 4-byte
  little-endian key followed by the bucket's 32-bit `WriteTo` (`Rep.encode`).  Flags and the copy-on-write switch are not
  written.  `serializedSizeInBytes` = `8 + Σ (4 + bucket.GetSerializedSizeInBytes())`.
* `ReadFrom` / `FromUnsafeBytes`: read the 8-byte count (`io.ReadFull` / `ByteBuffer.Next(8)`: fewer than 8 bytes is an
  error), `highlowcontainer.resize(0)` (which keeps the receiver's `copyOnWrite` switch: `Rep64.readInto`), then
  `for i := uint64(0); i < size; i++`: read the 4-byte key (error when fewer than 4 bytes remain), run the 32-bit reader
  (`decode`) on a fresh `roaring.NewBitmap()`, `if n == 0 || err != nil { return error }`, `appendContainer(key, bm, false)`.
  **The count is untrusted and NOT bounded by any check**; it only bounds the loop.  The arrays grow one `append` per bucket
  actually read, and every iteration consumes at least `4 + 8` bytes or fails, so the loop makes at most
  `(len - 8) / 12` successful iterations whatever the count says (`Serial64.readBuckets` is structurally recursive on the
  count but stops at the first failing read).  Nothing else is checked by the readers: keys in any order, duplicate keys,
  empty buckets (`12346, 0`) and whatever the 32-bit reader lets through are accepted; all of that is left to `Validate`.
  `ReadFrom` on an `io.Reader` wraps the reader in a `ByteInputAdapter` (`NextReturnsSafeSlice() = true`: containers are
  copied, flags off); `FromUnsafeBytes` hands the shared `ByteBuffer` to the 32-bit reader (`false`: every container is a
  view into the caller's buffer and is flagged).  That is the only difference between the two (`zeroCopy`).
  Bytes after the last bucket are not looked at; the number returned is the number of bytes consumed.
* `Validate` (`roaringArray64.validate`): keys strictly increasing (`checkKeysSorted`), then per bucket the 32-bit
  `Validate` and `!IsEmpty()`.  (The two length comparisons of the parallel slices cannot fail on a value of type `Rep64`.)

Core Lean only, executable (linked into the compiled checker).
-/
namespace RModel.Impl
open RModel

/-! ### writer -/

/-- `(*roaring64.Bitmap).WriteTo` / `ToBytes` / `MarshalBinary` -/
def Rep64.encode (P : SerParams) (r : Rep64) : Bytes :=
  le64 r.buckets.length ++ r.buckets.flatMap fun b => le32 b.high ++ b.bm.encode P

/-- `roaringArray64.serializedSizeInBytes` (`GetSerializedSizeInBytes`) -/
def Rep64.serializedSize (P : SerParams) (r : Rep64) : Nat :=
  8 + (r.buckets.map fun b => 4 + b.bm.serializedSize P).sum

/-! ### reader -/

/-- 8 bytes little-endian -/
def rd64 (bs : Bytes) : Option (Nat × Bytes) :=
  match rd32 bs with
  | none => none
  | some (lo, bs1) =>
    match rd32 bs1 with
    | none => none
    | some (hi, bs2) => some (lo + 4294967296 * hi, bs2)

namespace Serial64

/-- the bucket loop `for i := uint64(0); i < size; i++ { key; bm.ReadFrom(stream); appendContainer }`:
the buckets read and the unread rest of the stream -/
def readBuckets (P : SerParams) (flag : Bool) : Nat → Bytes → Outcome (List Bucket × Bytes)
  | 0, bs => .ok ([], bs)
  | n + 1, bs =>
    match rd32 bs with
    | none => .err                                   -- "could not read key #i"
    | some (key, bs1) =>
      match decode P flag bs1 with
      | .err => .err                                 -- "Could not deserialize bitmap for key #i"
      | .panic => .panic
      | .ok (bm, m) =>
        if m = 0 then .err else                      -- `n == 0` (never true: a successful 32-bit read consumes ≥ 4 bytes)
        match readBuckets P flag n (bs1.drop m) with
        | .ok (l, rest) => .ok ({ high := key, bm := bm, flag := false } :: l, rest)
        | .err => .err
        | .panic => .panic

end Serial64

/-- `ReadFrom` (`zeroCopy = false`) / `FromUnsafeBytes` (`zeroCopy = true`) into a fresh `roaring64.New()`:
the representation built and the number of bytes consumed -/
def decode64 (P : SerParams) (zeroCopy : Bool) (bs : Bytes) : Outcome (Rep64 × Nat) :=
  match rd64 bs with
  | none => .err
  | some (count, bs1) =>
    match Serial64.readBuckets P zeroCopy count bs1 with
    | .ok (l, rest) => .ok ({ cow := false, buckets := l }, bs.length - rest.length)
    | .err => .err
    | .panic => .panic

/-- the same readers called on an existing bitmap: `resize(0)` drops the buckets and keeps the `copyOnWrite` switch -/
def Rep64.readInto (P : SerParams) (zeroCopy : Bool) (recv : Rep64) (bs : Bytes) : Outcome (Rep64 × Nat) :=
  match decode64 P zeroCopy bs with
  | .ok (r, n) => .ok ({ cow := recv.cow, buckets := r.buckets }, n)
  | .err => .err
  | .panic => .panic

/-! ### `Validate` -/

/-- `roaringArray64.validate() == nil` -/
def Rep64.validate (r : Rep64) : Bool :=
  strictInc (r.buckets.map (·.high)) && r.buckets.all fun b => b.bm.validate && !b.bm.isEmptyGo

/-- what a reader builds from the encoding of `r`: switch off, bucket flags off, every inner bitmap as the 32-bit reader
builds it (`Rep.asDecoded` of `RProofs/Properties/C05.lean`, restated here so that the checker can use it) -/
def Rep64.asDecoded (r : Rep64) (flag : Bool) : Rep64 :=
  { cow := false,
    buckets := r.buckets.map fun b =>
      { high := b.high, bm := { cow := false, slots := b.bm.slots.map fun s => { s with flag := flag } }, flag := false } }

end RModel.Impl
