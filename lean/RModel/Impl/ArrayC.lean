import RModel.Spec.BSet
/-!
L2: the sorted-array kernels of `setutil.go` (`union2by2`, `intersection2by2`, `difference`,
`exclusiveUnion2by2` and their cardinality-only variants) as structural recursions that follow the Go
two-pointer loops: one step of the Go loop = one unfolding (`s1 < s2` / `s1 == s2` / `s1 > s2`, with the
"copy the rest" exits when one side is exhausted).  Values are `Nat` (`uint16` in Go; no arithmetic is done on them).
Core Lean only.
-/
namespace RModel.ArrayC

def union2by2 : List Nat → List Nat → List Nat
  | [], ys => ys
  | xs, [] => xs
  | x :: xs, y :: ys =>
      if x < y then x :: union2by2 xs (y :: ys)
      else if x = y then x :: union2by2 xs ys
      else y :: union2by2 (x :: xs) ys

def intersection2by2 : List Nat → List Nat → List Nat
  | [], _ => []
  | _, [] => []
  | x :: xs, y :: ys =>
      if x < y then intersection2by2 xs (y :: ys)
      else if x = y then x :: intersection2by2 xs ys
      else intersection2by2 (x :: xs) ys

def difference : List Nat → List Nat → List Nat
  | [], _ => []
  | xs, [] => xs
  | x :: xs, y :: ys =>
      if x < y then x :: difference xs (y :: ys)
      else if x = y then difference xs ys
      else difference (x :: xs) ys

def exclusiveUnion2by2 : List Nat → List Nat → List Nat
  | [], ys => ys
  | xs, [] => xs
  | x :: xs, y :: ys =>
      if x < y then x :: exclusiveUnion2by2 xs (y :: ys)
      else if x = y then exclusiveUnion2by2 xs ys
      else y :: exclusiveUnion2by2 (x :: xs) ys

def union2by2Cardinality (a b : List Nat) : Nat := (union2by2 a b).length
def intersection2by2Cardinality (a b : List Nat) : Nat := (intersection2by2 a b).length

/-- `intersects` on two sorted arrays: early exit on the first common value -/
def intersects2by2 : List Nat → List Nat → Bool
  | [], _ => false
  | _, [] => false
  | x :: xs, y :: ys =>
      if x < y then intersects2by2 xs (y :: ys)
      else if x = y then true
      else intersects2by2 (x :: xs) ys

/-- `binarySearch`-style membership on a sorted array (the model only needs its meaning) -/
def contains (a : List Nat) (v : Nat) : Bool := a.contains v

/-- `rank(x)`: number of values `≤ x` -/
def rank (a : List Nat) (x : Nat) : Nat := (a.filter (· ≤ x)).length

/-- `selectInt(i)` -/
def select (a : List Nat) (i : Nat) : Option Nat := a[i]?

/-- the re-typing decision after an array kernel: more than `arrayMax` values become a bitmap container -/
def fitsArray (arrayMax : Nat) (a : List Nat) : Bool := a.length ≤ arrayMax

end RModel.ArrayC
