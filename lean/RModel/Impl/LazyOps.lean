import RModel.Impl.Repr
import RModel.Impl.ContOps
import RModel.Impl.RepOps
/-!
L2: the many-way aggregates of `fastaggregation.go` on the stored representation — the LAZY union (`lazyOR`, static and
in-place, with the deferred cached cardinality `invalidCardinality = -1`), the repair step `repairAfterLazy`, and `FastOr`
built from them.  As everywhere at L2 the functions return **the representation the Go function returns** (keys, container
kinds / payloads / cached cardinalities, `needCopyOnWrite` flags, the `copyOnWrite` switch) for well-formed operands.

How the Go code is read.

Container kernels `c1.lazyOR(c2)` (fresh result) — `Cont.lazyOR2`:
* array × array   `lazyorArray`: `len a + len b > arrayLazyLowerBound (1024)` → fresh bitmap with the bits of both set and
                  `cardinality = -1` (NOT counted, never re-typed here); otherwise the two-pointer `union2by2`.
* array × bitmap  → `bitmap.lazyOR(array)` = `lazyORArray`: clone the bitmap, set one bit per value, `cardinality = -1`.
* bitmap × bitmap `lazyORBitmap`: word-wise or into a fresh bitmap, `cardinality = -1`.
* anything × FULL run → `x.clone()`.
* array × run     → `run.orArray(array)` (not lazy: `runOrArr`, exact `toEfficientContainer` typing).
* bitmap × run    → `run.orBitmapContainer(bitmap)` = `newBitmapContainerFromRun(run).iorBitmap(bitmap)` (not lazy: exact
                  cardinality, a full result becomes the run container `[0,65535]`).
* run × anything  `runContainer16.lazyOR` = `rc.or(a)` ("not lazy at the moment") = `Cont.or2 (.run _) _`.

Container kernels `c1.lazyIOR(c2)` (in place on `c1`) — `Cont.lazyIOR2`:
* array × array   `iorArray`: in-place `union2by2`; more than 4096 values → `toBitmapContainer()` with the EXACT cardinality.
* array × bitmap  `iorBitmap`: `bc1 := ac.toBitmapContainer(); bc1.iorBitmap(bc2); return bc1` — the value returned by the
                  inner `iorBitmap` (which would be a run container for a full result) is DROPPED: always a bitmap with the
                  exact cardinality, even when full (65536).
* array × run     full → clone of the run; `iorRun16`: if `card(run) < len a` and `card(run) + len a < 4096` the ranges are
                  added to the array one by one (`iaddRange`, stays an array), else `run.orArray(array)`.
* bitmap × array / bitmap / non-full run: bits set in place, `cardinality = -1`.  bitmap × full run → clone of the run.
* run × anything  `runContainer16.lazyIOR` = `rc.ior(a)`: a full receiver is returned as is; run × run `inplaceUnion` (add value by
                  value, then `toEfficientContainer`), run × array `iorArray`, run × bitmap `orBitmapContainer` — the same
                  representations as `rc.or(a)`.

Bitmap level:
* `lazyOR(x1, x2)` (static) is `Or` with the lazy kernel: fresh answer (`copyOnWrite = false`), lone keys `appendCopy`
  (shared and flagged iff the source slot is flagged, see `RepOps.copySlot`), equal keys `appendContainer(key, c1.lazyOR(c2), false)`.
* `x1.lazyOR(x2)` (in place): receiver-only keys are left alone (flag and all); an argument-only key in the middle is inserted
  as `clone()` with flag off; trailing argument keys are `appendCopy`d (`(x1.cow && x2.cow) || flag`); equal keys:
  `getWritableContainerAtIndex` (clone when flagged), **a non-full run receiver is first turned into a bitmap by
  `runContainer16.toBitmapContainer()`** — whose cached cardinality is TWICE the real one (it adds `runlen` and then `iaddRange`
  adds the change again; modelled as is in `runToBitmapTemp`) — then `c1.lazyIOR(c2)`, flag off.
  Every `bitmapContainer.lazyIOR` branch either overwrites the cardinality with −1 or returns a clone of a full run argument, so
  the doubled cardinality never leaves this function.
* `repairAfterLazy`: exactly the bitmap containers with `cardinality == -1` are made writable (flag off), counted, and re-typed:
  `≤ 4096` → array, full → run `[0,65535]`, else bitmap with the exact cardinality.  Everything else is left as it is — in
  particular a FULL bitmap container with an exact cardinality of 65536 produced by array × bitmap `lazyIOR` stays a bitmap.
* `FastOr`: 0 inputs → `NewBitmap()`; 1 input → `Clone()` (with `copyOnWrite` on: containers shared, ALL flags set on BOTH sides —
  the only case in which an operand's representation changes, `Rep.cloneSrc`); ≥ 2 → static `lazyOR` of the first two, in-place
  `lazyOR` of every further input, `repairAfterLazy`.
* `FastAnd`: 0 → `NewBitmap()`; 1 → `Clone()`; ≥ 2 → static `And` of the first two, in-place `And` of the rest (`Rep.aggIand2`,
  container kernels `Cont.aggIand2`).

Core Lean only, executable (linked into the compiled checker).
-/
namespace RModel.Impl
open RModel
open ContOps RepOps

/-- `invalidCardinality` -/
def invalidCard : Int := -1

/-- `arrayLazyLowerBound` -/
def lazyLowerBound : Nat := 1024

/-! ### container kernels -/

/-- `c1.lazyOR(c2)` -/
def Cont.lazyOR2 : Cont → Cont → Cont
  | .arr xs, .arr ys =>
      if xs.length + ys.length > lazyLowerBound then .bmp invalidCard (xs.foldl setBit (wordsOfArr ys))
      else .arr (ArrayC.union2by2 xs ys)
  | .arr xs, .bmp _ ws => .bmp invalidCard (xs.foldl setBit ws)                 -- bc.lazyORArray(ac)
  | .arr xs, .run rs => if isFullRun rs then .run rs else runOrArr rs xs        -- x.orArray(ac)
  | .bmp _ ws, .arr ys => .bmp invalidCard (ys.foldl setBit ws)
  | .bmp _ ws1, .bmp _ ws2 => .bmp invalidCard (orW ws1 ws2)
  | .bmp _ ws, .run rs => if isFullRun rs then .run rs else ofWordsOr (orW (wordsOfRuns rs) ws)
  | .run rs, b => Cont.or2 (.run rs) b                                          -- "not lazy at the moment"

/-- `arrayContainer.iorRun16` -/
def arrIorRun (xs : List Nat) (rs : List (Nat × Nat)) : Cont :=
  if runsCard rs < xs.length && runsCard rs + xs.length < arrayMax then
    .arr (ArrayC.union2by2 xs (expandRuns rs))                                  -- iaddRange, run by run
  else runOrArr rs xs

/-- `c1.lazyIOR(c2)` (the receiver `c1` is consumed) -/
def Cont.lazyIOR2 : Cont → Cont → Cont
  | .arr xs, .arr ys =>
      let u := ArrayC.union2by2 xs ys
      if u.length > arrayMax then .bmp u.length (wordsOfArr u) else .arr u       -- iorArray
  | .arr xs, .bmp _ ws =>
      let w := orW (wordsOfArr xs) ws
      .bmp (wordsCard w) w                                                       -- iorBitmap: never re-typed
  | .arr xs, .run rs => if isFullRun rs then .run rs else arrIorRun xs rs
  | .bmp _ ws, .arr ys => .bmp invalidCard (ys.foldl setBit ws)
  | .bmp _ ws1, .bmp _ ws2 => .bmp invalidCard (orW ws1 ws2)
  | .bmp _ ws, .run rs => if isFullRun rs then .run rs else .bmp invalidCard (orW (wordsOfRuns rs) ws)
  | .run rs, b => Cont.or2 (.run rs) b                                          -- rc.ior(a)

/-- `runContainer16.toBitmapContainer()`: the words of the runs; the cached cardinality is `runlen` PLUS the change
reported by `iaddRange` for every run, i.e. twice the number of values -/
def runToBitmapTemp (rs : List (Nat × Nat)) : Cont := .bmp (2 * (runsCard rs : Int)) (wordsOfRuns rs)

/-- the receiver container handed to `lazyIOR` by the in-place `Bitmap.lazyOR`: a non-full run container is promoted -/
def promoteRun : Cont → Cont
  | .run rs => if isFullRun rs then .run rs else runToBitmapTemp rs
  | c => c

/-- the "lazy invariant" of a container inside an intermediate result of the lazy path: array and run containers are
well-formed; a bitmap container has its 1024 words and a cached cardinality that is either DEFERRED (−1, payload non-empty) or
exact and above the array threshold (a full bitmap container is allowed) -/
def Cont.lazyOk : Cont → Bool
  | .bmp c ws =>
      ws.length == 1024 &&
        ((c == invalidCard && 0 < wordsCard ws) || (c == (wordsCard ws : Int) && 4096 < wordsCard ws))
  | c => c.wf

/-! ### bitmap level -/

namespace LazyOps

/-- static `lazyOR(x1, x2)` -/
def lazyOrSlots : List Slot → List Slot → List Slot
  | [], b => b.map copySlot
  | a, [] => a.map copySlot
  | sa :: ta, sb :: tb =>
    if sa.key < sb.key then copySlot sa :: lazyOrSlots ta (sb :: tb)
    else if sb.key < sa.key then copySlot sb :: lazyOrSlots (sa :: ta) tb
    else { key := sa.key, c := sa.c.lazyOR2 sb.c, flag := false } :: lazyOrSlots ta tb
termination_by a b => a.length + b.length

/-- `x1.appendCopy(x2, i)` with `x1` the receiver of an in-place operation -/
def appendCopySlot (cow1 cow2 : Bool) (s : Slot) : Slot :=
  { key := s.key, c := s.c, flag := (cow1 && cow2) || s.flag }

/-- in-place `x1.lazyOR(x2)` -/
def lazyIorSlots (cow1 cow2 : Bool) : List Slot → List Slot → List Slot
  | [], b => b.map (appendCopySlot cow1 cow2)                                    -- pos1 == length1: appendCopyMany
  | a, [] => a
  | sa :: ta, sb :: tb =>
    if sa.key < sb.key then sa :: lazyIorSlots cow1 cow2 ta (sb :: tb)
    else if sb.key < sa.key then
      { key := sb.key, c := sb.c, flag := false } :: lazyIorSlots cow1 cow2 (sa :: ta) tb   -- insertNewKeyValueAt(clone)
    else { key := sa.key, c := (promoteRun sa.c).lazyIOR2 sb.c, flag := false } :: lazyIorSlots cow1 cow2 ta tb
termination_by a b => a.length + b.length

/-- what `repairAfterLazy` does to one container that has `cardinality == invalidCardinality` -/
def repairWords (ws : List (BitVec 64)) : Cont :=
  let k := wordsCard ws
  if k ≤ arrayMax then .arr (valsOfWords ws)
  else if k == 65536 then fullRun
  else .bmp k ws

def repairCont : Cont → Cont
  | .bmp c ws => if c == invalidCard then repairWords ws else .bmp c ws
  | c => c

def repairSlot (s : Slot) : Slot :=
  match s.c with
  | .bmp c ws => if c == invalidCard then { key := s.key, c := repairWords ws, flag := false } else s
  | _ => s

end LazyOps

open LazyOps

/-- static `lazyOR(a, b)` -/
def Rep.lazyOR2 (a b : Rep) : Rep := { cow := false, slots := lazyOrSlots a.slots b.slots }

/-- in-place `a.lazyOR(b)`: the receiver afterwards -/
def Rep.lazyIOR2 (a b : Rep) : Rep := { cow := a.cow, slots := lazyIorSlots a.cow b.cow a.slots b.slots }

/-- `x.repairAfterLazy()` -/
def Rep.repairAfterLazy (r : Rep) : Rep := { cow := r.cow, slots := r.slots.map repairSlot }

/-- `x.Clone()`: the new bitmap -/
def Rep.clone (r : Rep) : Rep :=
  { cow := r.cow, slots := r.slots.map fun s => { key := s.key, c := s.c, flag := r.cow } }

/-- `x.Clone()`: the SOURCE afterwards (copy-on-write marks every container of both sides as shared) -/
def Rep.cloneSrc (r : Rep) : Rep :=
  if r.cow then { cow := true, slots := r.slots.map fun s => { key := s.key, c := s.c, flag := true } } else r

/-- `c1.iand(c2)` (the receiver `c1` is consumed) -/
def Cont.aggIand2 : Cont → Cont → Cont
  | .arr xs, .arr ys => .arr (ArrayC.intersection2by2 xs ys)                    -- iandArray
  | .arr xs, .bmp _ ws => .arr (xs.filter (testBit ws))                         -- iandBitmap
  | .arr xs, .run rs =>
      if isFullRun rs then .arr xs
      else if rs.isEmpty then .arr []
      else .arr (xs.filter (inRuns rs))                                          -- x.andArray(ac)
  | .bmp _ ws, .arr ys => ofWordsAB (andW ws (wordsOfArr ys))                   -- iandBitmap(ac.toBitmapContainer())
  | .bmp _ ws1, .bmp _ ws2 => ofWordsAB (andW ws1 ws2)                          -- iandBitmap
  | .bmp c ws, .run rs =>
      if isFullRun rs then .bmp c ws                                             -- bc.clone()
      else ofWordsAB (andW ws (wordsOfRuns rs))                                  -- iandBitmap(newBitmapContainerFromRun)
  | .run rs, b => Cont.and2 (.run rs) b           -- full → a.clone(); intersect+toEfficient / andArray / andBitmapContainer

namespace LazyOps

/-- in-place `x1.And(x2)`: `getWritableContainerAtIndex` + `iand`, kept `if !isEmpty()` with the flag off -/
def iandSlots : List Slot → List Slot → List Slot
  | [], _ => []
  | _, [] => []
  | sa :: ta, sb :: tb =>
    if sa.key < sb.key then iandSlots ta (sb :: tb)
    else if sb.key < sa.key then iandSlots (sa :: ta) tb
    else keep sa.key (sa.c.aggIand2 sb.c) (iandSlots ta tb)
termination_by a b => a.length + b.length

end LazyOps

/-- in-place `a.And(b)`: the receiver afterwards -/
def Rep.aggIand2 (a b : Rep) : Rep := { cow := a.cow, slots := iandSlots a.slots b.slots }

/-- `FastAnd(bitmaps...)` -/
def Rep.fastAnd : List Rep → Rep
  | [] => {}
  | [a] => a.clone
  | a :: b :: t => t.foldl Rep.aggIand2 (Rep.and2 a b)

/-- `FastOr(bitmaps...)` -/
def Rep.fastOr : List Rep → Rep
  | [] => {}
  | [a] => a.clone
  | a :: b :: t => (t.foldl Rep.lazyIOR2 (Rep.lazyOR2 a b)).repairAfterLazy

/-! ### `AndAny`

`x1.AndAny(bitmaps...)` (`x1 ∩ ⋃ bitmaps`, in place): no argument → nothing; one argument → `x1.And(b)`; otherwise one cursor per
non-empty argument (`filters`, in argument order) walks along the keys of `x1`.  For the key of every `x1` slot the containers of
the arguments under that key are collected in argument order (`keyContainers`); cursors only move forward past keys below the
current one, `x1` slots whose key no cursor can reach any more are skipped by `advanceUntil(minNextKey)` and the loop stops when
all cursors are exhausted — in each of these cases the slot is dropped, exactly as when `keyContainers` is empty.  Hence slot by
slot (`andAnySlots`):
* no container → dropped; one container → it is used as is; several → a scratch container is RESET to the first one
  (`tmpBitmap.resetTo` if the sum of the `getCardinality()` values exceeds 4096, else `tmpArray.resetTo`; both resets rewrite the
  whole scratch container, nothing leaks from one key to the next) and the others are or-ed in with the NON-lazy in-place kernel
  `ior` (`Cont.aggIor2`; the result may change kind: array → run via `run.orArray`, bitmap → full run);
* `result := x1.getWritableContainerAtIndex(pos).iand(ored)` (`Cont.aggIand2`); a bitmap result whose cardinality is `≤ 4096` (a
  full run receiver returns a CLONE of the scratch bitmap) is re-typed to an array (`andAnyFix`); kept `if !isEmpty()`, flag off.
Precondition: `x1` is not one of its own arguments. -/

/-- `container.getCardinality()` -/
def Cont.cardGo : Cont → Int
  | .arr xs => xs.length
  | .bmp c _ => c
  | .run rs => runsCard rs

/-- `c1.ior(c2)` (in place, NOT lazy) -/
def Cont.aggIor2 : Cont → Cont → Cont
  | .arr xs, .arr ys =>
      let u := ArrayC.union2by2 xs ys
      if u.length > arrayMax then .bmp u.length (wordsOfArr u) else .arr u       -- iorArray
  | .arr xs, .bmp c ws => bmpOrArr c ws xs                                       -- bc.orArray(ac)
  | .arr xs, .run rs => if isFullRun rs then .run rs else arrIorRun xs rs
  | .bmp c ws, .arr ys =>                                                        -- iorArray: incremental cardinality
      let c' : Int := c + ((ys.filter fun v => !testBit ws v).length : Nat)
      if c' == 65536 then fullRun else .bmp c' (ys.foldl setBit ws)
  | .bmp _ ws1, .bmp _ ws2 => ofWordsOr (orW ws1 ws2)                            -- iorBitmap: recount
  | .bmp c ws, .run rs =>
      if isFullRun rs then .run rs
      else                                                                       -- iaddRange per run: cardinality += change
        let ws' := orW (wordsOfRuns rs) ws
        let c' : Int := c + (wordsCard ws' : Int) - (wordsCard ws : Int)
        if c' == 65536 then fullRun else .bmp c' ws'
  | .run rs, b => Cont.or2 (.run rs) b                                           -- rc.ior(a)

/-- `tmpBitmap.resetTo(c)` -/
def scratchBmp : Cont → Cont
  | .arr xs => .bmp xs.length (wordsOfArr xs)
  | .bmp c ws => .bmp c ws
  | .run rs => .bmp (runsCard rs) (wordsOfRuns rs)

/-- `tmpArray.resetTo(c)` -/
def scratchArr : Cont → Cont
  | .arr xs => .arr xs
  | .bmp _ ws => .arr (valsOfWords ws)
  | .run rs => .arr (expandRuns rs)

/-- the union of the containers collected for one key, as `AndAny` builds it -/
def oredOf : List Cont → Option Cont
  | [] => none
  | [c] => some c
  | c0 :: rest =>
      let maxPossibleOr : Int := ((c0 :: rest).map Cont.cardGo).sum
      let start := if maxPossibleOr > (arrayMax : Int) then scratchBmp c0 else scratchArr c0
      some (rest.foldl Cont.aggIor2 start)

def andAnyFix : Cont → Cont
  | .bmp c ws => if c ≤ (arrayMax : Int) then .arr (valsOfWords ws) else .bmp c ws
  | c => c

namespace LazyOps

def findCont (key : Nat) (b : List Slot) : Option Cont := (b.find? (·.key == key)).map (·.c)

def andAnySlots (bs : List (List Slot)) : List Slot → List Slot
  | [] => []
  | s :: t =>
    match oredOf (bs.filterMap (findCont s.key)) with
    | none => andAnySlots bs t
    | some o => keep s.key (andAnyFix (s.c.aggIand2 o)) (andAnySlots bs t)

end LazyOps

/-- `x.AndAny(l...)`: the receiver afterwards -/
def Rep.andAny (x : Rep) : List Rep → Rep
  | [] => x
  | [b] => x.aggIand2 b
  | l => { cow := x.cow, slots := andAnySlots (l.map (·.slots)) x.slots }

end RModel.Impl
