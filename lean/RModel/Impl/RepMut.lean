import RModel.Impl.Repr
import RModel.Impl.ContOps
import RModel.Impl.ContQuery
import RModel.Impl.ContMut
import RModel.Impl.RepOps
import RModel.Impl.LazyOps
/-!
L2: the BITMAP-level mutators and in-place binary operations of `roaring.go` / `roaringarray.go` on the stored
representation `Rep` (sorted key array, one container per key, one `needCopyOnWrite` flag per container, the bitmap's
`copyOnWrite` switch), built on the container mutation kernels of `ContMut`.  As everywhere at L2 the functions return
**the representation the Go method leaves behind** (keys, container kinds / payloads / cached cardinalities, flags, switch)
for a well-formed receiver (and argument) and in-domain arguments.

How the Go code is read.

The copy-on-write gate.  Every mutator reaches the container through `getWritableContainerAtIndex(i)`: a flagged container
is `clone()`d (same kind, payload, cached cardinality) and **the flag is cleared**, whether or not the kernel then changes
anything (`Remove` of an absent value, `AddRange` of values already present …).  In the representation: "same container,
flag off".  Containers that are not touched keep their flag.  New containers are inserted with the flag off
(`insertNewKeyValueAt`).  The `copyOnWrite` switch is never changed by a mutator (only by `SetCopyOnWrite` and `Clear`).

Point mutators (`x = 65536·hb + lb`).
* `Add`: key present → `iaddReturnMinimized(lb)`; absent → `newArrayContainer().iaddReturnMinimized(lb)` = the array `[lb]`
  inserted at its sorted position.  `CheckedAdd` is the same and answers `getCardinality()` after `>` before (`true` for a new key).
* `Remove`: key present → `iremoveReturnMinimized(lb)`, and `removeAtIndex` when the result `isEmpty()`; absent → nothing.
  `CheckedRemove`: `true` when the container was removed, else `getCardinality()` after `<` before; `false` for an absent key.

Range mutators on `[lo, hi)`, `lo < hi ≤ 2^32` (`lo ≥ hi`: nothing happens): the chunks `hbStart = lo / 65536 … hbLast = (hi-1) / 65536`
are visited in increasing order; chunk `hb` receives the sub-range `[chunkLo, chunkHi)` = first chunk from `lo % 65536`, last chunk
up to `(hi-1) % 65536` inclusive, everything else `[0, 65536)`.
* `AddRange`: present → `minimizeRunContainer(iaddRange(..))` (a run container is re-typed by `toEfficientContainer`, the other
  kinds are kept as the kernel returns them — a bitmap container that became FULL stays a bitmap container);
  absent → `rangeOfOnes(first, last)` = `newRunContainer16Range(first, last).toEfficientContainer()` (run when the range has
  more than 3 values (`2 + 4 < 2·card`), else array; a whole chunk is the run container `[0,65535]`).
* `Flip`: present → `inot(..)`, removed when `isEmpty()`; absent → `rangeOfOnes`.
* `RemoveRange` (`hi` is clamped to `2^32`): one chunk → `iremoveRange`, removed when `isEmpty()`, else `minimizeRunContainer`;
  several chunks → the first chunk is cut from `lo % 65536` (only when that is not 0) and the last one up to `(hi-1) % 65536` (only
  when that is not 65535) in the same way, and every chunk that is covered completely — or came out empty — is taken out by ONE
  `removeIndexRange`; no kernel runs on those.  Slot by slot this is `removeRangeF`.
All of them are instances of one walk `alterWalk f hb n slots`: the chunks `hb, hb+1, …, hb+n-1` in order, merged with the
sorted slot list; `f hb (some slot)` / `f hb none` says what is stored under `hb` afterwards (`none` = nothing).

In-place binary operations `x.And(y)`, `x.Or(y)`, `x.Xor(y)`, `x.AndNot(y)` (two-pointer walk over the two key arrays):
* `And`: equal keys → `getWritable(..).iand(c2)`, kept `if !isEmpty()` with the flag off; everything else is dropped.
* `AndNot`: equal keys → `getWritable(..).iandNot(c2)`, kept `if !isEmpty()` with the flag off; receiver-only keys are kept as
  they are (flag and all); argument-only keys are skipped.
* `Or`: equal keys → `getUnionedWritableContainer`: **the NON-in-place kernel `c1.or(c2)` when the receiver's container is
  flagged** (fewer allocations than clone + `ior`), the in-place kernel `c1.ior(c2)` otherwise; flag off.  Receiver-only keys
  are left alone.  An argument-only key BELOW the receiver's last key (found by the main loop, finished by `mergeBulk` /
  `copyOrSourceContainerAt`) is inserted as a `clone()` with the flag off; argument keys ABOVE the receiver's last key (all of
  them when the receiver is empty) are `appendCopy`d: with `x.copyOnWrite && y.copyOnWrite`, or when the argument's container
  is already flagged, the container is SHARED and flagged on both sides, otherwise cloned with the flag off.
* `Xor`: as `Or` with `getWritable(..).ixor(c2)` on equal keys, dropped when `isEmpty()`.
  Whether the Go code finishes in the main loop or in `mergeBulk` makes no difference to the representation.
* the ARGUMENT afterwards (`Rep.shareTail`): only flags can change — for `Or` / `Xor` with both switches on, the argument's
  containers above the receiver's last key become flagged; `And` / `AndNot` never touch the argument.
* `x.Xor(x)` and `x.AndNot(x)` (same object) are `Clear()`: no containers and **the `copyOnWrite` switch is reset** (`Rep.cleared`).

`RunOptimize`: every container is replaced by its `toEfficientContainer()`; flags are left as they are.
`Clone`: `Rep.clone` / `Rep.cloneSrc` of `LazyOps` (with the switch on both sides share every container, all flags set on both).
`SetCopyOnWrite(v)`: the switch.  `CloneCopyOnWriteContainers`: all flags off.

The model is tied to the Go code by the `l2mut` / `l2iop` correspondence check (`Driver/L2Mut.lean`).
Core Lean only, executable (linked into the compiled checker).
-/
namespace RModel.Impl
open RModel
open ContOps ContMut RepOps LazyOps

namespace RepMut

/-- `if !c.isEmpty() { setContainerAtIndex(i, c) } else { removeAtIndex(i) }` after `getWritableContainerAtIndex(i)` -/
def keepOpt (key : Nat) (c : Cont) : Option Slot :=
  if c.isEmptyGo then none else some { key := key, c := c, flag := false }

/-- the chunks `hb, hb+1, …, hb+n-1` visited in increasing order against the sorted slot list: `f hb (some slot)` for a
chunk that has a container, `f hb none` for one that has none; `none` = no container under that key afterwards -/
def alterWalk (f : Nat → Option Slot → Option Slot) : (hb n : Nat) → List Slot → List Slot
  | _, 0, l => l
  | hb, n + 1, [] => (f hb none).toList ++ alterWalk f (hb + 1) n []
  | hb, n + 1, s :: t =>
    if s.key < hb then s :: alterWalk f hb (n + 1) t
    else if s.key = hb then (f hb (some s)).toList ++ alterWalk f (hb + 1) n t
    else (f hb none).toList ++ alterWalk f (hb + 1) n (s :: t)
termination_by _ n l => n + l.length

/-- `minimizeRunContainer` -/
def minimizeRun : Cont → Cont
  | .run rs => runToEfficient rs
  | c => c

/-- `rangeOfOnes(start, last)` (inclusive) -/
def rangeOfOnes (start last : Nat) : Cont := runToEfficient [(start, last - start)]

/-- first value (inside the chunk) of the part of `[lo, _)` that falls into chunk `hb` -/
def chunkLo (lo hb : Nat) : Nat := if hb = lo / 65536 then lo % 65536 else 0

/-- end (exclusive, inside the chunk) of the part of `[_, hi)` that falls into chunk `hb` -/
def chunkHi (hi hb : Nat) : Nat := if hb = (hi - 1) / 65536 then (hi - 1) % 65536 + 1 else 65536

/-- `Add` -/
def addF (lb : Nat) : Nat → Option Slot → Option Slot
  | hb, some s => some { key := hb, c := s.c.iaddRM lb, flag := false }
  | hb, none => some { key := hb, c := .arr [lb], flag := false }

/-- `Remove` -/
def removeF (lb : Nat) : Nat → Option Slot → Option Slot
  | hb, some s => keepOpt hb (s.c.iremoveRM lb)
  | _, none => none

/-- `AddRange` -/
def addRangeF (lo hi : Nat) : Nat → Option Slot → Option Slot
  | hb, some s => some { key := hb, c := minimizeRun (s.c.iaddRange (chunkLo lo hb) (chunkHi hi hb)), flag := false }
  | hb, none => some { key := hb, c := rangeOfOnes (chunkLo lo hb) (chunkHi hi hb - 1), flag := false }

/-- `Flip` -/
def flipF (lo hi : Nat) : Nat → Option Slot → Option Slot
  | hb, some s => keepOpt hb (s.c.inotRange (chunkLo lo hb) (chunkHi hi hb))
  | hb, none => some { key := hb, c := rangeOfOnes (chunkLo lo hb) (chunkHi hi hb - 1), flag := false }

/-- `RemoveRange` -/
def removeRangeF (lo hi : Nat) : Nat → Option Slot → Option Slot
  | _, none => none
  | hb, some s =>
    let cs := chunkLo lo hb
    let ce := chunkHi hi hb
    if lo / 65536 ≠ (hi - 1) / 65536 ∧ cs = 0 ∧ ce = 65536 then none              -- inside `removeIndexRange`
    else
      let c := s.c.iremoveRange cs ce
      if c.isEmptyGo then none else some { key := hb, c := minimizeRun c, flag := false }

/-! ### in-place binary walks -/

/-- `x1.And(x2)` -/
def iandSlots2 : List Slot → List Slot → List Slot
  | [], _ => []
  | _, [] => []
  | sa :: ta, sb :: tb =>
    if sa.key < sb.key then iandSlots2 ta (sb :: tb)
    else if sb.key < sa.key then iandSlots2 (sa :: ta) tb
    else keep sa.key (sa.c.iand2 sb.c) (iandSlots2 ta tb)
termination_by a b => a.length + b.length

/-- `x1.AndNot(x2)` -/
def iandNotSlots2 : List Slot → List Slot → List Slot
  | [], _ => []
  | a, [] => a
  | sa :: ta, sb :: tb =>
    if sa.key < sb.key then sa :: iandNotSlots2 ta (sb :: tb)
    else if sb.key < sa.key then iandNotSlots2 (sa :: ta) tb
    else keep sa.key (sa.c.iandNot2 sb.c) (iandNotSlots2 ta tb)
termination_by a b => a.length + b.length

/-- `getUnionedWritableContainer(pos, other)` -/
def unionedWritable (s : Slot) (c2 : Cont) : Cont := if s.flag then s.c.or2 c2 else s.c.ior2 c2

/-- `x1.Or(x2)` -/
def iorSlots2 (cow1 cow2 : Bool) : List Slot → List Slot → List Slot
  | [], b => b.map (appendCopySlot cow1 cow2)                                    -- appendCopyMany / trailing suffix of mergeBulk
  | a, [] => a
  | sa :: ta, sb :: tb =>
    if sa.key < sb.key then sa :: iorSlots2 cow1 cow2 ta (sb :: tb)
    else if sb.key < sa.key then
      { key := sb.key, c := sb.c, flag := false } :: iorSlots2 cow1 cow2 (sa :: ta) tb      -- interior key: clone()
    else { key := sa.key, c := unionedWritable sa sb.c, flag := false } :: iorSlots2 cow1 cow2 ta tb
termination_by a b => a.length + b.length

/-- `x1.Xor(x2)` (different objects) -/
def ixorSlots2 (cow1 cow2 : Bool) : List Slot → List Slot → List Slot
  | [], b => b.map (appendCopySlot cow1 cow2)
  | a, [] => a
  | sa :: ta, sb :: tb =>
    if sa.key < sb.key then sa :: ixorSlots2 cow1 cow2 ta (sb :: tb)
    else if sb.key < sa.key then
      { key := sb.key, c := sb.c, flag := false } :: ixorSlots2 cow1 cow2 (sa :: ta) tb
    else keep sa.key (sa.c.ixor2 sb.c) (ixorSlots2 cow1 cow2 ta tb)
termination_by a b => a.length + b.length

/-- is `k` above the last key of the slot list (vacuously so for the empty list) -/
def aboveLast (l : List Slot) (k : Nat) : Bool :=
  match l.getLast? with
  | none => true
  | some s => s.key < k

end RepMut

open RepMut

/-! ### point mutators -/

/-- `x.Add(v)` -/
def Rep.add (r : Rep) (x : Nat) : Rep :=
  { cow := r.cow, slots := alterWalk (addF (x % 65536)) (x / 65536) 1 r.slots }

/-- `x.CheckedAdd(v)`: the receiver afterwards and the returned boolean -/
def Rep.checkedAdd (r : Rep) (x : Nat) : Rep × Bool :=
  (r.add x,
    match r.find (x / 65536) with
    | some c => decide ((c.iaddRM (x % 65536)).getCardinalityQ > c.getCardinalityQ)
    | none => true)

/-- `x.Remove(v)` -/
def Rep.remove (r : Rep) (x : Nat) : Rep :=
  { cow := r.cow, slots := alterWalk (removeF (x % 65536)) (x / 65536) 1 r.slots }

/-- `x.CheckedRemove(v)`: the receiver afterwards and the returned boolean -/
def Rep.checkedRemove (r : Rep) (x : Nat) : Rep × Bool :=
  (r.remove x,
    match r.find (x / 65536) with
    | some c =>
      let c' := c.iremoveRM (x % 65536)
      if c'.isEmptyGo then true else decide (c'.getCardinalityQ < c.getCardinalityQ)
    | none => false)

/-! ### range mutators (half-open `[lo, hi)`) -/

/-- number of chunks touched by the non-empty range `[lo, hi)` -/
def RepMut.nChunks (lo hi : Nat) : Nat := (hi - 1) / 65536 + 1 - lo / 65536

/-- `x.AddRange(lo, hi)` (`hi ≤ 2^32`) -/
def Rep.addRange (r : Rep) (lo hi : Nat) : Rep :=
  if hi ≤ lo then r
  else { cow := r.cow, slots := alterWalk (addRangeF lo hi) (lo / 65536) (nChunks lo hi) r.slots }

/-- `x.RemoveRange(lo, hi)` (`hi` clamped to `2^32`) -/
def Rep.removeRange (r : Rep) (lo hi0 : Nat) : Rep :=
  let hi := min hi0 4294967296
  if hi ≤ lo then r
  else { cow := r.cow, slots := alterWalk (removeRangeF lo hi) (lo / 65536) (nChunks lo hi) r.slots }

/-- `x.Flip(lo, hi)` (`hi ≤ 2^32`) -/
def Rep.flip (r : Rep) (lo hi : Nat) : Rep :=
  if hi ≤ lo then r
  else { cow := r.cow, slots := alterWalk (flipF lo hi) (lo / 65536) (nChunks lo hi) r.slots }

/-! ### in-place binary operations: the receiver afterwards -/

/-- `a.And(b)` -/
def Rep.iand (a b : Rep) : Rep := { cow := a.cow, slots := iandSlots2 a.slots b.slots }
/-- `a.Or(b)` -/
def Rep.ior (a b : Rep) : Rep := { cow := a.cow, slots := iorSlots2 a.cow b.cow a.slots b.slots }
/-- `a.Xor(b)` (`b` a different object) -/
def Rep.ixor (a b : Rep) : Rep := { cow := a.cow, slots := ixorSlots2 a.cow b.cow a.slots b.slots }
/-- `a.AndNot(b)` (`b` a different object) -/
def Rep.iandNot (a b : Rep) : Rep := { cow := a.cow, slots := iandNotSlots2 a.slots b.slots }

/-- `Clear()`: what `x.Xor(x)` / `x.AndNot(x)` leave behind -/
def Rep.cleared : Rep := { cow := false, slots := [] }

/-- the ARGUMENT `b` after `a.Or(b)` / `a.Xor(b)`: with both copy-on-write switches on, its containers above the receiver's
last key are now shared with the receiver and flagged (`appendCopy` / `copyOrSourceContainerAt`) -/
def Rep.shareTail (a b : Rep) : Rep :=
  if a.cow && b.cow then
    { cow := b.cow, slots := b.slots.map fun s => if aboveLast a.slots s.key then { key := s.key, c := s.c, flag := true } else s }
  else b

/-! ### representation-only operations -/

/-- `x.RunOptimize()` -/
def Rep.runOptimize (r : Rep) : Rep :=
  { cow := r.cow, slots := r.slots.map fun s => { key := s.key, c := s.c.toEfficient, flag := s.flag } }

/-- `x.SetCopyOnWrite(v)` -/
def Rep.setCow (r : Rep) (v : Bool) : Rep := { cow := v, slots := r.slots }

/-- `x.CloneCopyOnWriteContainers()` -/
def Rep.detach (r : Rep) : Rep :=
  { cow := r.cow, slots := r.slots.map fun s => { key := s.key, c := s.c, flag := false } }

end RModel.Impl
