import RModel.Spec.BSet
/-!
Plane-level model of `roaring64.BSI` (bsi64.go): a 64-bit-column bit-sliced index.

`planes[i]` is the set of columns whose (two's complement) bit `i` is set; the LAST plane is the sign plane, so
`BitCount = planes.length - 1`.  `ebm` is the existence bitmap.  Sets of columns are `BSet`s (the verified oracle of
`RModel/Spec/BSet.lean`); every `Bitmap` method used by bsi64.go is replaced by the `BSet` operation of the same
meaning (`Or`→`union`, `And`→`inter`, `AndNot`→`diff`, `Add`→`add`, `Remove`→`remove`, `Contains`→`mem`,
`AndCardinality`→`card (inter · ·)`, `IsEmpty`→`isEmpty`).

The functions follow the Go control flow: every `for i := b.BitCount(); i >= 0; i--` loop is a structural recursion
whose recursive call handles the higher planes first, upward loops are recursions over the plane list carrying the
plane index.  Goroutines / channels of the Go code (NewBSIRetainSet, SumBigValues) only parallelise independent
per-plane work and are modelled by the sequential loop.

Core Lean only (this file is linked into the compiled checker).
-/
namespace RModel

structure BSI where
  /-- `bA` -/
  planes : List BSet
  /-- `eBM` -/
  ebm : BSet
deriving Repr, DecidableEq, Inhabited

namespace BSI
open BSet

/-! ### scalar helpers (math/big) -/

/-- Go `big.Int.BitLen`: length of `|v|` in bits, `0` for `0`. -/
def bitLen (v : Int) : Nat := if v = 0 then 0 else v.natAbs.log2 + 1

/-- Go `big.Int.Bit(i)`: bit `i` of the two's complement representation, `(v >> i) & 1` with an arithmetic
(flooring) shift; equivalently bit `i` of `v mod 2^n` for every `n > i`. -/
def twosBit (v : Int) (i : Nat) : Bool := (v / (2 : Int) ^ i) % 2 == 1

/-- `BitCount()`: `len(b.bA) - 1`, the index of the sign plane. -/
def bitCount (b : BSI) : Nat := b.planes.length - 1

/-- `NewBSI(maxValue, minValue)`: `max (BitLen min + 1) (BitLen max + 1)` empty planes. -/
def new (maxValue minValue : Int) : BSI :=
  let bitszmin := bitLen minValue + 1
  let bitszmax := bitLen maxValue + 1
  let bitsz := if bitszmax > bitszmin then bitszmax else bitszmin
  { planes := List.replicate bitsz [], ebm := [] }

/-- `ValueExists` -/
def valueExists (b : BSI) (col : Nat) : Bool := b.ebm.mem col

/-- `IsNegative`: membership in the sign plane `bA[BitCount()]` (false when there is no plane). -/
def isNegative (b : BSI) (col : Nat) : Bool :=
  match b.planes.getLast? with
  | none => false
  | some s => s.mem col

/-! ### SetBigValue / SetValue -/

/-- The widening block of `SetBigValue`: append planes up to `minBits` and OR the OLD sign plane into every new
slot (sign extension).  `oldSign = b.bA[oldSignPos]`; the new slots are fresh empty bitmaps, hence `union [] oldSign`. -/
def widen (planes : List BSet) (minBits : Nat) : List BSet :=
  if planes.length < minBits then
    let oldSign := planes.getLastD []
    planes ++ List.replicate (minBits - planes.length) (union [] oldSign)
  else planes

/-- `for i := b.BitCount(); i >= 0; i-- { if value.Bit(i) == 0 { bA[i].Remove(col) } else { bA[i].Add(col) } }`.
`i` is the index of the head plane; the recursive call (higher planes) is evaluated first. -/
def writeBits (col : Nat) (v : Int) : List BSet → Nat → List BSet
  | [], _ => []
  | p :: ps, i =>
    let rest := writeBits col v ps (i + 1)
    (if twosBit v i then add p col else remove p col) :: rest

/-- `minBits := value.BitLen() + 1; if minBits == 1 { minBits = 2 }` -/
def minBits (v : Int) : Nat := if bitLen v + 1 = 1 then 2 else bitLen v + 1

/-- `SetBigValue` on an auto-sized index (`MaxValue == 0 && MinValue == 0`). -/
def setValue (b : BSI) (col : Nat) (v : Int) : BSI :=
  let planes := widen b.planes (minBits v)
  { planes := writeBits col v planes 0, ebm := add b.ebm col }

/-- `SetBigValue` on a fixed-width index (`MaxValue`/`MinValue` given to `NewBSI`): no widening, the value is
silently truncated to the existing planes. -/
def setValueFixed (b : BSI) (col : Nat) (v : Int) : BSI :=
  { planes := writeBits col v b.planes 0, ebm := add b.ebm col }

/-! ### GetBigValue -/

/-- `for i := b.BitCount(); i >= 0; i-- { if bA[i].Contains(col) { val |= 1 << i } }` (ALL planes, the sign plane
included).  The bits are distinct, so `|=` is `+`. -/
def orBits (col : Nat) : List BSet → Nat → Int
  | [], _ => 0
  | p :: ps, i => orBits col ps (i + 1) + (if p.mem col then (2 : Int) ^ i else 0)

/-- `negativeTwosComplementToInt`: `inverted = ^val & (1<<val.BitLen() - 1); return -(inverted + 1)`.
For `0 ≤ val ≤ mask`, `^val & mask = mask - val`. -/
def negativeTwosComplementToInt (val : Int) : Int :=
  let mask := (2 : Int) ^ bitLen val - 1
  let inverted := mask - val
  Int.neg (inverted + 1)

/-- `GetBigValue` (and `GetValue` whenever the result is an int64). -/
def getValue (b : BSI) (col : Nat) : Option Int :=
  if !b.ebm.mem col then none
  else
    let val := orBits col b.planes 0
    some (if b.isNegative col then negativeTwosComplementToInt val else val)

/-! ### ClearValues / NewBSIRetainSet -/

/-- `ClearValues`: every plane and then the existence bitmap `AndNot foundSet`. -/
def clearValues (b : BSI) (f : BSet) : BSI :=
  { planes := b.planes.map (fun p => diff p f), ebm := diff b.ebm f }

/-- `NewBSIRetainSet` (repaired version: planes `0 ..= BitCount()`, the sign plane included, `And foundSet`). -/
def retainSet (b : BSI) (f : BSet) : BSI :=
  { planes := b.planes.map (fun p => inter p f), ebm := inter b.ebm f }

/-! ### CompareValue: the int64 plane-algebra fast path -/

inductive Op where
  | LT | LE | EQ | GE | GT | RANGE
deriving Repr, DecidableEq, Inhabited

/-- `bsi64ValueFitsBitCount` for a plane count `bitCount ≤ 63`.  (For `bitCount = 63` the Go function returns
`true` for every int64, which is exactly this range; values outside int64 cannot be passed to `CompareValue`.) -/
def fitsBitCount (v : Int) (bitCount : Nat) : Bool :=
  decide (-(2 : Int) ^ bitCount ≤ v) && decide (v < (2 : Int) ^ bitCount)

/-- `encodeBSI64Value`: `uint64(value) & (1<<(bitCount+1) - 1)`, i.e. the residue modulo `2^(bitCount+1)`
(`bitCount ≤ 63`; for 63 the mask is all ones). -/
def encodeValue (v : Int) (bitCount : Nat) : Nat := (v % (2 : Int) ^ (bitCount + 1)).toNat

/-- `transformBSI64SignedEncoding`: flip the sign bit. -/
def transformSigned (encoded : Nat) (bitCount : Nat) : Nat := encoded ^^^ (1 <<< bitCount)

/-- `bsi64PlaneChild` (the `owned` flag only chooses in-place vs. fresh result). -/
def planeChild (pre plane : BSet) (set : Bool) : BSet :=
  if set then inter pre plane else diff pre plane

/-- `bsi64TransformedPlaneChild`: on the sign plane the wanted bit is inverted. -/
def transformedPlaneChild (b : BSI) (pre : BSet) (planeIndex : Nat) (set : Bool) : BSet :=
  let planeSet := if planeIndex == b.bitCount then !set else set
  planeChild pre (b.planes.getD planeIndex []) planeSet

/-- body of the loop of `compareInt64LessAndEqual` for plane `i`; state = `(less, equalPrefix)`. -/
def compareStep (b : BSI) (target : Nat) (i : Nat) (s : BSet × BSet) : BSet × BSet :=
  if target.testBit i then
    (union s.1 (b.transformedPlaneChild s.2 i false), b.transformedPlaneChild s.2 i true)
  else
    (s.1, b.transformedPlaneChild s.2 i false)

/-- `for i := b.BitCount(); i >= 0; i-- { step; if equalPrefix.IsEmpty() { break } }` started at plane `i`. -/
def compareLoop (b : BSI) (target : Nat) : Nat → BSet × BSet → BSet × BSet
  | 0, s => compareStep b target 0 s
  | i + 1, s =>
    let s' := compareStep b target (i + 1) s
    if s'.2.isEmpty then s' else compareLoop b target i s'

/-- `compareInt64LessAndEqual(target, universe)`: `(less, equal)` w.r.t. the sign-transformed encodings. -/
def compareInt64LessAndEqual (b : BSI) (target : Nat) (univ : BSet) : BSet × BSet :=
  compareLoop b target b.bitCount ([], univ)

/-- columns of `univ` whose value is `< k`, resp. `= k` (for `k` that fits `BitCount`). -/
def compareLE (b : BSI) (k : Int) (univ : BSet) : BSet × BSet :=
  b.compareInt64LessAndEqual (transformSigned (encodeValue k b.bitCount) b.bitCount) univ

/-- `matchInt64Cube` for a single encoded value: every plane is fixed;
`for i := 0; i <= bitCount; i++ { And / AndNot plane i; if result.IsEmpty() { break } }`. -/
def cubeLoop (enc : Nat) : List BSet → Nat → BSet → BSet
  | [], _, r => r
  | p :: ps, i, r =>
    let r' := if enc.testBit i then inter r p else diff r p
    if r'.isEmpty then r' else cubeLoop enc ps (i + 1) r'

/-- `matchInt64Trie(vals = [enc], p, prefix)` with `n = p + 1` planes still to visit: a single value never splits
and never hits the "all combinations" shortcut, so it is the descent `prefix := planeChild(prefix, bA[p], bit p)`. -/
def trieLoop (b : BSI) (enc : Nat) : Nat → BSet → BSet
  | 0, pre => pre
  | p + 1, pre =>
    if pre.isEmpty then []
    else trieLoop b enc p (planeChild pre (b.planes.getD p []) (enc.testBit p))

/-- `BatchEqual(parallelism, []int64{v})` for `BitCount ≤ 63` and `v` that fits (the caller checked). -/
def batchEqual1 (b : BSI) (v : Int) : BSet :=
  if b.ebm.isEmpty then []
  else
    let bitCount := b.bitCount
    let enc := encodeValue v bitCount
    if bitCount < 63 then cubeLoop enc b.planes 0 b.ebm       -- matchInt64Cube succeeds for one value
    else trieLoop b enc (bitCount + 1) b.ebm                  -- matchInt64Cube declines for bitCount ≥ 63

/-- `universe := b.eBM.Clone(); if foundSet != nil { universe.And(foundSet) }` -/
def cmpUniverse (b : BSI) (foundSet : Option BSet) : BSet :=
  match foundSet with
  | some f => inter b.ebm f
  | none => b.ebm

/-- `compareInt64Value`: `none` = the fast path declines (`return nil, false`) and `CompareValue` falls back to the
per-column big.Int path, which is not modelled. -/
def compareInt64Value (b : BSI) (op : Op) (valueOrStart end_ : Int) (foundSet : Option BSet) : Option BSet :=
  let bitCount := b.bitCount
  if bitCount > 63 || !fitsBitCount valueOrStart bitCount then none
  else if op = .EQ then
    let result := b.batchEqual1 valueOrStart
    some (match foundSet with | some f => inter result f | none => result)
  else if op = .RANGE && !fitsBitCount end_ bitCount then none
  else
    let univ := b.cmpUniverse foundSet
    if univ.isEmpty then some univ
    else
      let start := transformSigned (encodeValue valueOrStart bitCount) bitCount
      let le := b.compareInt64LessAndEqual start univ          -- (less, equal)
      match op with
      | .LT => some le.1
      | .LE => some (union le.1 le.2)
      | .GE => some (diff univ le.1)
      | .GT => some (diff univ (union le.1 le.2))
      | .RANGE =>
        if valueOrStart > end_ then some []
        else
          let univ := diff univ le.1
          let finish := transformSigned (encodeValue end_ bitCount) bitCount
          let rle := b.compareInt64LessAndEqual finish univ    -- (rangeLess, rangeEqual)
          some (union rle.1 rle.2)
      | .EQ => none  -- unreachable (handled above); Go: `default: return nil, false`

/-- `CompareValue` restricted to its plane-algebra fast path; `[]` when the fast path declines. -/
def compare (b : BSI) (op : Op) (k k2 : Int) (found : Option BSet) : BSet :=
  (b.compareInt64Value op k k2 found).getD []

/-! ### SumBigValues -/

/-- `Σ_{i < BitCount} |f ∩ bA[i]| << i  -  |f ∩ bA[BitCount]| << BitCount`; `i` = index of the head plane. -/
def sumLoop (f : BSet) : List BSet → Nat → Int
  | [], _ => 0
  | [s], i => -((card (inter f s) : Int) * (2 : Int) ^ i)
  | p :: q :: ps, i => (card (inter f p) : Int) * (2 : Int) ^ i + sumLoop f (q :: ps) (i + 1)

/-- `SumBigValues(foundSet)` (first component). -/
def sum (b : BSI) (f : BSet) : Int := sumLoop f b.planes 0

/-- `SumBigValues(nil)`: `foundSet = &b.eBM`. -/
def sumAll (b : BSI) : Int := b.sum b.ebm

/-- both results of `SumBigValues(foundSet)`.  NOTE: `count` is `foundSet.GetCardinality()`, i.e. it also counts
columns of `foundSet` that hold no value, while `sum` only ranges over existing columns. -/
def sumBigValues (b : BSI) (foundSet : Option BSet) : Int × Nat :=
  let f := foundSet.getD b.ebm
  (b.sum f, card f)

/-! ### MinMaxBig -/

/-- the `MIN` loop of `minMaxBigByPlanes`: `for bit := b.BitCount() - 1; bit >= 0; bit--` with `n = bit + 1` value
planes still to visit: keep the candidates whose bit is unset if there are any, else (all set) keep all. -/
def minLoop (b : BSI) : Nat → BSet → BSet
  | 0, cand => cand
  | bit + 1, cand =>
    let unset := diff cand (b.planes.getD bit [])
    minLoop b bit (if !unset.isEmpty then unset else inter cand (b.planes.getD bit []))

/-- the `MAX` loop of `minMaxBigByPlanes` -/
def maxLoop (b : BSI) : Nat → BSet → BSet
  | 0, cand => cand
  | bit + 1, cand =>
    let set := inter cand (b.planes.getD bit [])
    maxLoop b bit (if !set.isEmpty then set else diff cand (b.planes.getD bit []))

/-- `minMaxBigByPlanes(op, candidates)` for a non-empty candidate set: the surviving candidates
(Go then returns `GetBigValue(candidates.Minimum())`). -/
def minMaxCandidates (b : BSI) (isMax : Bool) (candidates : BSet) : BSet :=
  let signPlane := b.planes.getD b.bitCount []
  if isMax then
    let nonNegative := diff candidates signPlane
    b.maxLoop b.bitCount (if !nonNegative.isEmpty then nonNegative else candidates)
  else
    let negative := inter candidates signPlane
    b.minLoop b.bitCount (if !negative.isEmpty then negative else candidates)

/-- `MinMaxBig(op, foundSet)`; `isMax = (op == MAX)`.  Empty candidate set: the sentinel
`minSigned = -2^BitCount` (for MAX) / `maxSigned = 2^BitCount - 1` (for MIN) of `minMaxSignedInt(BitCount+1)`. -/
def minMax (b : BSI) (isMax : Bool) (foundSet : Option BSet) : Int :=
  let f := foundSet.getD b.ebm
  let candidates := inter f b.ebm
  if candidates.isEmpty then
    (if isMax then -(2 : Int) ^ b.bitCount else (2 : Int) ^ b.bitCount - 1)
  else
    let cand := b.minMaxCandidates isMax candidates
    (b.getValue ((minimum cand).getD 0)).getD 0

end BSI
end RModel
