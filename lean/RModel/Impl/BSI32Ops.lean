import RModel.Impl.BSI32
import RModel.Impl.BSI64Big
/-!
The rest of `BitSliceIndexing.BSI` (BitSliceIndexing/bsi.go), continuing `Impl/BSI32.lean`:

* `parallelExecutor` / `parallelExecutorBSIResults` / the batching loop of `MinMax`: how the iterated set is cut into batches
  for `n` workers (`BSI.batches` of `Impl/BSI64Big.lean`: both packages contain the same loop), and the per-batch workers
  `compareValue` (`compareBatch`), `minOrMax`, `transpose` (`transposeBatch`), `transposeWithCounts` (`twcBatch`);
  `compareValuePar`, `minMaxPar`, `transposePar`, `transposeWithCounts` are the functions WITH the worker count;
* `BatchEqual` with its dispatch: `sort.Search` (`goSearch`), `estimateBranchCount`, `shouldUseParallelScan`, the linear
  scan `parallelBatchEqualScan` (`batchEqualScan`) and the match trie with `sort.Search` cuts (`matchTrieS`; the trie of
  `Impl/BSI32.lean` splits the value list with a filter) — `batchEqualAny`;
* `MarshalBinary` / `UnmarshalBinary` as the loops over `[][]byte` (`marshalBinary`, `unmarshalBinary`, `roundTrip`).

Conventions as in `Impl/BSI32.lean`: sets of columns are `BSet`s, every `roaring.Bitmap` method is the `BSet` operation of the
same meaning; `ParOr` of the batch results is a folded `union`.  The worker count `n` of the functions below is the EFFECTIVE
number of goroutines: Go's `parallelism == 0` means `n = runtime.NumCPU()` (any `n ≥ 1`); every theorem of
`RProofs/BSI32Ops.lean` holds for every `n`.  The goroutines deliver their results through a channel in an unspecified
order; the models combine them in batch order and the theorems show the combination is order independent where that is not
obvious (`…_perm`).

Go integer semantics that matter: `results.Add(uint32(value))` / `GetValue(uint64(value))` / `SetValue(uint64(value), …)` in
the transpose workers truncate the `int64` value to its low 32 bits (`u32`): the 32-bit index has `uint32` columns.

Core Lean only (this file is linked into the compiled checker).
-/
namespace RModel
namespace BSI32
open BSet

/-- `uint32(uint64(value))` -/
def u32 (v : Int) : Nat := u64 v % 4294967296

/-- the effective worker count of `parallelExecutor`: `n := parallelism; if n == 0 { n = runtime.NumCPU() }` -/
def workers (parallelism numCPU : Nat) : Nat := if parallelism = 0 then numCPU else parallelism

/-! ### `CompareValue` with workers -/

/-- the worker `compareValue(e, batch, …)`: `results.Add(cID)` for the columns of the batch that pass the `switch e.op` -/
def compareBatch (b : Index) (op : Op) (valueOrStart end_ : Int) (batch : List Nat) : BSet :=
  batch.foldl (fun res c => if keep b op valueOrStart end_ c then add res c else res) []

/-- `CompareValue(parallelism, op, valueOrStart, end, foundSet)` with `n` workers: `parallelExecutor` cuts the found set
(the existence bitmap when nil) into `n` batches and `ParOr`s the batch results.  `BSI32.compareValue` is the closed form
(`compareValue_worker_independent`). -/
def compareValuePar (b : Index) (n : Nat) (op : Op) (valueOrStart end_ : Int) (foundSet : Option BSet) : BSet :=
  BSI.parExec n (compareBatch b op valueOrStart end_) (toList (foundSet.getD b.ebm))

/-! ### `MinMax` with workers -/

/-- the worker `minOrMax(op, batch, …)` -/
def minOrMax (b : Index) (isMax : Bool) (batch : List Nat) : Int :=
  batch.foldl (fun acc c => minMaxStep isMax acc (getValueD b c)) (if isMax then min64 else max64)

/-- `MinMax(parallelism, op, foundSet)` with `n` workers: one `minOrMax` per batch, then the reduction of the batch results
(`for val := range resultsChan`) started at the same sentinel. -/
def minMaxPar (b : Index) (n : Nat) (isMax : Bool) (foundSet : Option BSet) : Int :=
  ((BSI.batches n (toList (foundSet.getD b.ebm))).map (minOrMax b isMax)).foldl (minMaxStep isMax)
    (if isMax then min64 else max64)

/-! ### `Sum`: one goroutine per plane -/

/-- the terms `uint64(|f ∩ bA[j]|) << j` (truncated to 64 bits) that the goroutines of `Sum` add atomically, in plane order -/
def sumTerms (f : BSet) : List BSet → Nat → List Nat
  | [], _ => []
  | p :: ps, i => (card (inter f p) * 2 ^ i) % 18446744073709551616 :: sumTerms f ps (i + 1)

/-- `Sum(foundSet)` when the goroutines perform their `atomic.AddInt64` in the order given by `terms` (a permutation of
`sumTerms`): the accumulator wraps at 64 bits -/
def sumOfTerms (terms : List Nat) : Int := i64 terms.sum

/-! ### `Transpose` / `IntersectAndTranspose` -/

/-- one column of the worker `transpose`: `if value, ok := GetValue(cID); ok { results.Add(uint32(value)) }` -/
def transposeStep (b : Index) (res : BSet) (c : Nat) : BSet :=
  match getValue b c with
  | some v => add res (u32 v)
  | none => res

/-- the worker `transpose(e, batch, …)` -/
def transposeBatch (b : Index) (batch : List Nat) : BSet := batch.foldl (transposeStep b) []

/-- `IntersectAndTranspose(parallelism, foundSet)` with `n` workers (nil found set = the existence bitmap);
`Transpose()` is `IntersectAndTranspose(0, b.eBM)`. -/
def transposePar (b : Index) (n : Nat) (foundSet : Option BSet) : BSet :=
  BSI.parExec n (transposeBatch b) (toList (foundSet.getD b.ebm))

/-- the one-batch form (`transpose_worker_independent`: the same set for every `n`) -/
def transpose (b : Index) (foundSet : Option BSet) : BSet := transposeBatch b (toList (foundSet.getD b.ebm))

/-! ### `TransposeWithCounts` -/

/-- one column of the worker `transposeWithCounts`:
```
if value, ok := input.GetValue(uint64(cID)); ok {
    if val, ok2 := results.GetValue(uint64(value)); !ok2 { results.SetValue(uint64(value), 1) }
    else { val++; results.SetValue(uint64(value), val) }
}
```
`GetValue` / `SetValue` convert the column id with `uint32(columnID)`.  (`val++` cannot overflow: a count is at most the
number of columns, below `2^32`.) -/
def twcStep (input res : Index) (c : Nat) : Index :=
  match getValue input c with
  | none => res
  | some v =>
    match getValue res (u32 v) with
    | none => setValue res (u32 v) 1
    | some n => setValue res (u32 v) (n + 1)

/-- the worker `transposeWithCounts(input, batch, …)`: a fresh auto-sized index -/
def twcBatch (input : Index) (cols : List Nat) : Index := cols.foldl (twcStep input) newDefault

/-- `parallelExecutorBSIResults(…, sumResults = true)`: `results := NewDefaultBSI(); for _, v := range ba { results.Add(v) }` -/
def sumResults (rs : List Index) : Index := rs.foldl addIndex newDefault

/-- `TransposeWithCounts(parallelism, foundSet)` with `n` workers (nil found set = the existence bitmap); the 32-bit
implementation has no filter set. -/
def transposeWithCounts (input : Index) (n : Nat) (foundSet : Option BSet) : Index :=
  sumResults ((BSI.batches n (toList (foundSet.getD input.ebm))).map (twcBatch input))

/-! ### `BatchEqual`: `sort.Search`, the estimate, the dispatch, the scan -/

/-- the loop of Go's `sort.Search(n, f)`: `for i < j { h := int(uint(i+j) >> 1); if !f(h) { i = h + 1 } else { j = h } }`
(`fuel ≥ j - i` iterations are enough) -/
def goSearchLoop (f : Nat → Bool) : Nat → Nat → Nat → Nat
  | 0, i, _ => i
  | fuel + 1, i, j =>
    if i < j then
      let h := (i + j) / 2
      if !f h then goSearchLoop f fuel (h + 1) j else goSearchLoop f fuel i h
    else i

/-- `sort.Search(n, f)` -/
def goSearch (n : Nat) (f : Nat → Bool) : Nat := goSearchLoop f n 0 n

/-- `v&(uint64(1)<<uint(p)) != 0` for a `uint64` `v` (the shifted constant is `0` for `p ≥ 64`) -/
def maskBit (v p : Nat) : Bool := decide (p < 64) && v.testBit p

/-- `cut := sort.Search(len(vals), func(i int) bool { return vals[i]&(uint64(1)<<uint(p)) != 0 })` -/
def cutIdx (vals : List Nat) (p : Nat) : Nat := goSearch vals.length (fun i => maskBit (vals.getD i 0) p)

/-- `vals[len(vals)-1]-vals[0] == uint64(len(vals)-1)` (a `uint64` subtraction) -/
def contiguous (vals : List Nat) : Bool :=
  (vals.getLastD 0 + 18446744073709551616 - vals.headD 0) % 18446744073709551616 == vals.length - 1

/-- `estimateBranchCount(vals, p, limit)` with `n = p + 1` planes still to visit (after the clamp `if p >= 64 { p = 63 }`,
see `estimate`).  For `n = 0` (`p < 0`) every path of the Go function returns `0`. -/
def estimateBranchCount : Nat → List Nat → Int → Int
  | 0, _, _ => 0
  | p + 1, vals, limit =>
    if vals.length ≤ 1 || decide (limit ≤ 0) then 0
    else if contiguous vals then 0
    else if decide (p < 63) && vals.length == 2 ^ (p + 1) then 0
    else
      let cut := cutIdx vals p
      if cut == 0 || cut == vals.length then estimateBranchCount p vals limit
      else
        let leftLimit := limit - 1
        let leftBranch := estimateBranchCount p (vals.take cut) leftLimit
        let rightLimit := leftLimit - leftBranch
        let rightBranch := estimateBranchCount p (vals.drop cut) rightLimit
        1 + leftBranch + rightBranch

/-- `estimateBranchCount(vals, bitCount-1, limit)` as `BatchEqual` calls it: `p = bitCount - 1` is clamped to `63` -/
def estimate (vals : List Nat) (bitCount : Nat) (limit : Int) : Int :=
  estimateBranchCount (if bitCount > 64 then 64 else bitCount) vals limit

/-- `shouldUseParallelScan(vals, bitCount)`:
`estimateBranchCount(vals, bitCount-1, 64) >= 64 && b.eBM.GetCardinality() >= 100000` -/
def shouldUseParallelScan (b : Index) (vals : List Nat) (bitCount : Nat) : Bool :=
  decide (estimate vals bitCount 64 ≥ 64) && decide (card b.ebm ≥ 100000)

/-- the goroutine body of `parallelBatchEqualScan`:
`for _, col := range cols { if v, ok := b.GetValue(uint64(col)); ok { if _, hit := want[uint64(v)]; hit { out.Add(col) } } }` -/
def scanBatch (b : Index) (want : List Nat) (cols : List Nat) : BSet :=
  cols.foldl (fun out col =>
    match getValue b col with
    | some v => if want.contains (u64 v) then add out col else out
    | none => out) []

/-- `parallelBatchEqualScan(parallelism, vals)` with `n` workers (`n ≤ 0` has been replaced by `runtime.NumCPU()`):
`if card == 0 { return empty }; if uint64(n) > card { n = int(card) }`, then the batches of `parallelExecutor` over the
existence bitmap and `ParOr` of the batch results. -/
def batchEqualScan (b : Index) (n : Nat) (vals : List Nat) : BSet :=
  let c := card b.ebm
  if c = 0 then []
  else BSI.parExec (if n > c then c else n) (scanBatch b vals) (toList b.ebm)

/-- `matchTrie(vals, p, prefix, owned)` with `n = p + 1` planes still to visit, the value list cut by `sort.Search`
(`lo, hi := vals[:cut], vals[cut:]`) as the Go code does.  `matchTrieS_eq`: on a sorted list whose members agree above
plane `p` this is `BSI32.matchTrie`. -/
def matchTrieS (b : Index) : Nat → List Nat → BSet → BSet
  | 0, _, pre => pre
  | p + 1, vals, pre =>
    if pre.isEmpty then []
    else if decide (p < 63) && vals.length == 2 ^ (p + 1) then pre
    else
      let cut := cutIdx vals p
      let lo := vals.take cut
      let hi := vals.drop cut
      let plane := b.planes.getD p []
      if hi.isEmpty then matchTrieS b p lo (diff pre plane)
      else if lo.isEmpty then matchTrieS b p hi (inter pre plane)
      else union (matchTrieS b p lo (diff pre plane)) (matchTrieS b p hi (inter pre plane))

/-- which path `BatchEqual` takes: `none` = an early `return roaring.NewBitmap()`, `some true` = the linear scan,
`some false` = the match trie -/
def batchEqualPath (b : Index) (values : List Int) : Option Bool :=
  if b.ebm.isEmpty || values.isEmpty then none
  else
    let vals := batchVals (bitCount b) values
    if vals.isEmpty then none
    else some (decide (vals.length ≥ 128) && shouldUseParallelScan b vals (bitCount b))

/-- `BatchEqual(parallelism, values)` with `n` effective workers, every dispatch outcome included -/
def batchEqualAny (b : Index) (n : Nat) (values : List Int) : BSet :=
  if b.ebm.isEmpty || values.isEmpty then []
  else
    let bc := bitCount b
    let vals := batchVals bc values
    if vals.isEmpty then []
    else if decide (vals.length ≥ 128) && shouldUseParallelScan b vals bc then batchEqualScan b n vals
    else matchTrieS b bc vals b.ebm

/-- what the compiled checker evaluates on a wide existence bitmap instead of the per-column scan: the trie on every path
(`batchEqualAny_eq_fast`: the same set for an index of at most 64 planes, whatever the dispatch and the worker count) -/
def batchEqualFast (b : Index) (values : List Int) : BSet :=
  if b.ebm.isEmpty || values.isEmpty then []
  else
    let vals := batchVals (bitCount b) values
    if vals.isEmpty then [] else matchTrie b (bitCount b) vals b.ebm

/-! ### `MarshalBinary` / `UnmarshalBinary` -/

/-- `MarshalBinary()`: `data[0]` = the existence bitmap, `data[i]` = plane `i-1` (`1 ≤ i ≤ BitCount()`).  Every entry is the
portable serialisation of one bitmap (that format is modelled in `Impl/Serial.lean`); here an entry is the set it encodes,
`none` stands for a nil / empty slice (never produced by `MarshalBinary`: an empty bitmap serialises to 8 bytes). -/
def marshalBinary (b : Index) : List (Option BSet) := some b.ebm :: b.planes.map some

/-- the second loop of `UnmarshalBinary` from index `i` on (`ps` = the planes so far):
```
for i := 1; i < len(bitData); i++ {
    if bitData == nil || len(bitData[i]) == 0 { continue }
    if b.BitCount() < i { b.bA = append(b.bA, roaring.NewBitmap()) }
    if err := b.bA[i-1].UnmarshalBinary(bitData[i]); err != nil { return err }
}
```
`none` = index out of range (a skipped entry followed by a non-empty one beyond the receiver's width). -/
def unmarshalLoop : List (Option BSet) → Nat → List BSet → Option (List BSet)
  | [], _, ps => some ps
  | none :: ds, i, ps => unmarshalLoop ds (i + 1) ps
  | some d :: ds, i, ps =>
    let ps := if ps.length < i then ps ++ [[]] else ps
    if i - 1 < ps.length then unmarshalLoop ds (i + 1) (ps.set (i - 1) d) else none

/-- `recv.UnmarshalBinary(bitData)`: every plane of the receiver is emptied first (`for i := range b.bA { b.bA[i] = NewBitmap() }`),
the loop above loads the planes, then `bitData[0]` (nil: an empty bitmap) becomes the existence bitmap.
`MaxValue` / `MinValue` of the receiver are kept.  `none` = panic (index out of range; also `len(bitData) == 0`). -/
def unmarshalBinary (recv : Index) (data : List (Option BSet)) : Option Index :=
  match data with
  | [] => none
  | d0 :: ds =>
    match unmarshalLoop ds 1 (recv.planes.map (fun _ => ([] : BSet))) with
    | none => none
    | some ps => some { recv with planes := ps, ebm := d0.getD [] }

/-- `recv.UnmarshalBinary(src.MarshalBinary())` -/
def roundTrip (recv src : Index) : Option Index := unmarshalBinary recv (marshalBinary src)

end BSI32
end RModel
