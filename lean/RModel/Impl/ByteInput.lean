/-!
L2: the byte-input layer under every portable decoder (`/repo/internal/byte_input.go`).

Two implementations of the interface `internal.ByteInput` are modelled:

* `Buf`     = `ByteBuffer`       (a cursor `off` over the caller's slice `buf`; `Next` returns the sub-slice `buf[off:off+n]`),
* `Adapter` = `ByteInputAdapter` (wraps an `io.Reader`; every operation goes through
  `ByteInputAdapter.Read(buf) = io.ReadAtLeast(r, buf, len(buf))` and adds the number of bytes that call delivered —
  also on failure — to `readBytes`).

`Reader` is the model of the `io.Reader` under the adapter, with the part of Go's `io.Reader` contract that
`io.ReadAtLeast` relies on: a call `Read(p)` with `len(p) = n > 0` delivers `0 < k ≤ n` bytes and a nil error, or
`k ≥ 0` bytes together with a non-nil error (`io.EOF` at the end of the data, another error at an error position);
it never delivers `(0, nil)` (such a reader makes `io.ReadAtLeast` spin; the contract discourages it).  How many bytes one call
delivers is governed by a cyclic schedule of chunk sizes (short reads), and `eager` selects between the two behaviours the
contract allows at the end of the data: `(k, nil)` followed by `(0, err)` on the next call, or `(k, err)` at once.

Core Lean only.  The equivalence theorem is `RProofs/ByteInput.lean: adapter_refines_buf`.
-/
namespace RModel.Impl.ByteIn

abbrev Bytes := List UInt8

/-- the error values the layer can return (a small enum): `io.EOF`, `io.ErrUnexpectedEOF`, and "any other error" (the error the
underlying reader returned at its error position, passed through unchanged by `io.ReadAtLeast`) -/
inductive Err where
  | eof
  | unexpectedEOF
  | other
  deriving DecidableEq, Repr, Inhabited

/-- `(value, error)` result of an operation: a value, or one of the error values -/
inductive Res (α : Type) where
  | ok (v : α)
  | error (e : Err)
  deriving DecidableEq, Repr, Inhabited

/-! ### the `io.Reader` under the adapter -/

structure Reader where
  /-- the bytes the reader can still deliver -/
  rest : Bytes
  /-- cyclic schedule of chunk sizes: call `i` delivers at most `max 1 sched[i mod len]` bytes; `[]` = no limit -/
  sched : List Nat := []
  /-- the error returned once `rest` is exhausted: `.eof` at the true end of the data, `.other` at an error position -/
  final : Err := .eof
  /-- the call that delivers the last byte returns the final error together with the data (`(k, err)`, allowed by `io.Reader`) -/
  eager : Bool := false
  deriving DecidableEq, Repr, Inhabited

/-- a reader over `data` with a chunk schedule and an optional error position `errAt`: once `errAt` bytes were delivered the
reader returns an error (if the data ends before the error position the reader ends with `io.EOF`) -/
def Reader.ofData (data : Bytes) (sched : List Nat) (errAt : Option Nat) (eager : Bool := false) : Reader :=
  match errAt with
  | some e => if e ≤ data.length then ⟨data.take e, sched, .other, eager⟩ else ⟨data, sched, .eof, eager⟩
  | none => ⟨data, sched, .eof, eager⟩

/-- the chunk size of the next call and the rotated schedule -/
def nextChunk (sched : List Nat) (n : Nat) : Nat × List Nat :=
  match sched with
  | [] => (n, [])
  | c :: t => (min n (max c 1), t ++ [c])

/-- one call `Read(p)` with `len(p) = n` (only ever called with `n > 0`): the bytes delivered, the error, the reader afterwards -/
def Reader.read (r : Reader) (n : Nat) : (Bytes × Option Err) × Reader :=
  match r.rest with
  | [] => (([], some r.final), r)
  | _ :: _ =>
    let (k, sched') := nextChunk r.sched n
    let out := r.rest.take k
    let rest' := r.rest.drop k
    ((out, if r.eager && rest'.isEmpty then some r.final else none), { r with rest := rest', sched := sched' })

/-- `io.ReadAtLeast(r, buf, len(buf))` with `need` = bytes still missing and `racc` = `buf[:n]` REVERSED (so that appending
a chunk is cheap; the function is tail recursive and linear in the number of bytes):
```
for n < min && err == nil { nn, err = r.Read(buf[n:]); n += nn }
if n >= min { err = nil } else if n > 0 && err == EOF { err = ErrUnexpectedEOF }
```
`fuel` bounds the number of `Read` calls (every call without error delivers at least one byte, so `need` calls suffice). -/
def readAtLeast : (fuel : Nat) → Reader → (need : Nat) → (racc : Bytes) → (Bytes × Option Err) × Reader
  | _, r, 0, racc => ((racc.reverse, none), r)
  | 0, r, _ + 1, racc => ((racc.reverse, some .other), r)          -- unreachable when fuel ≥ need (`readAtLeast_spec`)
  | fuel + 1, r, need + 1, racc =>
    match r.read (need + 1) with
    | ((out, none), r') => readAtLeast fuel r' (need + 1 - out.length) (out.reverse ++ racc)
    | ((out, some e), r') =>
      let racc' := out.reverse ++ racc
      if need + 1 ≤ out.length then ((racc'.reverse, none), r')
      else ((racc'.reverse, some (if racc'.length > 0 && e == .eof then .unexpectedEOF else e)), r')

/-- `io.ReadAtLeast(r, buf, n)` on a fresh `buf` of length `n` -/
def Reader.readFull (r : Reader) (n : Nat) : (Bytes × Option Err) × Reader := readAtLeast n r n []

/-! ### little-endian integers -/

def le16 (bs : Bytes) : Nat := (bs.getD 0 0).toNat + 256 * (bs.getD 1 0).toNat
def le32 (bs : Bytes) : Nat :=
  (bs.getD 0 0).toNat + 256 * (bs.getD 1 0).toNat + 65536 * (bs.getD 2 0).toNat + 16777216 * (bs.getD 3 0).toNat

/-! ### `ByteBuffer` -/

/-- `ByteBuffer{buf, off}`; invariant `off ≤ buf.length` (kept by every operation for `n ≥ 0`) -/
structure Buf where
  data : Bytes
  off : Nat := 0
  deriving Repr, Inhabited

def Buf.wf (b : Buf) : Prop := b.off ≤ b.data.length

/-- `Next(n)`: `if n > len(buf)-off { return nil, io.ErrUnexpectedEOF }; data := buf[off:off+n]; off += n` -/
def Buf.next (b : Buf) (n : Nat) : Res Bytes × Buf :=
  if n > b.data.length - b.off then (.error .unexpectedEOF, b)
  else (.ok ((b.data.drop b.off).take n), { b with off := b.off + n })

/-- `ReadUInt32()`: `if len(buf)-off < 4 { return 0, io.ErrUnexpectedEOF }; v := LittleEndian.Uint32(buf[off:]); off += 4` -/
def Buf.readUInt32 (b : Buf) : Res Nat × Buf :=
  if b.data.length - b.off < 4 then (.error .unexpectedEOF, b)
  else (.ok (le32 (b.data.drop b.off)), { b with off := b.off + 4 })

def Buf.readUInt16 (b : Buf) : Res Nat × Buf :=
  if b.data.length - b.off < 2 then (.error .unexpectedEOF, b)
  else (.ok (le16 (b.data.drop b.off)), { b with off := b.off + 2 })

/-- `SkipBytes(n)`: `if n > len(buf)-off { return io.ErrUnexpectedEOF }; off += n` -/
def Buf.skipBytes (b : Buf) (n : Nat) : Res Unit × Buf :=
  if n > b.data.length - b.off then (.error .unexpectedEOF, b)
  else (.ok (), { b with off := b.off + n })

def Buf.getReadBytes (b : Buf) : Nat := b.off

/-- `NextReturnsSafeSlice()`: the result of `Next` aliases the caller's buffer -/
def Buf.nextReturnsSafeSlice (_ : Buf) : Bool := false

/-! ### `ByteInputAdapter` -/

structure Adapter where
  r : Reader
  readBytes : Nat := 0
  deriving Repr, Inhabited

/-- `Read(buf)` with `len(buf) = n`: `m, err := io.ReadAtLeast(b.r, buf, len(buf)); b.readBytes += m; if err != nil { return 0, err }`.
The result carries the content of `buf` on success. -/
def Adapter.read (a : Adapter) (n : Nat) : Res Bytes × Adapter :=
  match a.r.readFull n with
  | ((got, err), r') =>
    let a' : Adapter := { r := r', readBytes := a.readBytes + got.length }
    match err with
    | none => (.ok got, a')
    | some e => (.error e, a')

/-- `Next(n)`: `buf := make([]byte, n); _, err := b.Read(buf)` -/
def Adapter.next (a : Adapter) (n : Nat) : Res Bytes × Adapter := a.read n

/-- `ReadUInt32()`: `buf := b.buf[:4]; _, err := b.Read(buf); …; return binary.LittleEndian.Uint32(buf), nil` -/
def Adapter.readUInt32 (a : Adapter) : Res Nat × Adapter :=
  match a.read 4 with
  | (.ok bs, a') => (.ok (le32 bs), a')
  | (.error e, a') => (.error e, a')

def Adapter.readUInt16 (a : Adapter) : Res Nat × Adapter :=
  match a.read 2 with
  | (.ok bs, a') => (.ok (le16 bs), a')
  | (.error e, a') => (.error e, a')

/-- `SkipBytes(n)`: `_, err := b.Next(n); return err` (reads and discards) -/
def Adapter.skipBytes (a : Adapter) (n : Nat) : Res Unit × Adapter :=
  match a.next n with
  | (.ok _, a') => (.ok (), a')
  | (.error e, a') => (.error e, a')

def Adapter.getReadBytes (a : Adapter) : Nat := a.readBytes

/-- `NextReturnsSafeSlice()`: `Next` returns a freshly allocated slice -/
def Adapter.nextReturnsSafeSlice (_ : Adapter) : Bool := true

/-! ### operation scripts -/

inductive Op where
  | next (n : Nat)
  | u32
  | u16
  | skip (n : Nat)
  deriving DecidableEq, Repr, Inhabited

/-- what a successful operation returns -/
inductive Val where
  | bytes (l : Bytes)
  | num (v : Nat)
  | unit
  deriving DecidableEq, Repr, Inhabited

/-- result of one operation and `GetReadBytes()` after it -/
structure Step where
  res : Res Val
  readBytes : Nat
  deriving DecidableEq, Repr

def Buf.step (b : Buf) : Op → Res Val × Buf
  | .next n => match b.next n with | (.ok l, b') => (.ok (.bytes l), b') | (.error e, b') => (.error e, b')
  | .u32 => match b.readUInt32 with | (.ok v, b') => (.ok (.num v), b') | (.error e, b') => (.error e, b')
  | .u16 => match b.readUInt16 with | (.ok v, b') => (.ok (.num v), b') | (.error e, b') => (.error e, b')
  | .skip n => match b.skipBytes n with | (.ok _, b') => (.ok .unit, b') | (.error e, b') => (.error e, b')

def Adapter.step (a : Adapter) : Op → Res Val × Adapter
  | .next n => match a.next n with | (.ok l, a') => (.ok (.bytes l), a') | (.error e, a') => (.error e, a')
  | .u32 => match a.readUInt32 with | (.ok v, a') => (.ok (.num v), a') | (.error e, a') => (.error e, a')
  | .u16 => match a.readUInt16 with | (.ok v, a') => (.ok (.num v), a') | (.error e, a') => (.error e, a')
  | .skip n => match a.skipBytes n with | (.ok _, a') => (.ok .unit, a') | (.error e, a') => (.error e, a')

/-- run a script; like the Go objects, the model keeps going after a failed operation -/
def Buf.run (b : Buf) : List Op → List Step
  | [] => []
  | op :: ops => let (res, b') := b.step op; ⟨res, b'.getReadBytes⟩ :: b'.run ops

def Adapter.run (a : Adapter) : List Op → List Step
  | [] => []
  | op :: ops => let (res, a') := a.step op; ⟨res, a'.getReadBytes⟩ :: a'.run ops

/-! ### the abstraction under which the two implementations agree

A decoder may rely on: the value of every successful operation, `GetReadBytes()` after every successful operation, and
WHETHER an operation failed.  It may not rely on: which error value a failed operation returned (`ByteBuffer` always says
`io.ErrUnexpectedEOF`; the adapter says `io.EOF` when the input ended exactly at the request boundary, `io.ErrUnexpectedEOF` when
it ended inside the request, and passes any other reader error through), on `GetReadBytes()` after a failed operation
(`ByteBuffer` does not move; the adapter has consumed — and counted — whatever was left), on anything after the first failure
(for the same reason: the adapter's input is used up, the buffer can still serve smaller requests), and on the identity of
the slice returned by `Next` (`NextReturnsSafeSlice`). -/

inductive AStep where
  | ok (v : Val) (readBytes : Nat)
  | fail
  deriving DecidableEq, Repr

/-- the observable part of a transcript: everything up to and including the first failure, the failure without error value and
counter -/
def observe : List Step → List AStep
  | [] => []
  | ⟨.ok v, rb⟩ :: t => .ok v rb :: observe t
  | ⟨.error _, _⟩ :: _ => [.fail]

/-! ### adaptive clients: a decoder as a program over the interface

A list of operations is fixed in advance; a decoder chooses the next request from the values it has read (sizes in headers).
`Prog α` is an arbitrary such client: it issues an operation and continues with the value, stops with a result, or gives up
(`abort`: bad cookie, impossible size …).  Like every decoder of the library it returns at the first failed operation. -/

inductive Prog (α : Type) where
  | ret (a : α)
  | abort
  | op (o : Op) (k : Val → Prog α)

/-- run a client on a `ByteBuffer`: the result and `GetReadBytes()` at the end, `none` if it gave up or an operation failed -/
def Prog.runBuf {α : Type} : Prog α → Buf → Option (α × Nat)
  | .ret a, b => some (a, b.getReadBytes)
  | .abort, _ => none
  | .op o k, b =>
    match b.step o with
    | (.ok v, b') => (k v).runBuf b'
    | (.error _, _) => none

/-- run a client on a `ByteInputAdapter` -/
def Prog.runAdapter {α : Type} : Prog α → Adapter → Option (α × Nat)
  | .ret a, x => some (a, x.getReadBytes)
  | .abort, _ => none
  | .op o k, x =>
    match x.step o with
    | (.ok v, x') => (k v).runAdapter x'
    | (.error _, _) => none

/-- the same runs, returning the input object as the client leaves it (for clients that are followed by further reads on the
same stream: the buckets of a 64-bit bitmap) -/
def Prog.runBufS {α : Type} : Prog α → Buf → Option (α × Buf)
  | .ret a, b => some (a, b)
  | .abort, _ => none
  | .op o k, b =>
    match b.step o with
    | (.ok v, b') => (k v).runBufS b'
    | (.error _, _) => none

def Prog.runAdapterS {α : Type} : Prog α → Adapter → Option (α × Adapter)
  | .ret a, x => some (a, x)
  | .abort, _ => none
  | .op o k, x =>
    match x.step o with
    | (.ok v, x') => (k v).runAdapterS x'
    | (.error _, _) => none

end RModel.Impl.ByteIn
