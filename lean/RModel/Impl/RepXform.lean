import RModel.Impl.RepOps
import RModel.Impl.ContMut
import RModel.Impl.ContQuery
/-!
L2: the whole-bitmap TRANSFORMS of `roaring.go` on the stored representation `Rep`:

* `Cont.addOffset off`      — the per-container `addOffset(x uint16)` of the three kinds (low half, high half),
* `Rep.addOffset64 d`       — `roaring.AddOffset64(x, d)` (and `AddOffset`),
* `Rep.flipStatic lo hi`    — the STATIC `roaring.Flip(bm, lo, hi)` (`Rep.flipStaticSrc`: the operand afterwards),
* `Rep.denseSize / toDense` — `DenseSize()` / `ToDense()` = `WriteDenseTo` into `DenseSize()` zero words,
* `Rep.fromDense words doCopy` — `roaring.FromDense(words, doCopy)`,

each returning **the representation (word list) the Go function returns** for a well-formed operand (`Rep.wf`) and in-domain
arguments (`lo, hi ≤ 2^32`; at most `65536·1024` dense words).

How the Go code is read.

`addOffset(x)` with `0 < x < 65536` (only called with `inOffset ≠ 0`)
* array: the values with `v + x < 65536` go (shifted) to the low half, the others (minus 65536) to the high half; a half
  that receives nothing is `nil` (Go decides it on the first / last value of the sorted array).
* bitmap: `cardinality == 0` → `nil, nil`.  Otherwise the 1024 words are shifted left by `x` bits inside a 2048-word window
  (`b = x/64` whole words, `i = x%64` bits, `new[b+k] = old[k] << i | old[k-1] >> (64-i)`); the low half is recounted;
  if it holds everything it is returned AS A BITMAP with `nil`; if it holds nothing the high half is returned alone; each
  returned half is converted to an array when it holds `≤ 4096` values (`ofWordsArrArr`).
* run: every run is shifted, a run that crosses 65535 is split in two; each non-`nil` half is finished with
  `toEfficientContainer()`.

`AddOffset64(x, d)`: `containerOffset = ⌊d / 65536⌋`, `inOffset = d mod 65536`; the answer is `New()` (`copyOnWrite` off).
`|containerOffset|` out of range → empty.  `inOffset = 0`: containers are `clone()`d under the shifted key when it is in
`0..65535`.  Otherwise each container gives a low half under `key + containerOffset` and a high half under the next key
(halves whose key is outside `0..65535` are dropped); a low half whose key equals the LAST key of the answer (the high
half of the previous container) is merged into it with the in-place `ior` (`Cont.ior2`).  All flags off.

`Flip(bm, lo, hi)`: `lo ≥ hi` → `bm.Clone()` (with `copyOnWrite` on, the clone SHARES the containers and every flag of
both bitmaps is set — the only case in which the operand's representation changes).  Otherwise a fresh answer:
`appendCopiesUntil` the keys below `lo>>16` (flagged containers are shared and flagged, the others cloned — `copySlot`),
then for every key `hb` of the range the non-in-place `not(start, last+1)` of the container (dropped when `isEmpty()`), or,
for an absent key, `rangeOfOnes(start, last)` = `newRunContainer16Range(..).toEfficientContainer()`; then
`appendCopiesAfter` the keys above `(hi-1)>>16`.

`DenseSize` = `⌈(Maximum()+1)/64⌉` (0 for no containers); `WriteDenseTo` ORs array values and run masks into, and copies
bitmap words over, zero words: the word at index `n` is word `n % 1024` of the container stored under key `n / 1024`
(as `toBitmapContainer` would give it), or `0`.

`FromDense`: 1024-word chunks (the last may be shorter), chunk number = key; popcount `> 4096` → bitmap container with that
cached cardinality — the caller's words SHARED and the slot flagged `needCopyOnWrite` unless `doCopy` or the chunk is
short (then copied into 1024 fresh words, flag off); popcount in `1..4096` → array of the set bits; `0` → no container.

Core Lean only, executable (linked into the compiled checker).
-/
namespace RModel.Impl
open RModel

namespace RepXform
open ContOps ContMut RepOps

/-! ### container level: `addOffset` -/

/-- the 2048-word window holding the 1024 words `ws` shifted left by `off` bits (`off < 65536`) -/
def shiftedWords (ws : List (BitVec 64)) (off : Nat) : List (BitVec 64) :=
  let b := off / 64
  let i := off % 64
  List.replicate b 0#64 ++
    List.zipWith (fun (cur prev : BitVec 64) => (cur <<< i) ||| (prev >>> (64 - i))) (ws ++ [0#64]) (0#64 :: ws) ++
    List.replicate (1023 - b) 0#64

/-- `bitmapContainer.addOffset` -/
def bmpAddOffset (c : Int) (ws : List (BitVec 64)) (off : Nat) : Option Cont × Option Cont :=
  if c == 0 then (none, none)
  else
    let sw := shiftedWords ws off
    let lw := sw.take 1024
    let hw := sw.drop 1024
    let lc := wordsCard lw
    if (lc : Int) == c then (some (.bmp lc lw), none)
    else if lc == 0 then (none, some (ofWordsArrArr hw))
    else (some (ofWordsArrArr lw), some (ofWordsArrArr hw))

/-- `arrayContainer.addOffset` -/
def arrAddOffset (xs : List Nat) (off : Nat) : Option Cont × Option Cont :=
  let lo := (xs.filter fun v => v + off < 65536).map (· + off)
  let hi := (xs.filter fun v => !decide (v + off < 65536)).map (· + off - 65536)
  ((if lo.isEmpty then none else some (.arr lo)), (if hi.isEmpty then none else some (.arr hi)))

/-- the runs of the low half -/
def runOffLo (rs : List (Nat × Nat)) (off : Nat) : List (Nat × Nat) :=
  rs.flatMap fun (s, l) => if s + off ≤ 65535 then [(s + off, min l (65535 - (s + off)))] else []

/-- the runs of the high half -/
def runOffHi (rs : List (Nat × Nat)) (off : Nat) : List (Nat × Nat) :=
  rs.flatMap fun (s, l) =>
    if s + off ≤ 65535 then (if s + off + l ≤ 65535 then [] else [(0, s + off + l - 65536)])
    else [(s + off - 65536, l)]

/-- `runContainer16.addOffset` -/
def runAddOffset (rs : List (Nat × Nat)) (off : Nat) : Option Cont × Option Cont :=
  let lo := runOffLo rs off
  let hi := runOffHi rs off
  ((if lo.isEmpty then none else some (runToEfficient lo)), (if hi.isEmpty then none else some (runToEfficient hi)))

end RepXform

open ContOps ContMut RepOps RepXform

/-- `container.addOffset(off)`: (low half, high half), `none` = Go `nil` -/
def Cont.addOffset : Cont → Nat → Option Cont × Option Cont
  | .arr xs, off => arrAddOffset xs off
  | .bmp c ws, off => bmpAddOffset c ws off
  | .run rs, off => runAddOffset rs off

namespace RepXform

/-! ### `AddOffset64` -/

def optSlot (k : Int) (c : Option Cont) : List Slot :=
  match c with
  | some c => if 0 ≤ k ∧ k ≤ 65535 then [{ key := k.toNat, c := c, flag := false }] else []
  | none => []

/-- the (at most two) containers one source container contributes, in key order: the low half under `key + co`, the high
half under the next key; with `off = 0` the `clone()` under `key + co`.  Halves whose key is outside `0..65535` are dropped -/
def offPieces (co : Int) (off : Nat) (s : Slot) : List Slot :=
  let k : Int := (s.key : Int) + co
  if off == 0 then optSlot k (some s.c)
  else
    let p := s.c.addOffset off
    optSlot k p.1 ++ optSlot (k + 1) p.2

/-- a container in front of the containers produced by the LATER source keys: when the first of them (the low half of the
next source container) has the same key, it is merged into this one — Go meets them in the other order:
`prev.ior(lo)` with `prev` the last container of the answer -/
def consMerge (p : Slot) (rest : List Slot) : List Slot :=
  match rest with
  | h :: t => if p.key == h.key then { key := p.key, c := p.c.ior2 h.c, flag := false } :: t else p :: rest
  | [] => [p]

/-- the walk over the source containers -/
def offWalk (co : Int) (off : Nat) : List Slot → List Slot
  | [] => []
  | s :: t => (offPieces co off s).foldr consMerge (offWalk co off t)

end RepXform

open RepXform

/-- `roaring.AddOffset64(a, d)` -/
def Rep.addOffset64 (a : Rep) (d : Int) : Rep :=
  let co : Int := d / 65536
  let off : Nat := (d % 65536).toNat
  if co ≥ 65536 ∨ co < -65536 then { cow := false, slots := [] }
  else { cow := false, slots := offWalk co off a.slots }

/-! ### static `Flip` -/

namespace RepXform

/-- `rangeOfOnes(start, last)` -/
def rangeOfOnes (start last : Nat) : Cont := runToEfficient [(start, last - start)]

/-- the container of the answer under key `hb` of the flipped range `[lo, hi)` (`lo < hi`) -/
def flipKey (a : Rep) (lo hi hb : Nat) : List Slot :=
  let cs := if hb == lo / 65536 then lo % 65536 else 0
  let cl := if hb == (hi - 1) / 65536 then (hi - 1) % 65536 else 65535
  match a.find hb with
  | some c => keep hb (c.notRange cs (cl + 1)) []
  | none => [{ key := hb, c := rangeOfOnes cs cl, flag := false }]

end RepXform

/-- `roaring.Flip(a, lo, hi)` (the returned bitmap) -/
def Rep.flipStatic (a : Rep) (lo hi : Nat) : Rep :=
  if hi ≤ lo then
    (if a.cow then { cow := true, slots := a.slots.map fun s => { s with flag := true } }
     else { cow := false, slots := a.slots.map fun s => { s with flag := false } })
  else
    let hbS := lo / 65536
    let hbL := (hi - 1) / 65536
    { cow := false,
      slots := (a.slots.filter fun s => s.key < hbS).map copySlot ++
        (List.range' hbS (hbL + 1 - hbS)).flatMap (flipKey a lo hi) ++
        (a.slots.filter fun s => hbL < s.key).map copySlot }

/-- the operand of `roaring.Flip(a, lo, hi)` after the call -/
def Rep.flipStaticSrc (a : Rep) (lo hi : Nat) : Rep :=
  if hi ≤ lo ∧ a.cow then { cow := true, slots := a.slots.map fun s => { s with flag := true } } else a

/-! ### dense conversion -/

/-- `Bitmap.DenseSize()` -/
def Rep.denseSize (a : Rep) : Nat :=
  match a.slots.getLast? with
  | none => 0
  | some s => (s.key * 65536 + s.c.maximumQ.toNat + 1 + 63) / 64

/-- `Bitmap.ToDense()` -/
def Rep.toDense (a : Rep) : List (BitVec 64) :=
  match a.slots.getLast? with
  | none => []
  | some s =>
    ((List.range (s.key + 1)).flatMap fun k =>
      match a.find k with
      | some c => c.toBitmapWords
      | none => emptyWords).take a.denseSize

namespace RepXform

/-- one chunk of `FromDense` -/
def denseChunk (k : Nat) (words : List (BitVec 64)) (doCopy : Bool) : List Slot :=
  let count := wordsCard words
  if count > arrayMax then
    if doCopy || words.length < 1024 then
      [{ key := k, c := .bmp count (words ++ List.replicate (1024 - words.length) 0#64), flag := false }]
    else [{ key := k, c := .bmp count words, flag := true }]
  else if count > 0 then [{ key := k, c := .arr (valsOfWords words), flag := false }]
  else []

def denseChunks (doCopy : Bool) : (fuel : Nat) → (k : Nat) → List (BitVec 64) → List Slot
  | 0, _, _ => []
  | _, _, [] => []
  | fuel + 1, k, ws => denseChunk k (ws.take 1024) doCopy ++ denseChunks doCopy fuel (k + 1) (ws.drop 1024)

end RepXform

/-- `roaring.FromDense(words, doCopy)` -/
def Rep.fromDense (words : List (BitVec 64)) (doCopy : Bool) : Rep :=
  { cow := false, slots := denseChunks doCopy words.length 0 words }

end RModel.Impl
