import RModel.Impl.Serial
/-!
L2: the CRoaring "frozen" format as implemented by `/repo/serialization_littleendian.go`:

* `Rep.frozenSize`  mirrors `Bitmap.GetFrozenSizeInBytes`,
* `Rep.freeze`      mirrors `Bitmap.FreezeTo` (= `Freeze`, and the byte stream `WriteFrozenTo` emits),
* `frozenView`      mirrors `roaringArray.frozenView` check by check over a bounds-checked byte buffer.

The Go reader works with Go slices (`buf[a:]`, `buf[:b]`, `s[i]`) and `unsafe` casts of byte slices to
`[]uint16`, `[]uint64`, `[]interval16`.  Here a slice is a window `(off, len)` into the immutable input array; every
slice expression and every index of the Go code is performed by `Win.sliceFrom` / `Win.sliceTo` / `Win.idx`, which return
`.panic` exactly when the Go expression would panic (index out of range / slice bounds out of range), and every cast
by `Win.cast`, which returns `.panic` when `len % elemSize ≠ 0` (the explicit `panic` in `byteSliceAsUint16Slice` & co.)
and is otherwise plain little-endian decoding.  So "`frozenView` never returns `.panic`" is a statement with content.
`cap` equals `len` for every slice the Go code creates with `unsafe.Slice`, and re-slicing from the front keeps that
invariant, so one length per window is enough.

Constants are parameters (`FrozenParams`), instantiated in `Driver/Frozen.lean` from `Gen/Facts.lean`.
Core Lean only.
-/
namespace RModel.Impl
open RModel

structure FrozenParams where
  /-- `frozenCookie` -/
  cookie : Nat
  /-- the literals of the `switch t` in `frozenView` / the `types[i] = …` stores in `FreezeTo` -/
  typeBitmap : Nat
  typeArray : Nat
  typeRun : Nat
  /-- `1 << 16`, the bound tested by `nCont > (1 << 16)` -/
  maxContainers : Nat
  /-- `1 << 13`, bytes per bitmap container; `1024` words -/
  bitmapBytes : Nat
  deriving Repr, BEq

/-! ### writer -/

/-- the value stored in `<counts>`: `uint16(cardinality-1)`, `uint16(len(content)-1)`, `uint16(len(iv))` -/
def Cont.frozenCount : Cont → Nat
  | .arr vals => (((vals.length : Int) - 1) % 65536).toNat
  | .bmp card _ => ((card - 1) % 65536).toNat
  | .run runs => runs.length % 65536

def Cont.frozenType (P : FrozenParams) : Cont → Nat
  | .arr _ => P.typeArray
  | .bmp _ _ => P.typeBitmap
  | .run _ => P.typeRun

/-- `copy(bitsArena, v.bitmap); bitsArena = bitsArena[1024:]` into a zeroed buffer (`v.bitmap` has 1024 words in every
reachable bitmap container) -/
def frozenBitmapBytes (P : FrozenParams) (ws : List (BitVec 64)) : Bytes :=
  let n := P.bitmapBytes / 8
  ((ws ++ List.replicate (n - ws.length) 0).take n).flatMap fun (w : BitVec 64) => le64 w.toNat

/-- `GetFrozenSizeInBytes` -/
def Rep.frozenSize (P : FrozenParams) (r : Rep) : Nat :=
  let cs := r.slots.map (·.c)
  let nBits := (cs.filter fun | .bmp _ _ => true | _ => false).length
  let nArrayEl := (cs.map fun | .arr v => v.length | _ => 0).sum
  let nRunEl := (cs.map fun | .run rs => rs.length | _ => 0).sum
  4 + 5 * cs.length + nBits * P.bitmapBytes + 2 * nArrayEl + 4 * nRunEl

/-- the bytes `FreezeTo` stores in `buf[:serialSize]` (it touches nothing beyond) -/
def Rep.freeze (P : FrozenParams) (r : Rep) : Bytes :=
  let cs := r.slots.map (·.c)
  let nCont := cs.length
  let bits := cs.flatMap fun | .bmp _ ws => frozenBitmapBytes P ws | _ => []
  let runs := cs.flatMap fun | .run rs => rs.flatMap (fun (s, l) => le16 s ++ le16 l) | _ => []
  let arrs := cs.flatMap fun | .arr vs => vs.flatMap le16 | _ => []
  let keys := r.slots.flatMap fun s => le16 s.key
  let counts := cs.flatMap fun c => le16 c.frozenCount
  let types := cs.map fun c => UInt8.ofNat (c.frozenType P)
  -- header := uint32(frozenCookie | (nCont << 15))
  let header := le32 ((P.cookie ||| (nCont <<< 15)) % 4294967296)
  bits ++ runs ++ arrs ++ keys ++ counts ++ types ++ header

/-! ### reader -/

instance : Monad Outcome where
  pure := .ok
  bind x f := match x with
    | .ok v => f v
    | .err => .err
    | .panic => .panic

/-- a Go slice of `elem`-byte elements: window into the input, `len` counted in elements -/
structure Win where
  off : Nat          -- byte offset of element 0
  len : Nat          -- number of elements
  elem : Nat := 1
  deriving Repr

/-- `s[a:]` (Go `int` arithmetic: `a` may be negative) -/
def Win.sliceFrom (s : Win) (a : Int) : Outcome Win :=
  if 0 ≤ a ∧ a ≤ s.len then .ok { s with off := s.off + a.toNat * s.elem, len := s.len - a.toNat } else .panic

/-- `s[:b]`  (`cap = len` for all slices of this function) -/
def Win.sliceTo (s : Win) (b : Int) : Outcome Win :=
  if 0 ≤ b ∧ b ≤ s.len then .ok { s with len := b.toNat } else .panic

/-- `byteSliceAsUint16Slice` etc.: explicit panic unless the byte length is a multiple of the element size -/
def Win.cast (s : Win) (elem : Nat) : Outcome Win :=
  if s.elem != 1 then .panic
  else if s.len % elem != 0 then .panic
  else .ok { off := s.off, len := s.len / elem, elem := elem }

def byteAt (b : Array UInt8) (i : Nat) : Nat := (b.getD i 0).toNat

def leAt (b : Array UInt8) (off : Nat) (n : Nat) : Nat :=
  (List.range n).foldr (fun k acc => byteAt b (off + k) + 256 * acc) 0

/-- `s[i]` on a byte / uint16 slice -/
def Win.idx (b : Array UInt8) (s : Win) (i : Nat) : Outcome Nat :=
  if i < s.len then .ok (leAt b (s.off + i * s.elem) s.elem) else .panic

def Win.u16s (b : Array UInt8) (s : Win) : List Nat :=
  (List.range s.len).map fun k => leAt b (s.off + 2 * k) 2

structure Tally where
  nBitmap : Nat := 0
  nArray : Nat := 0
  nRun : Nat := 0
  nArrayEl : Nat := 0
  nRunEl : Nat := 0

structure Arenas where
  bitsets : Win
  runs : Win
  arrays : Win
  iBitset : Nat := 0
  iArray : Nat := 0
  iRun : Nat := 0

/-- the header part of `frozenView`: cookie checks, container count, and the `types` / `counts` / `keys` slices cut from
the end of the buffer; returns them with what is left of `buf` -/
def frozenHeader (P : FrozenParams) (b : Array UInt8) : Outcome (Win × Win × Win × Win) :=
  let buf : Win := { off := 0, len := b.size }
  -- if len(buf) < 4 { return ErrFrozenBitmapIncomplete }
  if buf.len < 4 then .err else do
  -- headerBE := binary.BigEndian.Uint32(buf[len(buf)-4:])
  let tail ← buf.sliceFrom ((buf.len : Int) - 4)
  let b0 ← tail.idx b 0; let b1 ← tail.idx b 1; let b2 ← tail.idx b 2; let b3 ← tail.idx b 3
  let headerBE := b3 + 256 * (b2 + 256 * (b1 + 256 * b0))
  if headerBE % 32768 == P.cookie then .err else do
  -- header := binary.LittleEndian.Uint32(buf[len(buf)-4:]);  buf = buf[:len(buf)-4]
  let header := b0 + 256 * (b1 + 256 * (b2 + 256 * b3))
  let buf ← buf.sliceTo ((buf.len : Int) - 4)
  if header % 32768 != P.cookie then .err else
  let nCont := header / 32768
  if nCont > P.maxContainers then .err else
  if buf.len < 5 * nCont then .err else do
  -- types := buf[len(buf)-nCont:];  buf = buf[:len(buf)-nCont]
  let types ← buf.sliceFrom ((buf.len : Int) - nCont)
  let buf ← buf.sliceTo ((buf.len : Int) - nCont)
  -- counts := byteSliceAsUint16Slice(buf[len(buf)-2*nCont:]);  buf = buf[:len(buf)-2*nCont]
  let counts ← (← buf.sliceFrom ((buf.len : Int) - 2 * nCont)).cast 2
  let buf ← buf.sliceTo ((buf.len : Int) - 2 * nCont)
  -- keys := byteSliceAsUint16Slice(buf[len(buf)-2*nCont:]);  buf = buf[:len(buf)-2*nCont]
  let keys ← (← buf.sliceFrom ((buf.len : Int) - 2 * nCont)).cast 2
  let buf ← buf.sliceTo ((buf.len : Int) - 2 * nCont)
  pure (types, counts, keys, buf)

/-- one iteration of the first `for i, t := range types` loop -/
def tallyStep (P : FrozenParams) (b : Array UInt8) (types counts : Win) (i : Nat) (t : Tally) : Outcome Tally := do
  let code ← types.idx b i
  if code == P.typeBitmap then
    pure { t with nBitmap := t.nBitmap + 1 }
  else if code == P.typeArray then do
    let c ← counts.idx b i
    pure { t with nArray := t.nArray + 1, nArrayEl := t.nArrayEl + c + 1 }
  else if code == P.typeRun then do
    let c ← counts.idx b i
    pure { t with nRun := t.nRun + 1, nRunEl := t.nRunEl + c }
  else
    Outcome.err

/-- first pass over the type codes (indices in order) -/
def tallyLoop (P : FrozenParams) (b : Array UInt8) (types counts : Win) : List Nat → Tally → Outcome Tally
  | [], t => pure t
  | i :: is, t => do
    let t' ← tallyStep P b types counts i t
    tallyLoop P b types counts is t'

/-- size check and the three arenas cut from the front of what is left of `buf` -/
def frozenArenas (P : FrozenParams) (buf : Win) (t : Tally) : Outcome Arenas :=
  -- if len(buf) < (1<<13)*nBitmap+4*nRunEl+2*nArrayEl { return ErrFrozenBitmapIncomplete }
  if buf.len < P.bitmapBytes * t.nBitmap + 4 * t.nRunEl + 2 * t.nArrayEl then .err else do
  let bitsetsArena ← (← buf.sliceTo (Int.ofNat (P.bitmapBytes * t.nBitmap))).cast 8
  let buf ← buf.sliceFrom (Int.ofNat (P.bitmapBytes * t.nBitmap))
  let runsArena ← (← buf.sliceTo (Int.ofNat (4 * t.nRunEl))).cast 4
  let buf ← buf.sliceFrom (Int.ofNat (4 * t.nRunEl))
  let arraysArena ← (← buf.sliceTo (Int.ofNat (2 * t.nArrayEl))).cast 2
  let buf ← buf.sliceFrom (Int.ofNat (2 * t.nArrayEl))
  if buf.len != 0 then .err else
  pure { bitsets := bitsetsArena, runs := runsArena, arrays := arraysArena }

/-- one iteration of the second `for i, t := range types` loop: the container carved out of its arena (none for an
unknown type code: the second `switch` has no `default`) -/
def carveStep (P : FrozenParams) (b : Array UInt8) (types counts : Win) (i : Nat) (a : Arenas) :
    Outcome (Arenas × List Slot) := do
  let wordsPer := P.bitmapBytes / 8
  let code ← types.idx b i
  if code == P.typeBitmap then do
    let c ← counts.idx b i
    let w ← a.bitsets.sliceTo (Int.ofNat wordsPer)                      -- bitsetsArena[:1024]
    let rest ← a.bitsets.sliceFrom (Int.ofNat wordsPer)                   -- bitsetsArena[1024:]
    let words := (List.range w.len).map fun k => BitVec.ofNat 64 (leAt b (w.off + 8 * k) 8)
    pure ({ a with bitsets := rest, iBitset := a.iBitset + 1 },
          [{ key := 0, c := .bmp ((c : Int) + 1) words, flag := true }])
  else if code == P.typeArray then do
    let c ← counts.idx b i
    let sz := c + 1
    let w ← a.arrays.sliceTo (Int.ofNat sz)                             -- arraysArena[:sz]
    let rest ← a.arrays.sliceFrom (Int.ofNat sz)                          -- arraysArena[sz:]
    pure ({ a with arrays := rest, iArray := a.iArray + 1 }, [{ key := 0, c := .arr (w.u16s b), flag := true }])
  else if code == P.typeRun then do
    let c ← counts.idx b i
    let w ← a.runs.sliceTo (Int.ofNat c)                                -- runsArena[:counts[i]]
    let rest ← a.runs.sliceFrom (Int.ofNat c)                             -- runsArena[counts[i]:]
    let ivs := (List.range w.len).map fun k => (leAt b (w.off + 4 * k) 2, leAt b (w.off + 4 * k + 2) 2)
    pure ({ a with runs := rest, iRun := a.iRun + 1 }, [{ key := 0, c := .run ivs, flag := true }])
  else
    pure (a, [])                                           -- no `default` in the second switch

/-- second pass: carve the containers out of the arenas (indices in order) -/
def carveLoop (P : FrozenParams) (b : Array UInt8) (types counts : Win) : List Nat → Arenas → Outcome (Arenas × List Slot)
  | [], a => pure (a, [])
  | i :: is, a => do
    let (a', s) ← carveStep P b types counts i a
    let (a'', ss) ← carveLoop P b types counts is a'
    pure (a'', s ++ ss)

/-- `roaringArray.frozenView(buf)`; the result carries `copyOnWrite = true` and every `needCopyOnWrite[i] = true` -/
def frozenView (P : FrozenParams) (bs : Bytes) : Outcome Rep := do
  let b := bs.toArray
  let (types, counts, keys, buf) ← frozenHeader P b
  -- first pass over the type codes
  let t ← tallyLoop P b types counts (List.range types.len) {}
  let a0 ← frozenArenas P buf t
  -- second pass: carve the containers out of the arenas
  let (a, slots) ← carveLoop P b types counts (List.range types.len) a0
  -- if iBitset != nBitmap || len(bitsetsArena) != 0 || … { panic("we missed something") }
  if a.iBitset != t.nBitmap || a.bitsets.len != 0 || a.iArray != t.nArray || a.arrays.len != 0 ||
      a.iRun != t.nRun || a.runs.len != 0 then .panic else
  -- ra.keys = keys; ra.containers = containers; ra.needCopyOnWrite = needCOW; ra.copyOnWrite = true
  let ks := keys.u16s b
  if ks.length != slots.length then .panic else          -- len(keys) = nCont = len(containers) by construction
  pure { cow := true, slots := (slots.zip ks).map fun (s, k) => { s with key := k } }

end RModel.Impl
