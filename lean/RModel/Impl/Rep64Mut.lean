import RModel.Impl.Rep64
import RModel.Impl.RepMut
import RModel.Impl.RepQuery
/-!
L2 of `roaring64`: the POINT MUTATORS of `roaring64.go` on the stored representation `Rep64` (sorted array of high-32-bit
keys, one 32-bit `*roaring.Bitmap` per key, one `needCopyOnWrite` flag per bucket, the `copyOnWrite` switch):

  `Add  CheckedAdd  AddInt  Remove  CheckedRemove  AddMany  Clear  IsEmpty`

As everywhere at L2 the functions return **the representation the Go method leaves behind**: which bucket is created /
rewritten / removed and at which index, every flag, and the touched bucket exactly as the 32-bit model `Rep` (through the
proved 32-bit mutators `Rep.add`, `Rep.checkedAdd`, `Rep.remove`, `Rep.checkedRemove` of `Impl/RepMut.lean`).

How the Go code is read (`/repo/roaring64/roaring64.go`, `/repo/roaring64/roaringarray64.go`).

* Key lookup: every mutator starts with `i := rb.highlowcontainer.getIndex(hb)`, `hb = x >> 32`.  `roaringArray64.getIndex`
  is the algorithm of the 32-bit `roaringArray.getIndex` ("empty, or the last key is the one → `size-1`", else
  `binarySearch`: bisection while `low+16 <= high`, then a linear scan; a miss is `-(insertion point) - 1`) on the `[]uint32`
  key array: `RepQuery.getIndex` on `keys64`.
* The three edits of the bucket array are list splices at that index: `setAt` (the slot `i` is overwritten: the pointer stored by
  `getWritableContainerAtIndex` / mutated in place, flag cleared), `insertAt` (`insertNewKeyValueAt(-i-1, hb, newBitmap)`: the
  new flag is `false`), `removeAt` (`removeAtIndex(i)`).
* The copy-on-write gate `getWritableContainerAtIndex(i)`: a flagged bucket is replaced by `containers[i].Clone()` and
  **the flag is cleared** whether or not the 32-bit method then changes anything (`Remove` of an absent value …):
  `R64Ops.writableBm`, then `flag := false`.  `(*roaring.Bitmap).Clone()` is `Rep.cloneB`: with the inner bitmap's own
  switch off a deep copy (container flags off), with it on the containers are shared and flagged — the 32-bit mutator then
  goes through ITS gate (`Rep.add` clears the flag of the container it writes).
* `Add(x)`: present → `getWritable(i).Add(lb)`; absent → `roaring.NewBitmap()` (`{}`), `.Add(lb)`, inserted.
  `CheckedAdd(x)`: present → `getWritable(i).CheckedAdd(lb)` (same mutation, the Boolean of the 32-bit method); absent → as `Add`, `true`.
  `AddInt(x int)` is `Add(uint64(x))`: the two's complement of a negative `x`.
* `Remove(x)`: present → `c := getWritable(i); c.Remove(lb); if c.IsEmpty() { removeAtIndex(i) }`; absent → nothing.
  `CheckedRemove(x)`: `removed := c.CheckedRemove(lb); if removed && c.IsEmpty() { removeAtIndex(i) }; return removed`.
* `AddMany(dat)`: the slice is cut into maximal batches of CONSECUTIVE elements with equal high bits (`start`, `batchHighBits`;
  a batch is flushed when the high bits change and once more at the end — so the same bucket may be visited several times
  when the input alternates between buckets); a batch is handed to `rb.getOrCreateContainer(hb).AddMany(batch)`:
  `getOrCreateContainer` = `getIndex`, present → `getWritable(i)`, absent → an EMPTY `roaring.NewBitmap()` inserted at `-i-1`
  (it never stays empty: a batch has at least one element).  The 32-bit `AddMany` keeps the container of the previous
  element cached (`idx, c`): `addwithptr(dat[0])` (= `Add`: gate, `iaddReturnMinimized`, store), then for every further
  element with the same 16 high bits `c = c.iaddReturnMinimized(lb); setContainerAtIndex(idx, c)` — the cached container IS the
  one stored at `idx`, already writable with its flag cleared — else `addwithptr` again.  In the representation this is
  `Rep.add` element by element: `Rep.addManyF` (proved equal to the exact model `Rep.addMany` of `Impl/RepBulk.lean`
  in `RProofs/Rep64Mut.lean`, `Rep.addManyF_eq`).
* `Clear()`: `resize(0)` and **`copyOnWrite = false`** (`Rep64.cleared`).  `IsEmpty()`: `size() == 0`.

The model is tied to the Go code by the `l2mut64` correspondence check (`Driver/L2R64Q.lean`): the exact `repr64` after
every call.  Core Lean only, executable (linked into the compiled checker).
-/
namespace RModel.Impl
open RModel

/-- the 32-bit `(*Bitmap).AddMany(dat)`: element by element (the cached container of the Go loop is the stored one) -/
def Rep.addManyF (r : Rep) (dat : List Nat) : Rep := dat.foldl Rep.add r

namespace R64Q
open RepQuery R64Ops

/-- `ra.keys` -/
def keys64 (bs : List Bucket) : List Nat := bs.map (·.high)

/-- entry `i` of the three parallel arrays -/
def bAt (bs : List Bucket) (i : Nat) : Bucket := bs.getD i default

/-- slot `i` overwritten -/
def setAt (bs : List Bucket) (i : Nat) (b : Bucket) : List Bucket := bs.take i ++ b :: bs.drop (i + 1)

/-- `insertNewKeyValueAt(i, key, value)` -/
def insertAt (bs : List Bucket) (i : Nat) (b : Bucket) : List Bucket := bs.take i ++ b :: bs.drop i

/-- `removeAtIndex(i)` -/
def removeAt (bs : List Bucket) (i : Nat) : List Bucket := bs.take i ++ bs.drop (i + 1)

/-- `i := getIndex(hb)`; `f (some bucket_i)` is what is stored at `i` afterwards (`none`: `removeAtIndex(i)`), `f none` what is
inserted at `-i-1` for a missing key (`none`: nothing) -/
def alterAt (bs : List Bucket) (hb : Nat) (f : Option Bucket → Option Bucket) : List Bucket :=
  let i := getIndex (keys64 bs) hb
  if 0 ≤ i then
    match f (some (bAt bs i.toNat)) with
    | some b' => setAt bs i.toNat b'
    | none => removeAt bs i.toNat
  else
    match f none with
    | some b' => insertAt bs (-i - 1).toNat b'
    | none => bs

/-- `Add` -/
def addF (hb lb : Nat) : Option Bucket → Option Bucket
  | some b => some { high := b.high, bm := (writableBm b).add lb, flag := false }
  | none => some { high := hb, bm := ({} : Rep).add lb, flag := false }

/-- `Remove` -/
def removeF (lb : Nat) : Option Bucket → Option Bucket
  | some b => nonEmpty { high := b.high, bm := (writableBm b).remove lb, flag := false }
  | none => none

/-- `CheckedRemove`: the bucket goes only `if removed && c.IsEmpty()` -/
def checkedRemoveF (lb : Nat) : Option Bucket → Option Bucket
  | some b =>
    let p := (writableBm b).checkedRemove lb
    if p.2 && p.1.isEmptyGo then none else some { high := b.high, bm := p.1, flag := false }
  | none => none

/-- `getOrCreateContainer(hb).AddMany(batch)` -/
def addBatchF (hb : Nat) (batch : List Nat) : Option Bucket → Option Bucket
  | some b => some { high := b.high, bm := (writableBm b).addManyF batch, flag := false }
  | none => some { high := hb, bm := ({} : Rep).addManyF batch, flag := false }

theorem length_dropWhile_le' (p : Nat → Bool) (l : List Nat) : (l.dropWhile p).length ≤ l.length := by
  induction l with
  | nil => simp
  | cons a t ih => rw [List.dropWhile_cons]; split <;> simp <;> omega

/-- the loop of `AddMany`: the first element opens a batch (`batchHighBits`), the batch takes the following elements while
their high bits are the same (`end` moves on), is flushed into its bucket, and the loop goes on with the rest -/
def addManyLoop (bs : List Bucket) : List Nat → List Bucket
  | [] => bs
  | v :: t =>
    addManyLoop
      (alterAt bs (v / 4294967296)
        (addBatchF (v / 4294967296)
          ((v :: t.takeWhile (fun w => w / 4294967296 == v / 4294967296)).map (· % 4294967296))))
      (t.dropWhile (fun w => w / 4294967296 == v / 4294967296))
termination_by l => l.length
decreasing_by
  have := length_dropWhile_le' (fun w => w / 4294967296 == v / 4294967296) t
  simp only [List.length_cons]; omega

end R64Q

open R64Q RepQuery R64Ops

/-- `x.Add(v)` -/
def Rep64.add (r : Rep64) (x : Nat) : Rep64 :=
  { cow := r.cow, buckets := alterAt r.buckets (x / 4294967296) (addF (x / 4294967296) (x % 4294967296)) }

/-- `x.CheckedAdd(v)`: the receiver afterwards and the returned Boolean -/
def Rep64.checkedAdd (r : Rep64) (x : Nat) : Rep64 × Bool :=
  (r.add x,
    let i := getIndex (keys64 r.buckets) (x / 4294967296)
    if 0 ≤ i then ((writableBm (bAt r.buckets i.toNat)).checkedAdd (x % 4294967296)).2 else true)

/-- `x.AddInt(v)`: `Add(uint64(v))` for a 64-bit `int` -/
def Rep64.addInt (r : Rep64) (x : Int) : Rep64 := r.add (x % 18446744073709551616).toNat

/-- `x.Remove(v)` -/
def Rep64.remove (r : Rep64) (x : Nat) : Rep64 :=
  { cow := r.cow, buckets := alterAt r.buckets (x / 4294967296) (removeF (x % 4294967296)) }

/-- `x.CheckedRemove(v)`: the receiver afterwards and the returned Boolean -/
def Rep64.checkedRemove (r : Rep64) (x : Nat) : Rep64 × Bool :=
  ({ cow := r.cow, buckets := alterAt r.buckets (x / 4294967296) (checkedRemoveF (x % 4294967296)) },
    let i := getIndex (keys64 r.buckets) (x / 4294967296)
    if 0 ≤ i then ((writableBm (bAt r.buckets i.toNat)).checkedRemove (x % 4294967296)).2 else false)

/-- `x.AddMany(dat)` -/
def Rep64.addMany (r : Rep64) (dat : List Nat) : Rep64 := { cow := r.cow, buckets := addManyLoop r.buckets dat }

/-- `Clear()` -/
def Rep64.cleared : Rep64 := { cow := false, buckets := [] }

/-- `IsEmpty()` -/
def Rep64.isEmptyQ (r : Rep64) : Bool := r.buckets.length == 0

end RModel.Impl
