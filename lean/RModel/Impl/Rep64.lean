import RModel.Impl.RepOps
/-!
L2 of `roaring64`: the 64-bit bitmap **as stored** — `roaringArray64`: a sorted array of high-32-bit keys, one 32-bit
`*roaring.Bitmap` per key ("bucket"), one `needCopyOnWrite` flag per bucket, the `copyOnWrite` switch — with its
abstraction to the L1 set, the well-formedness predicate, and executable models that return **the representation the Go
function returns** (same keys, which buckets are dropped / cloned / shared, same flags, `copyOnWrite` switch).

How the Go code is read (`/repo/roaring64/roaring64.go`, `/repo/roaring64/roaringarray64.go`):

* static `And / Or / Xor / AndNot`: `answer := NewBitmap()` (`copyOnWrite = false`), two-pointer walk over the key arrays
  (`advanceUntil` only skips keys).  Equal keys: the STATIC 32-bit function `roaring.And(c1, c2)` … (modelled exactly by
  `Rep.and2` … of `RepOps`), appended with flag off; `And`, `Xor`, `AndNot` append only `if !c.IsEmpty()`
  (`IsEmpty` of a 32-bit bitmap = it has no container), `Or` appends unconditionally.  A key on one side only: `Or`, `Xor`
  (both sides), `AndNot` (left side) call `answer.appendCopy(src, i)`:
  `copyonwrite := (answer.copyOnWrite && src.copyOnWrite) || src.needsCopyOnWrite(i)` = the source flag, and — unlike the
  32-bit `appendCopy` — **both** branches append `src.containers[i].Clone()`; so the answer always gets a private clone of
  the bucket, carrying the source's flag (`copyBucket`).  The source flag is set only when it is set already.
* `(*roaring.Bitmap).Clone()` (`Rep.cloneB`): with the inner bitmap's own `copyOnWrite` off (every bucket the 64-bit library
  creates) a deep copy with all container flags off; with it on (`Roaring32AsRoaring64` of a copy-on-write bitmap) the
  containers are shared and flagged in BOTH bitmaps — the only way a static operation touches an operand (`Rep.cloneSrcB`,
  flags only, never the set).
* in-place `Flip`, `AddRange`, `RemoveRange` and static `Flip`: loops over the bucket keys `hbStart..hbLast`; an existing
  bucket is made writable (`getWritableContainerAtIndex`: a flagged bucket is replaced by its `Clone()` and unflagged) and
  handed to the 32-bit `Flip / AddRange / RemoveRange`; a missing bucket is created (`roaring.NewBitmap()`), emptied buckets
  are removed.  The 32-bit range functions are NOT modelled at L2: their effect enters through the parameter `Ops32`
  (three functions `Rep → lo → hi → Rep`), so the models below are exact for the bucket STRUCTURE (keys, which buckets
  exist / are dropped, flags, switch, untouched buckets verbatim) and parametric in the content of the touched buckets.
  The loops are written as a merge of the (ascending, contiguous) key list with the (ascending) bucket list, which is what
  the `getIndex` lookups amount to on a well-formed key array.

Core Lean only, executable (linked into the compiled checker).
-/
namespace RModel.Impl
open RModel

/-- one entry of `roaringArray64`: key (high 32 bits), the 32-bit bitmap, its `needCopyOnWrite` flag -/
structure Bucket where
  high : Nat
  bm : Rep
  flag : Bool := false
  deriving Repr, BEq, Inhabited

structure Rep64 where
  cow : Bool := false
  buckets : List Bucket := []
  deriving Repr, BEq, Inhabited

/-! ### abstraction and well-formedness -/

/-- bucket `h` contributes its 32-bit set shifted by `h * 2^32` -/
def Rep64.toBSet (r : Rep64) : BSet :=
  Driver.unionAll (r.buckets.map fun b => BSet.shiftUp b.bm.toBSet (b.high * 4294967296))

/-- same function through the fast 32-bit abstraction (used by the compiled checker) -/
def Rep64.toBSetFast (r : Rep64) : BSet :=
  Driver.unionAll (r.buckets.map fun b => BSet.shiftUp b.bm.toBSetFast (b.high * 4294967296))

/-- `(*roaring.Bitmap).IsEmpty()`: no container -/
def Rep.isEmptyGo (r : Rep) : Bool := r.slots.isEmpty

/-- key below `2^32`, 32-bit bitmap well-formed and not empty -/
def Bucket.wf (b : Bucket) : Bool := decide (b.high < 4294967296) && b.bm.wf && !b.bm.isEmptyGo

/-- keys strictly increasing and `< 2^32`, no empty bucket, every bucket `Rep.wf` -/
def Rep64.wf (r : Rep64) : Bool := strictInc (r.buckets.map (·.high)) && r.buckets.all Bucket.wf

/-- the bitmap stored under high key `k` (first match) -/
def Rep64.find (r : Rep64) (k : Nat) : Option Rep := (r.buckets.find? (·.high == k)).map (·.bm)

/-- membership as the library computes it: look up bucket `x / 2^32`, ask that bitmap for `x % 2^32` -/
def Rep64.has (r : Rep64) (x : Nat) : Bool :=
  match r.find (x / 4294967296) with
  | some bm => bm.has (x % 4294967296)
  | none => false

/-! ### `(*roaring.Bitmap).Clone()` -/

/-- (named `cloneB` / `cloneSrcB` to stay clear of other L2 files that define the same two functions)
    the clone: same keys and containers; flags all off (deep copy) or all on (copy-on-write: shared containers) -/
def Rep.cloneB (r : Rep) : Rep := { cow := r.cow, slots := r.slots.map fun s => { key := s.key, c := s.c, flag := r.cow } }

/-- the receiver after `Clone()`: with copy-on-write on, all its containers are now flagged -/
def Rep.cloneSrcB (r : Rep) : Rep :=
  if r.cow then { cow := true, slots := r.slots.map fun s => { key := s.key, c := s.c, flag := true } } else r

/-! ### the four static operations -/

namespace R64Ops

/-- `answer.appendCopy(src, i)` into a fresh answer: a private `Clone()` of the bucket carrying the source's flag -/
def copyBucket (b : Bucket) : Bucket := { high := b.high, bm := b.bm.cloneB, flag := b.flag }

/-- `if !c.IsEmpty() { answer.appendContainer(key, c, false) }` -/
def keep (high : Nat) (c : Rep) (rest : List Bucket) : List Bucket :=
  if c.isEmptyGo then rest else { high := high, bm := c, flag := false } :: rest

/-- `roaring64.And` -/
def andBuckets : List Bucket → List Bucket → List Bucket
  | [], _ => []
  | _, [] => []
  | ba :: ta, bb :: tb =>
    if ba.high < bb.high then andBuckets ta (bb :: tb)                 -- advanceUntil on x1
    else if bb.high < ba.high then andBuckets (ba :: ta) tb            -- advanceUntil on x2
    else keep ba.high (ba.bm.and2 bb.bm) (andBuckets ta tb)
termination_by a b => a.length + b.length

/-- `roaring64.Or` -/
def orBuckets : List Bucket → List Bucket → List Bucket
  | [], b => b.map copyBucket                                          -- appendCopyMany(x2, pos2, length2)
  | a, [] => a.map copyBucket                                          -- appendCopyMany(x1, pos1, length1)
  | ba :: ta, bb :: tb =>
    if ba.high < bb.high then copyBucket ba :: orBuckets ta (bb :: tb)
    else if bb.high < ba.high then copyBucket bb :: orBuckets (ba :: ta) tb
    else { high := ba.high, bm := ba.bm.or2 bb.bm, flag := false } :: orBuckets ta tb
termination_by a b => a.length + b.length

/-- `roaring64.Xor` -/
def xorBuckets : List Bucket → List Bucket → List Bucket
  | [], b => b.map copyBucket
  | a, [] => a.map copyBucket
  | ba :: ta, bb :: tb =>
    if ba.high < bb.high then copyBucket ba :: xorBuckets ta (bb :: tb)
    else if bb.high < ba.high then copyBucket bb :: xorBuckets (ba :: ta) tb
    else keep ba.high (ba.bm.xor2 bb.bm) (xorBuckets ta tb)
termination_by a b => a.length + b.length

/-- `roaring64.AndNot` -/
def andNotBuckets : List Bucket → List Bucket → List Bucket
  | [], _ => []
  | a, [] => a.map copyBucket                                          -- appendCopyMany(x1, pos1, length1)
  | ba :: ta, bb :: tb =>
    if ba.high < bb.high then copyBucket ba :: andNotBuckets ta (bb :: tb)
    else if bb.high < ba.high then andNotBuckets (ba :: ta) tb         -- advanceUntil on x2
    else keep ba.high (ba.bm.andNot2 bb.bm) (andNotBuckets ta tb)
termination_by a b => a.length + b.length

/-- the operand `a` after a static operation that clones every bucket of `a` whose key is missing in `other`:
only the inner flags of buckets whose own copy-on-write switch is on change (`Rep.cloneSrcB`) -/
def srcAfterLone (a other : List Bucket) : List Bucket :=
  a.map fun b => if other.any (·.high == b.high) then b else { high := b.high, bm := b.bm.cloneSrcB, flag := b.flag }

end R64Ops

open R64Ops

/-- `roaring64.And(a, b)` -/
def Rep64.and2 (a b : Rep64) : Rep64 := { cow := false, buckets := andBuckets a.buckets b.buckets }
/-- `roaring64.Or(a, b)` -/
def Rep64.or2 (a b : Rep64) : Rep64 := { cow := false, buckets := orBuckets a.buckets b.buckets }
/-- `roaring64.Xor(a, b)` -/
def Rep64.xor2 (a b : Rep64) : Rep64 := { cow := false, buckets := xorBuckets a.buckets b.buckets }
/-- `roaring64.AndNot(a, b)` -/
def Rep64.andNot2 (a b : Rep64) : Rep64 := { cow := false, buckets := andNotBuckets a.buckets b.buckets }

/-- the left / right operand after the static call (`which`: does the operation clone lone buckets of that side) -/
def Rep64.afterStatic (clonesLone : Bool) (a other : Rep64) : Rep64 :=
  if clonesLone then { cow := a.cow, buckets := srcAfterLone a.buckets other.buckets } else a

/-! ### `(*roaring64.Bitmap).Clone()` -/

/-- the clone: copy-on-write on → the buckets are shared and flagged; off → every bucket is `Clone()`d, flags off -/
def Rep64.clone (r : Rep64) : Rep64 :=
  if r.cow then { cow := true, buckets := r.buckets.map fun b => { high := b.high, bm := b.bm, flag := true } }
  else { cow := false, buckets := r.buckets.map fun b => { high := b.high, bm := b.bm.cloneB, flag := false } }

/-- the receiver after `Clone()` -/
def Rep64.cloneSrc (r : Rep64) : Rep64 :=
  if r.cow then { cow := true, buckets := r.buckets.map fun b => { high := b.high, bm := b.bm, flag := true } }
  else { cow := false, buckets := r.buckets.map fun b => { high := b.high, bm := b.bm.cloneSrcB, flag := b.flag } }

/-! ### range operations, parametric in the 32-bit range functions -/

/-- the 32-bit `Flip(lo, hi)`, `AddRange(lo, hi)`, `RemoveRange(lo, hi)` with `lo < hi ≤ 2^32` as functions on the
representation (not modelled at L2: a parameter) -/
structure Ops32 where
  flip : Rep → Nat → Nat → Rep
  addRange : Rep → Nat → Nat → Rep
  removeRange : Rep → Nat → Nat → Rep
  /-- the IN-PLACE 32-bit `(*Bitmap).And(x2)`, `Or`, `AndNot`: the receiver afterwards -/
  iand : Rep → Rep → Rep
  ior : Rep → Rep → Rep
  iandNot : Rep → Rep → Rep

namespace R64Ops

/-- `getWritableContainerAtIndex(i)`: a flagged bucket is replaced by its clone; the flag is off afterwards -/
def writableBm (b : Bucket) : Rep := if b.flag then b.bm.cloneB else b.bm

/-- in-place 32-bit `Flip(s, e)`: `s ≥ e` returns at once -/
def iflip32 (o : Ops32) (r : Rep) (s e : Nat) : Rep := if s < e then o.flip r s e else r

/-- static 32-bit `roaring.Flip(bm, s, e)`: `s ≥ e` returns `bm.Clone()` -/
def sflip32 (o : Ops32) (r : Rep) (s e : Nat) : Rep := if s < e then o.flip r s e else r.cloneB

/-- `containerStart` of bucket `k` for a range starting at `lo` -/
def subLo (lo k : Nat) : Nat := if k = lo / 4294967296 then lo % 4294967296 else 0

/-- `containerLast` of bucket `k` in `Flip` (exclusive end; `hbLast = highbits(rangeEnd)`, so it may be `0`) -/
def subHiFlip (hi k : Nat) : Nat := if k = hi / 4294967296 then hi % 4294967296 else 4294967296

/-- `containerLast + 1` of bucket `k` in `AddRange` (`hbLast = highbits(rangeEnd - 1)`) -/
def subHiLast (hi k : Nat) : Nat := if k = (hi - 1) / 4294967296 then (hi - 1) % 4294967296 + 1 else 4294967296

/-- a bucket survives unless its bitmap `IsEmpty()` -/
def nonEmpty (b : Bucket) : Option Bucket := if b.bm.isEmptyGo then none else some b

def consOpt : Option Bucket → List Bucket → List Bucket
  | none, rest => rest
  | some b, rest => b :: rest

/-- the loop `for hb := hbStart; hb <= hbLast; hb++ { i := getIndex(hb); if i >= 0 {…} else {…} }` over an ascending
key list against the ascending bucket list: `pres k b` = what becomes of the existing bucket `b` with key `k`,
`abs k` = what is created for a missing key `k` (`none` = nothing is stored), `out b` = what becomes of a bucket whose
key is not visited -/
def rangeWalk (pres : Nat → Bucket → Option Bucket) (abs : Nat → Option Bucket) (out : Bucket → Bucket) :
    List Nat → List Bucket → List Bucket
  | [], bs => bs.map out
  | k :: ks, [] => consOpt (abs k) (rangeWalk pres abs out ks [])
  | k :: ks, b :: bs =>
    if b.high < k then out b :: rangeWalk pres abs out (k :: ks) bs
    else if k < b.high then consOpt (abs k) (rangeWalk pres abs out ks (b :: bs))
    else consOpt (pres k b) (rangeWalk pres abs out ks bs)
termination_by ks bs => ks.length + bs.length

/-- bucket created by `Flip` for a missing key: `c := roaring.NewBitmap(); c.Flip(s, e)`, stored `if !c.IsEmpty()` -/
def newFlipped (o : Ops32) (lo hi k : Nat) : Option Bucket :=
  nonEmpty { high := k, bm := iflip32 o {} (subLo lo k) (subHiFlip hi k), flag := false }

/-- in-place `Flip` on an existing bucket: made writable, flipped, removed if it became empty -/
def flipPresent (o : Ops32) (lo hi k : Nat) (b : Bucket) : Option Bucket :=
  nonEmpty { high := k, bm := iflip32 o (writableBm b) (subLo lo k) (subHiFlip hi k), flag := false }

/-- in-place `Flip`: keys `hbStart..hbLast` against the bucket list -/
def flipWalk (o : Ops32) (lo hi : Nat) : List Nat → List Bucket → List Bucket :=
  rangeWalk (flipPresent o lo hi) (newFlipped o lo hi) id

/-- `appendCopiesUntil` / `appendCopiesAfter` into a fresh answer: a flagged bucket is appended SHARED and flagged, an
unflagged one is `Clone()`d -/
def copyOutside (b : Bucket) : Bucket := if b.flag then b else { high := b.high, bm := b.bm.cloneB, flag := false }

/-- static `Flip` on an existing bucket: `c := roaring.Flip(bucket, s, e)`, inserted `if !c.IsEmpty()` -/
def sflipPresent (o : Ops32) (lo hi k : Nat) (b : Bucket) : Option Bucket :=
  nonEmpty { high := k, bm := sflip32 o b.bm (subLo lo k) (subHiFlip hi k), flag := false }

/-- static `Flip` -/
def sflipWalk (o : Ops32) (lo hi : Nat) : List Nat → List Bucket → List Bucket :=
  rangeWalk (sflipPresent o lo hi) (newFlipped o lo hi) copyOutside

/-- the operand after static `Flip(lo < hi)`: an unflagged bucket outside the key range was `Clone()`d, and so was a
bucket of the range whose sub-range is empty -/
def sflipSrc (lo hi : Nat) (b : Bucket) : Bucket :=
  let inside := lo / 4294967296 ≤ b.high && b.high ≤ hi / 4294967296
  let cloned := if inside then !(subLo lo b.high < subHiFlip hi b.high) else !b.flag
  if cloned then { high := b.high, bm := b.bm.cloneSrcB, flag := b.flag } else b

/-- `AddRange`: every key of `hbStart..hbLast` gets (`getOrCreateContainer`) or has (made writable) a bucket -/
def addWalk (o : Ops32) (lo hi : Nat) : List Nat → List Bucket → List Bucket :=
  rangeWalk
    (fun k b => some { high := k, bm := o.addRange (writableBm b) (subLo lo k) (subHiLast hi k), flag := false })
    (fun k => some { high := k, bm := o.addRange {} (subLo lo k) (subHiLast hi k), flag := false })
    id

/-- an existing bucket made writable and trimmed by the 32-bit `RemoveRange(s, e)`; removed if it became empty -/
def trimBucket (o : Ops32) (b : Bucket) (s e : Nat) : Option Bucket :=
  nonEmpty { high := b.high, bm := o.removeRange (writableBm b) s e, flag := false }

/-- `RemoveRange` bucket by bucket: outside the key range untouched; strictly inside dropped without being looked at;
the first bucket is dropped whole when the range starts at its first value (`lbStart == 0`), the last one when the range
ends at its last value (`lbLast == max`); otherwise made writable, trimmed, dropped if it became empty -/
def removeBucket (o : Ops32) (lo hi : Nat) (b : Bucket) : Option Bucket :=
  if b.high < lo / 4294967296 || (hi - 1) / 4294967296 < b.high then some b
  else if lo / 4294967296 = (hi - 1) / 4294967296 then trimBucket o b (lo % 4294967296) ((hi - 1) % 4294967296 + 1)
  else if b.high = lo / 4294967296 then
    (if lo % 4294967296 = 0 then none else trimBucket o b (lo % 4294967296) 4294967296)
  else if b.high = (hi - 1) / 4294967296 then
    (if (hi - 1) % 4294967296 = 4294967295 then none else trimBucket o b 0 ((hi - 1) % 4294967296 + 1))
  else none

end R64Ops

/-! ### the four IN-PLACE operations `x.And(y)`, `x.Or(y)`, `x.Xor(y)`, `x.AndNot(y)`

Equal keys: `And`, `Or`, `AndNot` make the receiver's bucket writable and call the in-place 32-bit operation (parameter
`Ops32`), the flag is off afterwards, `And` / `AndNot` drop an emptied bucket; `Xor` stores the STATIC `roaring.Xor(c1, c2)`
(modelled exactly by `Rep.xor2`) with `setContainerAtIndex`, which leaves the bucket's flag as it was, or removes the
bucket when the result is empty.  A key of `y` only: `Or` / `Xor` insert `Clone()` with the flag off while the receiver
still has larger keys, and `appendCopy` the rest once the receiver is exhausted (`appendTail`: clone, flagged iff both
switches are on or the source bucket is flagged — and then the SOURCE bucket is flagged as well).  A key of `x` only:
untouched (`And` drops it).  `x.Xor(x)` with the same object is `Clear()` (switch off, no buckets). -/

namespace R64Ops

/-- `rb.appendCopy(y, i)` at the end of in-place `Or` / `Xor` -/
def appendTail (cowBoth : Bool) (b : Bucket) : Bucket := { high := b.high, bm := b.bm.cloneB, flag := cowBoth || b.flag }

/-- a bucket of `y` inserted in the middle: `insertNewKeyValueAt(pos1, key, c.Clone())` -/
def insertClone (b : Bucket) : Bucket := { high := b.high, bm := b.bm.cloneB, flag := false }

def iandBuckets (o : Ops32) : List Bucket → List Bucket → List Bucket
  | [], _ => []
  | _, [] => []
  | ba :: ta, bb :: tb =>
    if ba.high < bb.high then iandBuckets o ta (bb :: tb)
    else if bb.high < ba.high then iandBuckets o (ba :: ta) tb
    else consOpt (nonEmpty { high := ba.high, bm := o.iand (writableBm ba) bb.bm, flag := false }) (iandBuckets o ta tb)
termination_by a b => a.length + b.length

def iorBuckets (o : Ops32) (cowBoth : Bool) : List Bucket → List Bucket → List Bucket
  | [], b => b.map (appendTail cowBoth)
  | a, [] => a
  | ba :: ta, bb :: tb =>
    if ba.high < bb.high then ba :: iorBuckets o cowBoth ta (bb :: tb)
    else if bb.high < ba.high then insertClone bb :: iorBuckets o cowBoth (ba :: ta) tb
    else { high := ba.high, bm := o.ior (writableBm ba) bb.bm, flag := false } :: iorBuckets o cowBoth ta tb
termination_by a b => a.length + b.length

def ixorBuckets (cowBoth : Bool) : List Bucket → List Bucket → List Bucket
  | [], b => b.map (appendTail cowBoth)
  | a, [] => a
  | ba :: ta, bb :: tb =>
    if ba.high < bb.high then ba :: ixorBuckets cowBoth ta (bb :: tb)
    else if bb.high < ba.high then insertClone bb :: ixorBuckets cowBoth (ba :: ta) tb
    else consOpt (nonEmpty { high := ba.high, bm := ba.bm.xor2 bb.bm, flag := ba.flag }) (ixorBuckets cowBoth ta tb)
termination_by a b => a.length + b.length

def iandNotBuckets (o : Ops32) : List Bucket → List Bucket → List Bucket
  | [], _ => []
  | a, [] => a
  | ba :: ta, bb :: tb =>
    if ba.high < bb.high then ba :: iandNotBuckets o ta (bb :: tb)
    else if bb.high < ba.high then iandNotBuckets o (ba :: ta) tb
    else consOpt (nonEmpty { high := ba.high, bm := o.iandNot (writableBm ba) bb.bm, flag := false })
           (iandNotBuckets o ta tb)
termination_by a b => a.length + b.length

/-- the argument `y` after in-place `Or` / `Xor`: the buckets appended from the tail (keys above every key of `x`) were
`Clone()`d (inner flags, `Rep.cloneSrcB`) and are flagged when both switches are on; the buckets inserted in the middle
were `Clone()`d -/
def argAfter (cowBoth : Bool) (xs : List Bucket) (ys : List Bucket) : List Bucket :=
  ys.map fun b =>
    if xs.any (·.high == b.high) then b
    else if xs.all (·.high < b.high) then { high := b.high, bm := b.bm.cloneSrcB, flag := cowBoth || b.flag }
    else { high := b.high, bm := b.bm.cloneSrcB, flag := b.flag }

end R64Ops

/-- `x.And(y)` -/
def Rep64.iand (o : Ops32) (x y : Rep64) : Rep64 := { cow := x.cow, buckets := iandBuckets o x.buckets y.buckets }
/-- `x.Or(y)` -/
def Rep64.ior (o : Ops32) (x y : Rep64) : Rep64 :=
  { cow := x.cow, buckets := iorBuckets o (x.cow && y.cow) x.buckets y.buckets }
/-- `x.Xor(y)` for two different objects -/
def Rep64.ixor (x y : Rep64) : Rep64 := { cow := x.cow, buckets := ixorBuckets (x.cow && y.cow) x.buckets y.buckets }
/-- `x.AndNot(y)` -/
def Rep64.iandNot (o : Ops32) (x y : Rep64) : Rep64 := { cow := x.cow, buckets := iandNotBuckets o x.buckets y.buckets }
/-- `y` after `x.Or(y)` / `x.Xor(y)` (two different objects) -/
def Rep64.argAfter (x y : Rep64) : Rep64 := { cow := y.cow, buckets := R64Ops.argAfter (x.cow && y.cow) x.buckets y.buckets }

/-- keys `a, a+1, …, b` -/
def keyRange (a b : Nat) : List Nat := List.range' a (b + 1 - a)

/-- `(*Bitmap).Flip(lo, hi)` -/
def Rep64.flip (o : Ops32) (r : Rep64) (lo hi : Nat) : Rep64 :=
  if lo < hi then
    { cow := r.cow, buckets := flipWalk o lo hi (keyRange (lo / 4294967296) (hi / 4294967296)) r.buckets }
  else r

/-- `roaring64.Flip(r, lo, hi)` (the result) -/
def Rep64.sflip (o : Ops32) (r : Rep64) (lo hi : Nat) : Rep64 :=
  if lo < hi then
    { cow := false, buckets := sflipWalk o lo hi (keyRange (lo / 4294967296) (hi / 4294967296)) r.buckets }
  else r.clone

/-- `roaring64.Flip(r, lo, hi)` (the operand afterwards: inner flags only) -/
def Rep64.sflipSrc (r : Rep64) (lo hi : Nat) : Rep64 :=
  if lo < hi then { cow := r.cow, buckets := r.buckets.map (R64Ops.sflipSrc lo hi) } else r.cloneSrc

/-- `(*Bitmap).AddRange(lo, hi)` -/
def Rep64.addRange (o : Ops32) (r : Rep64) (lo hi : Nat) : Rep64 :=
  if lo < hi then
    { cow := r.cow, buckets := addWalk o lo hi (keyRange (lo / 4294967296) ((hi - 1) / 4294967296)) r.buckets }
  else r

/-- `(*Bitmap).RemoveRange(lo, hi)` -/
def Rep64.removeRange (o : Ops32) (r : Rep64) (lo hi : Nat) : Rep64 :=
  if lo < hi then { cow := r.cow, buckets := r.buckets.filterMap (removeBucket o lo hi) } else r

end RModel.Impl
