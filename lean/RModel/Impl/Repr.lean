import RModel.Driver.Util
/-!
L2: the concrete representation of a 32-bit roaring bitmap as the Go code stores it —
sorted keys, one container per key, each an array / bitmap(1024 words + cached cardinality) / run list —
with its abstraction to the L1 set, the well-formedness predicate of property C09 and a
conjunct-by-conjunct mirror of the Go `Validate`.
Core Lean only.
-/
namespace RModel.Impl
open RModel

inductive Cont where
  | arr (vals : List Nat)
  | bmp (card : Int) (words : List (BitVec 64))
  | run (runs : List (Nat × Nat))          -- (start, length-1)
  deriving Repr, BEq, Inhabited

structure Slot where
  key : Nat
  c : Cont
  flag : Bool := false
  deriving Repr, BEq, Inhabited

structure Rep where
  cow : Bool := false
  slots : List Slot := []
  deriving Repr, BEq, Inhabited

/-! ### abstraction -/

def boundsOfBits : (pos : Nat) → (prev : Bool) → List Bool → BSet
  | pos, prev, [] => if prev then [pos] else []
  | pos, prev, b :: t =>
      if b != prev then pos :: boundsOfBits (pos + 1) b t else boundsOfBits (pos + 1) prev t

def wordBits (w : BitVec 64) : List Bool := (List.range 64).map w.getLsbD

def popcount (w : BitVec 64) : Nat := ((List.range 64).filter w.getLsbD).length

def Cont.toBSet (base : Nat) : Cont → BSet
  | .arr vals => Driver.unionAll (vals.map fun v => BSet.single (base + v))
  | .bmp _ words => boundsOfBits base false (words.flatMap wordBits)
  | .run runs => Driver.unionAll (runs.map fun (s, l) => [base + s, base + s + l + 1])

def Cont.card : Cont → Nat
  | .arr vals => vals.length
  | .bmp _ words => (words.map popcount).sum
  | .run runs => (runs.map fun (_, l) => l + 1).sum

/-! #### fast abstraction used by the compiled checker (same function, computed word-wise / run-wise) -/

/-- boundaries contributed by one word, given the membership state just below it -/
def wordBoundsFast (pos : Nat) (prev : Bool) (w : BitVec 64) : List Nat × Bool :=
  if w == 0#64 then ((if prev then [pos] else []), false)
  else if w == BitVec.allOnes 64 then ((if prev then [] else [pos]), true)
  else
    let rec go (i : Nat) (fuel : Nat) (prev : Bool) (acc : List Nat) : List Nat × Bool :=
      match fuel with
      | 0 => (acc.reverse, prev)
      | fuel + 1 =>
        let b := w.getLsbD i
        go (i + 1) fuel b (if b != prev then (pos + i) :: acc else acc)
    go 0 64 prev []

def wordsBoundsFast : (pos : Nat) → (prev : Bool) → List (BitVec 64) → List (List Nat) → List (List Nat)
  | pos, prev, [], acc => ((if prev then [pos] else []) :: acc).reverse
  | pos, prev, w :: t, acc =>
    let (bs, p) := wordBoundsFast pos prev w
    wordsBoundsFast (pos + 64) p t (if bs.isEmpty then acc else bs :: acc)

/-- strictly increasing values → boundary list in one pass -/
def sortedValsBounds : (base : Nat) → List Nat → (cur : Option (Nat × Nat)) → List Nat → List Nat
  | _, [], none, acc => acc.reverse
  | _, [], some (lo, hi), acc => (hi :: lo :: acc).reverse
  | base, v :: t, none, acc => sortedValsBounds base t (some (base + v, base + v + 1)) acc
  | base, v :: t, some (lo, hi), acc =>
    if base + v == hi then sortedValsBounds base t (some (lo, hi + 1)) acc
    else sortedValsBounds base t (some (base + v, base + v + 1)) (hi :: lo :: acc)

def Cont.toBSetFast (base : Nat) : Cont → BSet
  | .arr vals => if strictIncFast vals then sortedValsBounds base vals none [] else (Cont.arr vals).toBSet base
  | .bmp _ words => (wordsBoundsFast base false words []).flatten
  | .run runs => Driver.unionAll (runs.map fun (s, l) => [base + s, base + s + l + 1])
where
  strictIncFast : List Nat → Bool
    | a :: b :: t => a < b && strictIncFast (b :: t)
    | _ => true

def Rep.toBSetFast (r : Rep) : BSet :=
  Driver.unionAll (r.slots.map fun s => s.c.toBSetFast (s.key * 65536))

def Rep.toBSet (r : Rep) : BSet :=
  Driver.unionAll (r.slots.map fun s => s.c.toBSet (s.key * 65536))

/-! ### well-formedness (property C09) -/

def strictInc : List Nat → Bool
  | a :: b :: t => a < b && strictInc (b :: t)
  | _ => true

/-- runs sorted, non-overlapping, non-adjacent, inside 0..65535 -/
def runsOk : List (Nat × Nat) → Bool
  | [(s, l)] => s + l ≤ 65535
  | (s, l) :: (s', l') :: t => s + l + 1 < s' && runsOk ((s', l') :: t)
  | [] => true

/-- Validate's storage-minimality demand on run containers: strictly smaller than the alternatives -/
def runMinimal (nruns card : Nat) : Bool :=
  2 + 4 * nruns < min 8224 (2 * card)

def Cont.wf : Cont → Bool
  | .arr vals => 0 < vals.length && vals.length ≤ 4096 && strictInc vals && vals.all (· < 65536)
  | .bmp card words =>
      words.length == 1024 && card == ((words.map popcount).sum : Nat) && card > 4096
  | .run runs =>
      !runs.isEmpty && runsOk runs && runMinimal runs.length ((runs.map fun (_, l) => l + 1).sum)

def Rep.wf (r : Rep) : Bool :=
  strictInc (r.slots.map (·.key)) && r.slots.all (fun s => s.key < 65536 && s.c.wf)

/-! ### mirror of the Go Validate (same conjuncts, same uint16 wrap-around arithmetic) -/

def last16 (s l : Nat) : Nat := (s + l) % 65536

/-- `interval16.isNonContiguousDisjoint` -/
def nonContigDisjoint (a b : Nat × Nat) : Bool :=
  let (as, al) := a; let (bs, bl) := b
  if as == bs then false
  else
    let alast := last16 as al; let blast := last16 bs bl
    let nc1 := as == blast + 1 || alast == bs + 1
    let nc2 := bs == alast + 1 || blast == as + 1
    if nc1 || nc2 then false
    else
      let c1 := as ≤ bs && bs ≤ alast
      let c2 := bs ≤ as && as ≤ blast
      !c1 && !c2

def runPairsOk : List (Nat × Nat) → Bool
  | [] => true
  | a :: t => t.all (fun b => !(a == b) && a.1 < b.1 && nonContigDisjoint a b) && runPairsOk t

def Cont.validate : Cont → Bool
  | .arr vals => 0 < vals.length && vals.length ≤ 4096 && strictInc vals
  | .bmp card words =>
      !(card < 4096) && !(65536 < words.length * 64) && !(card > 65536)
        && card == ((words.map popcount).sum : Nat)
  | .run runs =>
      let card := (runs.map fun (_, l) => l + 1).sum
      card != 0 && runs.all (fun (s, l) => !(s + l > 65535)) && runPairsOk runs &&
        (let sr := 4 * runs.length + 2
         let sb := 8224
         let sa := 2 * card
         if sr < min sb sa then true else if sr ≥ sb then false else if sr ≥ sa then false else true)

def Rep.validate (r : Rep) : Bool :=
  strictInc (r.slots.map (·.key)) && r.slots.all (fun s => s.c.validate)

/-! ### parsing the harness' rendering -/

def hexVal (c : Char) : Option Nat :=
  if '0' ≤ c && c ≤ '9' then some (c.toNat - 48)
  else if 'a' ≤ c && c ≤ 'f' then some (c.toNat - 87)
  else none

def parseHex (s : String) : Option Nat :=
  if s.isEmpty then none else
  s.toList.foldl (fun acc c => match acc, hexVal c with
    | some a, some d => some (a * 16 + d)
    | _, _ => none) (some 0)

def parseWords (s : String) : Option (List (BitVec 64)) :=
  if s.isEmpty then some [] else
  (s.splitOn ".").foldr (fun tok acc =>
    match acc with
    | none => none
    | some rest =>
      match tok.splitOn "*" with
      | [h] => (parseHex h).map fun v => BitVec.ofNat 64 v :: rest
      | [h, n] => match parseHex h, n.toNat? with
          | some v, some k => some (List.replicate k (BitVec.ofNat 64 v) ++ rest)
          | _, _ => none
      | _ => none) (some [])

def parseCont (kind : String) (fields : List String) : Option Cont :=
  match kind, fields with
  | "A", [vs] => if vs.isEmpty then some (.arr []) else (vs.splitOn ",").mapM String.toNat? |>.map .arr
  | "B", [card, ws] => match card.toInt?, parseWords ws with
      | some c, some w => some (.bmp c w)
      | _, _ => none
  | "R", [rs] =>
      if rs.isEmpty then some (.run []) else
      (rs.splitOn ",").mapM (fun (p : String) => match p.splitOn "+" with
        | [s, l] => match s.toNat?, l.toNat? with
            | some a, some b => some (a, b)
            | _, _ => none
        | _ => none) |>.map .run
  | _, _ => none

/-- "key:A:…", "key:B:card:…", "key:R:…", optional "/f" suffix -/
def parseSlot (s : String) : Option Slot :=
  let (body, flag) := if s.endsWith "/f" then ((s.dropEnd 2).toString, true) else (s, false)
  match body.splitOn ":" with
  | k :: kind :: fields => match k.toNat?, parseCont kind fields with
      | some key, some c => some { key := key, c := c, flag := flag }
      | _, _ => none
  | _ => none

def parseRep (s : String) : Option Rep :=
  match s.splitOn ";" with
  | cow :: slots =>
    let c := cow == "cow=1"
    if cow != "cow=1" && cow != "cow=0" then none else
    (slots.filter (· ≠ "")).mapM parseSlot |>.map fun ss => { cow := c, slots := ss }
  | _ => none

end RModel.Impl
