import RModel.Impl.BSI
import RModel.Impl.BSI32
/-!
Plane-level model of the remaining operations of `roaring64.BSI` (roaring64/bsi64.go), continuing `Impl/BSI.lean`:
`SetBigMany`, `Retain`, `ParOr` (sign extension of narrower participants), `Add` / `Increment` (ripple carry, widening
when the carry reaches the sign plane), `MarshalBinary`/`UnmarshalBinary` (value planes only), `WriteTo`/`ReadFrom`
(all planes), `BatchEqual` (cube and trie paths of the int64 plane algebra), `Transpose` / `IntersectAndTranspose` /
`TransposeWithCounts`.

Conventions as in `Impl/BSI.lean`: `planes[i] = bA[i]`, the LAST plane is the sign plane, sets of columns are `BSet`s and
every `Bitmap` method is replaced by the `BSet` operation of the same meaning (`Xor`→`xor`, `ParOr`→ folded `union`,
`Clone`→ the same set).  The functions follow the Go control flow plane by plane; goroutines only split independent
per-plane / per-batch work and are modelled by the sequential loop (the one exception, the order in which the batch
results of `TransposeWithCounts` are added up, is handled by modelling `parallelism = 1` only).

Core Lean only (this file is linked into the compiled checker).
-/
namespace RModel
namespace BSI
open BSet

/-! ### SetBigMany / SetMany -/

/-- `for i := b.BitCount(); i >= 0; i-- { if value.Bit(i) == 0 { bA[i].AndNot(foundSet) } else { bA[i].Or(foundSet) } }` -/
def writeMany (f : BSet) (v : Int) : List BSet → Nat → List BSet
  | [], _ => []
  | p :: ps, i =>
    let rest := writeMany f v ps (i + 1)
    (if twosBit v i then union p f else diff p f) :: rest

/-- `SetBigMany` on an auto-sized index: the same widening block as `SetBigValue`. -/
def setMany (b : BSI) (f : BSet) (v : Int) : BSI :=
  { planes := writeMany f v (widen b.planes (minBits v)) 0, ebm := union b.ebm f }

/-- `SetBigMany` on a fixed-width index -/
def setManyFixed (b : BSI) (f : BSet) (v : Int) : BSI :=
  { planes := writeMany f v b.planes 0, ebm := union b.ebm f }

/-! ### Retain -/

/-- `Retain(retain)`: `eBM.And(retain)`; the planes are only touched when the existence bitmap shrank. -/
def retain (b : BSI) (r : BSet) : BSI :=
  let e := inter b.ebm r
  if card b.ebm - card e = 0 then { planes := b.planes, ebm := e }
  else { planes := b.planes.map (fun p => inter p r), ebm := e }

/-! ### ParOr -/

/-- what participant `x` contributes to plane `j` of the result: its own plane `j`, or — a narrower participant is sign
extended — its sign plane; `none` for a participant without planes (`len(x.bA) == 0`: nothing is appended to `a[j]`) -/
def extPlane (x : BSI) (j : Nat) : Option BSet :=
  if x.planes.length > j then some (x.planes.getD j [])
  else if x.planes.length > 0 then some (x.planes.getLastD [])
  else none

/-- one more operand of the `ParOr` that builds plane `j` -/
def orExt (j : Nat) (acc : BSet) (x : BSI) : BSet :=
  match extPlane x j with
  | some q => union acc q
  | none => acc

/-- plane `j` of the result: `ParOr(parallelism, &b.bA[j], a[j]...)`; `j` = index of the head plane -/
def parOrPlanes (bs : List BSI) : List BSet → Nat → List BSet
  | [], _ => []
  | p :: ps, j => bs.foldl (orExt j) p :: parOrPlanes bs ps (j + 1)

/-- `b.ParOr(parallelism, bsis...)` (`b` not among the participants).  The target is widened to the widest participant
by repeating its top (sign) plane — the `widen` of `SetBigValue` (`Clone` of the sign plane = `Or` into a fresh bitmap;
for `len(b.bA) == 0` the new planes are empty, which is `widen` as well). -/
def parOr (b : BSI) (bs : List BSI) : BSI :=
  let bits := bs.foldl (fun m x => if x.planes.length > m then x.planes.length else m) b.planes.length
  { planes := parOrPlanes bs (widen b.planes bits) 0, ebm := bs.foldl (fun acc x => union acc x.ebm) b.ebm }

/-! ### Add / Increment -/

/-- `addDigit(foundSet, i)` seen from plane `i` upward: the argument is `bA[i:]`, so its LAST element is the sign plane.
```
carry := And(&b.bA[i], foundSet); b.bA[i].Xor(foundSet)
if !carry.IsEmpty() {
    if i+1 == b.BitCount() { sign := AndNot(&b.bA[i+1], carry); b.bA[i+1].Xor(carry); b.bA = append(b.bA, *sign); return }
    if i+1 > b.BitCount() { b.bA = append(b.bA, Bitmap{}) }
    b.addDigit(carry, i+1)
}
```
* `[p, s]`: the carry reaches the sign plane `s`: the index is widened by one plane, the old sign plane becomes the top
  digit and takes the carry, the new sign plane repeats the old one except for the columns that took the carry;
* `[p]`: the digit lands ON the top plane (out of the documented domain unless `foundSet` is empty): an empty plane is
  appended and receives the carry (`∅ Xor carry`, whose own carry is empty);
* `[]`: plane `i` does not exist (`i == len(b.bA)`): the entry block of `addDigit` has appended an empty plane (see
  `addDigit`), so this case only stands for that fresh plane.
The entry block `if i >= b.BitCount()+1 || b.BitCount() == 0 { append }` can only fire on the outermost call (afterwards
`len(b.bA) ≥ 2` and `i+1 < len(b.bA)`); it is part of `addDigit`. -/
def addCarry : List BSet → BSet → List BSet
  | [], f => [xor [] f]
  | [p], f =>
    let carry := inter p f
    if !carry.isEmpty then [xor p f, xor [] carry] else [xor p f]
  | [p, s], f =>
    let carry := inter p f
    if !carry.isEmpty then [xor p f, xor s carry, diff s carry] else [xor p f, s]
  | p :: q :: r :: rest, f =>
    let carry := inter p f
    if !carry.isEmpty then xor p f :: addCarry (q :: r :: rest) carry else xor p f :: q :: r :: rest

/-- `b.addDigit(foundSet, i)` for `i ≤ len(b.bA)` (Go indexes out of range for a larger `i`; never reached):
the entry block `if i >= b.BitCount()+1 || b.BitCount() == 0 { b.bA = append(b.bA, Bitmap{}) }`, then the carry chain. -/
def addDigit (ps : List BSet) (f : BSet) (i : Nat) : List BSet :=
  let ps := if i ≥ ps.length || ps.length == 1 then ps ++ [[]] else ps
  ps.take i ++ addCarry (ps.drop i) f

/-- `for i := 0; i < len(other.bA); i++ { b.addDigit(&other.bA[i], i) }` -/
def addLoop : List BSet → List BSet → Nat → List BSet
  | ps, [], _ => ps
  | ps, q :: qs, i => addLoop (addDigit ps q i) qs (i + 1)

/-- `b.Add(other)` (`other` a different object): the existence bitmaps are merged, the target is widened to the width of
`other` by repeating its sign plane (`for len(b.bA) > 0 && len(b.bA) < len(other.bA) { append(Clone(last)) }`), then every
plane of `other` — its sign plane included — is added as a digit. -/
def addIndex (b other : BSI) : BSI :=
  let planes := if 0 < b.planes.length then widen b.planes other.planes.length else b.planes
  { planes := addLoop planes other.planes 0, ebm := union b.ebm other.ebm }

/-- `b.Increment(foundSet)` (nil = the existence bitmap): `b.addDigit(foundSet, 0); b.eBM.Or(foundSet)` -/
def increment (b : BSI) (foundSet : Option BSet) : BSI :=
  let f := foundSet.getD b.ebm
  { planes := addDigit b.planes f 0, ebm := union b.ebm f }

/-! ### WriteTo / ReadFrom, MarshalBinary / UnmarshalBinary -/

/-- `recv.ReadFrom(src.WriteTo())`: the existence bitmap and EVERY plane of the source (`b.bA = b.bA[:0]`, then one
`append` per bitmap in the stream); nothing of the receiver survives. -/
def streamFrom (_recv src : BSI) : BSI := { planes := src.planes, ebm := src.ebm }

/-- `recv.UnmarshalBinary(src.MarshalBinary())`.  `MarshalBinary` writes `data[0] = eBM` and
`data[i] = bA[i-1]` for `1 ≤ i < BitCount()+1`, i.e. the value planes only: the sign plane is NOT written.
`UnmarshalBinary` empties every plane of the receiver, then loads `data[i]` into `bA[i-1]`, appending one empty plane
whenever `BitCount() < i`; so the result has `max(len(recv.bA), len(src.bA))` planes (a receiver has `≥ 1` plane): the
value planes of the source followed by empty planes. -/
def unmarshalFrom (recv src : BSI) : BSI :=
  let n := src.planes.length
  let planes :=
    if n ≤ 1 then recv.planes.map (fun _ => ([] : BSet))
    else src.planes.dropLast ++ List.replicate ((if recv.planes.length > n then recv.planes.length else n) - (n - 1)) []
  { planes := planes, ebm := src.ebm }

/-! ### BatchEqual: the int64 plane algebra (`BitCount() ≤ 63`) -/

/-- `batchEqualInt64Values`: the values that fit, encoded (two's complement residue modulo `2^(bitCount+1)`),
deduplicated, sorted (`seen` map + `sort.Slice`: the sorted insertion without duplicates `BSI32.insertU`) -/
def batchVals (bitCount : Nat) (values : List Int) : List Nat :=
  values.foldl (fun acc v => if fitsBitCount v bitCount then BSI32.insertU (encodeValue v bitCount) acc else acc) []

/-- `countBSI64Bits(value)` for a value below `2^width` -/
def popCount (width : Nat) (value : Nat) : Nat := ((List.range width).filter (fun i => value.testBit i)).length

/-- the masks of `matchInt64Cube`: `(fixedOnes, variableMask)` over `width = bitCount + 1` bits.
`fixedOnes` = bits set in every value, `fixedZeros` = bits clear in every value, the rest is variable. -/
def cubeMasks (width : Nat) (vals : List Nat) : Nat × Nat :=
  let widthMask := 2 ^ width - 1
  let fixedOnes := vals.foldl (fun m v => m &&& v) widthMask
  let fixedZeros := vals.foldl (fun m v => m &&& (widthMask ^^^ (v &&& widthMask))) widthMask
  (fixedOnes, widthMask ^^^ (fixedOnes ||| fixedZeros))

/-- the result loop of `matchInt64Cube`:
`for i := 0; i <= bitCount; i++ { if variable bit { continue }; And / AndNot plane i; if result.IsEmpty() { break } }` -/
def cubeLoopG (ones var : Nat) : List BSet → Nat → BSet → BSet
  | [], _, r => r
  | p :: ps, i, r =>
    if var.testBit i then cubeLoopG ones var ps (i + 1) r
    else
      let r' := if ones.testBit i then inter r p else diff r p
      if r'.isEmpty then r' else cubeLoopG ones var ps (i + 1) r'

/-- `matchInt64Cube(vals, bitCount)`: `none` = declined (`return nil, false`).  The final loop
`for _, v := range vals { if v&fixedOnes != fixedOnes || … }` can never decline (the masks are the AND over all values). -/
def matchCube (b : BSI) (vals : List Nat) : Option BSet :=
  let bitCount := b.bitCount
  if bitCount ≥ 63 then none
  else
    let m := cubeMasks (bitCount + 1) vals
    if vals.length ≠ 2 ^ popCount (bitCount + 1) m.2 then none
    else some (cubeLoopG m.1 m.2 b.planes 0 b.ebm)

/-- `matchInt64Trie(vals, p, prefix, owned)` with `n = p + 1` planes still to visit (the `owned` flag only chooses in-place
versus fresh results); `vals` sorted, so `sort.Search` on bit `p` splits it into the values without / with that bit -/
def matchTrie (b : BSI) : Nat → List Nat → BSet → BSet
  | 0, _, pre => pre
  | p + 1, vals, pre =>
    if pre.isEmpty then []
    else if decide (p < 63) && vals.length == 2 ^ (p + 1) then pre
    else
      let lo := vals.filter (fun v => !v.testBit p)
      let hi := vals.filter (fun v => v.testBit p)
      let plane := b.planes.getD p []
      if hi.isEmpty then matchTrie b p lo (diff pre plane)
      else if lo.isEmpty then matchTrie b p hi (inter pre plane)
      else union (matchTrie b p lo (diff pre plane)) (matchTrie b p hi (inter pre plane))

/-- `BatchEqual(parallelism, values)` for int64 values; `none` = `BitCount() ≥ 64`: the arbitrary-precision per-column
path (`BatchEqualBig`), which is not plane-level. -/
def batchEqual (b : BSI) (values : List Int) : Option BSet :=
  if b.ebm.isEmpty || values.isEmpty then some []
  else
    let bitCount := b.bitCount
    if bitCount ≥ 64 then none
    else
      let vals := batchVals bitCount values
      if vals.isEmpty then some []
      else
        match b.matchCube vals with
        | some r => some r
        | none => some (matchTrie b (bitCount + 1) vals b.ebm)

/-! ### Transpose family -/

/-- `uint64(value)` of an `int64` -/
def u64OfInt (v : Int) : Nat := (v % 18446744073709551616).toNat

def isInt64 (v : Int) : Bool := decide (-9223372036854775808 ≤ v) && decide (v ≤ 9223372036854775807)

/-- the columns a transpose visits: `foundSet` is iterated and `GetValue` drops the columns without value, so only
`foundSet ∩ eBM` matters (the intersection is taken first to keep the enumeration small) -/
def visited (b : BSI) (foundSet : Option BSet) : List Nat :=
  match foundSet with
  | none => toList b.ebm
  | some f => toList (inter f b.ebm)

/-- `IntersectAndTranspose(parallelism, foundSet)` / `Transpose()` (`foundSet = eBM`): the set of `uint64(GetValue(c))`;
`none` = some visited value is not an `int64` (`GetValue` panics). -/
def transpose (b : BSI) (foundSet : Option BSet) : Option BSet :=
  let vs := (b.visited foundSet).filterMap (fun c => b.getValue c)
  if vs.all isInt64 then some (ofList (vs.map u64OfInt)) else none

/-- one iteration of the per-batch worker `transposeWithCounts`:
`if value, ok := input.GetValue(cID); ok { if !filterSet.Contains(uint64(value)) { continue }; SetValue(value, 1 or old+1) }` -/
def twcStep (input : BSI) (filterSet : BSet) (res : BSI) (c : Nat) : BSI :=
  match input.getValue c with
  | none => res
  | some v =>
    if !filterSet.mem (u64OfInt v) then res
    else match res.getValue (u64OfInt v) with
      | none => res.setValue (u64OfInt v) 1
      | some n => res.setValue (u64OfInt v) (n + 1)

/-- the per-batch worker `transposeWithCounts`: a fresh auto-sized index counting, per value, the visited columns that
hold it (`SetValue(value, 1)` the first time, `SetValue(value, old+1)` afterwards), restricted to `filterSet` -/
def twcBatch (input : BSI) (filterSet : BSet) (cols : List Nat) : BSI :=
  cols.foldl (twcStep input filterSet) (BSI.new 0 0)

/-- `TransposeWithCounts(1, foundSet, filterSet)` (one batch): `results := NewDefaultBSI(); results.Add(batchResult)`.
(With more workers the batch results are added in the order in which the goroutines deliver them.) -/
def transposeWithCounts1 (b : BSI) (foundSet filterSet : Option BSet) : Option BSI :=
  let cols := b.visited foundSet
  if (cols.filterMap (fun c => b.getValue c)).all isInt64 then
    some (addIndex (BSI.new 0 0) (twcBatch b (filterSet.getD b.ebm) cols))
  else none

end BSI
end RModel
