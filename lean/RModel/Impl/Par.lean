/-!
L2: the goroutine/channel protocols of `ParHeapOr` / `ParAnd` (feeder = caller, worker pool, appender) and of
`ParOr` (feeder goroutine, worker pool, collector = caller) as nondeterministic transition systems over
counters.  One step = one channel operation of one goroutine; a *schedule* is any sequence of enabled steps.
Capacities and worker count are parameters (the proofs need only `≥ 1`), the unbuffered channels are
rendezvous steps.  Core Lean only.
-/
namespace RModel.Par

/-! ### ParHeapOr / ParAnd -/

structure HCfg where
  workers : Nat        -- goroutines running orFunc / andFunc
  capIn : Nat          -- cap(inputChan)   (128 in the source)
  capRes : Nat         -- cap(resultChan)  (32 in the source)
  deriving Repr

/-- `feed` = work items the caller has not produced yet (`true` = goes to a worker through inputChan,
`false` = single-container key sent straight to resultChan — only ParHeapOr has those). -/
structure HState where
  feed : List Bool
  inQ : Nat := 0            -- items buffered in inputChan
  held : Nat := 0           -- items taken by a worker and not yet sent to resultChan
  resQ : Nat := 0           -- items buffered in resultChan
  appended : Nat := 0       -- items the appender has stored
  expectedSent : Bool := false   -- caller → appender rendezvous on expectedKeysChan happened
  delivered : Bool := false      -- appender → caller rendezvous on bitmapChan happened
  closed : Bool := false         -- caller closed the three channels (its last action)
  deriving Repr

inductive HStep (c : HCfg) (n : Nat) : HState → HState → Prop
  | feedDirect {s t} : s.feed = false :: t → s.resQ < c.capRes →
      HStep c n s { s with feed := t, resQ := s.resQ + 1 }
  | feedWorker {s t} : s.feed = true :: t → s.inQ < c.capIn →
      HStep c n s { s with feed := t, inQ := s.inQ + 1 }
  | sendExpected {s} : s.feed = [] → s.expectedSent = false →
      HStep c n s { s with expectedSent := true }
  | workerTake {s} : 0 < s.inQ → s.held < c.workers → s.closed = false →
      HStep c n s { s with inQ := s.inQ - 1, held := s.held + 1 }
  | workerPut {s} : 0 < s.held → s.resQ < c.capRes →
      HStep c n s { s with held := s.held - 1, resQ := s.resQ + 1 }
  | appenderRecv {s} : 0 < s.resQ → s.delivered = false →
      HStep c n s { s with resQ := s.resQ - 1, appended := s.appended + 1 }
  | deliver {s} : s.expectedSent = true → s.appended = n → s.delivered = false →
      HStep c n s { s with delivered := true }
  | close {s} : s.delivered = true → s.closed = false →
      HStep c n s { s with closed := true }

def HState.init (items : List Bool) : HState := { feed := items }

/-- conservation of work items + ordering facts -/
def HInv (n : Nat) (s : HState) : Prop :=
  s.feed.length + s.inQ + s.held + s.resQ + s.appended = n ∧
  (s.expectedSent = true → s.feed = []) ∧
  (s.delivered = true → s.expectedSent = true ∧ s.appended = n) ∧
  (s.closed = true → s.delivered = true)

/-- strictly decreasing measure: the protocol terminates under every schedule -/
def HState.variant (s : HState) : Nat :=
  4 * s.feed.length + 3 * s.inQ + 2 * s.held + s.resQ +
    (if s.expectedSent then 0 else 1) + (if s.delivered then 0 else 1) + (if s.closed then 0 else 1)

/-- a send on a closed channel / a worker still holding work after the close would be a bug -/
def HState.quiescent (s : HState) : Prop := s.feed = [] ∧ s.inQ = 0 ∧ s.held = 0 ∧ s.resQ = 0

/-! ### ParOr -/

structure OCfg where
  workers : Nat
  capSpec : Nat        -- cap(chunkSpecChan)
  capChunk : Nat       -- cap(chunkChan)
  deriving Repr

structure OState where
  toSend : Nat               -- specs the feeder goroutine has not sent yet
  specQ : Nat := 0
  held : Nat := 0            -- specs being processed by workers
  chunkQ : Nat := 0
  received : Nat := 0        -- chunks stored by the caller
  closed : Bool := false
  deriving Repr

inductive OStep (c : OCfg) (n : Nat) : OState → OState → Prop
  | feed {s} : 0 < s.toSend → s.specQ < c.capSpec →
      OStep c n s { s with toSend := s.toSend - 1, specQ := s.specQ + 1 }
  | workerTake {s} : 0 < s.specQ → s.held < c.workers → s.closed = false →
      OStep c n s { s with specQ := s.specQ - 1, held := s.held + 1 }
  | workerPut {s} : 0 < s.held → s.chunkQ < c.capChunk →
      OStep c n s { s with held := s.held - 1, chunkQ := s.chunkQ + 1 }
  | collect {s} : 0 < s.chunkQ → s.received < n →
      OStep c n s { s with chunkQ := s.chunkQ - 1, received := s.received + 1 }
  | close {s} : s.received = n → s.closed = false →
      OStep c n s { s with closed := true }

def OState.init (n : Nat) : OState := { toSend := n }

def OInv (n : Nat) (s : OState) : Prop :=
  s.toSend + s.specQ + s.held + s.chunkQ + s.received = n ∧ (s.closed = true → s.received = n)

def OState.variant (s : OState) : Nat :=
  4 * s.toSend + 3 * s.specQ + 2 * s.held + s.chunkQ + (if s.closed then 0 else 1)

end RModel.Par
