import RModel.Impl.Repr
import RModel.Impl.ContOps
import RModel.Impl.ContQuery
import RModel.Impl.ContMut
import RModel.Impl.RepOps
import RModel.Impl.LazyOps
import RModel.Impl.RepMut
/-!
L2: the remaining BULK entry points of the 32-bit `Bitmap` on the stored representation `Rep` —
`AddMany` / `BitmapOf`, `HeapOr` / `HeapXor`, `ToArray` / `ToExistingArray`, `Stats`.  As everywhere at L2 the functions
return **the representation (resp. the slice, the struct) the Go code leaves behind** for well-formed operands.

How the Go code is read.

`AddMany(dat)` (`roaring.go`): nothing for an empty slice.  The first value goes through `addwithptr(x)`:
`getIndex(highbits(x))`; key present at `i` → `getWritableContainerAtIndex(i)` (**a flagged container is `clone()`d and the flag
is cleared**), `.iaddReturnMinimized(lowbits(x))`, `setContainerAtIndex(i, c)`, answer `(i, c)`; key absent →
`newArrayContainer().iaddReturnMinimized(lowbits(x))` inserted with `insertNewKeyValueAt(-i-1, hb, c)` (flag off), answer `(-i-1, c)`.
Every further value `i` whose high 16 bits equal those of the PREVIOUS value uses the cached pair:
`c = c.iaddReturnMinimized(lowbits(i)); setContainerAtIndex(idx, c)` — no lookup, no copy-on-write gate; `setContainerAtIndex`
writes `containers[idx]` only (the flag is left as it is).  Any other value goes through `addwithptr` again.
The cached container is always the one `addwithptr` returned, i.e. the container of a slot whose flag `addwithptr` has just
cleared (or which was inserted with the flag off), and no key is inserted between two uses of the same cached index: the
in-place kernel never runs on a container that another bitmap can reach (`addManyWriteFlags`: the flag of the slot at every
cached write; all `false`).  `BitmapOf(dat…)` = `NewBitmap()` + `AddMany`.

`HeapOr(bitmaps…)` / `HeapXor(bitmaps…)` (`fastaggregation.go`, `priorityqueue.go`): no operand → `NewBitmap()`; one →
`Clone()`.  Otherwise a `priorityQueue` of `*item{value, index}` in operand order, `Less(i, j) =
pq[i].value.GetSizeInBytes() < pq[j].value.GetSizeInBytes()` (`GetSizeInBytes` = `8 + Σ (2 + container.getSizeInBytes())`:
array `2·len`, bitmap `8·len(words)`, run `2 + 4·len(iv)` — the memory estimate, NOT the cardinality); `heap.Init`
(`for i := n/2-1; i >= 0; i-- { down(i, n) }`); then while more than one item is left: `x1 := heap.Pop`, `x2 := heap.Pop`
(`Swap(0, n-1); down(0, n-1)`; take the last), `heap.Push(&item{Or(x1.value, x2.value), 0})` (append; `up(n-1)`); the last
item's value is returned.  The queue is the same array-embedded binary heap as `container/heap` everywhere (compare
`ParData.heapDown`, which mirrors `down` for the key-ordered container heap of `ParHeapOr`): `pqDown` is that loop with the
comparison as a parameter, `pqUp` mirrors `up`.  Ties are NOT broken by operand position, so the pairing order — and with it the
kinds / flags of the result (`Or` / `Xor` append a one-sided key shared-and-flagged iff the source slot is flagged) — depends on
the heap layout: the heap is modelled move by move.  The result of two or more operands is always the result of an `Or` /
`Xor` (a fresh bitmap, `copyOnWrite = false`).
Example (model and Go code agree, `l2bulk` classes `ordersens` / `tie3`): `E = {0:A:0,2,4,6,8}`, `O = {0:A:1,3,5,7,9}`,
`R = {0:R:20+3,30+3}` all have `GetSizeInBytes() = 20`; three equal sizes in operand order `0,1,2` are paired as
`op(1, op(0, 2))` (`RProofs/RepBulk.lean`, the `PTree` examples), so `HeapOr(E, O, R) = Or(O, Or(E, R))` is ONE ARRAY container of 18
values (array|array stays an array) while `HeapOr(E, R, O) = Or(R, Or(E, O))` is the RUN container `0+9,20+3,30+3` (run|array is
re-typed by `toEfficientContainer`); `HeapXor(X, X', Y)` with `X = X'` hands `Y`'s own container on (same kind, shared and
flagged if it was flagged) or recomputes it as an array, depending on which two operands meet first.  The SET never depends on
the order (`Rep.toBSet_heapOr_perm`, `Rep.toBSet_heapXor_perm`).

`ToArray()` = `make([]uint32, GetCardinality())` + `toArray`; `ToExistingArray(&a)` = `toArray(&a)`: for every slot in key order
`pos = c.fillLeastSignificant16bits(a, pos, key << 16)`:
array → `a[k+i] = uint32(content[k]) | mask`; bitmap → for every word, `for bitset != 0 { a[pos] = base + TrailingZeros64(bitset);
pos++; bitset &= bitset - 1 }`, `base += 64`; run → for every interval `a[k] = uint32(int(start) + j) | mask` for `j < runlen`.
`Rep.toArray` is the sequence of values written; `Rep.toExistingArray old` is the caller's slice afterwards (`none` = index out
of range when it is too short).  The `uint32` additions `mask + 64·k + tz` cannot wrap for a key below 65536 and 1024 words;
they are modelled in `Nat`.

`Stats()`: one pass over the containers: `Cardinality += getCardinality()` (the bitmap container's CACHED field), per kind the
number of containers, `getSizeInBytes()` and `getCardinality()`.

The model is tied to the Go code by the `l2bulk` correspondence check (`Driver/L2Bulk.lean`).
Core Lean only, executable (linked into the compiled checker).  Proofs: `RProofs/RepBulk.lean`.
-/
namespace RModel.Impl
open RModel
open ContOps ContQuery ContMut RepOps LazyOps

namespace RepBulk

/-! ### A. `AddMany` -/

/-- `newArrayContainer().iaddReturnMinimized(lb)` under key `hb`, as `insertNewKeyValueAt` stores it (flag off) -/
def newSlot (hb lb : Nat) : Slot := { key := hb, c := (Cont.arr []).iaddRM lb, flag := false }

/-- `addwithptr(x)` with `hb = highbits(x)`, `lb = lowbits(x)`: the slots afterwards, the returned index and container.
The index is found by walking the sorted key array (`getIndex` is a binary search for the same position). -/
def addWithPtr (hb lb : Nat) : List Slot → List Slot × Nat × Cont
  | [] => ([newSlot hb lb], 0, (Cont.arr []).iaddRM lb)
  | s :: t =>
    if s.key < hb then
      let r := addWithPtr hb lb t
      (s :: r.1, r.2.1 + 1, r.2.2)
    else if s.key = hb then
      -- getWritableContainerAtIndex(i): clone when flagged, flag cleared; then the in-place kernel on the private container
      let c := s.c.iaddRM lb
      ({ key := s.key, c := c, flag := false } :: t, 0, c)
    else (newSlot hb lb :: s :: t, 0, (Cont.arr []).iaddRM lb)

/-- `setContainerAtIndex(i, c)`: `containers[i] = c`, nothing else -/
def setContainerAt (l : List Slot) (i : Nat) (c : Cont) : List Slot :=
  l.modify i fun s => { key := s.key, c := c, flag := s.flag }

/-- the `for _, i := range dat[1:]` loop: `idx`, `c` the cached pair, `prev` the previous value -/
def addManyLoop : (slots : List Slot) → (idx : Nat) → (c : Cont) → (prev : Nat) → List Nat → List Slot
  | slots, _, _, _, [] => slots
  | slots, idx, c, prev, i :: t =>
    if prev / 65536 = i / 65536 then
      let c' := c.iaddRM (i % 65536)
      addManyLoop (setContainerAt slots idx c') idx c' i t
    else
      let r := addWithPtr (i / 65536) (i % 65536) slots
      addManyLoop r.1 r.2.1 r.2.2 i t

/-- the `needCopyOnWrite` flag of slot `idx` at every CACHED write of the loop (in-place kernel without the gate) -/
def addManyWriteFlags : (slots : List Slot) → (idx : Nat) → (c : Cont) → (prev : Nat) → List Nat → List Bool
  | _, _, _, _, [] => []
  | slots, idx, c, prev, i :: t =>
    if prev / 65536 = i / 65536 then
      let c' := c.iaddRM (i % 65536)
      ((slots[idx]?.map (·.flag)).getD true) :: addManyWriteFlags (setContainerAt slots idx c') idx c' i t
    else
      let r := addWithPtr (i / 65536) (i % 65536) slots
      addManyWriteFlags r.1 r.2.1 r.2.2 i t

end RepBulk

open RepBulk

/-- `x.AddMany(dat)` (values below 2^32) -/
def Rep.addMany (r : Rep) : List Nat → Rep
  | [] => r
  | v :: t =>
    let p := addWithPtr (v / 65536) (v % 65536) r.slots
    { cow := r.cow, slots := addManyLoop p.1 p.2.1 p.2.2 v t }

/-- the flags seen by the cached in-place writes of `x.AddMany(dat)` -/
def Rep.addManyWriteFlags (r : Rep) : List Nat → List Bool
  | [] => []
  | v :: t =>
    let p := addWithPtr (v / 65536) (v % 65536) r.slots
    RepBulk.addManyWriteFlags p.1 p.2.1 p.2.2 v t

/-- `BitmapOf(dat…)` -/
def Rep.bitmapOf (vals : List Nat) : Rep := ({} : Rep).addMany vals

/-! ### B. `HeapOr` / `HeapXor` -/

/-- `container.getSizeInBytes()` -/
def Cont.sizeInBytes : Cont → Nat
  | .arr xs => 2 * xs.length
  | .bmp _ ws => 8 * ws.length
  | .run rs => 4 * rs.length + 2

/-- `Bitmap.GetSizeInBytes()` -/
def Rep.sizeInBytes (r : Rep) : Nat := 8 + (r.slots.map fun s => 2 + s.c.sizeInBytes).sum

namespace RepBulk

section PQ
variable {α : Type} [Inhabited α] (size : α → Nat)

/-- `pq.Less(i, j)` -/
def pqLess (h : Array α) (i j : Nat) : Bool := size (h.getD i default) < size (h.getD j default)

/-- `heap.down(h, i, n)` -/
def pqDown (h : Array α) (i n : Nat) : Array α :=
  if 2 * i + 1 ≥ n then h
  else
    let j1 := 2 * i + 1
    let j := if j1 + 1 < n && pqLess size h (j1 + 1) j1 then j1 + 1 else j1
    if pqLess size h j i then pqDown (h.swapIfInBounds i j) j n else h
termination_by n - i
decreasing_by all_goals (split <;> omega)

/-- `heap.up(h, j)` -/
def pqUp (h : Array α) (j : Nat) : Array α :=
  if j = 0 then h                                             -- i := (j-1)/2 == j
  else
    let i := (j - 1) / 2
    if pqLess size h j i then pqUp (h.swapIfInBounds i j) i else h
termination_by j
decreasing_by omega

/-- `heap.Init`: `for i := n/2 - 1; i >= 0; i-- { down(h, i, n) }` (call with `k = n / 2`) -/
def pqInitFrom (n : Nat) : (k : Nat) → Array α → Array α
  | 0, h => h
  | k + 1, h => pqInitFrom n k (pqDown size h k n)

def pqInit (h : Array α) : Array α := pqInitFrom size h.size (h.size / 2) h

/-- `heap.Pop`: `n := Len()-1; Swap(0, n); down(0, n); return Pop()` -/
def pqPop (h : Array α) : α × Array α :=
  let n := h.size - 1
  let h1 := pqDown size (h.swapIfInBounds 0 n) 0 n
  (h1.getD n default, h1.pop)

/-- `heap.Push`: `Push(x); up(Len()-1)` -/
def pqPush (h : Array α) (x : α) : Array α := pqUp size (h.push x) h.size

/-- `for pq.Len() > 1 { x1 := Pop; x2 := Pop; Push(op(x1, x2)) }` -/
def pqLoop (op : α → α → α) : (fuel : Nat) → Array α → Array α
  | 0, h => h
  | f + 1, h =>
    if h.size > 1 then
      let p1 := pqPop size h
      let p2 := pqPop size p1.2
      pqLoop op f (pqPush size p2.2 (op p1.1 p2.1))
    else h

/-- the whole aggregate for two or more operands -/
def pqReduce (op : α → α → α) (l : List α) : α :=
  (pqPop size (pqLoop size op l.length (pqInit size l.toArray))).1

end PQ

end RepBulk

/-- `HeapOr(bitmaps…)` -/
def Rep.heapOr : List Rep → Rep
  | [] => {}
  | [a] => a.clone
  | l => pqReduce Rep.sizeInBytes Rep.or2 l

/-- `HeapXor(bitmaps…)` -/
def Rep.heapXor : List Rep → Rep
  | [] => {}
  | [a] => a.clone
  | l => pqReduce Rep.sizeInBytes Rep.xor2 l

/-! ### C. `ToArray` / `ToExistingArray` / `Stats` -/

namespace RepBulk

/-- `arrayContainer.fillLeastSignificant16bits`: `x[k+i] = uint32(content[k]) | mask` -/
def fillArr (xs : List Nat) (mask : Nat) : List Nat := xs.map (· ||| mask)

/-- the inner loop of `bitmapContainer.fillLeastSignificant16bits` on one word:
`for bitset != 0 { x[pos] = base + TrailingZeros64(bitset); pos++; bitset &= bitset - 1 }` -/
def wordLoop (base : Nat) : (fuel : Nat) → BitVec 64 → List Nat
  | 0, _ => []
  | f + 1, w => if w = 0#64 then [] else (base + tz w) :: wordLoop base f (w &&& (w - 1#64))

/-- the outer loop: `base` starts as `mask` and grows by 64 per word -/
def fillBmp : List (BitVec 64) → (base : Nat) → List Nat
  | [], _ => []
  | w :: t, base => wordLoop base 64 w ++ fillBmp t (base + 64)

/-- `runContainer16.fillLeastSignificant16bits`: `x[k] = uint32(int(p.start) + j) | mask` for `j < p.runlen()` -/
def fillRun (rs : List (Nat × Nat)) (mask : Nat) : List Nat :=
  rs.flatMap fun p => (List.range (p.2 + 1)).map fun j => (p.1 + j) ||| mask

end RepBulk

/-- the values `c.fillLeastSignificant16bits(x, i, mask)` writes, in order -/
def Cont.fill (c : Cont) (mask : Nat) : List Nat :=
  match c with
  | .arr xs => fillArr xs mask
  | .bmp _ ws => fillBmp ws mask
  | .run rs => fillRun rs mask

/-- `x.ToArray()` (the values `toArray` writes, in order) -/
def Rep.toArray (r : Rep) : List Nat := r.slots.flatMap fun s => s.c.fill (s.key <<< 16)

/-- `x.ToExistingArray(&old)`: the caller's slice afterwards; `none` = it is too short (index out of range) -/
def Rep.toExistingArray (r : Rep) (old : List Nat) : Option (List Nat) :=
  let a := r.toArray
  if a.length ≤ old.length then some (a ++ old.drop a.length) else none

/-- `roaring.Statistics` -/
structure Stats where
  cardinality : Int := 0
  containers : Nat := 0
  arrayContainers : Nat := 0
  arrayContainerBytes : Nat := 0
  arrayContainerValues : Int := 0
  bitmapContainers : Nat := 0
  bitmapContainerBytes : Nat := 0
  bitmapContainerValues : Int := 0
  runContainers : Nat := 0
  runContainerBytes : Nat := 0
  runContainerValues : Int := 0
  deriving Repr, BEq, DecidableEq, Inhabited

namespace RepBulk

/-- one iteration of the loop of `Stats` -/
def statsStep (st : Stats) (c : Cont) : Stats :=
  let st := { st with cardinality := st.cardinality + c.getCardinalityQ }
  match c with
  | .arr _ => { st with arrayContainers := st.arrayContainers + 1,
                        arrayContainerBytes := st.arrayContainerBytes + c.sizeInBytes,
                        arrayContainerValues := st.arrayContainerValues + c.getCardinalityQ }
  | .bmp _ _ => { st with bitmapContainers := st.bitmapContainers + 1,
                          bitmapContainerBytes := st.bitmapContainerBytes + c.sizeInBytes,
                          bitmapContainerValues := st.bitmapContainerValues + c.getCardinalityQ }
  | .run _ => { st with runContainers := st.runContainers + 1,
                        runContainerBytes := st.runContainerBytes + c.sizeInBytes,
                        runContainerValues := st.runContainerValues + c.getCardinalityQ }

end RepBulk

/-- `x.Stats()` -/
def Rep.stats (r : Rep) : Stats :=
  (r.slots.map (·.c)).foldl statsStep { containers := r.slots.length }

end RModel.Impl
