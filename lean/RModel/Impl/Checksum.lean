import RModel.Impl.Repr
/-!
L2: `Bitmap.Checksum` (roaring.go) — FNV-1a over the key array (two little-endian bytes per key), then for every container a
zero separator followed by its payload as stored: array values (2 bytes each), bitmap words (8 bytes each), run intervals
(start, length-1; 2 bytes each). 64-bit wrap-around is part of the function (`% 2^64`). The checksum reads keys, kinds and
payloads only — never a flag, the copy-on-write switch or the cached cardinality.
-/
namespace RModel.Impl

def fnvOffset : Nat := 14695981039346656037
def fnvPrime : Nat := 1099511628211

/-- `hash ^= b; hash *= prime` on `uint64` -/
def fnvStep (h b : Nat) : Nat := ((h ^^^ b) * fnvPrime) % 18446744073709551616

def le16Bytes (v : Nat) : List Nat := [v % 256, v / 256 % 256]

def le64Bytes (w : BitVec 64) : List Nat :=
  [w.toNat % 256, w.toNat / 256 % 256, w.toNat / 65536 % 256, w.toNat / 16777216 % 256,
   w.toNat / 4294967296 % 256, w.toNat / 1099511627776 % 256, w.toNat / 281474976710656 % 256,
   w.toNat / 72057594037927936 % 256]

/-- the bytes of one container that enter the hash -/
def Cont.csBytes : Cont → List Nat
  | .arr vs => vs.flatMap le16Bytes
  | .bmp _ ws => ws.flatMap le64Bytes
  | .run rs => rs.flatMap fun p => le16Bytes p.1 ++ le16Bytes p.2

/-- first loop: the keys -/
def csKeys (h : Nat) (keys : List Nat) : Nat := (keys.flatMap le16Bytes).foldl fnvStep h

/-- second loop: separator + payload per container -/
def csConts (h : Nat) (cs : List Cont) : Nat := cs.foldl (fun h c => c.csBytes.foldl fnvStep (fnvStep h 0)) h

def Rep.checksum (r : Rep) : Nat :=
  csConts (csKeys fnvOffset (r.slots.map (·.key))) (r.slots.map (·.c))

end RModel.Impl
