import RModel.Impl.Repr
import RModel.Impl.ContOps
/-!
L2: the four STATIC bitmap-level binary operations `And`, `Or`, `Xor`, `AndNot` of `roaring.go`, on the stored
representation `Rep` (sorted key array, one container per key, one `needCopyOnWrite` flag per container, the bitmap's
`copyOnWrite` switch), built on the container kernels of `ContOps`.  The functions return **the representation the Go
function returns** (same keys, same container kinds / payloads / cached cardinalities, same flags) for well-formed operands.

How the Go code is read (`roaring.go`, `roaringarray.go`):

* all four start from `answer := NewBitmap()`: `copyOnWrite = false`, no containers;
* two-pointer walk over the two key arrays (`advanceUntil` in `And` / `AndNot` only skips keys, it has no other effect);
* equal keys: the NON-in-place container kernel `c1.and(c2)` / `or` / `xor` / `andNot`, appended with
  `appendContainer(key, c, false)` (flag off).  `And`, `Xor`, `AndNot` append only `if !c.isEmpty()`; `Or` appends
  unconditionally (the union of two non-empty containers is never empty).  `isEmpty()` is `len(content) == 0` for an
  array container, `len(iv) == 0` for a run container and **the cached `cardinality == 0`** for a bitmap container
  (`Cont.isEmptyGo`);
* a key present on one side only: `Or`, `Xor` (both sides) and `AndNot` (left side) `appendCopy` it:
  `copyonwrite := (ra.copyOnWrite && sa.copyOnWrite) || sa.needsCopyOnWrite(i)`.  Since `ra` is the fresh answer
  (`copyOnWrite = false`) this is just the source flag: a flagged (already shared) container is appended SHARED and flagged,
  an unflagged one is `clone()`d and appended unflagged; the source flag is set only when it was already set.  In the
  representation this is "the same slot", and the operands are unchanged (`copySlot`);
* `Xor(x, x)` / `AndNot(x, x)` with the SAME object return `NewBitmap()` directly (handled by the checker; on well-formed
  operands the walk gives the same answer).

Core Lean only, executable (linked into the compiled checker).
-/
namespace RModel.Impl
open RModel

/-- `container.isEmpty()` as each kind implements it (the bitmap container trusts its cached cardinality) -/
def Cont.isEmptyGo : Cont → Bool
  | .arr vals => vals.isEmpty
  | .bmp card _ => card == 0
  | .run runs => runs.isEmpty

namespace RepOps

/-- `answer.appendCopy(x, i)` into a fresh answer (`answer.copyOnWrite = false`): same key, same container contents,
flag = source flag (shared when the source is already flagged, a private clone otherwise) -/
def copySlot (s : Slot) : Slot := { key := s.key, c := s.c, flag := s.flag }

/-- `if !c.isEmpty() { answer.appendContainer(key, c, false) }` -/
def keep (key : Nat) (c : Cont) (rest : List Slot) : List Slot :=
  if c.isEmptyGo then rest else { key := key, c := c, flag := false } :: rest

/-- `And` -/
def andSlots : List Slot → List Slot → List Slot
  | [], _ => []
  | _, [] => []
  | sa :: ta, sb :: tb =>
    if sa.key < sb.key then andSlots ta (sb :: tb)                 -- advanceUntil on x1
    else if sb.key < sa.key then andSlots (sa :: ta) tb            -- advanceUntil on x2
    else keep sa.key (sa.c.and2 sb.c) (andSlots ta tb)
termination_by a b => a.length + b.length

/-- `Or` -/
def orSlots : List Slot → List Slot → List Slot
  | [], b => b.map copySlot                                        -- appendCopyMany(x2, pos2, length2)
  | a, [] => a.map copySlot                                        -- appendCopyMany(x1, pos1, length1)
  | sa :: ta, sb :: tb =>
    if sa.key < sb.key then copySlot sa :: orSlots ta (sb :: tb)
    else if sb.key < sa.key then copySlot sb :: orSlots (sa :: ta) tb
    else { key := sa.key, c := sa.c.or2 sb.c, flag := false } :: orSlots ta tb
termination_by a b => a.length + b.length

/-- `Xor` -/
def xorSlots : List Slot → List Slot → List Slot
  | [], b => b.map copySlot
  | a, [] => a.map copySlot
  | sa :: ta, sb :: tb =>
    if sa.key < sb.key then copySlot sa :: xorSlots ta (sb :: tb)
    else if sb.key < sa.key then copySlot sb :: xorSlots (sa :: ta) tb
    else keep sa.key (sa.c.xor2 sb.c) (xorSlots ta tb)
termination_by a b => a.length + b.length

/-- `AndNot` -/
def andNotSlots : List Slot → List Slot → List Slot
  | [], _ => []
  | a, [] => a.map copySlot                                        -- appendCopyMany(x1, pos1, length1)
  | sa :: ta, sb :: tb =>
    if sa.key < sb.key then copySlot sa :: andNotSlots ta (sb :: tb)
    else if sb.key < sa.key then andNotSlots (sa :: ta) tb         -- advanceUntil on x2
    else keep sa.key (sa.c.andNot2 sb.c) (andNotSlots ta tb)
termination_by a b => a.length + b.length

end RepOps

open RepOps

/-- `roaring.And(a, b)` -/
def Rep.and2 (a b : Rep) : Rep := { cow := false, slots := andSlots a.slots b.slots }
/-- `roaring.Or(a, b)` -/
def Rep.or2 (a b : Rep) : Rep := { cow := false, slots := orSlots a.slots b.slots }
/-- `roaring.Xor(a, b)` -/
def Rep.xor2 (a b : Rep) : Rep := { cow := false, slots := xorSlots a.slots b.slots }
/-- `roaring.AndNot(a, b)` -/
def Rep.andNot2 (a b : Rep) : Rep := { cow := false, slots := andNotSlots a.slots b.slots }

/-- the container stored under chunk key `k` (first match; keys are unique in a well-formed representation) -/
def Rep.find (r : Rep) (k : Nat) : Option Cont := (r.slots.find? (·.key == k)).map (·.c)

/-- membership as the library computes it: look up the chunk `x / 65536`, ask that container for `x % 65536` -/
def Rep.has (r : Rep) (x : Nat) : Bool :=
  match r.find (x / 65536) with
  | some c => c.has (x % 65536)
  | none => false

end RModel.Impl
