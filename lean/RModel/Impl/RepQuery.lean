import RModel.Impl.RepOps
import RModel.Impl.ContQuery
import RModel.Impl.Iter
/-!
L2: the BITMAP-level read-only drivers of `roaring.go` / `roaringarray.go` on the stored representation `Rep`
(sorted key array, one container per key), as the Go code runs them:

  `GetCardinality IsEmpty Contains Minimum Maximum Rank Select CardinalityInRange IntersectsWithInterval
   NextValue PreviousValue NextAbsentValue PreviousAbsentValue Equals Intersects AndCardinality OrCardinality`

and the container kernels they call that are not part of `ContQuery.lean`:
`andCardinality`, `intersects`, `equals` for the 3×3 pairings of container kinds, `safeMinimum` / `safeMaximum`.

How the Go code is read
* key array: `roaringArray.binarySearch` is the algorithm of `setutil.go: binarySearch` (bisection while `low+16 <= high`, then a
  linear scan) on the key array: `ContQuery.binarySearch` on `keys`; `getIndex` = "empty or last key matches → `size-1`", else
  `binarySearch`; `getContainer(key)` = `binarySearch`, `nil` when negative.  `roaringArray.advanceUntil(min, pos)` is the
  gallop + bisect of `setutil.go: advanceUntil`; it is also called with `pos = -1`, so the model takes `lower = pos + 1`
  (`advFrom`; `It.advanceUntil xs pos n m = advFrom xs (pos+1) n m` by `rfl`).
* `Rank`, `Select`, `GetCardinality`: one pass over the containers accumulating `getCardinality()`.
* `Minimum`/`Maximum`: first / last container, `panic("Empty bitmap")` = `none`.
* `CardinalityInRange`: the container-based code (two `getIndex` searches, partial first / last container through
  `getCardinalityInRange`, whole containers in between).  `IntersectsWithInterval`: the iterator-based code
  (`intIterator`: `Initialize`, `AdvanceIfNeeded`, `HasNext`, `Next`) on the state machine `It.IntIt`.
* `NextValue`/`PreviousValue`: `advanceUntil(key, -1)`, then a loop over containers calling `nextValue` in the target's chunk and
  `safeMinimum` in later chunks (`previousValue` / `safeMaximum` downwards); every turn looks the container up again with
  `getContainer(key)`.  `bit, err := safeMinimum(); if err == nil { responseBit = -1 }; responseBit = int64(bit)`: the
  value is always the returned `bit` (0 with an error).
* `NextAbsentValue`/`PreviousAbsentValue`: `getIndex`; absent chunk → the target itself; else the container's answer, and while
  the container says "everything up to the chunk border is present" (`65536` / `-1`) step to the adjacent key.
* `Equals`: `x.Equals(y)` is `y.highlowcontainer.equals(x.highlowcontainer)`: sizes, keys, then `yc.equals(xc)` per index.
* `AndCardinality`/`Intersects`: two-pointer walk over the key arrays with `advanceUntil` on the smaller key;
  `OrCardinality`: two-pointer walk with `c1.or(c2).getCardinality()` on equal keys (the union IS materialised).
* results: `Int` with Go's `-1` conventions; `ContQuery.undef` (−2) = "Go panics / does not return" (never the result on
  well-formed operands — part of the theorems); a value assembled as `uint32(lo) | uint32(key)<<16` / `int64(key)<<16 | int64(v)`
  is written `key * 65536 + v` (`combine`; the same number for `0 ≤ v < 65536`, the only values a well-formed container returns).

The functions are NOT defined through the set abstraction `toBSet`; that they compute the set-level answers is proved in
`RProofs/RepQuery.lean`, and that they return what the real Go functions return is checked line by line by the `l2q` / `l2q2`
correspondence check (`Driver/L2Q.lean`).
Core Lean only, executable (linked into the compiled checker).
-/
namespace RModel.Impl
open RModel

namespace RepQuery
open ContOps ContQuery It

/-! ### the key array -/

/-- `ra.keys` -/
def keysOf (slots : List Slot) : List Nat := slots.map (·.key)

/-- `ra.keys[i]` -/
def kAt (slots : List Slot) (i : Nat) : Nat := (slotAt slots i).key
/-- `ra.containers[i]` -/
def cAt (slots : List Slot) (i : Nat) : Cont := (slotAt slots i).c

/-- `int64(key)<<16 | int64(v)` / `combineLoHi32(uint32(v), uint32(key))` for `0 ≤ v < 65536` -/
def combine (key : Nat) (v : Int) : Int := (key : Int) * 65536 + v

/-- `roaringArray.getIndex(x)` -/
def getIndex (ks : List Nat) (x : Nat) : Int :=
  if ks.length = 0 ∨ ks.getD (ks.length - 1) 0 = x then (ks.length : Int) - 1
  else binarySearch ks x

/-- `roaringArray.getContainer(x)`: `nil` = `none` -/
def getContainer (slots : List Slot) (x : Nat) : Option Cont :=
  let i := binarySearch (keysOf slots) x
  if i < 0 then none else some (cAt slots i.toNat)

/-- `advanceUntil(array, pos, length, min)` with `lower = pos + 1` as the parameter (`pos = -1` is `lower = 0`) -/
def advFrom (xs : List Nat) (lower length min : Nat) : Nat :=
  if lower ≥ length ∨ xs.getD lower 0 ≥ min then lower else
  let spansize := gallop xs lower length min 1
  let upper := if lower + spansize < length then lower + spansize else length - 1
  if xs.getD upper 0 = min then upper
  else if xs.getD upper 0 < min then length
  else bisect xs min (lower + spansize / 2) upper

theorem advanceUntil_eq_advFrom (xs : List Nat) (pos length min : Nat) :
    advanceUntil xs pos length min = advFrom xs (pos + 1) length min := rfl

/-! ### container kernels: `safeMinimum`, `safeMaximum` -/

/-- the `uint16` returned by `safeMinimum()` (0 together with an error) -/
def safeMinimumQ : Cont → Int
  | .arr xs => if xs.length = 0 then 0 else arrMinimum xs
  | .bmp _ ws =>
    if ws.length = 0 then 0 else
    let v := bmpMinFrom 0 ws
    if v = 65535 then 0 else (v : Int)           -- `if val == MaxUint16 { return 0, errors.New("Empty bitmap") }`
  | .run rs => if rs.length = 0 then 0 else (rStart rs 0 : Int)

/-- the `uint16` returned by `safeMaximum()` -/
def safeMaximumQ : Cont → Int
  | .arr xs => if xs.length = 0 then 0 else arrMaximum xs
  | .bmp _ ws =>
    if ws.length = 0 then 0 else
    let v := bmpMaxFrom ws ws.length
    if v = 0 then 0 else (v : Int)
  | .run rs => if rs.length = 0 then 0 else (rLast rs (rs.length - 1) : Int)

/-! ### container kernels: `andCardinality` -/

/-- `onesidedgallopingintersect2by2Cardinality(smallset, largeset)`: one turn of `mainwhile` per element of the small set;
`k1` is the cursor in the large set -/
def gallopCard (large : List Nat) : List Nat → Nat → Nat
  | [], _ => 0
  | s2 :: rest, k1 =>
    let k1a := if large.getD k1 0 < s2 then advFrom large (k1 + 1) large.length s2 else k1
    if k1a ≥ large.length then 0
    else if s2 < large.getD k1a 0 then gallopCard large rest k1a
    else
      match rest with
      | [] => 1
      | s2' :: _ =>
        let k1b := advFrom large (k1a + 1) large.length s2'
        if k1b ≥ large.length then 1 else 1 + gallopCard large rest k1b

/-- `intersection2by2Cardinality(set1, set2)`; `localintersect2by2Cardinality` is the two-pointer walk of `ArrayC` -/
def arrAndCard (xs ys : List Nat) : Nat :=
  if xs.length * 64 < ys.length then (if xs.length = 0 then 0 else gallopCard ys xs 0)
  else if ys.length * 64 < xs.length then (if ys.length = 0 then 0 else gallopCard xs ys 0)
  else ArrayC.intersection2by2Cardinality xs ys

/-- `bitmapContainer.bitValue(v)` -/
def bitValue (ws : List (BitVec 64)) (v : Nat) : Nat := ((word ws (v / 64) >>> (v % 64)) &&& 1#64).toNat

/-- `bitmapContainer.andArrayCardinality(ac)` -/
def bmpArrCard (ws : List (BitVec 64)) : List Nat → Nat
  | [] => 0
  | v :: t => bitValue ws v + bmpArrCard ws t

/-- `runContainer16.andArrayCardinality(ac)`: per run, skip the values below its start (`for v < p.start`), count the values
up to its last (`for v <= p.last()`); leaving either loop at the end of the array ends everything -/
def runArrCard : List (Nat × Nat) → List Nat → Nat
  | [], _ => 0
  | (s, l) :: rt, xs =>
    let xs1 := xs.dropWhile (· < s)
    if xs1.isEmpty then 0 else
    let inside := xs1.takeWhile (· ≤ add16 s l)
    let xs2 := xs1.dropWhile (· ≤ add16 s l)
    if xs2.isEmpty then inside.length else inside.length + runArrCard rt xs2

/-- `runContainer16.andBitmapContainerCardinality(bc)` -/
def runBmpCard (ws : List (BitVec 64)) : List (Nat × Nat) → Int
  | [] => 0
  | (s, l) :: rt => bmpCardInRange ws s (add16 s l + 1) + runBmpCard ws rt

/-- `findNextIntervalThatIntersectsStartingFrom(startIndex, key)` on the intervals from `startIndex` on (as `(start, last)`
pairs): stand on the last interval whose start is `≤ key` if there is one, else on the first -/
def skipTo : List (Nat × Nat) → Nat → List (Nat × Nat)
  | p :: q :: t, key => if q.1 ≤ key then skipTo (q :: t) key else p :: q :: t
  | l, _ => l

theorem skipTo_length_le (l : List (Nat × Nat)) (key : Nat) : (skipTo l key).length ≤ l.length := by
  fun_induction skipTo l key with
  | case1 p q t key h ih => simp only [List.length_cons] at *; omega
  | case2 p q t key h => exact Nat.le_refl _
  | case3 l key h => exact Nat.le_refl _

/-- `runContainer16.intersectCardinality(b)` on `(start, last)` pairs; a leftover replaces the start of the current interval
(`astart = leftoverstart` without advancing `acuri`) -/
def rrCard : List (Nat × Nat) → List (Nat × Nat) → Nat
  | [], _ => 0
  | _, [] => 0
  | (sa, ea) :: ta, (sb, eb) :: tb =>
    if ea + 1 ≤ sb ∨ ¬ (eb + 1 > sa) then                    -- !have4Overlap16
      if sa < sb then rrCard (skipTo ta sb) ((sb, eb) :: tb)
      else if sb < sa then rrCard ((sa, ea) :: ta) (skipTo tb sa)
      else 0                                                   -- equal starts always overlap (Go would spin here)
    else
      let n := min ea eb - max sa sb + 1                       -- int(intersection.last()) - int(intersection.start) + 1
      if eb < ea then n + rrCard ((eb + 1, ea) :: ta) tb
      else if ea < eb then n + rrCard ta ((ea + 1, eb) :: tb)
      else n + rrCard ta tb
termination_by a b => a.length + b.length
decreasing_by
  · have := skipTo_length_le ta sb; simp only [List.length_cons]; omega
  · have := skipTo_length_le tb sa; simp only [List.length_cons]; omega
  all_goals simp only [List.length_cons]; omega

/-- `(start, last())` of every interval -/
def runPairs (rs : List (Nat × Nat)) : List (Nat × Nat) := rs.map fun (s, l) => (s, add16 s l)

end RepQuery

open RepQuery ContOps ContQuery It

/-- `c1.andCardinality(c2)` as the dispatchers route it -/
def Cont.andCardinalityQ : Cont → Cont → Int
  | .arr xs, .arr ys => arrAndCard xs ys
  | .arr xs, .bmp _ ws => bmpArrCard ws xs                     -- x.andCardinality(ac) → bc.andArrayCardinality(ac)
  | .arr xs, .run rs => runArrCard rs xs                       -- x.andArrayCardinality(ac)
  | .bmp _ ws, .arr ys => bmpArrCard ws ys
  | .bmp _ w1, .bmp _ w2 => wordsCard (andW w1 w2)             -- popcntAndSlice
  | .bmp _ ws, .run rs => runBmpCard ws rs                     -- x.andBitmapContainerCardinality(bc)
  | .run rs, .arr ys => runArrCard rs ys
  | .run rs, .bmp _ ws => runBmpCard ws rs
  | .run r1, .run r2 => rrCard (runPairs r1) (runPairs r2)

namespace RepQuery

/-! ### container kernels: `intersects` -/

/-- `onesidedgallopingintersect2by2Bool(smallset, largeset)` -/
def gallopBool (large : List Nat) : List Nat → Nat → Bool
  | [], _ => false
  | s2 :: rest, k1 =>
    let k1a := if large.getD k1 0 < s2 then advFrom large (k1 + 1) large.length s2 else k1
    if k1a ≥ large.length then false
    else if s2 < large.getD k1a 0 then gallopBool large rest k1a
    else true

/-- `intersects2by2(set1, set2)`; `intersects2by2Bool` is the two-pointer walk of `ArrayC` -/
def arrIntersects (xs ys : List Nat) : Bool :=
  if xs.length = 0 ∨ ys.length = 0 then false
  else if xs.length * 64 < ys.length then gallopBool ys xs 0
  else if ys.length * 64 < xs.length then gallopBool xs ys 0
  else ArrayC.intersects2by2 xs ys

end RepQuery

/-- `c1.intersects(c2)`; every pairing with a run container is `!rc.and(other).isEmpty()` -/
def Cont.intersectsQ : Cont → Cont → Bool
  | .arr xs, .arr ys => arrIntersects xs ys
  | .arr xs, .bmp c ws => xs.any (Cont.bmp c ws).containsQ    -- x.intersects(ac) → bc.intersectsArray(ac)
  | .bmp c ws, .arr ys => ys.any (Cont.bmp c ws).containsQ
  | .bmp _ w1, .bmp _ w2 => (andW w1 w2).any (· ≠ 0#64)       -- intersectsBitmap
  | .arr xs, .run rs => !(Cont.and2 (.run rs) (.arr xs)).isEmptyGo
  | .bmp c ws, .run rs => !(Cont.and2 (.run rs) (.bmp c ws)).isEmptyGo
  | .run rs, b => !(Cont.and2 (.run rs) b).isEmptyGo

namespace RepQuery

/-! ### container kernels: `equals` -/

/-- `for drive.hasNext() { if other.next() != drive.next() { return false } }; return true` -/
def iterEq : (fuel : Nat) → (drive other : CIt) → Bool
  | 0, _, _ => true
  | fuel + 1, drive, other =>
    if drive.hasNext then
      let (vo, other') := other.next
      let (vd, drive') := drive.next
      if vo != vd then false else iterEq fuel drive' other'
    else true

end RepQuery

/-- `c.equals(o)`: same kind → field-wise; mixed kinds → the generic comparison (cardinalities, then the two short iterators in
lock step; the ARRAY and RUN receivers drive the loop with their own iterator, the BITMAP receiver with the other one) -/
def Cont.equalsQ : Cont → Cont → Bool
  | .arr xs, .arr ys => xs == ys
  | .bmp c1 w1, .bmp c2 w2 => c1 == c2 && w1 == w2
  | .run r1, .run r2 => r1 == r2
  | .arr xs, o =>
    o.getCardinalityQ == (Cont.arr xs).getCardinalityQ && iterEq 65537 (CIt.ofCont (.arr xs)) (CIt.ofCont o)
  | .bmp c ws, o =>
    (Cont.bmp c ws).getCardinalityQ == o.getCardinalityQ && iterEq 65537 (CIt.ofCont o) (CIt.ofCont (.bmp c ws))
  | .run rs, o =>
    o.getCardinalityQ == (Cont.run rs).getCardinalityQ && iterEq 65537 (CIt.ofCont (.run rs)) (CIt.ofCont o)

namespace RepQuery

/-! ### loops of the bitmap-level drivers -/

/-- `for _, c := range containers { size += uint64(c.getCardinality()) }` -/
def cardSum : List Slot → Int
  | [] => 0
  | s :: t => s.c.getCardinalityQ + cardSum t

/-- the loop of `Rank` -/
def rankLoop (hb lb : Nat) : List Slot → Int
  | [] => 0
  | s :: t =>
    if s.key > hb then 0
    else if s.key < hb then s.c.getCardinalityQ + rankLoop hb lb t
    else s.c.rankQ lb

/-- the loop of `Select`: `none` = the `error` result -/
def selectLoop : List Slot → Nat → Option Int
  | [], _ => none
  | s :: t, remaining =>
    let card := (s.c.getCardinalityQ % 4294967296).toNat            -- uint32(c.getCardinality())
    if remaining ≥ card then selectLoop t (remaining - card)
    else some (combine s.key (s.c.selectQ (remaining % 65536)))       -- uint32(key)<<16 + uint32(c.selectInt(uint16(remaining)))

/-- the loop of `NextValue` from `containerIndex = idx` -/
def nextValueLoop (slots : List Slot) (originalKey query : Nat) (idx : Nat) : Int :=
  if idx < slots.length then
    let containerKey := kAt slots idx
    match getContainer slots containerKey with
    | none => undef                                                  -- method call on a nil container
    | some container =>
      let responseBit : Int :=
        if containerKey > originalKey then safeMinimumQ container else container.nextValueQ query
      if responseBit = -1 then nextValueLoop slots originalKey query (idx + 1)
      else combine containerKey responseBit
  else -1
termination_by slots.length - idx

/-- the loop of `PreviousValue` from `containerIndex = idxP - 1` (`containerIndex != -1` is `idxP ≠ 0`) -/
def previousValueLoop (slots : List Slot) (originalKey query : Nat) : (idxP : Nat) → Int
  | 0 => -1
  | i + 1 =>
    let containerKey := kAt slots i
    match getContainer slots containerKey with
    | none => undef
    | some container =>
      let responseBit : Int :=
        if containerKey < originalKey then safeMaximumQ container else container.previousValueQ query
      if responseBit = -1 then previousValueLoop slots originalKey query i
      else combine containerKey responseBit

/-- `for next == 1<<16 { … }` of `NextAbsentValue` -/
def nextAbsentLoop (slots : List Slot) (key index : Nat) (next : Int) : Int :=
  if next = 65536 then
    if key = 65535 then -1
    else if index + 1 ≥ slots.length ∨ kAt slots (index + 1) ≠ key + 1 then ((key + 1 : Nat) : Int) * 65536
    else nextAbsentLoop slots (key + 1) (index + 1) ((cAt slots (index + 1)).nextAbsentValueQ 0)
  else combine key next
termination_by slots.length - index
decreasing_by omega

/-- `for prev == -1 { … }` of `PreviousAbsentValue` -/
def previousAbsentLoop (slots : List Slot) (key index : Nat) (prev : Int) : Int :=
  if prev = -1 then
    if key = 0 then -1
    else if index = 0 then combine (key - 1) 65535                      -- index < 0 after index--
    else if kAt slots (index - 1) ≠ key - 1 then combine (key - 1) 65535
    else previousAbsentLoop slots (key - 1) (index - 1) ((cAt slots (index - 1)).previousAbsentValueQ 65535)
  else combine key prev
termination_by index
decreasing_by omega

/-- the walk of `AndCardinality` from `(pos1, pos2)` -/
def andCardWalk (a b : List Slot) (pos1 pos2 : Nat) : Int :=
  if pos1 < a.length ∧ pos2 < b.length then
    if kAt a pos1 = kAt b pos2 then
      (cAt a pos1).andCardinalityQ (cAt b pos2) + andCardWalk a b (pos1 + 1) (pos2 + 1)
    else if kAt a pos1 < kAt b pos2 then
      -- pos1 = advanceUntil(s2, pos1)
      if pos1 < advFrom (keysOf a) (pos1 + 1) a.length (kAt b pos2) then
        andCardWalk a b (advFrom (keysOf a) (pos1 + 1) a.length (kAt b pos2)) pos2
      else undef
    else
      if pos2 < advFrom (keysOf b) (pos2 + 1) b.length (kAt a pos1) then
        andCardWalk a b pos1 (advFrom (keysOf b) (pos2 + 1) b.length (kAt a pos1))
      else undef
  else 0
termination_by (a.length - pos1) + (b.length - pos2)
decreasing_by all_goals omega

/-- the walk of `Intersects` from `(pos1, pos2)` -/
def intersectsWalk (a b : List Slot) (pos1 pos2 : Nat) : Bool :=
  if pos1 < a.length ∧ pos2 < b.length then
    if kAt a pos1 = kAt b pos2 then
      if (cAt a pos1).intersectsQ (cAt b pos2) then true else intersectsWalk a b (pos1 + 1) (pos2 + 1)
    else if kAt a pos1 < kAt b pos2 then
      if pos1 < advFrom (keysOf a) (pos1 + 1) a.length (kAt b pos2) then
        intersectsWalk a b (advFrom (keysOf a) (pos1 + 1) a.length (kAt b pos2)) pos2
      else false
    else
      if pos2 < advFrom (keysOf b) (pos2 + 1) b.length (kAt a pos1) then
        intersectsWalk a b pos1 (advFrom (keysOf b) (pos2 + 1) b.length (kAt a pos1))
      else false
  else false
termination_by (a.length - pos1) + (b.length - pos2)
decreasing_by all_goals omega

/-- the walk of `OrCardinality` (no `advanceUntil`: one key per turn) and its two tail loops -/
def orCardSlots : List Slot → List Slot → Int
  | [], b => cardSum b
  | a, [] => cardSum a
  | sa :: ta, sb :: tb =>
    if sa.key < sb.key then sa.c.getCardinalityQ + orCardSlots ta (sb :: tb)
    else if sb.key < sa.key then sb.c.getCardinalityQ + orCardSlots (sa :: ta) tb
    else (sa.c.or2 sb.c).getCardinalityQ + orCardSlots ta tb
termination_by a b => a.length + b.length

/-- `for i, k := range ra.keys { if k != srb.keys[i] { return false } }` (equal lengths) -/
def keysEq : List Slot → List Slot → Bool
  | a :: ta, b :: tb => if a.key != b.key then false else keysEq ta tb
  | _, _ => true

/-- `for i, c := range ra.containers { if !c.equals(srb.containers[i]) { return false } }` (equal lengths) -/
def contsEq : List Slot → List Slot → Bool
  | a :: ta, b :: tb => if !(a.c.equalsQ b.c) then false else contsEq ta tb
  | _, _ => true

end RepQuery

open RepQuery

/-! ### the drivers -/

/-- `GetCardinality()` -/
def Rep.getCardinality (r : Rep) : Int := cardSum r.slots

/-- `IsEmpty()`: `rb.highlowcontainer.size() == 0` -/
def Rep.isEmptyQ (r : Rep) : Bool := r.slots.length == 0

/-- `Contains(x)` -/
def Rep.contains (r : Rep) (x : Nat) : Bool :=
  match getContainer r.slots (x / 65536) with
  | none => false
  | some c => c.containsQ (x % 65536)

/-- `Minimum()`; `none` = `panic("Empty bitmap")` -/
def Rep.minimum (r : Rep) : Option Int :=
  if r.slots.length = 0 then none
  else some (combine (kAt r.slots 0) (cAt r.slots 0).minimumQ)

/-- `Maximum()` -/
def Rep.maximum (r : Rep) : Option Int :=
  if r.slots.length = 0 then none
  else
    let lastindex := r.slots.length - 1
    some (combine (kAt r.slots lastindex) (cAt r.slots lastindex).maximumQ)

/-- `Rank(x)` -/
def Rep.rank (r : Rep) (x : Nat) : Int := rankLoop (x / 65536) (x % 65536) r.slots

/-- `Select(x)`; `none` = error -/
def Rep.select (r : Rep) (x : Nat) : Option Int := selectLoop r.slots x

/-- `CardinalityInRange(start, end)` -/
def Rep.cardInRange (r : Rep) (start end_ : Nat) : Int :=
  if start ≥ end_ then 0 else
  let e := if end_ > 4294967296 then 4294967296 else end_
  let hbStart := (start % 4294967296) / 65536
  let hbEnd := ((e - 1) % 4294967296) / 65536
  let ks := keysOf r.slots
  let size := ks.length
  let i0 := getIndex ks hbStart
  let startIdx : Nat := if i0 < 0 then (-i0 - 1).toNat else i0.toNat
  if startIdx ≥ size then 0 else
  let lo := start % 65536
  let hi := (e - 1) % 65536 + 1
  if hbStart = hbEnd then
    if kAt r.slots startIdx = hbStart then (cAt r.slots startIdx).cardInRangeQ lo hi else 0
  else
    let first : Bool := kAt r.slots startIdx == hbStart
    let r1 : Int := if first then (cAt r.slots startIdx).cardInRangeQ lo 65536 else 0
    let startIdx' := if first then startIdx + 1 else startIdx
    let e0 := getIndex ks hbEnd
    let endPresent : Bool := decide (e0 ≥ 0)
    -- `endIdx = -endIdx - 2` when absent; the middle loop runs over `[startIdx', endIdx]` and stops BEFORE `endIdx` when the
    -- end key is present: the index range `[startIdx', endX)`
    let endX : Nat := if endPresent then e0.toNat else (-e0 - 1).toNat
    let r2 : Int := cardSum ((r.slots.take endX).drop startIdx')
    let r3 : Int := if endPresent then (cAt r.slots e0.toNat).cardInRangeQ 0 hi else 0
    r1 + r2 + r3

/-- `IntersectsWithInterval(x, y)` -/
def Rep.intersectsWithInterval (r : Rep) (x y : Nat) : Bool :=
  if x ≥ y then false
  else if x > 4294967295 then false
  else
    let it := (IntIt.create r).advanceIfNeeded x
    if !it.hasNext then false
    else if (it.next).1 ≥ y then false
    else true

/-- `NextValue(target)` -/
def Rep.nextValue (r : Rep) (target : Nat) : Int :=
  let ks := keysOf r.slots
  nextValueLoop r.slots (target / 65536) (target % 65536) (advFrom ks 0 ks.length (target / 65536))

/-- `PreviousValue(target)` -/
def Rep.previousValue (r : Rep) (target : Nat) : Int :=
  if r.isEmptyQ then -1 else
  let originalKey := target / 65536
  let ks := keysOf r.slots
  let containerIndex := advFrom ks 0 ks.length originalKey
  if containerIndex = ks.length then
    (match r.maximum with | some v => v | none => undef)
  else
    -- `if key(containerIndex) > originalKey { containerIndex-- }`; the loop gets `containerIndex + 1`
    let idxP := if kAt r.slots containerIndex > originalKey then containerIndex else containerIndex + 1
    previousValueLoop r.slots originalKey (target % 65536) idxP

/-- `NextAbsentValue(target)` -/
def Rep.nextAbsentValue (r : Rep) (target : Nat) : Int :=
  let key := target / 65536
  let index := getIndex (keysOf r.slots) key
  if index < 0 then (target : Int)
  else nextAbsentLoop r.slots key index.toNat ((cAt r.slots index.toNat).nextAbsentValueQ (target % 65536))

/-- `PreviousAbsentValue(target)` -/
def Rep.previousAbsentValue (r : Rep) (target : Nat) : Int :=
  let key := target / 65536
  let index := getIndex (keysOf r.slots) key
  if index < 0 then (target : Int)
  else previousAbsentLoop r.slots key index.toNat ((cAt r.slots index.toNat).previousAbsentValueQ (target % 65536))

/-- `x.Equals(y)` = `y.highlowcontainer.equals(x.highlowcontainer)` -/
def Rep.equals (x y : Rep) : Bool :=
  if x.slots.length != y.slots.length then false
  else keysEq y.slots x.slots && contsEq y.slots x.slots

/-- `x.AndCardinality(y)` -/
def Rep.andCardinality (x y : Rep) : Int := andCardWalk x.slots y.slots 0 0

/-- `x.OrCardinality(y)` -/
def Rep.orCardinality (x y : Rep) : Int := orCardSlots x.slots y.slots

/-- `x.Intersects(y)` -/
def Rep.intersects (x y : Rep) : Bool := intersectsWalk x.slots y.slots 0 0

end RModel.Impl
