import RModel.Impl.Rep64Mut
import RModel.Impl.ParData
/-!
L2 of `roaring64`: the aggregates `FastOr`, `FastAnd` (`fastaggregation64.go`) on the stored representation `Rep64`.

How the Go code is read.
* `FastOr(bitmaps...)`: no bitmap → `NewBitmap()`; one → `bitmaps[0].Clone()` (`Rep64.clone`); otherwise
  `answer := Or(bitmaps[0], bitmaps[1])` (the static `Rep64.or2`: a fresh bitmap, switch off) and `answer.Or(bm)` for every further
  bitmap (the in-place `Rep64.ior`).  `FastAnd` likewise with `And` / `answer.And(bm)` (`Rep64.and2`, `Rep64.iand`).
  (There is no lazy phase at this level: every step is the ordinary 64-bit operation, which calls the ordinary 32-bit operation on
  buckets with equal keys.)
* The 32-bit in-place operations enter the 64-bit walks through the parameter `Ops32`.  `Ops32.exact` instantiates it with the
  exact 32-bit models of `Impl/RepMut.lean` (`Rep.iand`, `Rep.ior`, `Rep.iandNot`, `Rep.flip`, `Rep.addRange`, `Rep.removeRange`), so
  that `Rep64.fastOr Ops32.exact` / `Rep64.fastAnd Ops32.exact` are closed models of the Go functions: the representation returned,
  bucket by bucket and container by container (tied by `l2agg64`, `Driver/L2R64Q.lean`).

Core Lean only, executable (linked into the compiled checker).
-/
namespace RModel.Impl
open RModel

/-- the 32-bit layer as modelled exactly at L2 (`Impl/RepMut.lean`) -/
def Ops32.exact : Ops32 where
  flip := Rep.flip
  addRange := Rep.addRange
  removeRange := Rep.removeRange
  iand := Rep.iand
  ior := Rep.ior
  iandNot := Rep.iandNot

/-- `roaring64.FastOr(bitmaps...)` -/
def Rep64.fastOr (o : Ops32) : List Rep64 → Rep64
  | [] => {}
  | [a] => a.clone
  | a :: b :: t => t.foldl (Rep64.ior o) (Rep64.or2 a b)

/-- `roaring64.FastAnd(bitmaps...)` -/
def Rep64.fastAnd (o : Ops32) : List Rep64 → Rep64
  | [] => {}
  | [a] => a.clone
  | a :: b :: t => t.foldl (Rep64.iand o) (Rep64.and2 a b)

end RModel.Impl
