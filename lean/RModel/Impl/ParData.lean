import RModel.Impl.Repr
import RModel.Impl.ContOps
import RModel.Impl.RepOps
import RModel.Impl.LazyOps
/-!
L2: the DATA side of the parallel aggregates of `parallel.go` — `ParOr`, `ParHeapOr`, `ParAnd` — as deterministic functions on the
stored representation.  (`RModel/Impl/Par.lean` models the goroutine / channel PROTOCOLS of the same functions: every schedule
delivers every work item exactly once.  The assembly stores results by chunk index (`chunks[chunk.idx]`) resp. by work-item index
(`keys[item.idx]`), so the value computed is a function of the work items alone; that function is what is modelled here.)  As
everywhere at L2 the functions return **the representation the Go function returns** (keys, container kinds / payloads / cached
cardinalities, `needCopyOnWrite` flags, the `copyOnWrite` switch) for well-formed operands.

How the Go code is read.

`ParOr(parallelism, bitmaps…)`:
* empty bitmaps are filtered out; no bitmap left → `New()`; one left → `Clone()` (`Rep.clone`; with copy-on-write the source gets
  all its flags set, `Rep.cloneSrc`); `lKey` / `hKey` = smallest first key / largest last key; `keyRange = hKey − lKey + 1`;
  `keyRange == 1` → `FastOr(filtered…)` (`Rep.fastOr`);
* the chunk grid (`int` arithmetic; `parallelism == 0` stands for `runtime.NumCPU()`, the effective worker count `w ≥ 1` is the
  parameter here): `4·w > keyRange` → `chunkSize = 1, chunkCount = keyRange`; otherwise `chunkCount₀ = 4·w`,
  `chunkSize = ⌈keyRange / chunkCount₀⌉` and the count is re-trimmed to `chunkCount = ⌈keyRange / chunkSize⌉`
  (`parOrChunkSize`, `parOrChunkCount`).  Chunk `i` covers the keys `start = uint16(lKey + i·chunkSize)` …
  `end = uint16(min(lKey + (i+1)·chunkSize − 1, hKey))` (`chunkRange`; the `uint16` conversions are modelled as `% 65536` — the
  partition theorem of `RProofs/ParData.lean` shows that they never wrap).  The `int` products cannot overflow for any worker
  count the program could be run with (`w` goroutines are started), they are modelled in `Nat`;
* per chunk (`orChunk`): `lazyOrOnRange(bitmaps[0], bitmaps[1], start, end)` — `parNaiveStartAt` skips the keys below `start`, the
  merge stops at the first key above `end` (`rangeSlots`); a key present on one side is `appendCopy`d into a fresh array
  (`copySlot`: shared and flagged iff the source slot is flagged), equal keys:
  `getFastContainerAtIndex(i, false).lazyOR(c2)` — `getFastContainerAtIndex` turns an array container and a NON-full run container
  into a bitmap container (`toBitmapFast`; the cached cardinality of that temporary — `len` for an array, TWICE the number of
  values for a run — is never read by the bitmap kernels) — appended with the flag off; then for every further bitmap
  `lazyIOrOnRange(chunk, b, start, end)`: chunk-only keys untouched, a new key in the middle is inserted as `clone()` with the
  flag off, trailing new keys are `appendCopy`d, equal keys `getFastContainerAtIndex(i, true).lazyIOR(c2)` with the flag off;
  finally the FUNCTION `repairAfterLazy(c)` on every container of the chunk (`repairContPar`; unlike the method
  `Bitmap.repairAfterLazy` it also looks at bitmap containers with an exact cardinality: `≤ 4096` → array, full → the run container
  `[0,65535]`; the slot's flag is not touched);
* the chunks are concatenated in chunk order into a bitmap with `copyOnWrite = false`.
  NOTE: the SET computed does not depend on the worker count (`Rep.parOr_worker_independent`), the REPRESENTATION does: a flagged
  (shared) container of the third or a later operand whose key lies below a key already in the chunk is inserted as a private clone
  (flag off), while the same container is appended SHARED (flag on) when a chunk boundary separates it from those keys — e.g.
  `{10,1000}`, `{10,1000}`, `{5/f}` gives `5:…` with `w = 1` and `5:…/f` with `w = 100` (both are safe; validated by `l2par`).

`ParHeapOr` / `ParAnd`:
* no bitmap → `NewBitmap()`; one → `Clone()`;
* a binary min-heap (`container/heap`, `Less` = key comparison ONLY) holds one cursor per non-empty bitmap; `heap.Init` is the
  usual bottom-up heapify (`heapInit`), `popIncrementing` takes the root's container and either advances the cursor and
  `heap.Fix(h, 0)` (= `down(0, n)`, `up(0)` does nothing) or `heap.Pop`s it (swap with the last element, `down(0, n−1)`, drop
  the last) — `heapPopInc`; `Next` pops while the root has the same key (`heapNext`).  The ORDER in which the containers of
  one key arrive depends on the heap layout (ties are not broken by operand position) and matters for the kind of the result of
  `ParAnd`, so the heap is modelled move by move (`heapDown` mirrors `down`);
* `ParHeapOr`: a key with one container → `clone()` of it; otherwise
  `repairAfterLazy(toBitmapContainer(c₀).lazyOR(c₁).lazyIOR(c₂)…)` (`reduceOr`); every result is appended with the flag off;
* `ParAnd`: only keys that collected `len(bitmaps)` containers (empty bitmaps count: one empty operand → empty result) are
  handed out: `c₀.and(c₁)`, then `iand` of the others until the running result `isEmpty()`; an empty result is dropped (`reduceAnd`);
* `appenderRoutine` stores by work-item index and appends in index order = key order; `copyOnWrite = false`.
The worker count does not enter the data of `ParHeapOr` / `ParAnd` at all (it only sizes the worker pool).

Core Lean only, executable (linked into the compiled checker).
-/
namespace RModel.Impl
open RModel
open ContOps RepOps LazyOps

namespace ParData

/-- `uint16(x)` of a non-negative `int` -/
def u16 (x : Nat) : Nat := x % 65536

/-! ### container level -/

/-- `getFastContainerAtIndex` / `toBitmapContainer(c)` of `parallel.go`: array and NON-full run containers become bitmap containers -/
def toBitmapFast : Cont → Cont
  | .arr xs => .bmp xs.length (wordsOfArr xs)                     -- bitmapContainer.loadData
  | .run rs => if isFullRun rs then .run rs else runToBitmapTemp rs
  | c => c

/-- the FUNCTION `repairAfterLazy(c container)` of `parallel.go` -/
def repairContPar : Cont → Cont
  | .bmp c ws =>
    let k : Int := if c == invalidCard then (wordsCard ws : Int) else c        -- computeCardinality()
    if k ≤ (arrayMax : Int) then .arr (valsOfWords ws)                         -- toArrayContainer()
    else if k == 65536 then fullRun                                            -- isFull()
    else .bmp k ws
  | c => c

def repairSlotPar (s : Slot) : Slot := { key := s.key, c := repairContPar s.c, flag := s.flag }

/-! ### `ParOr`: one chunk -/

/-- the slots `lazyOrOnRange` / `lazyIOrOnRange` look at: `parNaiveStartAt` walks past the keys below `start`, the merge loops run
while `key <= last` -/
def rangeSlots (start last : Nat) (l : List Slot) : List Slot :=
  (l.dropWhile (fun s => s.key < start)).takeWhile (fun s => s.key ≤ last)

/-- `lazyOrOnRange` on the slots in range -/
def parLazyOrSlots : List Slot → List Slot → List Slot
  | [], b => b.map copySlot
  | a, [] => a.map copySlot
  | sa :: ta, sb :: tb =>
    if sa.key < sb.key then copySlot sa :: parLazyOrSlots ta (sb :: tb)
    else if sb.key < sa.key then copySlot sb :: parLazyOrSlots (sa :: ta) tb
    else { key := sa.key, c := (toBitmapFast sa.c).lazyOR2 sb.c, flag := false } :: parLazyOrSlots ta tb
termination_by a b => a.length + b.length

/-- `lazyIOrOnRange` (receiver: the chunk built so far, a fresh `roaringArray` with `copyOnWrite = false`) -/
def parLazyIorSlots : List Slot → List Slot → List Slot
  | [], b => b.map copySlot                                                      -- ra1.appendCopy(*ra2, idx2)
  | a, [] => a
  | sa :: ta, sb :: tb =>
    if sa.key < sb.key then sa :: parLazyIorSlots ta (sb :: tb)
    else if sb.key < sa.key then
      { key := sb.key, c := sb.c, flag := false } :: parLazyIorSlots (sa :: ta) tb      -- insertNewKeyValueAt(clone)
    else { key := sa.key, c := (toBitmapFast sa.c).lazyIOR2 sb.c, flag := false } :: parLazyIorSlots ta tb
termination_by a b => a.length + b.length

/-- the work of `orFunc` for one `parChunkSpec{start, end}` -/
def orChunk (a b : List Slot) (t : List (List Slot)) (start last : Nat) : List Slot :=
  (t.foldl (fun acc c => parLazyIorSlots acc (rangeSlots start last c))
    (parLazyOrSlots (rangeSlots start last a) (rangeSlots start last b))).map repairSlotPar

/-! ### `ParOr`: the chunk grid -/

/-- `chunkSize` -/
def parOrChunkSize (lKey hKey w : Nat) : Nat :=
  let keyRange := hKey + 1 - lKey
  if w * 4 > keyRange then 1 else (keyRange + w * 4 - 1) / (w * 4)

/-- `chunkCount` (after the re-trimming) -/
def parOrChunkCount (lKey hKey w : Nat) : Nat :=
  let keyRange := hKey + 1 - lKey
  if w * 4 > keyRange then keyRange
  else (keyRange + parOrChunkSize lKey hKey w - 1) / parOrChunkSize lKey hKey w

/-- `parChunkSpec.start`, `.end` of chunk `i`, with the `uint16` conversions -/
def chunkRange (lKey hKey w i : Nat) : Nat × Nat :=
  let cs := parOrChunkSize lKey hKey w
  (u16 (lKey + i * cs), u16 (min (lKey + (i + 1) * cs - 1) hKey))

def firstKey (r : Rep) : Nat := (r.slots.head?.map (·.key)).getD 0
def lastKey (r : Rep) : Nat := (r.slots.getLast?.map (·.key)).getD 0

/-- `lKey` : `minOfUint16` over `keys[0]`, from `MaxUint16` -/
def lowKey (l : List Rep) : Nat := l.foldl (fun m r => min m (firstKey r)) 65535
/-- `hKey` : `maxOfUint16` over `keys[size-1]`, from `0` -/
def highKey (l : List Rep) : Nat := l.foldl (fun m r => max m (lastKey r)) 0

/-- all chunks in chunk order, concatenated -/
def parOrSlots (w : Nat) (a b : Rep) (t : List Rep) : List Slot :=
  let lKey := lowKey (a :: b :: t)
  let hKey := highKey (a :: b :: t)
  (List.range (parOrChunkCount lKey hKey w)).flatMap fun i =>
    orChunk a.slots b.slots (t.map (·.slots)) (chunkRange lKey hKey w i).1 (chunkRange lKey hKey w i).2

/-! ### the container heap of `ParHeapOr` / `ParAnd` -/

/-- `bitmapContainerKey`: the cursor of one bitmap — the key and container it points at, and the slots after it -/
structure HEnt where
  key : Nat
  c : Cont
  rest : List Slot
  deriving Inhabited

def entOf : List Slot → Option HEnt
  | [] => none
  | s :: r => some { key := s.key, c := s.c, rest := r }

def keyAt (h : Array HEnt) (i : Nat) : Nat := (h.getD i default).key

/-- `heap.down(h, i, n)` with `Less(i, j) = h[i].key < h[j].key` -/
def heapDown (h : Array HEnt) (i n : Nat) : Array HEnt :=
  if 2 * i + 1 ≥ n then h
  else
    let j1 := 2 * i + 1
    let j := if j1 + 1 < n && keyAt h (j1 + 1) < keyAt h j1 then j1 + 1 else j1
    if keyAt h j < keyAt h i then heapDown (h.swapIfInBounds i j) j n else h
termination_by n - i
decreasing_by all_goals (split <;> omega)

/-- `heap.Init`: `for i := n/2 - 1; i >= 0; i-- { down(h, i, n) }` (call with `k = n / 2`) -/
def heapInitFrom (n : Nat) : (k : Nat) → Array HEnt → Array HEnt
  | 0, h => h
  | k + 1, h => heapInitFrom n k (heapDown h k n)

def heapInit (h : Array HEnt) : Array HEnt := heapInitFrom h.size (h.size / 2) h

/-- `newBitmapContainerHeap(bitmaps...)` -/
def heapOf (l : List Rep) : Array HEnt := heapInit (l.filterMap fun r => entOf r.slots).toArray

/-- `popIncrementing` -/
def heapPopInc (h : Array HEnt) : (Nat × Cont) × Array HEnt :=
  let k := h.getD 0 default
  match k.rest with
  | s :: r => ((k.key, k.c), heapDown (h.setIfInBounds 0 { key := s.key, c := s.c, rest := r }) 0 h.size)   -- heap.Fix(h, 0)
  | [] => ((k.key, k.c), (heapDown (h.swapIfInBounds 0 (h.size - 1)) 0 (h.size - 1)).pop)                     -- heap.Pop(h)

/-- the loop of `Next`: pop while the root carries `key` -/
def heapCollect (key : Nat) : (fuel : Nat) → Array HEnt → List Cont → List Cont × Array HEnt
  | 0, h, acc => (acc.reverse, h)
  | f + 1, h, acc =>
    if 0 < h.size && keyAt h 0 == key then heapCollect key f (heapPopInc h).2 ((heapPopInc h).1.2 :: acc)
    else (acc.reverse, h)

/-- `Next`: the smallest key and ALL its containers, in the order the heap hands them out -/
def heapNext (fuel : Nat) (h : Array HEnt) : (Nat × List Cont) × Array HEnt :=
  let p := heapPopInc h
  let r := heapCollect p.1.1 fuel p.2 [p.1.2]
  ((p.1.1, r.1), r.2)

/-- `for h.Len() > 0 { ck := h.Next(…) … }` : the work items in the order they are produced -/
def heapGroups : (fuel : Nat) → Array HEnt → List (Nat × List Cont)
  | 0, _ => []
  | f + 1, h => if h.size == 0 then [] else (heapNext f h).1 :: heapGroups f (heapNext f h).2

/-- enough fuel for every loop: one more than the number of containers -/
def heapFuel (l : List Rep) : Nat := (l.map (·.slots.length)).sum + 1

/-- the work items of `ParHeapOr` / `ParAnd` -/
def workItems (l : List Rep) : List (Nat × List Cont) := heapGroups (heapFuel l) (heapOf l)

/-! ### the workers of `ParHeapOr` / `ParAnd` -/

/-- `orFunc` (and the single-container shortcut of the feeder) -/
def reduceOr : List Cont → Cont
  | [] => .arr []                                                              -- never produced by `Next`
  | [c] => c                                                                   -- ck.containers[0].clone()
  | c0 :: c1 :: rest => repairContPar (rest.foldl Cont.lazyIOR2 ((toBitmapFast c0).lazyOR2 c1))

/-- `for _, next := range input.containers[2:] { if c.isEmpty() { break }; c = c.iand(next) }` -/
def andLoop (c : Cont) : List Cont → Cont
  | [] => c
  | n :: t => if c.isEmptyGo then c else andLoop (c.aggIand2 n) t

/-- `andFunc`: `none` = the explicit `nil` for an empty intersection -/
def reduceAnd : List Cont → Option Cont
  | c0 :: c1 :: rest =>
    let c := andLoop (c0.and2 c1) rest
    if c.isEmptyGo then none else some c
  | _ => none

end ParData

open ParData

/-- `ParOr(w, bitmaps...)` for an effective worker count `w` -/
def Rep.parOr (w : Nat) (l : List Rep) : Rep :=
  match l.filter (fun r => !r.slots.isEmpty) with
  | [] => {}
  | [a] => a.clone
  | a :: b :: t =>
    if highKey (a :: b :: t) + 1 - lowKey (a :: b :: t) == 1 then Rep.fastOr (a :: b :: t)
    else { cow := false, slots := parOrSlots w a b t }

/-- `ParHeapOr(w, bitmaps...)` (the worker count only sizes the pool) -/
def Rep.parHeapOr (_w : Nat) : List Rep → Rep
  | [] => {}
  | [a] => a.clone
  | l => { cow := false, slots := (workItems l).map fun g => { key := g.1, c := reduceOr g.2, flag := false } }

/-- `ParAnd(w, bitmaps...)` (the worker count only sizes the pool) -/
def Rep.parAnd (_w : Nat) : List Rep → Rep
  | [] => {}
  | [a] => a.clone
  | l =>
    { cow := false,
      slots := (workItems l).filterMap fun g =>
        if g.2.length == l.length then (reduceAnd g.2).map fun c => { key := g.1, c := c, flag := false } else none }

end RModel.Impl
