import RModel.Impl.Repr
/-!
L2: the portable serializer and deserializer, mirroring `roaringArray.writeTo`, `headerSize`,
`serializedSizeInBytes` and `roaringArray.readFrom` over a bounds-checked byte buffer.
Constants are parameters (`Params`) so that they can be instantiated from the values regenerated from
the Go source (`Gen/Facts.lean`).  Core Lean only.
-/
namespace RModel.Impl
open RModel

structure SerParams where
  serialCookie : Nat
  serialCookieNoRun : Nat
  noOffsetThreshold : Nat
  arrayMax : Nat
  deriving Repr, BEq

abbrev Bytes := List UInt8

def le16 (n : Nat) : Bytes := [UInt8.ofNat (n % 256), UInt8.ofNat (n / 256 % 256)]
def le32 (n : Nat) : Bytes := le16 (n % 65536) ++ le16 (n / 65536 % 65536)
def le64 (n : Nat) : Bytes := le32 (n % 4294967296) ++ le32 (n / 4294967296 % 4294967296)

def Cont.isRun : Cont → Bool
  | .run _ => true
  | _ => false

/-- what `container.getCardinality()` returns (the cached field for bitmap containers) -/
def Cont.goCard : Cont → Int
  | .arr vals => vals.length
  | .bmp card _ => card
  | .run runs => ((runs.map fun (_, l) => l + 1).sum : Nat)

def Cont.payload : Cont → Bytes
  | .arr vals => vals.flatMap le16
  | .bmp _ words => words.flatMap fun w => le64 w.toNat
  | .run runs => le16 runs.length ++ runs.flatMap fun (s, l) => le16 s ++ le16 l

/-- `getSizeInBytesFromCardinality` / run size as used for the offset header -/
def Cont.offsetSize (P : SerParams) : Cont → Nat
  | .run runs => 2 + 4 * runs.length
  | c => if c.goCard > P.arrayMax then 8192 else 2 * c.goCard.toNat

/-- `container.serializedSizeInBytes()` -/
def Cont.serSize : Cont → Nat
  | .arr vals => 2 * vals.length
  | .bmp _ words => 8 * words.length
  | .run runs => 2 + 4 * runs.length

/-- bit `i` of the run-flag bitmap is set iff container `i` is a run container (LSB first) -/
def runFlagBytes (flags : List Bool) : Bytes :=
  let n := (flags.length + 7) / 8
  (List.range n).map fun j =>
    UInt8.ofNat ((List.range 8).foldl (fun acc b => if flags.getD (8 * j + b) false then acc + 2 ^ b else acc) 0)

def offsets (P : SerParams) (start : Nat) : List Cont → Bytes
  | [] => []
  | c :: t => le32 start ++ offsets P (start + c.offsetSize P) t

def Rep.hasRun (r : Rep) : Bool := r.slots.any (·.c.isRun)

def Rep.headerSize (P : SerParams) (r : Rep) : Nat :=
  let n := r.slots.length
  if r.hasRun then
    if n < P.noOffsetThreshold then 4 + (n + 7) / 8 + 4 * n else 4 + (n + 7) / 8 + 8 * n
  else 4 + 4 + 8 * n

def Rep.serializedSize (P : SerParams) (r : Rep) : Nat :=
  r.headerSize P + (r.slots.map (·.c.serSize)).sum

def Rep.encode (P : SerParams) (r : Rep) : Bytes :=
  let n := r.slots.length
  let hasRun := r.hasRun
  let cookie :=
    if hasRun then le16 P.serialCookie ++ le16 ((n - 1) % 65536) ++ runFlagBytes (r.slots.map (·.c.isRun))
    else le32 P.serialCookieNoRun ++ le32 n
  let desc := r.slots.flatMap fun s => le16 s.key ++ le16 ((s.c.goCard - 1) % 65536).toNat
  let pre := cookie.length + desc.length
  let offs := if !hasRun || n ≥ P.noOffsetThreshold then offsets P (pre + 4 * n) (r.slots.map (·.c)) else []
  cookie ++ desc ++ offs ++ r.slots.flatMap (·.c.payload)

/-! ### reader -/

inductive Outcome (α : Type) where
  | ok (v : α)
  | err
  | panic
  deriving Repr, BEq

def rd16 : Bytes → Option (Nat × Bytes)
  | a :: b :: t => some (a.toNat + 256 * b.toNat, t)
  | _ => none

def rd32 : Bytes → Option (Nat × Bytes)
  | a :: b :: c :: d :: t => some (a.toNat + 256 * b.toNat + 65536 * c.toNat + 16777216 * d.toNat, t)
  | _ => none

def takeN (n : Nat) (bs : Bytes) : Option (Bytes × Bytes) :=
  if n ≤ bs.length then some (bs.take n, bs.drop n) else none

def bytesTo16s : Bytes → List Nat
  | a :: b :: t => (a.toNat + 256 * b.toNat) :: bytesTo16s t
  | _ => []

def bytesToWords : Bytes → List (BitVec 64)
  | b0 :: b1 :: b2 :: b3 :: b4 :: b5 :: b6 :: b7 :: t =>
      BitVec.ofNat 64 (b0.toNat + 256 * (b1.toNat + 256 * (b2.toNat + 256 * (b3.toNat + 256 *
        (b4.toNat + 256 * (b5.toNat + 256 * (b6.toNat + 256 * b7.toNat))))))) :: bytesToWords t
  | _ => []

def pairs16 : List Nat → List (Nat × Nat)
  | a :: b :: t => (a, b) :: pairs16 t
  | _ => []

def readContainers (P : SerParams) (flag : Bool) (isRun : Option Bytes) :
    (i : Nat) → List (Nat × Nat) → Bytes → Option (List Slot × Bytes)
  | _, [], bs => some ([], bs)
  | i, (key, cardm1) :: rest, bs =>
    let card := cardm1 + 1
    let runBit := match isRun with
      | some rb => (rb.getD (i / 8) 0).toNat / 2 ^ (i % 8) % 2 == 1
      | none => false
    let one : Option (Cont × Bytes) :=
      if runBit then
        match rd16 bs with
        | none => none
        | some (nr, bs1) => (takeN (nr * 4) bs1).map fun (p, bs2) => (.run (pairs16 (bytesTo16s p)), bs2)
      else if card > P.arrayMax then
        (takeN (P.arrayMax * 2) bs).map fun (p, bs2) => (.bmp card (bytesToWords p), bs2)
      else
        (takeN (card * 2) bs).map fun (p, bs2) => (.arr (bytesTo16s p), bs2)
    match one with
    | none => none
    | some (c, bs2) =>
      match readContainers P flag isRun (i + 1) rest bs2 with
      | none => none
      | some (ss, bs3) => some ({ key := key, c := c, flag := flag } :: ss, bs3)

/-- `roaringArray.readFrom` on a byte buffer; result = representation and number of bytes consumed.
`flag` = `!stream.NextReturnsSafeSlice()` (zero-copy readers flag every container). -/
def decode (P : SerParams) (flag : Bool) (bs : Bytes) : Outcome (Rep × Nat) :=
  match rd32 bs with
  | none => .err
  | some (cookie, bs1) =>
    let hdr : Option (Nat × Option Bytes × Bytes) :=
      if cookie % 65536 == P.serialCookie then
        let size := cookie / 65536 + 1
        (takeN ((size + 7) / 8) bs1).map fun (rb, bs2) => (size, some rb, bs2)
      else if cookie == P.serialCookieNoRun then
        (rd32 bs1).map fun (size, bs2) => (size, none, bs2)
      else none
    match hdr with
    | none => .err
    | some (size, isRun, bs2) =>
      if size > 65536 then .err else
      match takeN (4 * size) bs2 with
      | none => .err
      | some (kc, bs3) =>
        let keycard := pairs16 (bytesTo16s kc)
        let skipped : Option Bytes :=
          if isRun.isNone || size ≥ P.noOffsetThreshold then (takeN (4 * size) bs3).map (·.2) else some bs3
        match skipped with
        | none => .err
        | some bs4 =>
          match readContainers P flag isRun 0 keycard bs4 with
          | none => .err
          | some (slots, rest) => .ok ({ cow := false, slots := slots }, bs.length - rest.length)

end RModel.Impl
