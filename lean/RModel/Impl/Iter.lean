import RModel.Impl.ContQuery
/-!
L2: the ITERATION protocols as the Go state machines.

Container level (`shortiterator.go`, `manyiterator.go`, `bitmapcontainer.go`, `runcontainer.go`, `setutil.go`):

  `ArrIt`     = `shortIterator{slice, loc}`                       hasNext / next / peekNext / advanceIfNeeded / nextMany
  `BmpIt`     = `bitmapContainerShortIterator{ptr, i}`            (i = next set bit or −1; `NextSetBit`)
  `RunIt`     = `runIterator16{rc, curIndex, curPosInIndex}`      (`searchRange` from `curIndex` in advanceIfNeeded)
  `BmpManyIt` = `bitmapContainerManyIterator{ptr, base, bitset}`  (cached word, `t = bitset & -bitset`)
  `ArrRevIt`  = `reverseIterator{slice, loc}`
  `BmpRevIt`  = `reverseBitmapContainerShortIterator{ptr, i}`     (`PrevSetBit`)
  `RunRevIt`  = `runReverseIterator16{rc, curIndex, curPosInIndex}`

Bitmap level (`roaring.go`): `IntIt` = `intIterator`, `IntRevIt` = `intReverseIterator`, `ManyIt` = `manyIntIterator`,
each `{pos, hs, iter, highlowcontainer}` chaining the container iterators over the slots of a `Rep`.

How the embedded-iterator reuse of the Go structs is read.  `intIterator` embeds one `shortIterator`, one `runIterator16`
and one `bitmapContainerShortIterator` and lets the interface field `iter` point at one of them.  Every assignment
`ii.iter = &ii.X` in `init()` is immediately preceded by the assignment of a COMPLETE struct literal to `ii.X`
(all fields: container pointer and cursor(s)), and the embedded structs are read only through `ii.iter`.  So the two
embedded iterators that `iter` does not point at are dead state, and the model keeps `iter` as a sum (`CIt`) of the
three container-iterator states.  What `init()` does NOT reset is modelled as is:
* forward `intIterator.init()` with `pos ≥ size` changes nothing: `hs` and `iter` keep the values of the last container
  (the exhausted container iterator stays reachable through `PeekNext` — illegal after `HasNext() = false`);
* `manyIntIterator.init()` and `intReverseIterator.init()` set `iter = nil` when they run off the end, `hs` is kept;
* `Initialize(b)` on a used iterator resets `pos` and `highlowcontainer` and calls `init()`: on an EMPTY bitmap the
  forward iterator keeps its stale `hs`/`iter`.

Conventions: `uint16` arithmetic is written with `add16` / `sub16` / `% 65536`; slice reads are `getD _ _ 0` (an
out-of-range read is a Go panic: unreachable after a `true` answer of `hasNext`); Go `int` fields that can be −1 are
kept shifted by one in a `Nat` field with suffix `P` (`locP = loc + 1`, `curIndexP`, `baseP`, `posP`), or as `Int`
where the value comes out of `NextSetBit`/`PrevSetBit`.
Core Lean only, executable (linked into the compiled checker).
-/
namespace RModel.Impl.It
open RModel RModel.Impl RModel.Impl.ContOps RModel.Impl.ContQuery

/-! ## `advanceUntil` (setutil.go) -/

/-- `for lower+spansize < length && array[lower+spansize] < min { spansize *= 2 }` (spansize starts at 1; the guard
`0 < spansize` only makes the termination evident) -/
def gallop (xs : List Nat) (lower length min : Nat) (spansize : Nat) : Nat :=
  if 0 < spansize ∧ lower + spansize < length ∧ xs.getD (lower + spansize) 0 < min then
    gallop xs lower length min (spansize * 2)
  else spansize
termination_by length - (lower + spansize)
decreasing_by omega

/-- `for lower+1 != upper { mid := (lower+upper)>>1 … }`; Go enters with `lower < upper` (see `advanceUntil`) -/
def bisect (xs : List Nat) (min : Nat) (lower upper : Nat) : Nat :=
  if lower + 1 < upper then
    let mid := (lower + upper) / 2
    if xs.getD mid 0 = min then mid
    else if xs.getD mid 0 < min then bisect xs min mid upper
    else bisect xs min lower mid
  else upper
termination_by upper - lower
decreasing_by all_goals omega

/-- `advanceUntil(array, pos, length, min)`: the smallest index `> pos` whose value is `≥ min`, else `length` -/
def advanceUntil (xs : List Nat) (pos length min : Nat) : Nat :=
  let lower := pos + 1
  if lower ≥ length ∨ xs.getD lower 0 ≥ min then lower else
  let spansize := gallop xs lower length min 1
  let upper := if lower + spansize < length then lower + spansize else length - 1
  if xs.getD upper 0 = min then upper
  else if xs.getD upper 0 < min then length
  else bisect xs min (lower + spansize / 2) upper

/-! ## array container -/

/-- `shortIterator{slice, loc}` -/
structure ArrIt where
  slice : List Nat
  loc : Nat := 0
  deriving Repr, BEq, Inhabited

namespace ArrIt
def hasNext (it : ArrIt) : Bool := it.loc < it.slice.length
def peekNext (it : ArrIt) : Nat := it.slice.getD it.loc 0
def next (it : ArrIt) : Nat × ArrIt := (it.slice.getD it.loc 0, { it with loc := it.loc + 1 })
def advanceIfNeeded (it : ArrIt) (minval : Nat) : ArrIt :=
  if it.hasNext && it.peekNext < minval then
    { it with loc := advanceUntil it.slice it.loc it.slice.length minval }
  else it
/-- `nextMany(hs, buf)` with `len(buf) = cap`: `for n < len(buf) && l < len(s) { buf[n] = uint32(s[l]) | hs; … }` -/
def nextMany (it : ArrIt) (hs cap : Nat) : List Nat × ArrIt :=
  let vs := (it.slice.drop it.loc).take cap
  (vs.map (· ||| hs), { it with loc := it.loc + vs.length })
end ArrIt

/-- `reverseIterator{slice, loc}`; `locP = loc + 1` -/
structure ArrRevIt where
  slice : List Nat
  locP : Nat
  deriving Repr, BEq, Inhabited

namespace ArrRevIt
def hasNext (it : ArrRevIt) : Bool := 0 < it.locP            -- loc >= 0
def next (it : ArrRevIt) : Nat × ArrRevIt := (it.slice.getD (it.locP - 1) 0, { it with locP := it.locP - 1 })
end ArrRevIt

/-! ## bitmap container -/

/-- `uint(i) + 1` for a Go `int` (−1 wraps to 0) -/
def uintSucc (i : Int) : Nat := ((i + 1) % 18446744073709551616).toNat

/-- `bitmapContainerShortIterator{ptr, i}` -/
structure BmpIt where
  ws : List (BitVec 64)
  i : Int
  deriving BEq, Inhabited

namespace BmpIt
/-- `bitmapContainerShortIterator{t, t.NextSetBit(0)}` -/
def init (ws : List (BitVec 64)) : BmpIt := { ws := ws, i := bmpNextSetBit ws 0 }
def hasNext (it : BmpIt) : Bool := decide (it.i ≥ 0)
/-- `uint16(bcsi.i)` -/
def peekNext (it : BmpIt) : Nat := (it.i % 65536).toNat
def next (it : BmpIt) : Nat × BmpIt :=
  ((it.i % 65536).toNat, { it with i := bmpNextSetBit it.ws (uintSucc it.i) })
def advanceIfNeeded (it : BmpIt) (minval : Nat) : BmpIt :=
  if it.hasNext && it.peekNext < minval then { it with i := bmpNextSetBit it.ws minval } else it
end BmpIt

/-- `reverseBitmapContainerShortIterator{ptr, i}` -/
structure BmpRevIt where
  ws : List (BitVec 64)
  i : Int
  deriving BEq, Inhabited

namespace BmpRevIt
/-- `pos := -1; if t.cardinality > 0 { pos = int(t.maximum()) }` (`card` is the cached field) -/
def init (card : Int) (ws : List (BitVec 64)) : BmpRevIt :=
  { ws := ws, i := if card > 0 then (bmpMaxFrom ws ws.length : Int) else -1 }
def hasNext (it : BmpRevIt) : Bool := decide (it.i ≥ 0)
/-- `PrevSetBit(i)`: `if i < 0 { return -1 }; return uPrevSetBit(uint(i))` -/
def prevSetBit (ws : List (BitVec 64)) (i : Int) : Int := if i < 0 then -1 else bmpPrevSetBit ws i.toNat
/-- `next()` (panics for `i == -1`: unreachable after `hasNext`) -/
def next (it : BmpRevIt) : Nat × BmpRevIt :=
  ((it.i % 65536).toNat, { it with i := prevSetBit it.ws (it.i - 1) })
end BmpRevIt

theorem popcount_le_64 (w : BitVec 64) : popcount w ≤ 64 := by
  unfold popcount
  exact Nat.le_trans (List.length_filter_le _ _) (by simp)

/-- `bitmapContainerManyIterator{ptr, base, bitset}`; `baseP = base + 1` (Go starts at `base = -1`) -/
structure BmpManyIt where
  ws : List (BitVec 64)
  baseP : Nat := 0
  bitset : BitVec 64 := 0#64
  deriving BEq, Inhabited

namespace BmpManyIt
/-- the loop of `nextMany`; `room = len(buf) - n`.  Returns the values written and the saved `(base+1, bitset)`. -/
def loop (ws : List (BitVec 64)) (hs : Nat) (room baseP : Nat) (bitset : BitVec 64) : List Nat × Nat × BitVec 64 :=
  if room = 0 then ([], baseP, bitset)
  else if bitset = 0#64 then
    -- base++ ; if base >= len(bitmap) { save; return }
    if baseP ≥ ws.length then ([], baseP + 1, bitset)
    else loop ws hs room (baseP + 1) (ws.getD baseP 0#64)
  else
    let t := bitset &&& (-bitset)
    let v := ((baseP - 1) * 64 + popcount (t - 1#64)) ||| hs
    let (vs, r) := loop ws hs (room - 1) baseP (bitset ^^^ t)
    (v :: vs, r)
termination_by (ws.length + 1 - baseP) * 65 + room * 65 + popcount bitset
decreasing_by
  · have := popcount_le_64 (ws.getD baseP 0#64)
    have h0 : popcount bitset = 0 := by subst bitset; decide
    omega
  · have := popcount_le_64 (bitset ^^^ (bitset &&& -bitset))
    omega

def nextMany (it : BmpManyIt) (hs cap : Nat) : List Nat × BmpManyIt :=
  let (vs, b, w) := loop it.ws hs cap it.baseP it.bitset
  (vs, { it with baseP := b, bitset := w })
end BmpManyIt

/-! ## run container -/

/-- `iv[i].length` (the stored `length` field = run length − 1) -/
def rLenF (rs : List (Nat × Nat)) (i : Nat) : Nat := (rs.getD i (0, 0)).2

/-- `searchRange(key, startIndex, len(rc.iv))`: `runSearch` with the bisection started at `startIndex` -/
def runSearchFrom (rs : List (Nat × Nat)) (key startIndex : Nat) : Int × Bool :=
  let n := rs.length
  if n = 0 then (-1, false) else
  let below := runSearchLoop rs key startIndex n
  let which : Int := (below : Int) - 1
  if below = n then
    (which, decide (key < rLast rs (n - 1) + 1))
  else if below = 0 then (which, false)
  else (which, decide (key ≥ rStart rs (below - 1) ∧ key < rLast rs (below - 1) + 1))

/-- `runIterator16{rc, curIndex, curPosInIndex}` -/
structure RunIt where
  rs : List (Nat × Nat)
  curIndex : Nat := 0
  curPosInIndex : Nat := 0
  deriving Repr, BEq, Inhabited

namespace RunIt
def hasNext (it : RunIt) : Bool :=
  it.rs.length > it.curIndex + 1 ||
    (it.rs.length == it.curIndex + 1 && rLenF it.rs it.curIndex ≥ it.curPosInIndex)
def peekNext (it : RunIt) : Nat := add16 (rStart it.rs it.curIndex) it.curPosInIndex
def next (it : RunIt) : Nat × RunIt :=
  let nxt := add16 (rStart it.rs it.curIndex) it.curPosInIndex
  if it.curPosInIndex = rLenF it.rs it.curIndex then
    (nxt, { it with curPosInIndex := 0, curIndex := it.curIndex + 1 })
  else (nxt, { it with curPosInIndex := add16 it.curPosInIndex 1 })
def advanceIfNeeded (it : RunIt) (minval : Nat) : RunIt :=
  if !it.hasNext || it.peekNext ≥ minval then it else
  let (interval, isPresent) := runSearchFrom it.rs minval it.curIndex
  if isPresent then
    { it with curIndex := interval.toNat, curPosInIndex := sub16 minval (rStart it.rs interval.toNat) }
  else { it with curIndex := (interval + 1).toNat, curPosInIndex := 0 }

/-- `moreVals`: 0, or `minOfInt(int(length - curPosInIndex) + 1, len(buf) - n)` when `length >= curPosInIndex` -/
def moreValsOf (len pos room : Nat) : Nat := if len ≥ pos then min (sub16 len pos + 1) room else 0

theorem moreValsOf_le (len pos room : Nat) : moreValsOf len pos room ≤ room := by
  unfold moreValsOf; split <;> omega

theorem moreValsOf_pos {len pos room : Nat} (hr : room ≠ 0) (h : ¬ (moreValsOf len pos room + pos > len)) :
    1 ≤ moreValsOf len pos room := by
  unfold moreValsOf at *
  by_cases hl : len ≥ pos
  · rw [if_pos hl]; omega
  · rw [if_neg hl] at h; omega

/-- the `for n < len(buf)` loop of `nextMany`; `room = len(buf) - n`.  An index `curIndex ≥ len(iv)` at the loop head
would be a Go panic (unreachable: the loop is entered after `hasNext` and left by `break` at `curIndex == len`). -/
def loop (rs : List (Nat × Nat)) (hs : Nat) (room idx pos : Nat) : List Nat × Nat × Nat :=
  if room = 0 then ([], idx, pos)
  else if idx ≥ rs.length then ([], idx, pos)
  else if moreValsOf (rLenF rs idx) pos room + pos > rLenF rs idx then
    if idx + 1 = rs.length then
      (List.range' ((add16 (rStart rs idx) pos) ||| hs) (moreValsOf (rLenF rs idx) pos room), idx + 1, 0)   -- break
    else
      let (vs, r) := loop rs hs (room - moreValsOf (rLenF rs idx) pos room) (idx + 1) 0
      (List.range' ((add16 (rStart rs idx) pos) ||| hs) (moreValsOf (rLenF rs idx) pos room) ++ vs, r)
  else
    let (vs, r) := loop rs hs (room - moreValsOf (rLenF rs idx) pos room) idx
      ((pos + moreValsOf (rLenF rs idx) pos room) % 65536)
    (List.range' ((add16 (rStart rs idx) pos) ||| hs) (moreValsOf (rLenF rs idx) pos room) ++ vs, r)
termination_by (rs.length - idx) + room
decreasing_by
  · have := moreValsOf_le (rLenF rs idx) pos room
    omega
  · rename_i h1 h2 h3
    have := moreValsOf_le (rLenF rs idx) pos room
    have := moreValsOf_pos h1 h3
    omega

def nextMany (it : RunIt) (hs cap : Nat) : List Nat × RunIt :=
  if !it.hasNext then ([], it) else
  let (vs, i, p) := loop it.rs hs cap it.curIndex it.curPosInIndex
  (vs, { it with curIndex := i, curPosInIndex := p })
end RunIt

/-- `runReverseIterator16{rc, curIndex, curPosInIndex}`; `curIndexP = curIndex + 1` -/
structure RunRevIt where
  rs : List (Nat × Nat)
  curIndexP : Nat
  curPosInIndex : Nat
  deriving Repr, BEq, Inhabited

namespace RunRevIt
/-- `index := len(t.iv) - 1; pos := 0; if index >= 0 { pos = t.iv[index].length }` -/
def init (rs : List (Nat × Nat)) : RunRevIt :=
  { rs := rs, curIndexP := rs.length, curPosInIndex := if rs.length > 0 then rLenF rs (rs.length - 1) else 0 }
/-- `curIndex > 0 || curIndex == 0 && curPosInIndex >= 0` -/
def hasNext (it : RunRevIt) : Bool := 0 < it.curIndexP
def next (it : RunRevIt) : Nat × RunRevIt :=
  let nxt := add16 (rStart it.rs (it.curIndexP - 1)) it.curPosInIndex
  if it.curPosInIndex > 0 then (nxt, { it with curPosInIndex := it.curPosInIndex - 1 })
  else
    let ip := it.curIndexP - 1                               -- curIndex-- (shifted)
    (nxt, { it with curIndexP := ip, curPosInIndex := if ip > 0 then rLenF it.rs (ip - 1) else it.curPosInIndex })
end RunRevIt

/-! ## the interface field `iter` -/

/-- `shortPeekable` as used by `intIterator`: nil (zero value of a fresh struct) or a pointer to one embedded iterator -/
inductive CIt where
  | none
  | arr (it : ArrIt)
  | run (it : RunIt)
  | bmp (it : BmpIt)
  deriving BEq, Inhabited

namespace CIt
/-- the forward container iterator `init()` installs for a container -/
def ofCont : Cont → CIt
  | .arr xs => .arr { slice := xs, loc := 0 }
  | .run rs => .run { rs := rs, curIndex := 0, curPosInIndex := 0 }
  | .bmp _ ws => .bmp (BmpIt.init ws)
/-- method calls through a nil interface panic; the model answers `false` / 0 -/
def hasNext : CIt → Bool
  | .none => false | .arr it => it.hasNext | .run it => it.hasNext | .bmp it => it.hasNext
def peekNext : CIt → Nat
  | .none => 0 | .arr it => it.peekNext | .run it => it.peekNext | .bmp it => it.peekNext
def next : CIt → Nat × CIt
  | .none => (0, .none)
  | .arr it => let (v, it') := it.next; (v, .arr it')
  | .run it => let (v, it') := it.next; (v, .run it')
  | .bmp it => let (v, it') := it.next; (v, .bmp it')
def advanceIfNeeded : CIt → Nat → CIt
  | .none, _ => .none
  | .arr it, m => .arr (it.advanceIfNeeded m)
  | .run it, m => .run (it.advanceIfNeeded m)
  | .bmp it, m => .bmp (it.advanceIfNeeded m)
end CIt

/-- `manyIterable` as used by `manyIntIterator` -/
inductive MIt where
  | none
  | arr (it : ArrIt)
  | run (it : RunIt)
  | bmp (it : BmpManyIt)
  deriving BEq, Inhabited

namespace MIt
def ofCont : Cont → MIt
  | .arr xs => .arr { slice := xs, loc := 0 }
  | .run rs => .run { rs := rs, curIndex := 0, curPosInIndex := 0 }
  | .bmp _ ws => .bmp { ws := ws, baseP := 0, bitset := 0#64 }
def nextMany : MIt → Nat → Nat → List Nat × MIt
  | .none, _, _ => ([], .none)
  | .arr it, hs, cap => let (v, it') := it.nextMany hs cap; (v, .arr it')
  | .run it, hs, cap => let (v, it') := it.nextMany hs cap; (v, .run it')
  | .bmp it, hs, cap => let (v, it') := it.nextMany hs cap; (v, .bmp it')
end MIt

/-- `shortIterable` as used by `intReverseIterator` -/
inductive RIt where
  | none
  | arr (it : ArrRevIt)
  | run (it : RunRevIt)
  | bmp (it : BmpRevIt)
  deriving BEq, Inhabited

namespace RIt
def ofCont : Cont → RIt
  | .arr xs => .arr { slice := xs, locP := xs.length }                 -- reverseIterator{content, len-1}
  | .run rs => .run (RunRevIt.init rs)
  | .bmp c ws => .bmp (BmpRevIt.init c ws)
def hasNext : RIt → Bool
  | .none => false | .arr it => it.hasNext | .run it => it.hasNext | .bmp it => it.hasNext
def next : RIt → Nat × RIt
  | .none => (0, .none)
  | .arr it => let (v, it') := it.next; (v, .arr it')
  | .run it => let (v, it') := it.next; (v, .run it')
  | .bmp it => let (v, it') := it.next; (v, .bmp it')
end RIt

/-! ## bitmap level -/

def slotAt (slots : List Slot) (i : Nat) : Slot := slots.getD i { key := 0, c := .arr [] }

/-- `intIterator{pos, hs, iter, highlowcontainer}` -/
structure IntIt where
  slots : List Slot := []
  pos : Nat := 0
  hs : Nat := 0
  iter : CIt := .none
  deriving Inhabited

namespace IntIt
def hasNext (ii : IntIt) : Bool := ii.pos < ii.slots.length
def init (ii : IntIt) : IntIt :=
  if ii.slots.length > ii.pos then
    let s := slotAt ii.slots ii.pos
    { ii with hs := s.key <<< 16, iter := CIt.ofCont s.c }
  else ii
/-- `Initialize(a)` on an existing iterator object -/
def reinit (ii : IntIt) (r : Rep) : IntIt := init { ii with pos := 0, slots := r.slots }
/-- `Iterator()`: `new(intIterator)` then `Initialize` -/
def create (r : Rep) : IntIt := reinit {} r
def next (ii : IntIt) : Nat × IntIt :=
  let (v, it') := ii.iter.next
  let x := v ||| ii.hs
  let ii := { ii with iter := it' }
  if !it'.hasNext then (x, init { ii with pos := ii.pos + 1 }) else (x, ii)
/-- `uint32(ii.iter.peekNext()&maxLowBit) | ii.hs` -/
def peekNext (ii : IntIt) : Nat := (ii.iter.peekNext &&& 0xFFFF) ||| ii.hs
/-- `for ii.HasNext() && ii.hs < to { ii.pos++; ii.init() }` -/
def skipTo (ii : IntIt) (to : Nat) : IntIt :=
  if ii.pos < ii.slots.length ∧ ii.hs < to then skipTo (init { ii with pos := ii.pos + 1 }) to else ii
termination_by ii.slots.length - ii.pos
decreasing_by
  simp only [init]
  split <;> simp <;> omega
def advanceIfNeeded (ii : IntIt) (minval : Nat) : IntIt :=
  let to := minval &&& 0xffff0000
  let ii := skipTo ii to
  if ii.hasNext && ii.hs == to then
    let it' := ii.iter.advanceIfNeeded (minval % 65536)        -- lowbits(minval)
    let ii := { ii with iter := it' }
    if !it'.hasNext then init { ii with pos := ii.pos + 1 } else ii
  else ii
end IntIt

/-- `manyIntIterator{pos, hs, iter, highlowcontainer}` -/
structure ManyIt where
  slots : List Slot := []
  pos : Nat := 0
  hs : Nat := 0
  iter : MIt := .none
  deriving Inhabited

namespace ManyIt
def init (ii : ManyIt) : ManyIt :=
  if ii.slots.length > ii.pos then
    let s := slotAt ii.slots ii.pos
    { ii with hs := s.key <<< 16, iter := MIt.ofCont s.c }
  else { ii with iter := .none }
def reinit (ii : ManyIt) (r : Rep) : ManyIt := init { ii with pos := 0, slots := r.slots }
def create (r : Rep) : ManyIt := reinit {} r

/-- the loop of `NextMany` / `NextMany64` (`hs64 = 0` for `NextMany`); `room = len(buf) - n` -/
def loop (hs64 : Nat) (room : Nat) (ii : ManyIt) : List Nat × ManyIt :=
  if room = 0 then ([], ii) else
  match _hi : ii.iter with
  | .none => ([], ii)
  | it =>
    match _hr : it.nextMany (ii.hs ||| hs64) room with
    | (got, it') =>
      if got.length = 0 then
        if ii.pos < ii.slots.length then
          loop hs64 room (init { ii with iter := it', pos := ii.pos + 1 })
        else ([], init { ii with iter := it', pos := ii.pos + 1 })   -- init sets iter = nil: the next turn breaks
      else if got.length ≥ room then (got, { ii with iter := it' })
      else
        let (vs, ii'') := loop hs64 (room - got.length) { ii with iter := it' }
        (got ++ vs, ii'')
termination_by (ii.slots.length - ii.pos, room)
decreasing_by
  · apply Prod.Lex.left
    simp only [init]
    split <;> simp <;> omega
  · apply Prod.Lex.right'
    · simp
    · omega

def nextMany (ii : ManyIt) (cap : Nat) : List Nat × ManyIt := loop 0 cap ii
def nextMany64 (ii : ManyIt) (hs64 cap : Nat) : List Nat × ManyIt := loop hs64 cap ii
end ManyIt

/-- `intReverseIterator{pos, hs, iter, highlowcontainer}`; `posP = pos + 1` -/
structure IntRevIt where
  slots : List Slot := []
  posP : Nat := 0
  hs : Nat := 0
  iter : RIt := .none
  deriving Inhabited

namespace IntRevIt
def hasNext (ii : IntRevIt) : Bool := 0 < ii.posP
def init (ii : IntRevIt) : IntRevIt :=
  if 0 < ii.posP then
    let s := slotAt ii.slots (ii.posP - 1)
    { ii with hs := s.key <<< 16, iter := RIt.ofCont s.c }
  else { ii with iter := .none }
def reinit (ii : IntRevIt) (r : Rep) : IntRevIt := init { ii with slots := r.slots, posP := r.slots.length }
def create (r : Rep) : IntRevIt := reinit {} r
def next (ii : IntRevIt) : Nat × IntRevIt :=
  let (v, it') := ii.iter.next
  let x := v ||| ii.hs
  let ii := { ii with iter := it' }
  if !it'.hasNext then (x, init { ii with posP := ii.posP - 1 }) else (x, ii)
end IntRevIt

/-! ## draining (the protocols of the callers: `for it.HasNext() { it.Next() }`, `NextMany` until 0) -/

/-- `for it.hasNext() { out = append(out, it.next()) }` on a container iterator -/
def CIt.drain (fuel : Nat) (it : CIt) : List Nat :=
  match fuel with
  | 0 => []
  | fuel + 1 => if it.hasNext then let (v, it') := it.next; v :: CIt.drain fuel it' else []

def RIt.drain (fuel : Nat) (it : RIt) : List Nat :=
  match fuel with
  | 0 => []
  | fuel + 1 => if it.hasNext then let (v, it') := it.next; v :: RIt.drain fuel it' else []

/-- `nextMany` until a call returns nothing, buffer lengths `caps` -/
def MIt.nextManySeq (it : MIt) (hs : Nat) : List Nat → List Nat
  | [] => []
  | cap :: caps => let (vs, it') := it.nextMany hs cap; vs ++ MIt.nextManySeq it' hs caps

/-- `for n < limit && it.HasNext() { out = append(out, it.Next()) }` -/
def IntIt.drain (fuel : Nat) (ii : IntIt) : List Nat × IntIt :=
  match fuel with
  | 0 => ([], ii)
  | fuel + 1 =>
    if ii.hasNext then
      let (v, ii') := ii.next
      let (vs, r) := IntIt.drain fuel ii'
      (v :: vs, r)
    else ([], ii)

def IntRevIt.drain (fuel : Nat) (ii : IntRevIt) : List Nat × IntRevIt :=
  match fuel with
  | 0 => ([], ii)
  | fuel + 1 =>
    if ii.hasNext then
      let (v, ii') := ii.next
      let (vs, r) := IntRevIt.drain fuel ii'
      (v :: vs, r)
    else ([], ii)

/-- `NextMany` with the buffer lengths `caps`, one call each; the values of all calls concatenated -/
def ManyIt.nextManySeq (ii : ManyIt) : List Nat → List Nat × ManyIt
  | [] => ([], ii)
  | cap :: caps =>
    let (vs, ii') := ii.nextMany cap
    let (ws, r) := ManyIt.nextManySeq ii' caps
    (vs ++ ws, r)

/-! ## the sorted member list of a container (the specification side of the drain theorems) -/

def valsOfCont : Cont → List Nat
  | .arr xs => xs
  | .bmp _ ws => valsOfWords ws
  | .run rs => expandRuns rs

/-- the members of a representation in increasing order (`key * 65536 + low`) -/
def valsOfRep (r : Rep) : List Nat := r.slots.flatMap fun s => (valsOfCont s.c).map (s.key * 65536 + ·)

end RModel.Impl.It
