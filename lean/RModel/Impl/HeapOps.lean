import RModel.Impl.Heap
/-!
The heap operations of the copy-on-write discipline of `roaringArray`, as pure functions on the pointer graph `Heap`
of `RModel.Impl.Heap`.  Every operation takes the FRESH identities (cells, arrays) it allocates as explicit arguments;
`FreshCells` / `FreshArrs` say what "fresh" means.  Array id `0` is "no array" and may always be used.

Fresh ids for whole-bitmap operations (`cloneBitmap`, `detach`) are given as lists consumed *by position*: slot `k`
uses `cs[k]`, `as[k]`.  Core Lean only.  Proofs are in `RProofs/Heap.lean`.
-/
namespace RModel.Impl

/-! ### observation functions -/

def Heap.slotAt (h : Heap) (b i : Nat) : Option HSlot := h[b]?.bind fun bm => bm.slots[i]?
def Heap.hdrAt (h : Heap) (b r : Nat) : Option ArrId := h[b]?.bind fun bm => bm.hdr[r]?

def HBitmap.cellIds (bm : HBitmap) : List Nat := bm.slots.map (·.cell)
def HBitmap.arrIds (bm : HBitmap) : List Nat := bm.slots.map (·.backing.id) ++ bm.hdr.map (·.id)
/-- arrays that some place may write without copying: header arrays and the arrays of unflagged slots -/
def HBitmap.privArrIds (bm : HBitmap) : List Nat :=
  (bm.slots.filter (!·.flag)).map (·.backing.id) ++ bm.hdr.map (·.id)

/-- every container object reachable in the heap -/
def Heap.cellIds (h : Heap) : List Nat := h.flatMap HBitmap.cellIds
/-- every backing / header array reachable in the heap -/
def Heap.arrIds (h : Heap) : List Nat := h.flatMap HBitmap.arrIds
def Heap.privArrIds (h : Heap) : List Nat := h.flatMap HBitmap.privArrIds

/-- `cs` are pairwise distinct container objects none of which is reachable in `h` -/
def FreshCells (h : Heap) (cs : List Nat) : Prop :=
  (∀ c ∈ cs, c ∉ h.cellIds) ∧ cs.Pairwise (· ≠ ·)

/-- `as` are arrays none of which is reachable in `h`, pairwise distinct; `0` (= no array) is always allowed -/
def FreshArrs (h : Heap) (as : List Nat) : Prop :=
  (∀ a ∈ as, a = 0 ∨ a ∉ h.arrIds) ∧ as.Pairwise (fun x y => x ≠ y ∨ x = 0)

/-- one fresh cell and one fresh array (the array may be nil) -/
def Fresh (h : Heap) (cell arr : Nat) : Prop := cell ∉ h.cellIds ∧ (arr = 0 ∨ arr ∉ h.arrIds)

/-! ### slot / bitmap helpers -/

/-- a brand-new private container with the key of `s` -/
def HSlot.fresh (s : HSlot) (c a : Nat) : HSlot := { key := s.key, cell := c, backing := ⟨a, false⟩, flag := false }
/-- set needCopyOnWrite -/
def HSlot.mark (s : HSlot) : HSlot := { s with flag := true }
/-- `getWritableContainerAtIndex` on one slot -/
def HSlot.gate (s : HSlot) (c a : Nat) : HSlot := if s.flag then s.fresh c a else s

def HBitmap.modSlot (bm : HBitmap) (i : Nat) (f : HSlot → HSlot) : HBitmap := { bm with slots := bm.slots.modify i f }
def HBitmap.mapSlots (bm : HBitmap) (f : HSlot → HSlot) : HBitmap := { bm with slots := bm.slots.map f }
def HBitmap.pushSlot (bm : HBitmap) (s : HSlot) : HBitmap := { bm with slots := bm.slots ++ [s] }

/-- combine the slots with fresh ids position by position -/
def zipFresh (f : HSlot → Nat → Nat → HSlot) (ss : List HSlot) (cs as : List Nat) : List HSlot :=
  (ss.zip (cs.zip as)).map fun x => f x.1 x.2.1 x.2.2

def mkHdr (hs : List Nat) : List ArrId := hs.map fun a => ⟨a, false⟩

/-! ### the operations -/

/-- `getWritableContainerAtIndex(i)` on bitmap `b`: a flagged slot gets the private clone (cell `c`, array `a`) -/
def gate (h : Heap) (b i c a : Nat) : Heap := h.modify b fun bm => bm.modSlot i (·.gate c a)

/-- `Bitmap.Clone` of bitmap `b`; the copy is appended to the heap -/
def cloneBitmap (h : Heap) (b : Nat) (name' : String) (cs as hs : List Nat) : Heap :=
  match h[b]? with
  | none => h
  | some bm =>
    if bm.cow then
      h.modify b (·.mapSlots HSlot.mark) ++
        [{ name := name', cow := true, hdr := mkHdr hs, slots := bm.slots.map HSlot.mark }]
    else
      h ++ [{ name := name', cow := false, hdr := mkHdr hs, slots := zipFresh HSlot.fresh bm.slots cs as }]

/-- `dst.appendCopy(src, i)` (also each step of appendCopiesUntil/After/appendCopyMany, copyOrSourceContainerAt) -/
def appendCopy (h : Heap) (dst src i c a : Nat) : Heap :=
  match h[dst]?, h[src]?, h.slotAt src i with
  | some d, some sb, some s =>
    if (d.cow && sb.cow) || s.flag then
      (h.modify src (·.modSlot i HSlot.mark)).modify dst (·.pushSlot s.mark)
    else
      h.modify dst (·.pushSlot (s.fresh c a))
  | _, _, _ => h

/-- `appendContainer(key, fresh, false)` -/
def appendFresh (h : Heap) (b key c a : Nat) : Heap :=
  h.modify b (·.pushSlot { key := key, cell := c, backing := ⟨a, false⟩, flag := false })

/-- `insertNewKeyValueAt(pos, key, fresh)` -/
def insertFresh (h : Heap) (b pos key c a : Nat) : Heap :=
  h.modify b fun bm =>
    { bm with slots := bm.slots.insertIdx pos { key := key, cell := c, backing := ⟨a, false⟩, flag := false } }

/-- `removeAtIndex(i)` -/
def removeSlot (h : Heap) (b i : Nat) : Heap := h.modify b fun bm => { bm with slots := bm.slots.eraseIdx i }

/-- `cloneCopyOnWriteContainers()` -/
def detach (h : Heap) (b : Nat) (cs as : List Nat) : Heap :=
  h.modify b fun bm => { bm with slots := zipFresh HSlot.gate bm.slots cs as }

/-- zero-copy decoding: a new bitmap over caller memory -/
def addZeroCopy (h : Heap) (name : String) (cow : Bool) (slots : List HSlot) (hs : List Nat) : Heap :=
  h ++ [{ name := name, cow := cow, hdr := mkHdr hs, slots := slots }]

/-- the bitmap becomes garbage -/
def dropBitmap (h : Heap) (b : Nat) : Heap := h.eraseIdx b

/-- `SetCopyOnWrite(v)` -/
def setCow (h : Heap) (b : Nat) (v : Bool) : Heap := h.modify b fun bm => { bm with cow := v }

/-- a new empty bitmap with fresh (or nil) header arrays -/
def addEmpty (h : Heap) (name : String) (cow : Bool) (hs : List Nat) : Heap := addZeroCopy h name cow [] hs

/-! ### operations as data -/

inductive Op where
  | gate (b i c a : Nat)
  | clone (b : Nat) (name : String) (cs as hs : List Nat)
  | appendCopy (dst src i c a : Nat)
  | appendFresh (b key c a : Nat)
  | insertFresh (b pos key c a : Nat)
  | removeSlot (b i : Nat)
  | detach (b : Nat) (cs as : List Nat)
  | zeroCopy (name : String) (cow : Bool) (slots : List HSlot) (hs : List Nat)
  | drop (b : Nat)
  | setCow (b : Nat) (v : Bool)
  deriving Repr

def step (h : Heap) : Op → Heap
  | .gate b i c a => gate h b i c a
  | .clone b n cs as hs => cloneBitmap h b n cs as hs
  | .appendCopy d s i c a => appendCopy h d s i c a
  | .appendFresh b k c a => appendFresh h b k c a
  | .insertFresh b p k c a => insertFresh h b p k c a
  | .removeSlot b i => removeSlot h b i
  | .detach b cs as => detach h b cs as
  | .zeroCopy n cow sl hs => addZeroCopy h n cow sl hs
  | .drop b => dropBitmap h b
  | .setCow b v => setCow h b v

def run (h : Heap) (ops : List Op) : Heap := ops.foldl step h

/-- number of slots of bitmap `b` (0 if there is no such bitmap) -/
def Heap.nslots (h : Heap) (b : Nat) : Nat := (h[b]?.map (·.slots.length)).getD 0

/-- the copyOnWrite switch of bitmap `b` -/
def Heap.cowAt (h : Heap) (b : Nat) : Bool := (h[b]?.map (·.cow)).getD false

/-- what zero-copy decoding may install: every slot flagged, its cell new, its array not writable by anyone -/
def ZeroCopyOk (h : Heap) (slots : List HSlot) (hs : List Nat) : Prop :=
  (∀ s ∈ slots, s.flag = true ∧ s.cell ∉ h.cellIds ∧ (s.backing.id = 0 ∨ s.backing.id ∉ h.privArrIds)) ∧
  FreshArrs h hs ∧ (∀ s ∈ slots, ∀ a ∈ hs, a = 0 ∨ s.backing.id ≠ a)

/-- the side conditions (freshness of the allocated ids, enough ids) under which `op` models the Go code in state `h` -/
def Op.Ok (h : Heap) : Op → Prop
  | .gate _ _ c a => Fresh h c a
  | .clone b _ cs as hs =>
    FreshCells h cs ∧ FreshArrs h (as ++ hs) ∧ (h.cowAt b = false → h.nslots b ≤ cs.length ∧ h.nslots b ≤ as.length)
  | .appendCopy _ _ _ c a => Fresh h c a
  | .appendFresh _ _ c a => Fresh h c a
  | .insertFresh b pos _ c a => Fresh h c a ∧ pos ≤ h.nslots b
  | .removeSlot _ _ => True
  | .detach b cs as => FreshCells h cs ∧ FreshArrs h as ∧ h.nslots b ≤ cs.length ∧ h.nslots b ≤ as.length
  | .zeroCopy _ _ sl hs => ZeroCopyOk h sl hs
  | .drop _ => True
  | .setCow _ _ => True

/-- every operation of the list is `Ok` in the state in which it is applied -/
def RunOk : Heap → List Op → Prop
  | _, [] => True
  | h, op :: ops => op.Ok h ∧ RunOk (step h op) ops

end RModel.Impl
