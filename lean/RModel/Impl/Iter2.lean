import RModel.Impl.Iter
import RModel.Impl.Rep64
/-!
L2: the remaining ITERATION protocols as the Go state machines (continuation of `Impl/Iter.lean`).

(a) the UNSET iterator (`roaring.go: unsetIterator`, `Bitmap.UnsetIterator(start, end)`), enumerating the values of the
    window `[start, end)` that are NOT in the bitmap:
      `ArrUnsetIt` = `arrayContainerUnsetIterator{content, pos, nextVal}`   (shortiterator.go)
      `BmpUnsetIt` = `bitmapContainerUnsetIterator{ptr, i}`                 (bitmapcontainer.go; `NextUnsetBit`)
      `RunUnsetIt` = `runUnsetIterator16{rc, curIndex, nextVal}`            (runcontainer.go)
      `UCIt`       = the interface field `iter` (nil = "in a gap between containers" or "past the window")
      `UnsetIt`    = `unsetIterator{containerIndex, nextKey, hs, iter, emptyContainerVal, start, end}`
    `HasNext()` MUTATES the iterator (it skips the containers that have no absent value left in the window), so it is
    modelled as `hasNext : UnsetIt → Bool × UnsetIt`; `Next`, `PeekNext`, `AdvanceIfNeeded` call it first, as in Go.
    Fields that `init()` / `Initialize()` leave alone are kept (`hs` in a gap, `emptyContainerVal` inside a container).
(b) `Bitmap.Iterate(cb)`: per container `iterate(cb) bool` (`for it.hasNext() { if !cb(it.next()) { return false } }`
    on the forward container iterator of the kind), chained over the containers with `break` on `false`.  The callback is a
    state transformer `σ → Nat → Bool × σ`; `iterateSeen` instantiates it with "record the value, return false on the
    k-th call".
(b') the range-over-func forms `Values`, `Backward`, `Unset` (iter.go) as loops over the iterator objects; (b'') `Ranges()`:
    the raw-structure walks per container kind, the coalescing closure `emit`, the final yield.
(c) the roaring64 iterators (`roaring64/iterables64.go`): `IntIt64`, `IntRevIt64`, `ManyIt64` =
    `{pos, hs, iter, highlowcontainer, bitmapIter}` over the buckets of a `Rep64`.  `iter` is nil or `&ii.bitmapIter`
    (`iterSet`); `init()` re-`Initialize`s the ONE embedded 32-bit iterator object (`IntIt.reinit` …: what that leaves
    stale stays stale).  `AdvanceIfNeeded(minval)` skips the buckets below `highbits(minval)` and applies
    `lowbits(minval)` only in the bucket with exactly that key.

Conventions as in `Impl/Iter.lean`.  Core Lean only, executable (linked into the compiled checker).
-/
namespace RModel.Impl.It
open RModel RModel.Impl RModel.Impl.ContOps RModel.Impl.ContQuery

/-! ## (a) unset iterators: containers -/

/-- `arrayContainerUnsetIterator{content, pos, nextVal}`: `pos` = index of the next member `≥ nextVal` -/
structure ArrUnsetIt where
  content : List Nat
  pos : Nat := 0
  nextVal : Nat := 0
  deriving Repr, BEq, Inhabited

namespace ArrUnsetIt
/-- `for pos < len(content) && uint16(nextVal) >= content[pos] { nextVal++; pos++ }` -/
def skip (content : List Nat) (pos nextVal : Nat) : Nat × Nat :=
  if pos < content.length ∧ nextVal % 65536 ≥ content.getD pos 0 then skip content (pos + 1) (nextVal + 1)
  else (pos, nextVal)
termination_by content.length - pos
decreasing_by omega

/-- `newArrayContainerUnsetIterator(content)` -/
def init (content : List Nat) : ArrUnsetIt :=
  let r := skip content 0 0
  { content := content, pos := r.1, nextVal := r.2 }
def hasNext (it : ArrUnsetIt) : Bool := it.nextVal < 65536
def peekNext (it : ArrUnsetIt) : Nat := it.nextVal % 65536
def next (it : ArrUnsetIt) : Nat × ArrUnsetIt :=
  let r := skip it.content it.pos (it.nextVal + 1)
  (it.nextVal % 65536, { it with pos := r.1, nextVal := r.2 })
/-- `pos = binarySearch(content, minval); if pos < 0 { pos = -pos - 1 }` -/
def searchPos (content : List Nat) (minval : Nat) : Nat :=
  let b := binarySearch content minval
  if b < 0 then (-b - 1).toNat else b.toNat
def advanceIfNeeded (it : ArrUnsetIt) (minval : Nat) : ArrUnsetIt :=
  if !it.hasNext || it.peekNext ≥ minval then it else
  let r := skip it.content (searchPos it.content minval) minval
  { it with pos := r.1, nextVal := r.2 }
end ArrUnsetIt

/-- `bitmapContainerUnsetIterator{ptr, i}` -/
structure BmpUnsetIt where
  ws : List (BitVec 64)
  i : Int
  deriving BEq, Inhabited

namespace BmpUnsetIt
/-- `bitmapContainerUnsetIterator{a, a.NextUnsetBit(0)}` -/
def init (ws : List (BitVec 64)) : BmpUnsetIt := { ws := ws, i := bmpNextUnsetBit ws 0 }
def hasNext (it : BmpUnsetIt) : Bool := decide (it.i ≥ 0) && decide (it.i < 65536)
def peekNext (it : BmpUnsetIt) : Nat := (it.i % 65536).toNat
def next (it : BmpUnsetIt) : Nat × BmpUnsetIt :=
  ((it.i % 65536).toNat, { it with i := bmpNextUnsetBit it.ws (uintSucc it.i) })
def advanceIfNeeded (it : BmpUnsetIt) (minval : Nat) : BmpUnsetIt :=
  if it.hasNext && it.peekNext < minval then { it with i := bmpNextUnsetBit it.ws minval } else it
end BmpUnsetIt

/-- `runUnsetIterator16{rc, curIndex, nextVal}`: `curIndex` = index of the next run above `nextVal` -/
structure RunUnsetIt where
  rs : List (Nat × Nat)
  curIndex : Nat := 0
  nextVal : Nat := 0
  deriving Repr, BEq, Inhabited

namespace RunUnsetIt
/-- `int(iv[i].start) + int(iv[i].length) + 1` (Go `int` arithmetic: no wrap) -/
def after (rs : List (Nat × Nat)) (i : Nat) : Nat := rStart rs i + rLenF rs i + 1
/-- `newRunUnsetIterator16()` -/
def init (rs : List (Nat × Nat)) : RunUnsetIt :=
  if rs.length > 0 ∧ rStart rs 0 = 0 then { rs := rs, curIndex := 1, nextVal := after rs 0 }
  else { rs := rs, curIndex := 0, nextVal := 0 }
def hasNext (it : RunUnsetIt) : Bool := it.nextVal < 65536
def peekNext (it : RunUnsetIt) : Nat := it.nextVal % 65536
def next (it : RunUnsetIt) : Nat × RunUnsetIt :=
  let nv := it.nextVal + 1
  if it.curIndex < it.rs.length ∧ nv % 65536 ≥ rStart it.rs it.curIndex then
    (it.nextVal % 65536, { it with nextVal := after it.rs it.curIndex, curIndex := it.curIndex + 1 })
  else (it.nextVal % 65536, { it with nextVal := nv })
/-- the `for rui.curIndex < len(rui.rc.iv)` loop of `advanceIfNeeded` (`start+length` is `uint16` arithmetic) -/
def advLoop (rs : List (Nat × Nat)) (minval : Nat) (curIndex nextVal : Nat) : Nat × Nat :=
  if curIndex < rs.length then
    if add16 (rStart rs curIndex) (rLenF rs curIndex) < minval then advLoop rs minval (curIndex + 1) nextVal
    else if rStart rs curIndex ≤ minval then (curIndex + 1, after rs curIndex)
    else (curIndex, nextVal)
  else (curIndex, nextVal)
termination_by rs.length - curIndex
decreasing_by omega
def advanceIfNeeded (it : RunUnsetIt) (minval : Nat) : RunUnsetIt :=
  if !it.hasNext || it.peekNext ≥ minval then it else
  let r := advLoop it.rs minval it.curIndex minval
  { it with curIndex := r.1, nextVal := r.2 }
end RunUnsetIt

/-- the interface field `iter` of `unsetIterator`: nil, or a pointer to one of the three embedded iterators (each
assignment `iui.iter = &iui.X` follows the assignment of a complete fresh struct to `iui.X`) -/
inductive UCIt where
  | none
  | arr (it : ArrUnsetIt)
  | run (it : RunUnsetIt)
  | bmp (it : BmpUnsetIt)
  deriving BEq, Inhabited

namespace UCIt
/-- `getUnsetIterator()` as `unsetIterator.init()` spells it out per kind -/
def ofCont : Cont → UCIt
  | .arr xs => .arr (ArrUnsetIt.init xs)
  | .run rs => .run (RunUnsetIt.init rs)
  | .bmp _ ws => .bmp (BmpUnsetIt.init ws)
def isNone : UCIt → Bool
  | .none => true | _ => false
def hasNext : UCIt → Bool
  | .none => false | .arr it => it.hasNext | .run it => it.hasNext | .bmp it => it.hasNext
def peekNext : UCIt → Nat
  | .none => 0 | .arr it => it.peekNext | .run it => it.peekNext | .bmp it => it.peekNext
def next : UCIt → Nat × UCIt
  | .none => (0, .none)
  | .arr it => let r := it.next; (r.1, .arr r.2)
  | .run it => let r := it.next; (r.1, .run r.2)
  | .bmp it => let r := it.next; (r.1, .bmp r.2)
def advanceIfNeeded : UCIt → Nat → UCIt
  | .none, _ => .none
  | .arr it, m => .arr (it.advanceIfNeeded m)
  | .run it, m => .run (it.advanceIfNeeded m)
  | .bmp it, m => .bmp (it.advanceIfNeeded m)
/-- `for it.hasNext() { out = append(out, it.next()) }` -/
def drain (fuel : Nat) (it : UCIt) : List Nat :=
  match fuel with
  | 0 => []
  | fuel + 1 => if it.hasNext then let r := it.next; r.1 :: drain fuel r.2 else []
end UCIt

/-! ## (a) unset iterator: bitmap level -/

/-- `unsetIterator{containerIndex, nextKey, hs, iter, highlowcontainer, emptyContainerVal, start, end}` -/
structure UnsetIt where
  slots : List Slot := []
  containerIndex : Nat := 0
  nextKey : Nat := 0
  hs : Nat := 0
  iter : UCIt := .none
  emptyVal : Nat := 0
  start : Nat := 0
  end_ : Nat := 0
  deriving Inhabited

namespace UnsetIt

/-- `for containerIndex < size && int(getKeyAtIndex(containerIndex)) < nextKey { containerIndex++ }` -/
def seek (slots : List Slot) (ci key : Nat) : Nat :=
  if ci < slots.length ∧ (slotAt slots ci).key < key then seek slots (ci + 1) key else ci
termination_by slots.length - ci
decreasing_by omega

/-- `uint64(nextKey)<<16 < start && start < uint64(nextKey+1)<<16` -/
def overlapsStart (iui : UnsetIt) : Bool :=
  decide (iui.nextKey <<< 16 < iui.start) && decide (iui.start < (iui.nextKey + 1) <<< 16)

def init (iui : UnsetIt) : UnsetIt :=
  if iui.nextKey <<< 16 ≥ iui.end_ then { iui with iter := .none }
  else if iui.containerIndex ≥ iui.slots.length ∨ (slotAt iui.slots iui.containerIndex).key > iui.nextKey % 65536 then
    -- a gap: iterate through an empty container
    { iui with emptyVal := if iui.overlapsStart then iui.start % 65536 else 0, iter := .none }
  else
    let it := UCIt.ofCont (slotAt iui.slots iui.containerIndex).c
    { iui with hs := (iui.nextKey <<< 16) % 4294967296,
               iter := if iui.overlapsStart then it.advanceIfNeeded (iui.start % 65536) else it }

theorem init_nextKey (iui : UnsetIt) : iui.init.nextKey = iui.nextKey := by
  unfold init; split
  · rfl
  · split <;> rfl

/-- `nextKey++; containerIndex++; init()` -/
def stepOn (iui : UnsetIt) : UnsetIt :=
  init { iui with nextKey := iui.nextKey + 1, containerIndex := iui.containerIndex + 1 }

theorem stepOn_nextKey (iui : UnsetIt) : iui.stepOn.nextKey = iui.nextKey + 1 := by
  unfold stepOn; rw [init_nextKey]

/-- the current candidate is inside the window: `uint64(nextKey)<<16 | uint64(low) < end` -/
def inWindow (iui : UnsetIt) (low : Nat) : Bool := decide ((iui.nextKey <<< 16 ||| low) < iui.end_)

/-- `HasNext()`: the answer and the iterator after the skipping it performs -/
def hasNext (iui : UnsetIt) : Bool × UnsetIt :=
  if iui.nextKey < 65536 ∧ iui.nextKey <<< 16 < iui.end_ then
    if iui.iter.isNone then
      if iui.inWindow iui.emptyVal then (true, iui) else hasNext iui.stepOn
    else if iui.iter.hasNext && iui.inWindow iui.iter.peekNext then (true, iui)
    else hasNext iui.stepOn
  else (false, iui)
termination_by 65536 - iui.nextKey
decreasing_by all_goals (rw [stepOn_nextKey]; omega)

theorem hasNext_nextKey (iui : UnsetIt) : iui.nextKey ≤ (hasNext iui).2.nextKey := by
  fun_induction hasNext iui with
  | case1 => exact Nat.le_refl _
  | case2 x _ _ _ ih => rw [stepOn_nextKey] at ih; omega
  | case3 => exact Nat.le_refl _
  | case4 x _ _ _ ih => rw [stepOn_nextKey] at ih; omega
  | case5 => exact Nat.le_refl _

/-- the exit of `Next` / `AdvanceIfNeeded` out of a container: `!iter.hasNext() || key<<16|peekNext >= end` -/
def contDone (iui : UnsetIt) : Bool := !iui.iter.hasNext || !iui.inWindow iui.iter.peekNext

/-- `Next()` (legal only when `HasNext()`) -/
def next (iui : UnsetIt) : Nat × UnsetIt :=
  let iui := (hasNext iui).2
  if iui.iter.isNone then
    let x := ((iui.nextKey <<< 16) % 4294967296) ||| iui.emptyVal
    let iui := { iui with emptyVal := (iui.emptyVal + 1) % 65536 }
    if iui.emptyVal = 0 ∨ !iui.inWindow iui.emptyVal then
      (x, init { iui with nextKey := iui.nextKey + 1 })                -- containerIndex stays: it is beyond the gap
    else (x, iui)
  else
    let r := iui.iter.next
    let x := r.1 ||| iui.hs
    let iui := { iui with iter := r.2 }
    if iui.contDone then (x, iui.stepOn) else (x, iui)

/-- `PeekNext()`: `none` = the Go panic "PeekNext() called when HasNext() returns false" -/
def peekNext (iui : UnsetIt) : Option Nat × UnsetIt :=
  let r := hasNext iui
  if !r.1 then (none, r.2)
  else if r.2.iter.isNone then (some (((r.2.nextKey <<< 16) % 4294967296) ||| r.2.emptyVal), r.2)
  else (some ((r.2.iter.peekNext &&& 0xFFFF) ||| r.2.hs), r.2)

/-- the first loop of `AdvanceIfNeeded`: `for HasNext() && nextKey < targetKey { nextKey++; seek; init() }` -/
def advSkip (iui : UnsetIt) (targetKey : Nat) : UnsetIt :=
  if (hasNext iui).1 = true ∧ (hasNext iui).2.nextKey < targetKey then
    advSkip (init { (hasNext iui).2 with
                      nextKey := (hasNext iui).2.nextKey + 1,
                      containerIndex := seek (hasNext iui).2.slots (hasNext iui).2.containerIndex
                                          ((hasNext iui).2.nextKey + 1) }) targetKey
  else (hasNext iui).2
termination_by targetKey - iui.nextKey
decreasing_by
  have := hasNext_nextKey iui
  rw [init_nextKey]
  simp only
  omega

def advanceIfNeeded (iui : UnsetIt) (minval : Nat) : UnsetIt :=
  let targetKey := minval >>> 16
  let iui := advSkip iui targetKey
  let r := hasNext iui
  let iui := r.2
  if r.1 && iui.nextKey == targetKey then
    if iui.iter.isNone then
      let lowVal := minval % 65536
      let iui := if iui.emptyVal < lowVal then { iui with emptyVal := lowVal } else iui
      if !iui.inWindow iui.emptyVal then iui.stepOn else iui
    else
      let iui := { iui with iter := iui.iter.advanceIfNeeded (minval % 65536) }
      if iui.contDone then iui.stepOn else iui
  else iui

/-- `Initialize(a, start, end)` on an existing iterator object (`end > 2^32` panics: not modelled) -/
def reinit (iui : UnsetIt) (r : Rep) (start end_ : Nat) : UnsetIt :=
  init { iui with start := start, end_ := end_, slots := r.slots, nextKey := start >>> 16,
                  containerIndex := seek r.slots 0 (start >>> 16) }

/-- `UnsetIterator(start, end)`: `new(unsetIterator)` then `Initialize` -/
def create (r : Rep) (start end_ : Nat) : UnsetIt := reinit {} r start end_

/-- `for n < limit && it.HasNext() { out = append(out, it.Next()) }` -/
def drain (fuel : Nat) (iui : UnsetIt) : List Nat × UnsetIt :=
  match fuel with
  | 0 => ([], iui)
  | fuel + 1 =>
    let h := hasNext iui
    if h.1 then
      let r := h.2.next
      let d := drain fuel r.2
      (r.1 :: d.1, d.2)
    else ([], h.2)

end UnsetIt

/-! ## (b) `Iterate(cb)` -/

/-- `for iterator.hasNext() { if !cb(iterator.next()) { return false } }; return true` with the callback as a state
transformer.  A container holds at most 65536 values: callers pass `fuel = 65536`. -/
def CIt.iterate {σ : Type} (cb : σ → Nat → Bool × σ) : Nat → CIt → σ → Bool × σ
  | 0, _, s => (true, s)
  | fuel + 1, it, s =>
    if it.hasNext then
      let r := it.next
      let c := cb s r.1
      if c.1 then CIt.iterate cb fuel r.2 c.2 else (false, c.2)
    else (true, s)

/-- `arrayContainer.iterate` / `bitmapContainer.iterate` / `runContainer16.iterate`: each starts the forward iterator
of its kind (`shortIterator{content, 0}`, `bitmapContainerShortIterator{bc, bc.NextSetBit(0)}`, `runIterator16{rc, 0, 0}`) -/
def iterateCont {σ : Type} (c : Cont) (cb : σ → Nat → Bool × σ) (s : σ) : Bool × σ :=
  CIt.iterate cb 65536 (CIt.ofCont c) s

/-- the loop of `Bitmap.Iterate`: `hs := key << 16; if !c.iterate(func(x) { return cb(uint32(x) | hs) }) { break }` -/
def iterateSlots {σ : Type} (cb : σ → Nat → Bool × σ) : List Slot → σ → σ
  | [], s => s
  | sl :: t, s =>
    let r := iterateCont sl.c (fun s x => cb s (x ||| (sl.key <<< 16))) s
    if r.1 then iterateSlots cb t r.2 else r.2

def iterateRep {σ : Type} (r : Rep) (cb : σ → Nat → Bool × σ) (s : σ) : σ := iterateSlots cb r.slots s

/-- the recording callback: remembers every value it is handed (newest first, with their number) and returns `false` on
its `k`-th call (`k = none`: never; `k = some 0` behaves like `some 1`: the first call already answers `false`) -/
def seenCb (k : Option Nat) (st : Nat × List Nat) (x : Nat) : Bool × (Nat × List Nat) :=
  (match k with | none => true | some k => decide (st.1 + 1 < k), (st.1 + 1, x :: st.2))

/-- the values the recording callback SEES, in call order (including the one on which it answers `false`) -/
def iterateSeen (r : Rep) (k : Option Nat) : List Nat := (iterateRep r (seenCb k) (0, [])).2.reverse

/-! ## (b') the range-over-func forms `Values`, `Backward`, `Unset` (iter.go)

each is `it := …Iterator(); for it.HasNext() { if !yield(it.Next()) { return } }` on the corresponding iterator object;
`yield` is a state transformer as in (b).  `fuel` bounds the number of values (callers pass `2^32`). -/

def IntIt.forEach {σ : Type} (cb : σ → Nat → Bool × σ) : Nat → IntIt → σ → σ
  | 0, _, s => s
  | fuel + 1, ii, s =>
    if ii.hasNext then
      let r := ii.next
      let c := cb s r.1
      if c.1 then IntIt.forEach cb fuel r.2 c.2 else c.2
    else s

/-- `roaring.Values(b)` -/
def valuesRep {σ : Type} (r : Rep) (cb : σ → Nat → Bool × σ) (s : σ) : σ :=
  IntIt.forEach cb 4294967296 (IntIt.create r) s

def IntRevIt.forEach {σ : Type} (cb : σ → Nat → Bool × σ) : Nat → IntRevIt → σ → σ
  | 0, _, s => s
  | fuel + 1, ii, s =>
    if ii.hasNext then
      let r := ii.next
      let c := cb s r.1
      if c.1 then IntRevIt.forEach cb fuel r.2 c.2 else c.2
    else s

/-- `roaring.Backward(b)` -/
def backwardRep {σ : Type} (r : Rep) (cb : σ → Nat → Bool × σ) (s : σ) : σ :=
  IntRevIt.forEach cb 4294967296 (IntRevIt.create r) s

def UnsetIt.forEach {σ : Type} (cb : σ → Nat → Bool × σ) : Nat → UnsetIt → σ → σ
  | 0, _, s => s
  | fuel + 1, iui, s =>
    let h := iui.hasNext
    if h.1 then
      let r := h.2.next
      let c := cb s r.1
      if c.1 then UnsetIt.forEach cb fuel r.2 c.2 else c.2
    else s

/-- `roaring.Unset(b, min, max)`: `b.UnsetIterator(uint64(min), uint64(max)+1)` -/
def unsetRep {σ : Type} (r : Rep) (min max : Nat) (cb : σ → Nat → Bool × σ) (s : σ) : σ :=
  UnsetIt.forEach cb 4294967296 (UnsetIt.create r min (max + 1)) s

/-- the values the recording callback of (b) sees in `Values` / `Backward` / `Unset` -/
def valuesSeen (r : Rep) (k : Option Nat) : List Nat := (valuesRep r (seenCb k) (0, [])).2.reverse
def backwardSeen (r : Rep) (k : Option Nat) : List Nat := (backwardRep r (seenCb k) (0, [])).2.reverse
def unsetSeen (r : Rep) (min max : Nat) (k : Option Nat) : List Nat := (unsetRep r min max (seenCb k) (0, [])).2.reverse

/-! ## (b'') `Bitmap.Ranges()` (iter.go): the maximal runs of consecutive members as half-open pairs

Per container the Go code walks the RAW structure (not an iterator) and hands candidate ranges `[start, end)` (16-bit, then
offset by `key << 16`) to the closure `emit`, which coalesces a range that touches or overlaps the pending one and yields
the pending one otherwise; after the last container the pending range is yielded.  The walks are pure, so the model
computes the candidate list of a container (`rawRanges`) and folds `emit` over it with the early exit. -/

/-- array container: `start := content[i]; end := start+1; i++; for i < len && content[i] == end { end++; i++ }; emit` -/
def arrRangesGo (start end_ : Nat) : List Nat → List (Nat × Nat)
  | [] => [(start, end_)]
  | v :: t => if v = end_ then arrRangesGo start (end_ + 1) t else (start, end_) :: arrRangesGo v (v + 1) t

def arrRanges : List Nat → List (Nat × Nat)
  | [] => []
  | v :: t => arrRangesGo v (v + 1) t

/-- run container: `emit(hs+start, hs+start+length+1)` per interval -/
def runRanges (rs : List (Nat × Nat)) : List (Nat × Nat) := rs.map fun p => (p.1, p.1 + p.2 + 1)

/-- `for pos < length && bm[pos] == 0xFFFFFFFFFFFFFFFF { pos++ }` -/
def skipFullWords (ws : List (BitVec 64)) (pos : Nat) : Nat :=
  if pos < ws.length ∧ word ws pos = allOnes then skipFullWords ws (pos + 1) else pos
termination_by ws.length - pos
decreasing_by omega

/-- `^((uint64(1) << n) - 1)` for `n < 64` -/
def clearLow (n : Nat) : BitVec 64 := ~~~ ((1#64 <<< n) - 1#64)

/-- bitmap container: the state of the nested loops is (`pos`, the not yet reported part `w` of word `pos`);
`w = 0` covers both `if w == 0 { pos++; continue }` and the exit of `for w != 0` followed by `pos++`.
Every turn reports a range or moves to a later word: `fuel = 65536 + 1024` turns suffice for a 1024-word bitmap. -/
def bmpRangesFrom (ws : List (BitVec 64)) : Nat → Nat → BitVec 64 → List (Nat × Nat)
  | 0, _, _ => []
  | fuel + 1, pos, w =>
    if w = 0#64 then
      if pos + 1 < ws.length then bmpRangesFrom ws fuel (pos + 1) (word ws (pos + 1)) else []
    else
      let lo := tz w
      let bitStart := pos * 64 + lo
      let ones := tz (~~~ (w >>> lo))
      if lo + ones < 64 then
        (bitStart, bitStart + ones) :: bmpRangesFrom ws fuel pos (w &&& clearLow (lo + ones))
      else
        let pos' := skipFullWords ws (pos + 1)
        if pos' < ws.length then
          let trailing := tz (~~~ word ws pos')
          (bitStart, pos' * 64 + trailing) :: bmpRangesFrom ws fuel pos' (word ws pos' &&& clearLow trailing)
        else [(bitStart, ws.length * 64)]

def bmpRanges (ws : List (BitVec 64)) : List (Nat × Nat) :=
  if 0 < ws.length then bmpRangesFrom ws 66560 0 (word ws 0) else []

/-- the candidate ranges of one container, in the order the Go code produces them -/
def rawRanges : Cont → List (Nat × Nat)
  | .arr xs => arrRanges xs
  | .run rs => runRanges rs
  | .bmp _ ws => bmpRanges ws

/-- the closure `emit` (state: the pending range and the state of the yield function) -/
def rangesEmit {σ : Type} (cb : σ → Nat → Nat → Bool × σ) (st : Option (Nat × Nat) × σ) (rStart rEnd : Nat) :
    Bool × (Option (Nat × Nat) × σ) :=
  match st.1 with
  | some (ps, pe) =>
    if rStart ≤ pe then (true, (some (ps, if rEnd > pe then rEnd else pe), st.2))
    else
      let c := cb st.2 (ps % 4294967296) pe                   -- yield(uint32(pendingStart), pendingEnd)
      if c.1 then (true, (some (rStart, rEnd), c.2)) else (false, (some (ps, pe), c.2))
  | none => (true, (some (rStart, rEnd), st.2))

/-- `for … { if !emit(hs+a, hs+b) { return } }` over the candidates of one container -/
def rangesCont {σ : Type} (cb : σ → Nat → Nat → Bool × σ) (hs : Nat) :
    List (Nat × Nat) → Option (Nat × Nat) × σ → Bool × (Option (Nat × Nat) × σ)
  | [], st => (true, st)
  | (a, b) :: t, st =>
    let r := rangesEmit cb st (hs + a) (hs + b)
    if r.1 then rangesCont cb hs t r.2 else r

def rangesSlots {σ : Type} (cb : σ → Nat → Nat → Bool × σ) :
    List Slot → Option (Nat × Nat) × σ → Bool × (Option (Nat × Nat) × σ)
  | [], st => (true, st)
  | sl :: t, st =>
    let r := rangesCont cb (sl.key <<< 16) (rawRanges sl.c) st
    if r.1 then rangesSlots cb t r.2 else r

/-- `b.Ranges()(yield)` -/
def rangesRep {σ : Type} (r : Rep) (cb : σ → Nat → Nat → Bool × σ) (s : σ) : σ :=
  let res := rangesSlots cb r.slots (none, s)
  if res.1 then
    match res.2.1 with
    | some (ps, pe) => (cb res.2.2 (ps % 4294967296) pe).2     -- if hasPending { yield(uint32(pendingStart), pendingEnd) }
    | none => res.2.2
  else res.2.2

/-- the recording yield function for pairs -/
def seenCb2 (k : Option Nat) (st : Nat × List (Nat × Nat)) (a b : Nat) : Bool × (Nat × List (Nat × Nat)) :=
  (match k with | none => true | some k => decide (st.1 + 1 < k), (st.1 + 1, (a, b) :: st.2))

/-- the pairs the recording yield function sees, in call order -/
def rangesSeen (r : Rep) (k : Option Nat) : List (Nat × Nat) := (rangesRep r (seenCb2 k) (0, [])).2.reverse

/-! ## (c) the roaring64 iterators -/

def bucketAt (bs : List Bucket) (i : Nat) : Bucket := bs.getD i { high := 0, bm := {} }

/-- `roaring64.intIterator{pos, hs, iter, highlowcontainer, bitmapIter}` -/
structure IntIt64 where
  buckets : List Bucket := []
  pos : Nat := 0
  hs : Nat := 0
  iterSet : Bool := false          -- `iter != nil` (then it is `&bitmapIter`)
  bitmapIter : IntIt := {}
  deriving Inhabited

namespace IntIt64
def hasNext (ii : IntIt64) : Bool := ii.pos < ii.buckets.length
def init (ii : IntIt64) : IntIt64 :=
  if ii.buckets.length > ii.pos then
    let b := bucketAt ii.buckets ii.pos
    { ii with hs := b.high <<< 32, bitmapIter := ii.bitmapIter.reinit b.bm, iterSet := true }
  else ii
theorem init_pos (ii : IntIt64) : ii.init.pos = ii.pos := by unfold init; split <;> rfl
theorem init_buckets (ii : IntIt64) : ii.init.buckets = ii.buckets := by unfold init; split <;> rfl
def reinit (ii : IntIt64) (r : Rep64) : IntIt64 := init { ii with pos := 0, buckets := r.buckets }
def create (r : Rep64) : IntIt64 := reinit {} r
/-- `Next()` (a nil `iter` panics: only on a zero-value object that was never initialised on a non-empty bitmap) -/
def next (ii : IntIt64) : Nat × IntIt64 :=
  let r := ii.bitmapIter.next
  let x := r.1 ||| ii.hs
  let ii := { ii with bitmapIter := r.2 }
  if !r.2.hasNext then (x, init { ii with pos := ii.pos + 1 }) else (x, ii)
/-- `uint64(ii.iter.PeekNext()&maxLowBit) | ii.hs` -/
def peekNext (ii : IntIt64) : Nat := (ii.bitmapIter.peekNext &&& 0xFFFFFFFF) ||| ii.hs
/-- `for ii.HasNext() && (ii.hs>>32) < to { ii.pos++; ii.init() }` -/
def skipTo (ii : IntIt64) (to : Nat) : IntIt64 :=
  if ii.pos < ii.buckets.length ∧ ii.hs >>> 32 < to then skipTo (init { ii with pos := ii.pos + 1 }) to else ii
termination_by ii.buckets.length - ii.pos
decreasing_by rw [init_pos, init_buckets]; simp only; omega
def advanceIfNeeded (ii : IntIt64) (minval : Nat) : IntIt64 :=
  let to := minval >>> 32
  let ii := skipTo ii to
  if ii.hasNext && ii.hs >>> 32 == to then
    let it' := ii.bitmapIter.advanceIfNeeded (minval % 4294967296)        -- lowbits(minval)
    let ii := { ii with bitmapIter := it' }
    if !it'.hasNext then init { ii with pos := ii.pos + 1 } else ii
  else ii
/-- `for n < limit && it.HasNext() { out = append(out, it.Next()) }` -/
def drain (fuel : Nat) (ii : IntIt64) : List Nat × IntIt64 :=
  match fuel with
  | 0 => ([], ii)
  | fuel + 1 =>
    if ii.hasNext then
      let r := ii.next
      let d := drain fuel r.2
      (r.1 :: d.1, d.2)
    else ([], ii)
end IntIt64

/-- `roaring64.intReverseIterator{pos, hs, iter, highlowcontainer, bitmapIter}`; `posP = pos + 1` -/
structure IntRevIt64 where
  buckets : List Bucket := []
  posP : Nat := 0
  hs : Nat := 0
  iterSet : Bool := false
  bitmapIter : IntRevIt := {}
  deriving Inhabited

namespace IntRevIt64
def hasNext (ii : IntRevIt64) : Bool := 0 < ii.posP
def init (ii : IntRevIt64) : IntRevIt64 :=
  if 0 < ii.posP then
    let b := bucketAt ii.buckets (ii.posP - 1)
    { ii with hs := b.high <<< 32, bitmapIter := ii.bitmapIter.reinit b.bm, iterSet := true }
  else { ii with iterSet := false }
def reinit (ii : IntRevIt64) (r : Rep64) : IntRevIt64 := init { ii with buckets := r.buckets, posP := r.buckets.length }
def create (r : Rep64) : IntRevIt64 := reinit {} r
def next (ii : IntRevIt64) : Nat × IntRevIt64 :=
  let r := ii.bitmapIter.next
  let x := r.1 ||| ii.hs
  let ii := { ii with bitmapIter := r.2 }
  if !r.2.hasNext then (x, init { ii with posP := ii.posP - 1 }) else (x, ii)
def drain (fuel : Nat) (ii : IntRevIt64) : List Nat × IntRevIt64 :=
  match fuel with
  | 0 => ([], ii)
  | fuel + 1 =>
    if ii.hasNext then
      let r := ii.next
      let d := drain fuel r.2
      (r.1 :: d.1, d.2)
    else ([], ii)
end IntRevIt64

/-- `roaring64.manyIntIterator{pos, hs, iter, highlowcontainer, bitmapIter}` -/
structure ManyIt64 where
  buckets : List Bucket := []
  pos : Nat := 0
  hs : Nat := 0
  iterSet : Bool := false
  bitmapIter : ManyIt := {}
  deriving Inhabited

namespace ManyIt64
def init (ii : ManyIt64) : ManyIt64 :=
  if ii.buckets.length > ii.pos then
    let b := bucketAt ii.buckets ii.pos
    { ii with hs := b.high <<< 32, bitmapIter := ii.bitmapIter.reinit b.bm, iterSet := true }
  else { ii with iterSet := false }
theorem init_pos (ii : ManyIt64) : ii.init.pos = ii.pos := by unfold init; split <;> rfl
theorem init_buckets (ii : ManyIt64) : ii.init.buckets = ii.buckets := by unfold init; split <;> rfl
def reinit (ii : ManyIt64) (r : Rep64) : ManyIt64 := init { ii with pos := 0, buckets := r.buckets }
def create (r : Rep64) : ManyIt64 := reinit {} r

/-- the loop of `NextMany(buf)`: `room = len(buf) - n`
```
for n < len(buf) { if ii.iter == nil { break }
  moreN := ii.iter.NextMany64(ii.hs, buf[n:]); n += moreN
  if moreN == 0 { ii.pos = ii.pos + 1; ii.init() } }
``` -/
def loop (room : Nat) (ii : ManyIt64) : List Nat × ManyIt64 :=
  if room = 0 then ([], ii) else
  if !ii.iterSet then ([], ii) else
  match _hr : ii.bitmapIter.nextMany64 ii.hs room with
  | (got, it') =>
    if got.length = 0 then
      if ii.pos < ii.buckets.length then
        loop room (init { ii with bitmapIter := it', pos := ii.pos + 1 })
      else ([], init { ii with bitmapIter := it', pos := ii.pos + 1 })   -- init sets iter = nil: the next turn breaks
    else if got.length ≥ room then (got, { ii with bitmapIter := it' })
    else
      let r := loop (room - got.length) { ii with bitmapIter := it' }
      (got ++ r.1, r.2)
termination_by (ii.buckets.length - ii.pos, room)
decreasing_by
  · apply Prod.Lex.left
    rw [init_pos, init_buckets]; simp only; omega
  · apply Prod.Lex.right'
    · simp
    · omega

def nextMany (ii : ManyIt64) (cap : Nat) : List Nat × ManyIt64 := loop cap ii

/-- `NextMany` with the buffer lengths `caps`, one call each; the values of all calls concatenated -/
def nextManySeq (ii : ManyIt64) : List Nat → List Nat × ManyIt64
  | [] => ([], ii)
  | cap :: caps =>
    let r := ii.nextMany cap
    let d := nextManySeq r.2 caps
    (r.1 ++ d.1, d.2)
end ManyIt64

/-! ## specification side: the member list of a 64-bit representation -/

/-- the members stored in one bucket, as 64-bit values -/
def bucketVals (b : Bucket) : List Nat := (valsOfRep b.bm).map (b.high * 4294967296 + ·)

/-- the members of a 64-bit representation in increasing order -/
def valsOfRep64 (r : Rep64) : List Nat := r.buckets.flatMap bucketVals

end RModel.Impl.It
