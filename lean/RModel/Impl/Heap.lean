/-!
The pointer graph of a set of live 32-bit bitmaps and the sharing invariant `Safe` (properties C07 / C08).

Identity is explicit here: a *cell* is a container object, an *array* is a backing allocation (the overlap class
of the capacity extents of all slices that point into it).  An array id carries a `foreign` bit: it lies inside a
caller-owned buffer (zero-copy decoding, no-copy `FromDense`).

`Safe h` : every cell or array that can be reached from two different places `(bitmap, slot)`, and every foreign array,
has `needCopyOnWrite = true` in EVERY slot that reaches it; moreover the three parallel slices of a bitmap
(keys / containers / flags), which no flag protects, are private to that bitmap and never foreign.

Together with "every in-place kernel is entered through `getWritableContainerAtIndex`" this is what makes a mutation
of one bitmap invisible in all others and keeps caller memory unwritten.  Core Lean only.
-/
namespace RModel.Impl

/-- identity of a backing array; `id = 0` is "no array" (nil / zero capacity) -/
structure ArrId where
  id : Nat
  foreign : Bool := false
  deriving Repr, BEq, DecidableEq, Inhabited

def ArrId.isNil (a : ArrId) : Bool := a.id == 0

structure HSlot where
  key : Nat
  cell : Nat
  backing : ArrId
  flag : Bool
  deriving Repr, BEq, Inhabited

structure HBitmap where
  name : String
  cow : Bool
  /-- the keys, containers and needCopyOnWrite arrays of the roaringArray -/
  hdr : List ArrId
  slots : List HSlot
  deriving Repr, BEq, Inhabited

abbrev Heap := List HBitmap

/-- a place = (index of the bitmap, index of the slot) together with the slot -/
structure Place where
  b : Nat
  i : Nat
  s : HSlot
  deriving Repr, BEq, Inhabited

def enumFrom {α : Type} : Nat → List α → List (Nat × α)
  | _, [] => []
  | n, a :: t => (n, a) :: enumFrom (n + 1) t

def Heap.places (h : Heap) : List Place :=
  (enumFrom 0 h).flatMap fun (b, bm) => (enumFrom 0 bm.slots).map fun (i, s) => { b := b, i := i, s := s }

def Place.same (p q : Place) : Bool := p.b == q.b && p.i == q.i

/-- `q` reaches something that `p` reaches too (the same cell, or the same non-nil array) -/
def Place.sharesWith (p q : Place) : Bool :=
  p.s.cell == q.s.cell || (!p.s.backing.isNil && p.s.backing.id == q.s.backing.id)

/-- a place must be flagged if what it reaches is foreign or reachable from another place -/
def Place.mustFlag (ps : List Place) (p : Place) : Bool :=
  p.s.backing.foreign || ps.any fun q => !p.same q && p.sharesWith q

def Place.ok (ps : List Place) (p : Place) : Bool := p.s.flag || !p.mustFlag ps

/-- all (bitmap index, role, array) triples of the unprotected parallel slices -/
def Heap.metas (h : Heap) : List (Nat × Nat × ArrId) :=
  (enumFrom 0 h).flatMap fun (b, bm) => (enumFrom 0 bm.hdr).map fun (r, a) => (b, r, a)

def metaOk (h : Heap) (ps : List Place) (m : Nat × Nat × ArrId) : Bool :=
  let (b, r, a) := m
  a.isNil ||
    (!a.foreign &&
     (h.metas.all fun (b', r', a') => (b == b' && r == r') || a'.id != a.id) &&
     (ps.all fun p => p.s.backing.id != a.id))

def Safe (h : Heap) : Bool :=
  let ps := h.places
  ps.all (Place.ok ps) && h.metas.all (metaOk h ps)

/-- the first violation, for diagnostics: `none` iff `Safe` -/
def firstViolation (h : Heap) : Option String :=
  let ps := h.places
  let nameOf (b : Nat) : String := (h[b]?.map (·.name)).getD "?"
  match ps.find? (fun p => !Place.ok ps p) with
  | some p =>
    let why :=
      if p.s.backing.foreign then "its array lies in caller memory"
      else match ps.find? (fun q => !p.same q && p.sharesWith q) with
        | some q => (if p.s.cell == q.s.cell then "its cell" else "its array") ++ " is also reached from " ++
                    nameOf q.b ++ "[key " ++ toString q.s.key ++ "]"
        | none => "?"
    some (nameOf p.b ++ "[key " ++ toString p.s.key ++ "] is not flagged but " ++ why)
  | none =>
    match h.metas.find? (fun m => !metaOk h ps m) with
    | some (b, r, a) =>
      let role := match r with | 0 => "keys" | 1 => "containers" | _ => "needCopyOnWrite"
      some (nameOf b ++ "." ++ role ++ (if a.foreign then " lies in caller memory" else " array is shared"))
    | none => none

theorem safe_nil : Safe [] = true := by decide

/-- a flagged place is always fine: writes through it copy first -/
theorem Place.ok_of_flag (ps : List Place) (p : Place) (h : p.s.flag = true) : p.ok ps = true := by
  simp [Place.ok, h]

/-- an unflagged place is fine exactly when nothing forces a flag on it -/
theorem Place.ok_unflagged (ps : List Place) (p : Place) (h : p.s.flag = false) :
    p.ok ps = !p.mustFlag ps := by
  simp [Place.ok, h]

/-- `Safe` unfolds to: every place is ok and every header array is private and local -/
theorem safe_iff (h : Heap) :
    Safe h = true ↔ (∀ p ∈ h.places, p.ok h.places = true) ∧ (∀ m ∈ h.metas, metaOk h h.places m = true) := by
  simp [Safe, List.all_eq_true]

/-- in a safe heap an unflagged place reaches nothing foreign -/
theorem safe_unflagged_not_foreign (h : Heap) (hs : Safe h = true) (p : Place) (hp : p ∈ h.places)
    (hf : p.s.flag = false) : p.s.backing.foreign = false := by
  have := ((safe_iff h).1 hs).1 p hp
  rw [Place.ok_unflagged _ _ hf] at this
  simp [Place.mustFlag] at this
  exact this.1

/-- in a safe heap an unflagged place shares neither its cell nor its array with any other place -/
theorem safe_unflagged_private (h : Heap) (hs : Safe h = true) (p q : Place) (hp : p ∈ h.places) (hq : q ∈ h.places)
    (hf : p.s.flag = false) (hne : p.same q = false) : p.sharesWith q = false := by
  have := ((safe_iff h).1 hs).1 p hp
  rw [Place.ok_unflagged _ _ hf] at this
  simp [Place.mustFlag] at this
  have h2 := this.2 q hq
  cases hsame : p.same q <;> simp_all

/-- a bitmap references caller memory -/
def HBitmap.foreignRefs (b : HBitmap) : Nat :=
  (b.slots.filter (·.backing.foreign)).length + (b.hdr.filter (·.foreign)).length

end RModel.Impl
