import RModel.Impl.ContOps
/-!
L2: the container-level QUERY kernels as the Go code computes them
(`arraycontainer.go`, `bitmapcontainer.go`, `runcontainer.go`, `setutil.go`, `util.go`):

  rank, selectInt, contains, getCardinality, getCardinalityInRange, minimum, maximum,
  nextValue, previousValue, nextAbsentValue, previousAbsentValue, numberOfRuns, isFull, isEmpty

for the three container kinds.  The definitions mirror the Go ALGORITHMS — binary searches over the sorted
array (`binarySearch`, `binarySearchUntil`, `binarySearchPast`, the pigeon-hole bisection of the absent-value
searches), word scanning with shifts/masks and `bits.TrailingZeros64 / LeadingZeros64 / OnesCount64` on `BitVec 64`,
`sort.Search`-style bisection over the run list (`searchRange`) — and are NOT defined through the set abstraction
`toBSet`; that they compute the set-level answers is proved in `RProofs/ContQuery.lean`, and that they return what the
real Go kernels return is checked line by line by the `kern` correspondence check (`Driver/Kern.lean`).

Conventions
* Results are `Int` with Go's `-1` conventions. `undef` (= −2) stands for "the Go code panics (index out of range,
  explicit `panic`) or does not return"; the theorems show that it never is the result for a well-formed receiver and
  in-domain arguments.
* Slice reads are `List.getD _ _ 0`; `uint16` arithmetic is written out with `% 65536` (`add16`, `sub16`, `last16`).
* Go loops over `int` indices that may be −1 are written with the index shifted by one (stated at each place), so that
  all indices are naturals.
Core Lean only, executable (linked into the compiled checker).
-/
namespace RModel.Impl
open RModel

namespace ContQuery
open ContOps

/-- "Go panics or loops forever here" -/
def undef : Int := -2

/-- `uint16` addition / subtraction -/
def add16 (a b : Nat) : Nat := (a + b) % 65536
def sub16 (a b : Nat) : Nat := (a + 65536 - b % 65536) % 65536

/-! ### `math/bits` on one word -/

/-- `bits.TrailingZeros64` (64 for the zero word) -/
def tzFrom (w : BitVec 64) : (fuel i : Nat) → Nat
  | 0, i => i
  | fuel + 1, i => if w.getLsbD i then i else tzFrom w fuel (i + 1)

def tz (w : BitVec 64) : Nat := tzFrom w 64 0

/-- `bits.Len64`: index of the highest set bit plus one (0 for the zero word), looking at bits `< n` -/
def bitLen (w : BitVec 64) : Nat → Nat
  | 0 => 0
  | n + 1 => if w.getLsbD n then n + 1 else bitLen w n

/-- `bits.LeadingZeros64` -/
def lz (w : BitVec 64) : Nat := 64 - bitLen w 64

def allOnes : BitVec 64 := BitVec.allOnes 64

/-! ### array container (`setutil.go`, `arraycontainer.go`) -/

/-- second loop of `binarySearch`: linear scan of `[low, hiX)`; `hiX` is Go's `high + 1` -/
def bsLinear (xs : List Nat) (key : Nat) (low hiX : Nat) : Int :=
  if low < hiX then
    let v := xs.getD low 0
    if v ≥ key then (if v = key then (low : Int) else -((low : Int) + 1))
    else bsLinear xs key (low + 1) hiX
  else -((low : Int) + 1)
termination_by hiX - low

/-- first loop of `binarySearch` (`for low+16 <= high`): bisection; `hiX` is Go's `high + 1` -/
def bsLoop (xs : List Nat) (key : Nat) (low hiX : Nat) : Int :=
  if low + 17 ≤ hiX then
    let mid := (low + (hiX - 1)) / 2
    let mv := xs.getD mid 0
    if mv < key then bsLoop xs key (mid + 1) hiX
    else if mv > key then bsLoop xs key low mid
    else (mid : Int)
  else bsLinear xs key low hiX
termination_by hiX - low

/-- `binarySearch(array, key)`: the index of `key`, or `-(insertion point) - 1` -/
def binarySearch (xs : List Nat) (key : Nat) : Int := bsLoop xs key 0 xs.length

/-- `arrayContainer.rank` -/
def arrRank (xs : List Nat) (x : Nat) : Int :=
  let a := binarySearch xs x
  if a ≥ 0 then a + 1 else -a - 1

def arrContains (xs : List Nat) (x : Nat) : Bool := decide (binarySearch xs x ≥ 0)

/-- `arrayContainer.getCardinalityInRange(start, end)` -/
def arrCardInRange (xs : List Nat) (s e : Nat) : Int :=
  if s ≥ e then 0 else
  let lo0 := binarySearch xs (s % 65536)
  let lo := if lo0 < 0 then -lo0 - 1 else lo0
  if e > 65535 then (xs.length : Int) - lo else
  let hi0 := binarySearch xs (e % 65536)
  let hi := if hi0 < 0 then -hi0 - 1 else hi0
  hi - lo

def arrSelect (xs : List Nat) (i : Nat) : Int := if i < xs.length then (xs.getD i 0 : Int) else undef
def arrMinimum (xs : List Nat) : Int := if 0 < xs.length then (xs.getD 0 0 : Int) else undef
def arrMaximum (xs : List Nat) : Int := if 0 < xs.length then (xs.getD (xs.length - 1) 0 : Int) else undef

/-- `searchResult` -/
structure SR where
  value : Nat
  index : Int
  exact : Bool
  deriving Repr, BEq

/-- the loop shared by `binarySearchUntilWithBounds` (`past = false`: report the closest smaller element) and
`binarySearchPastWithBounds` (`past = true`: report the closest larger element); the two Go functions differ only in
the two non-exact `return` statements.  `none`: Go does not return (`highIndex = middleIndex` with
`lowIndex == highIndex` changes nothing; falling out of the loop reads `array[-1]`). -/
def srLoop (past : Bool) (xs : List Nat) (target maxIndex : Nat) (low high : Nat) : Option SR :=
  if low ≤ high then
    let mid := (low + high) / 2
    let mv := xs.getD mid 0
    if mv = target then some ⟨mv, mid, true⟩
    else if target < mv then
      if mid > 0 ∧ target > xs.getD (mid - 1) 0 then
        (if past then some ⟨mv, mid, false⟩ else some ⟨xs.getD (mid - 1) 0, (mid : Int) - 1, false⟩)
      else if low < high then srLoop past xs target maxIndex low mid
      else none
    else
      if mid < maxIndex ∧ target < xs.getD (mid + 1) 0 then
        (if past then some ⟨xs.getD (mid + 1) 0, (mid : Int) + 1, false⟩ else some ⟨mv, mid, false⟩)
      else srLoop past xs target maxIndex (mid + 1) high
  else none
termination_by high + 1 - low
decreasing_by all_goals omega

/-- `binarySearchUntil` / `binarySearchPast` (bounds `0`, `len-1`) -/
def srSearch (past : Bool) (xs : List Nat) (target : Nat) : Option SR :=
  if xs.length = 0 then none                                    -- array[lowIndex]: index out of range
  else if target < xs.getD 0 0 then some ⟨0, -1, false⟩
  else if target > xs.getD (xs.length - 1) 0 then some ⟨0, xs.length, false⟩
  else srLoop past xs target (xs.length - 1) 0 (xs.length - 1)

/-- `arrayContainer.previousValue` -/
def arrPreviousValue (xs : List Nat) (t : Nat) : Int :=
  match srSearch false xs t with
  | none => undef
  | some r =>
    if r.index = xs.length then (xs.getD (xs.length - 1) 0 : Int)
    else if r.index ≤ -1 then -1
    else (r.value : Int)

/-- `arrayContainer.nextValue` -/
def arrNextValue (xs : List Nat) (t : Nat) : Int :=
  if xs.length = 0 then -1 else
  match srSearch false xs t with
  | none => undef
  | some r =>
    if r.exact then (r.value : Int)
    else if r.index = -1 then (xs.getD 0 0 : Int)
    else if r.index ≤ -1 then -1
    else if r.index < (xs.length : Int) - 1 then (xs.getD (r.index + 1).toNat 0 : Int)
    else -1

/-- pigeon-hole bisection of `previousAbsentValue`; `lowP` is Go's `low + 1` (Go starts at `low = -1`) -/
def paLoop (xs : List Nat) (target idx : Nat) (lowP high : Nat) : Nat :=
  if lowP < high then
    let mid := (high + lowP - 1) / 2
    let indexDifference : Int := (idx : Int) - mid
    let valueDifference := sub16 target (xs.getD mid 0)
    if indexDifference < (valueDifference : Int) then paLoop xs target idx (mid + 1) high
    else paLoop xs target idx lowP mid
  else high
termination_by high - lowP
decreasing_by all_goals omega

/-- `arrayContainer.previousAbsentValue` -/
def arrPreviousAbsentValue (xs : List Nat) (t : Nat) : Int :=
  if xs.length = 0 then t
  else if t > xs.getD (xs.length - 1) 0 then t
  else match srSearch true xs t with
  | none => undef
  | some r =>
    if !r.exact then t
    else if r.index = 1 ∧ xs.getD 0 0 ≠ sub16 r.value 1 then (sub16 r.value 1 : Int)
    else
      let high := paLoop xs t r.index.toNat 0 r.index.toNat
      if high = 0 then (xs.getD 0 0 : Int) - 1
      else (sub16 (xs.getD high 0) 1 : Int)

/-- pigeon-hole bisection of `nextAbsentValue` -/
def naLoop (xs : List Nat) (target idx : Nat) (low high : Nat) : Nat :=
  if low + 1 < high then
    let mid := (high + low) / 2
    let indexDifference : Int := (mid : Int) - idx
    let valueDifference := sub16 (xs.getD mid 0) target
    if indexDifference < (valueDifference : Int) then naLoop xs target idx low mid
    else naLoop xs target idx mid high
  else low
termination_by high - low
decreasing_by all_goals omega

/-- `arrayContainer.nextAbsentValue` -/
def arrNextAbsentValue (xs : List Nat) (t : Nat) : Int :=
  if xs.length = 0 then t
  else if t < xs.getD 0 0 then t
  else match srSearch true xs t with
  | none => undef
  | some r =>
    if !r.exact then t
    else if r.index = (xs.length : Int) - 2 ∧ xs.getD (xs.length - 1) 0 ≠ add16 r.value 1 then (add16 r.value 1 : Int)
    else
      let low := naLoop xs t r.index.toNat r.index.toNat xs.length
      if low = xs.length - 1 then (xs.getD (xs.length - 1) 0 : Int) + 1
      else (xs.getD low 0 : Int) + 1

/-- the loop of `arrayContainer.numberOfRuns`: number of `nr++` inside the loop; `none` = one of the two panics -/
def arrRunsLoop : List Nat → Option Nat
  | prev :: cur :: t =>
    if cur = add16 prev 1 then arrRunsLoop (cur :: t)
    else if cur < prev then none
    else if cur = prev then none
    else (arrRunsLoop (cur :: t)).map (· + 1)
  | _ => some 0

def arrNumberOfRuns (xs : List Nat) : Int :=
  match xs.length with
  | 0 => 0
  | 1 => 1
  | _ => match arrRunsLoop xs with
    | some nr => (nr : Int) + 1
    | none => undef

/-! ### bitmap container (`bitmapcontainer.go`, `util.go`) -/

def word (ws : List (BitVec 64)) (i : Nat) : BitVec 64 := ws.getD i 0#64

/-- `bitmapContainer.minimum`: first non-zero word from index `i` on -/
def bmpMinFrom : Nat → List (BitVec 64) → Nat
  | _, [] => 65535
  | i, w :: t => if w ≠ 0#64 then (tz w + i * 64) % 65536 else bmpMinFrom (i + 1) t

/-- `bitmapContainer.maximum`: `for i := len; i > 0; i--` -/
def bmpMaxFrom (ws : List (BitVec 64)) : Nat → Nat
  | 0 => 0
  | i + 1 => if word ws i ≠ 0#64 then (i * 64 + 63 - lz (word ws i)) % 65536 else bmpMaxFrom ws i

/-- `bitmapContainer.rank` -/
def bmpRank (ws : List (BitVec 64)) (x : Nat) : Int :=
  let leftover := (x + 1) % 64            -- (uint(x)+1) & 63
  let k := (x + 1) / 64
  if leftover = 0 then (wordsCard (ws.take k) : Int)
  else (wordsCard (ws.take k) : Int) + popcount (word ws k <<< (64 - leftover))

/-- `selectBitPosition(w, j)` -/
def selectBitPosition (w : BitVec 64) (j : Nat) : Nat :=
  -- divide 64 bit
  let part := w &&& 0xFFFFFFFF#64
  let n := popcount part
  let (part, seen, j) := if n ≤ j then (w >>> 32, 32, j - n) else (part, 0, j)
  let w := part
  -- divide 32 bit
  let part := w &&& 0xFFFF#64
  let n := popcount part
  let (part, seen, j) := if n ≤ j then (w >>> 16, seen + 16, j - n) else (part, seen, j)
  let w := part
  -- divide 16 bit
  let part := w &&& 0xFF#64
  let n := popcount part
  let (part, seen, j) := if n ≤ j then (w >>> 8, seen + 8, j - n) else (part, seen, j)
  let w := part
  -- final byte: `j -= bit; if j < 0 break`
  let rec byteLoop (w : BitVec 64) (fuel counter : Nat) (j : Nat) : Nat :=
    match fuel with
    | 0 => counter
    | fuel + 1 =>
      let b := ((w >>> counter) &&& 1#64).toNat
      if j < b then counter else byteLoop w fuel (counter + 1) (j - b)
  seen + byteLoop w 8 0 j

/-- `bitmapContainer.selectInt`: `remaining` is a `uint16`, `uint16(w)` of a popcount `≤ 64` is itself -/
def bmpSelectFrom : (k : Nat) → List (BitVec 64) → (remaining : Nat) → Int
  | _, [], _ => -1
  | k, w :: t, remaining =>
    let c := popcount w
    if c > remaining then ((k * 64 + selectBitPosition w remaining : Nat) : Int)
    else bmpSelectFrom (k + 1) t (remaining - c)

/-- `uint` expression `(64 - end) & 63` (the subtraction wraps modulo 2^64) -/
def endShift (e : Nat) : Nat := ((18446744073709551616 + 64 - e % 18446744073709551616) % 18446744073709551616) % 64

/-- `bitmapContainer.getCardinalityInRange(start, end)` -/
def bmpCardInRange (ws : List (BitVec 64)) (s e : Nat) : Int :=
  if s ≥ e then 0 else
  let firstword := s / 64
  let endword := (e - 1) / 64
  if firstword = endword then
    (popcount (word ws firstword &&& ((allOnes <<< (s % 64)) &&& (allOnes >>> endShift e))) : Int)
  else
    (popcount (word ws firstword &&& (allOnes <<< (s % 64))) : Int)
      + wordsCard ((ws.take endword).drop (firstword + 1))
      + popcount (word ws endword &&& (allOnes >>> endShift e))

/-- the loop `for ; x < length; x++` of `NextSetBit` / `NextUnsetBit` (`neg`: on the complemented words) -/
def scanUp (neg : Bool) : (x : Nat) → List (BitVec 64) → Option Nat
  | _, [] => none
  | x, w :: t =>
    let w' := if neg then ~~~w else w
    if w' ≠ 0#64 then some (x * 64 + tz w') else scanUp neg (x + 1) t

/-- `bitmapContainer.NextSetBit(i)` -/
def bmpNextSetBit (ws : List (BitVec 64)) (i : Nat) : Int :=
  let x := i / 64
  if x ≥ ws.length then -1 else
  let w := word ws x >>> (i % 64)
  if w ≠ 0#64 then ((i + tz w : Nat) : Int)
  else match scanUp false (x + 1) (ws.drop (x + 1)) with
    | some v => (v : Int)
    | none => -1

/-- `bitmapContainer.NextUnsetBit(i)` -/
def bmpNextUnsetBit (ws : List (BitVec 64)) (i : Nat) : Int :=
  let x := i / 64
  if x ≥ ws.length then (i : Int) else
  let w := (~~~ word ws x) >>> (i % 64)
  if w ≠ 0#64 then ((i + tz w : Nat) : Int)
  else match scanUp true (x + 1) (ws.drop (x + 1)) with
    | some v => (v : Int)
    | none => ((ws.length * 64 : Nat) : Int)

/-- the downward loops of `uPrevSetBit` (`for ; x < orig; x--` on a `uint` that wraps below 0) and of
`previousAbsentValue` (`for x--; x >= 0; x--`): the words with index `< x`, from the top -/
def scanDown (neg : Bool) (ws : List (BitVec 64)) : (x : Nat) → Option Nat
  | 0 => none
  | x + 1 =>
    let w' := if neg then ~~~ word ws x else word ws x
    if w' ≠ 0#64 then some (x * 64 + 63 - lz w') else scanDown neg ws x

/-- `bitmapContainer.uPrevSetBit(i)` -/
def bmpPrevSetBit (ws : List (BitVec 64)) (i : Nat) : Int :=
  let x := i / 64
  if x ≥ ws.length then -1 else
  let w := word ws x <<< (63 - i % 64)
  if w ≠ 0#64 then (i : Int) - lz w
  else match scanDown false ws x with
    | some v => (v : Int)
    | none => -1

/-- `bitmapContainer.previousAbsentValue(target)` -/
def bmpPreviousAbsentValue (ws : List (BitVec 64)) (t : Nat) : Int :=
  let x := t / 64
  if x ≥ ws.length then (t : Int) else
  let w := (~~~ word ws x) <<< (63 - t % 64)
  if w ≠ 0#64 then (t : Int) - lz w
  else match scanDown true ws x with
    | some v => (v : Int)
    | none => -1

/-- the loop of `bitmapContainer.numberOfRuns` over `word = ws[i]`, `nextWord = ws[i+1]` -/
def bmpRunsLoop : List (BitVec 64) → Nat
  | w :: nw :: t =>
    popcount (~~~w &&& (w <<< 1)) + ((w >>> 63) &&& ~~~nw).toNat + bmpRunsLoop (nw :: t)
  | [w] => popcount (~~~w &&& (w <<< 1)) + (if w &&& 0x8000000000000000#64 ≠ 0#64 then 1 else 0)
  | [] => 0

def bmpNumberOfRuns (card : Int) (ws : List (BitVec 64)) : Int :=
  if card = 0 then 0 else (bmpRunsLoop ws : Int)

/-! ### run container (`runcontainer.go`) -/

def rStart (rs : List (Nat × Nat)) (i : Nat) : Nat := (rs.getD i (0, 0)).1
/-- `interval16.last()` = `start + length` in `uint16` -/
def rLast (rs : List (Nat × Nat)) (i : Nat) : Nat := let p := rs.getD i (0, 0); add16 p.1 p.2
/-- `interval16.runlen()` -/
def rLen (rs : List (Nat × Nat)) (i : Nat) : Nat := (rs.getD i (0, 0)).2 + 1

/-- the inlined `sort.Search` of `searchRange`: smallest index in `[i, j)` whose start is `> key`, else `j` -/
def runSearchLoop (rs : List (Nat × Nat)) (key : Nat) (i j : Nat) : Nat :=
  if i < j then
    let h := i + (j - i) / 2
    if ¬ (key < rStart rs h) then runSearchLoop rs key (h + 1) j
    else runSearchLoop rs key i h
  else i
termination_by j - i
decreasing_by all_goals omega

/-- `runContainer16.search(key)` = `searchRange(key, 0, 0)`: `(whichInterval16, alreadyPresent)` -/
def runSearch (rs : List (Nat × Nat)) (key : Nat) : Int × Bool :=
  let n := rs.length
  if n = 0 then (-1, false) else
  let below := runSearchLoop rs key 0 n
  let which : Int := (below : Int) - 1
  if below = n then
    (which, decide (key < rLast rs (n - 1) + 1))
  else if below = 0 then (which, false)
  else (which, decide (key ≥ rStart rs (below - 1) ∧ key < rLast rs (below - 1) + 1))

def runContains (rs : List (Nat × Nat)) (x : Nat) : Bool := (runSearch rs x).2

/-- `runContainer16.rank` -/
def runRank (rs : List (Nat × Nat)) (x : Nat) : Int :=
  let n := rs.length
  let (w, already) := runSearch rs x
  if w < 0 then 0
  else if !already ∧ w = (n : Int) - 1 then (runsCard rs : Int)
  else if !already then (runsCard (rs.take (w.toNat + 1)) : Int)
  else (runsCard (rs.take w.toNat) : Int) + sub16 x (rStart rs w.toNat) + 1

/-- `runContainer16.getCardinalityInRange(start, end)` -/
def runCardInRange (rs : List (Nat × Nat)) (s e : Nat) : Int :=
  let n := rs.length
  if s ≥ e ∨ n = 0 then 0 else
  let last := e - 1
  let (wStart, startInside) := runSearch rs s
  let (wEnd, endInside) := runSearch rs last
  if wStart < 0 ∧ wEnd < 0 then 0 else
  let firstIdx : Int := if !startInside then wStart + 1 else wStart
  let lastIdx : Int := wEnd
  if firstIdx ≥ n then 0
  else if lastIdx < 0 ∨ lastIdx < firstIdx then 0
  else if firstIdx = lastIdx ∧ firstIdx ≥ 0 then
    let ivStart := rStart rs firstIdx.toNat
    let ivEnd := rLast rs firstIdx.toNat
    let lo := if ivStart > s then ivStart else s
    let hi := if ivEnd < last then ivEnd else last
    if lo > hi then 0 else ((hi - lo : Nat) : Int) + 1
  else
    let f := firstIdx.toNat
    let l := lastIdx.toNat
    let r1 : Int :=
      if startInside ∧ firstIdx = wStart then ((rLast rs f - s : Nat) : Int) + 1
      else if firstIdx < n then (rLen rs f : Int) else 0
    let r2 : Int := (runsCard ((rs.take l).drop (f + 1)) : Int)
    let r3 : Int :=
      if lastIdx > firstIdx ∧ lastIdx < n then
        (if endInside then ((last - rStart rs l : Nat) : Int) + 1 else (rLen rs l : Int))
      else 0
    r1 + r2 + r3

/-- `runContainer16.selectInt` -/
def runSelectFrom : List (Nat × Nat) → (offset : Nat) → (x : Nat) → Int
  | [], _, _ => undef                                  -- panic("cannot select x")
  | (s, l) :: t, offset, x =>
    let nextOffset := offset + (l + 1)
    if nextOffset > x then (s : Int) + ((x : Int) - offset) else runSelectFrom t nextOffset x

/-- `runContainer16.nextValue` -/
def runNextValue (rs : List (Nat × Nat)) (t : Nat) : Int :=
  if rs.length = 0 then -1 else
  let (which, present) := runSearch rs t
  if present then t
  else if which = -1 then (rStart rs 0 : Int)
  else if which = (rs.length : Int) - 1 then -1
  else
    let possibleNext := which + 1
    if possibleNext < rs.length then (rStart rs possibleNext.toNat : Int) else -1

/-- `runContainer16.nextAbsentValue` -/
def runNextAbsentValue (rs : List (Nat × Nat)) (t : Nat) : Int :=
  let (which, present) := runSearch rs t
  if !present then t else (rLast rs which.toNat : Int) + 1

/-- `runContainer16.previousValue` -/
def runPreviousValue (rs : List (Nat × Nat)) (t : Nat) : Int :=
  let (which, present) := runSearch rs t
  if rs.length = 0 then t
  else if present then t
  else if which = -1 then -1
  else (rLast rs which.toNat : Int)

/-- `runContainer16.previousAbsentValue` -/
def runPreviousAbsentValue (rs : List (Nat × Nat)) (t : Nat) : Int :=
  let (which, present) := runSearch rs t
  if !present then t else (rStart rs which.toNat : Int) - 1

def runIsFull (rs : List (Nat × Nat)) : Bool :=
  rs.length == 1 && (rStart rs 0 == 0 && rLast rs 0 == 65535)

end ContQuery

open ContQuery ContOps

/-! ### dispatch on the receiver kind -/

def Cont.rankQ : Cont → Nat → Int
  | .arr xs, x => arrRank xs x
  | .bmp _ ws, x => bmpRank ws x
  | .run rs, x => runRank rs x

def Cont.selectQ : Cont → Nat → Int
  | .arr xs, i => arrSelect xs i
  | .bmp _ ws, i => bmpSelectFrom 0 ws i
  | .run rs, i => runSelectFrom rs 0 i

def Cont.containsQ : Cont → Nat → Bool
  | .arr xs, x => arrContains xs x
  | .bmp _ ws, x => word ws (x / 64) &&& (1#64 <<< (x % 64)) ≠ 0#64      -- (w & (1 << (x&63))) != 0
  | .run rs, x => runContains rs x

def Cont.getCardinalityQ : Cont → Int
  | .arr xs => xs.length
  | .bmp c _ => c                              -- the cached field
  | .run rs => runsCard rs

def Cont.cardInRangeQ : Cont → Nat → Nat → Int
  | .arr xs, s, e => arrCardInRange xs s e
  | .bmp _ ws, s, e => bmpCardInRange ws s e
  | .run rs, s, e => runCardInRange rs s e

def Cont.minimumQ : Cont → Int
  | .arr xs => arrMinimum xs
  | .bmp _ ws => bmpMinFrom 0 ws
  | .run rs => if 0 < rs.length then (rStart rs 0 : Int) else undef

def Cont.maximumQ : Cont → Int
  | .arr xs => arrMaximum xs
  | .bmp _ ws => bmpMaxFrom ws ws.length
  | .run rs => if 0 < rs.length then (rLast rs (rs.length - 1) : Int) else undef

def Cont.nextValueQ : Cont → Nat → Int
  | .arr xs, t => arrNextValue xs t
  | .bmp c ws, t => if c = 0 then -1 else bmpNextSetBit ws t
  | .run rs, t => runNextValue rs t

def Cont.previousValueQ : Cont → Nat → Int
  | .arr xs, t => arrPreviousValue xs t
  | .bmp c ws, t => if c = 0 then -1 else bmpPrevSetBit ws t
  | .run rs, t => runPreviousValue rs t

def Cont.nextAbsentValueQ : Cont → Nat → Int
  | .arr xs, t => arrNextAbsentValue xs t
  | .bmp _ ws, t => bmpNextUnsetBit ws t
  | .run rs, t => runNextAbsentValue rs t

def Cont.previousAbsentValueQ : Cont → Nat → Int
  | .arr xs, t => arrPreviousAbsentValue xs t
  | .bmp _ ws, t => bmpPreviousAbsentValue ws t
  | .run rs, t => runPreviousAbsentValue rs t

def Cont.numberOfRunsQ : Cont → Int
  | .arr xs => arrNumberOfRuns xs
  | .bmp c ws => bmpNumberOfRuns c ws
  | .run rs => rs.length

def Cont.isFullQ : Cont → Bool
  | .arr _ => false
  | .bmp c _ => c == 65536
  | .run rs => runIsFull rs

def Cont.isEmptyQ : Cont → Bool
  | .arr xs => xs.length == 0
  | .bmp c _ => c == 0
  | .run rs => rs.length == 0

/-- receivers on which the query model is tied to Go: well-formed containers; for run containers the storage-minimality
conjunct of `Cont.wf` is not needed (no query kernel looks at it) -/
def Cont.wfQ : Cont → Bool
  | .run rs => !rs.isEmpty && runsOk rs
  | c => c.wf

end RModel.Impl
