import RModel.Impl.BSI
import RModel.Impl.BSI64Ops
/-!
The "big" paths of `roaring64.BSI` (roaring64/bsi64.go): what the code does once the index is wider than 64 planes
(`isBig()`, i.e. `BitCount() > 63`), when an argument is a `*big.Int` that is not an `int64`, or when the plane algebra
declines — the PER-COLUMN code — plus the column-wise comparison of two indexes and the batch readers:

* `compareValue` (the per-column comparison automaton of `CompareValue` / `CompareBigValue`), `twosComplement`,
  the dispatch `CompareValue → compareInt64Value → CompareBigValue → compareBigValueAsInt64 → parallelExecutor(compareValue)`;
* `MinMaxBig` / `minMaxSignedInt` (the plane walk `minMaxBigByPlanes` is `BSI.minMax` of `Impl/BSI.lean`) and the unused
  per-column worker `minOrMax`;
* `CompareBSI` (`compareBSILessAndEqual`, `compareBSIPlaneChild`);
* `GetBigValues` / `GetValues` (`newBSIGetBigValuesRequest`, `getBigValuesInt64`, `getValuesInt64`, `getBigValuesGeneric`,
  `fillDuplicate…`);
* `BatchEqualBig` (`batchEqualBigValuesAsInt64`, the per-column worker `batchEqual`) and `BatchEqual` on a wide index.

Conventions as in `Impl/BSI.lean`: `planes[i] = bA[i]`, the LAST plane is the sign plane, sets of columns are `BSet`s,
`Bitmap` methods are the `BSet` operations of the same meaning.  `big.Int` values are `Int`s; `x.Bit(i)` is `twosBit x i`
(Go: two's complement bit of a negative number), `x.BitLen()` is `bitLen x`, `x.IsInt64()` is `isInt64 x`.
`parallelExecutor` cuts the iterated set into `n` batches, runs the worker on each and ORs the batch results (`batches`,
`parExec`, `compareBigPar`, `batchEqualPar`); a worker handles its columns one by one and independently, so the functions the
checker evaluates (`compareBig`, `batchEqualBig`) use ONE batch holding every column in increasing order —
`compareBigPar_eq` / `batchEqualPar_eq` (RProofs/BSI64Big.lean) prove that the bitmap is the same for every worker count.

The functions follow the Go control flow: `for j := BitCount(); j >= 0; j--` loops are recursions on the plane index (the call
for plane `j+1` performs its step and then, unless the Go code `break`s, continues with plane `j`).

Core Lean only (this file is linked into the compiled checker).
-/
namespace RModel
namespace BSI
open BSet

/-! ### `twosComplement` -/

/-- Go `twosComplement(num, bitCount)`.  The Go code works on the binary digit string of `|num|`, left-padded with zeros to
`bitCount` digits (never truncated: `L = max(bitCount, BitLen |num|)` digits); for a negative number every digit is
inverted (`2^L - 1 - |num|`) and one is added with ripple carry (`2^L - |num|`; the carry cannot fall off because
`|num| > 0`).  A non-negative number is returned unchanged. -/
def twosComplementGo (num : Int) (bitCount : Nat) : Int :=
  if num < 0 then
    let len := if bitLen num < bitCount then bitCount else bitLen num
    (2 : Int) ^ len - (num.natAbs : Int)
  else num

/-! ### `compareValue`: the per-column comparison automaton -/

/-- the five flags of one column: `eq1, eq2 := true, true; lt1, lt2, gt1 := false, false, false` -/
structure CmpFlags where
  eq1 : Bool := true
  eq2 : Bool := true
  lt1 : Bool := false
  lt2 : Bool := false
  gt1 : Bool := false
deriving Repr, DecidableEq, Inhabited

/-- first half of the loop body (start value against the column bit `x`): returns the flags and "the loop `break`s".
```
if compStartValue.Bit(j) == 1 {
    if !sliceContainsBit { if eq1 {
        if (op == GT || op == GE || op == RANGE) && startIsNegative && !isNegative { gt1 = true }
        if op == LT || op == LE { if !startIsNegative || (startIsNegative == isNegative) { lt1 = true } }
        eq1 = false
        if op != RANGE { break } } }
} else {
    if sliceContainsBit { if eq1 {
        if (op == LT || op == LE) && isNegative && !startIsNegative { lt1 = true }
        if op == GT || op == GE || op == RANGE { if startIsNegative || (startIsNegative == isNegative) { gt1 = true } }
        eq1 = false
        if op != RANGE { break } } }
}
``` -/
def startStep (op : Op) (startNeg isNeg sBit x : Bool) (st : CmpFlags) : CmpFlags × Bool :=
  let geOp := op == .GT || op == .GE || op == .RANGE
  let leOp := op == .LT || op == .LE
  if sBit then
    if !x && st.eq1 then
      ({ st with
          gt1 := if geOp && startNeg && !isNeg then true else st.gt1
          lt1 := if leOp && (!startNeg || startNeg == isNeg) then true else st.lt1
          eq1 := false }, op != .RANGE)
    else (st, false)
  else
    if x && st.eq1 then
      ({ st with
          lt1 := if leOp && isNeg && !startNeg then true else st.lt1
          gt1 := if geOp && (startNeg || startNeg == isNeg) then true else st.gt1
          eq1 := false }, op != .RANGE)
    else (st, false)

/-- second half of the loop body (end value of a RANGE against the column bit `x`).
```
if op == RANGE && compEndValue.Bit(j) == 1 {
    if !sliceContainsBit { if eq2 {
        if !endIsNegative || (endIsNegative == isNegative) { lt2 = true }
        eq2 = false
        if startIsNegative && !endIsNegative { break } } }
} else if op == RANGE {
    if sliceContainsBit { if eq2 {
        if isNegative && !endIsNegative { lt2 = true }
        eq2 = false } }
}
``` -/
def endStep (op : Op) (startNeg endNeg isNeg eBit x : Bool) (st : CmpFlags) : CmpFlags × Bool :=
  if op == .RANGE && eBit then
    if !x && st.eq2 then
      ({ st with
          lt2 := if !endNeg || endNeg == isNeg then true else st.lt2
          eq2 := false }, startNeg && !endNeg)
    else (st, false)
  else if op == .RANGE then
    if x && st.eq2 then
      ({ st with
          lt2 := if isNeg && !endNeg then true else st.lt2
          eq2 := false }, false)
    else (st, false)
  else (st, false)

/-- what is fixed while the planes of one column are walked -/
structure CmpCtx where
  op : Op
  startNeg : Bool
  endNeg : Bool
  isNeg : Bool
  compStart : Int
  compEnd : Int
deriving Repr, Inhabited

/-- the loop body for plane `j`: `sliceContainsBit := bA[j].Contains(cID)`, first half, (unless it broke) second half -/
def cmpStep (b : BSI) (k : CmpCtx) (col j : Nat) (st : CmpFlags) : CmpFlags × Bool :=
  let x := (b.planes.getD j []).mem col
  let r := startStep k.op k.startNeg k.isNeg (twosBit k.compStart j) x st
  if r.2 then r else endStep k.op k.startNeg k.endNeg k.isNeg (twosBit k.compEnd j) x r.1

/-- `for ; j >= 0; j-- { body }` entered at plane `j` -/
def cmpLoop (b : BSI) (k : CmpCtx) (col : Nat) : Nat → CmpFlags → CmpFlags
  | 0, st => (cmpStep b k col 0 st).1
  | j + 1, st =>
    let r := cmpStep b k col (j + 1) st
    if r.2 then r.1 else cmpLoop b k col j r.1

/-- the per-column setup of `compareValue`:
```
isNegative := bsi.IsNegative(cID)
compStartValue := valueOrStart;  if isNegative != startIsNegative { compStartValue = twosComplement(valueOrStart, BitCount()+1) }
compEndValue := end;             if isNegative != endIsNegative && end != nil { compEndValue = twosComplement(end, BitCount()+1) }
```
(`end` is never nil here: `CompareValue` passes `big.NewInt(end)`, `CompareBigValue` replaces a nil end of a RANGE, and for the
other operators the end value is never looked at.) -/
def cmpCtx (b : BSI) (op : Op) (lo hi : Int) (col : Nat) : CmpCtx :=
  let startNeg := decide (lo < 0)
  let endNeg := decide (hi < 0)
  let isNeg := b.isNegative col
  { op := op, startNeg := startNeg, endNeg := endNeg, isNeg := isNeg
    compStart := if isNeg != startNeg then twosComplementGo lo (b.bitCount + 1) else lo
    compEnd := if isNeg != endNeg then twosComplementGo hi (b.bitCount + 1) else hi }

/-- the final `switch e.op` of `compareValue`: is the column added to the result? -/
def cmpDecide (k : CmpCtx) (st : CmpFlags) : Bool :=
  match k.op with
  | .LT => st.lt1
  | .LE => st.lt1 || (st.eq1 && (!k.startNeg || (k.startNeg && k.isNeg)))
  | .EQ => st.eq1
  | .GE => st.gt1 || (st.eq1 && (k.startNeg || (!k.startNeg && !k.isNeg)))
  | .GT => st.gt1
  | .RANGE => (st.eq1 || st.gt1) && (st.eq2 || st.lt2)

/-- one iteration of the column loop of `compareValue`: does column `col` satisfy `op`?  NOTE: the existence bitmap is not
consulted — a column without value reads as all-zero planes. -/
def compareColumn (b : BSI) (op : Op) (lo hi : Int) (col : Nat) : Bool :=
  let k := cmpCtx b op lo hi col
  cmpDecide k (cmpLoop b k col b.bitCount {})

/-- the worker `compareValue(task, batch)`: `results.Add(cID)` for the columns of the batch that satisfy the operation -/
def compareValueBatch (b : BSI) (op : Op) (lo hi : Int) (batch : List Nat) : BSet :=
  batch.foldl (fun res c => if compareColumn b op lo hi c then add res c else res) []

/-- the per-column path of `CompareBigValue`:
`if foundSet == nil { parallelExecutor(…, compareValue, &b.eBM) } else { parallelExecutor(…, compareValue, foundSet) }`.
The found set is NOT intersected with the existence bitmap. -/
def compareBig (b : BSI) (op : Op) (lo hi : Int) (foundSet : Option BSet) : BSet :=
  compareValueBatch b op lo hi (toList (foundSet.getD b.ebm))

/-! #### `parallelExecutor`: the batches -/

/-- the successive `iter.NextMany(batch)` calls of `parallelExecutor`: `k` more batches of `x` columns, then the last worker
takes what is left (`x + remainder` columns) -/
def batchesAux (x : Nat) : Nat → List Nat → List (List Nat)
  | 0, l => [l]
  | k + 1, l => l.take x :: batchesAux x k (l.drop x)

/-- the batches of `parallelExecutor(n, …, set)` for `n ≥ 1` workers (`parallelism = 0` means `runtime.NumCPU()`):
`x := card / n`, `n - 1` batches of `x` columns and one of `x + (card - x*n)` -/
def batches (n : Nat) (l : List Nat) : List (List Nat) := batchesAux (l.length / n) (n - 1) l

/-- `parallelExecutor`: one worker per batch, the results are combined with `ParOr` (a union; the order in which the
goroutines deliver their results does not matter for a union) -/
def parExec (n : Nat) (worker : List Nat → BSet) (l : List Nat) : BSet :=
  ((batches n l).map worker).foldl union []

/-- the per-column path of `CompareBigValue` with `n ≥ 1` workers; `compareBig` is the one-batch form (`compareBigPar_eq`) -/
def compareBigPar (b : BSI) (op : Op) (lo hi : Int) (foundSet : Option BSet) (n : Nat) : BSet :=
  parExec n (compareValueBatch b op lo hi) (toList (foundSet.getD b.ebm))

/-- `compareBigValueAsInt64`: the plane algebra is tried when the constants are `int64`s -/
def compareBigValueAsInt64 (b : BSI) (op : Op) (lo hi : Int) (foundSet : Option BSet) : Option BSet :=
  if !isInt64 lo then none
  else if op = .RANGE && !isInt64 hi then none
  else b.compareInt64Value op lo (if op = .RANGE then hi else 0) foundSet

/-- `CompareBigValue(parallelism, op, valueOrStart, end, foundSet)` with non-nil constants -/
def compareBigValue (b : BSI) (op : Op) (lo hi : Int) (foundSet : Option BSet) : BSet :=
  match b.compareBigValueAsInt64 op lo hi foundSet with
  | some r => r
  | none => b.compareBig op lo hi foundSet

/-- `CompareValue(parallelism, op, valueOrStart, end, foundSet)` (`int64` constants) -/
def compareValueAny (b : BSI) (op : Op) (lo hi : Int) (foundSet : Option BSet) : BSet :=
  match b.compareInt64Value op lo hi foundSet with
  | some r => r
  | none => b.compareBigValue op lo hi foundSet

/-! ### `MinMaxBig` -/

/-- `minMaxSignedInt(bits)`: `(min, max) = (-2^(bits-1), 2^(bits-1) - 1)`, computed as `max = 1<<(bits-1) - 1; min = -max - 1` -/
def minMaxSignedInt (bits : Nat) : Int × Int :=
  let mx := (2 : Int) ^ (bits - 1) - 1
  (-mx - 1, mx)

/-- `MinMaxBig(parallelism, op, foundSet)` written with `minMaxSignedInt` as in the Go text (the plane walk
`minMaxBigByPlanes` is `minMaxCandidates` of `Impl/BSI.lean`); `BSI.minMax` is the same function with the sentinels
evaluated. -/
def minMaxBig (b : BSI) (isMax : Bool) (foundSet : Option BSet) : Int :=
  let f := foundSet.getD b.ebm
  let candidates := inter f b.ebm
  let mm := minMaxSignedInt (b.bitCount + 1)
  if candidates.isEmpty then (if isMax then mm.1 else mm.2)
  else (b.getValue ((minimum (b.minMaxCandidates isMax candidates)).getD 0)).getD 0

/-! #### the per-column worker `minOrMax` (NOT called by any code path of the package: `MinMaxBig` walks the planes) -/

/-- `negativeTwosComplementToInt` for an ARBITRARY argument (`minOrMax` feeds it partial values that are already negative):
`inverted = ^val & (1<<val.BitLen() - 1)` is the residue of `-val-1` modulo `2^BitLen`; for `0 ≤ val < 2^BitLen` this is
`BSI.negativeTwosComplementToInt`. -/
def negTwosGen (val : Int) : Int :=
  let inverted := (-val - 1) % (2 : Int) ^ bitLen val
  Int.neg (inverted + 1)

structure MmFlags where
  eq : Bool := true
  lt : Bool := false
  gt : Bool := false
  done : Bool := false
  cVal : Int := 0
deriving Repr, DecidableEq, Inhabited

/-- one plane of `minOrMax` for a column: the accumulation of `cVal` (NOTE: `negativeTwosComplementToInt` is applied to the
partial value at EVERY set plane of a negative column) and the comparison of the column bit `x` with bit `j` of the running
extremum `value` (`compValue` IS `value`: the converted copy `inverted` is computed and dropped). -/
def mmStep (isMax valueNeg isNeg : Bool) (vBit x : Bool) (j : Nat) (st : MmFlags) : MmFlags :=
  let cVal := if x then
      let v := st.cVal + (if twosBit st.cVal j then 0 else (2 : Int) ^ j)   -- `cVal.Or(cVal, 1<<j)`
      if isNeg then negTwosGen v else v
    else st.cVal
  let st := { st with cVal := cVal }
  if st.done then st
  else if vBit then
    if !x && st.eq then
      let st := { st with eq := false }
      let st := if isMax && valueNeg && !isNeg then { st with gt := true, done := true } else st
      if !isMax && (!valueNeg || valueNeg == isNeg) then { st with lt := true } else st
    else st
  else
    if x && st.eq then
      let st := { st with eq := false }
      let st := if !isMax && isNeg && !valueNeg then { st with lt := true } else st
      if isMax && (valueNeg || valueNeg == isNeg) then { st with gt := true, done := true } else st
    else st

def mmLoop (b : BSI) (isMax valueNeg isNeg : Bool) (value : Int) (col : Nat) : Nat → MmFlags → MmFlags
  | 0, st => mmStep isMax valueNeg isNeg (twosBit value 0) ((b.planes.getD 0 []).mem col) 0 st
  | j + 1, st =>
    mmLoop b isMax valueNeg isNeg value col j
      (mmStep isMax valueNeg isNeg (twosBit value (j + 1)) ((b.planes.getD (j + 1) []).mem col) (j + 1) st)

/-- the worker `minOrMax(op, batch)`: the running extremum over the batch, started at the sentinel -/
def minOrMax (b : BSI) (isMax : Bool) (batch : List Nat) : Int :=
  let mm := minMaxSignedInt (b.bitCount + 1)
  batch.foldl (fun value c =>
    let st := mmLoop b isMax (decide (value < 0)) (b.isNegative c) value c b.bitCount {}
    if st.lt || st.gt then st.cVal else value) (if isMax then mm.1 else mm.2)

/-! ### `CompareBSI` -/

/-- `compareBSIPlaneChild(prefix, planeIndex, commonSign, set, owned)`: a narrower index is read with its sign plane repeated
(`sourcePlane = min(planeIndex, BitCount())`), and on the common sign position the wanted bit is inverted -/
def bsiPlaneChild (b : BSI) (pre : BSet) (planeIndex commonSign : Nat) (set : Bool) : BSet :=
  let sourcePlane := if planeIndex > b.bitCount then b.bitCount else planeIndex
  let rawSet := if planeIndex == commonSign then !set else set
  planeChild pre (b.planes.getD sourcePlane []) rawSet

/-- body of the loop of `compareBSILessAndEqual` for plane `i`; state = `(less, equalPrefix)`.
```
leftOnes := b.child(equalPrefix, i, true); rightOnes := other.child(equalPrefix, i, true)
rightOnly := rightOnes.Clone(); rightOnly.AndNot(leftOnes); less.Or(rightOnly)
leftOnly := leftOnes; leftOnly.AndNot(rightOnes); rightOnly.Or(leftOnly); equalPrefix.AndNot(rightOnly)
``` -/
def cmpBsiStep (a o : BSI) (commonSign i : Nat) (s : BSet × BSet) : BSet × BSet :=
  let leftOnes := a.bsiPlaneChild s.2 i commonSign true
  let rightOnes := o.bsiPlaneChild s.2 i commonSign true
  let rightOnly := diff rightOnes leftOnes
  let leftOnly := diff leftOnes rightOnes
  (union s.1 rightOnly, diff s.2 (union rightOnly leftOnly))

/-- `for i := commonSign; i >= 0; i-- { step; if equalPrefix.IsEmpty() { break } }` entered at plane `i` -/
def cmpBsiLoop (a o : BSI) (commonSign : Nat) : Nat → BSet × BSet → BSet × BSet
  | 0, s => cmpBsiStep a o commonSign 0 s
  | i + 1, s =>
    let s' := cmpBsiStep a o commonSign (i + 1) s
    if s'.2.isEmpty then s' else cmpBsiLoop a o commonSign i s'

/-- `compareBSILessAndEqual(other, commonSign, universe)` -/
def compareBSILessAndEqual (a o : BSI) (commonSign : Nat) (univ : BSet) : BSet × BSet :=
  cmpBsiLoop a o commonSign commonSign ([], univ)

/-- `universe := b.eBM.Clone(); universe.And(&other.eBM); if foundSet != nil { universe.And(foundSet) }` -/
def bsiUniverse (a o : BSI) (foundSet : Option BSet) : BSet :=
  match foundSet with
  | some f => inter (inter a.ebm o.ebm) f
  | none => inter a.ebm o.ebm

/-- `b.CompareBSI(op, other, foundSet)`; `none` = the `panic` of the `default:` case (RANGE).  The universe is
`b.eBM ∩ other.eBM (∩ foundSet)`; when it (or one of the existence bitmaps) is empty the result is empty for EVERY
operation — the panic of an unsupported operation is only reached on a non-empty universe. -/
def compareBSI (a : BSI) (op : Op) (o : BSI) (foundSet : Option BSet) : Option BSet :=
  if a.ebm.isEmpty || o.ebm.isEmpty then some []
  else
    let univ := bsiUniverse a o foundSet
    if univ.isEmpty then some univ
    else
      let commonSign := if o.bitCount > a.bitCount then o.bitCount else a.bitCount
      let le := compareBSILessAndEqual a o commonSign univ
      match op with
      | .LT => some le.1
      | .LE => some (union le.1 le.2)
      | .EQ => some le.2
      | .GE => some (diff univ le.1)
      | .GT => some (diff univ (union le.1 le.2))
      | .RANGE => none

/-! ### `GetBigValues` / `GetValues` -/

/-- `isBig()`: `len(b.bA) > 64` -/
def isBig (b : BSI) : Bool := decide (b.planes.length > 64)

/-- index of the first occurrence of `c` in the request (`request.positions[c]`), counted from `i` -/
def firstPos (c : Nat) : List Nat → Nat → Option Nat
  | [], _ => none
  | x :: xs, i => if x == c then some i else firstPos c xs (i + 1)

/-- `request.positions[c]` (0 for a column that was not requested: never looked up) -/
def posOf (cols : List Nat) (c : Nat) : Nat := (firstPos c cols 0).getD 0

/-- `request.foundSet`: the set of requested columns -/
def requestSet (cols : List Nat) : BSet := ofList cols

/-- apply `f` to the cell at position `p` -/
def updAt {α : Type} (l : List α) (p : Nat) (f : α → α) : List α :=
  match l[p]? with
  | some v => l.set p (f v)
  | none => l

/-- `fillDuplicateBigValues` / `fillDuplicateValues`: every later occurrence of a column receives (a copy of) the cell of
its first occurrence, when that cell holds a value.  (Go ranges over the `duplicatePositions` map; the writes touch
pairwise different cells and read only first-occurrence cells, so the iteration order is irrelevant and the model fills
position by position.) -/
def fillDup (cols : List Nat) (vals : List (Option Int)) : List (Option Int) :=
  (List.range cols.length).map (fun i =>
    match vals.getD (posOf cols (cols.getD i 0)) none with
    | some v => some v
    | none => vals.getD i none)

/-- one plane of `getBigValuesGeneric`: `for c in And(bA[bit], existing) { values[pos[c]].SetBit(…, bit, 1) }` -/
def genericPlane (cols : List Nat) (existing plane : BSet) (bit : Nat) (vals : List (Option Int)) : List (Option Int) :=
  (toList (inter plane existing)).foldl
    (fun vs c => updAt vs (posOf cols c) (fun o => o.map (fun v => if twosBit v bit then v else v + (2 : Int) ^ bit))) vals

/-- `for bit := b.BitCount(); bit >= 0; bit--` of `getBigValuesGeneric`; `planes` = `bA[i:]`, the recursive call (higher
planes) is evaluated first -/
def genericPlanes (cols : List Nat) (existing : BSet) : List BSet → Nat → List (Option Int) → List (Option Int)
  | [], _, vals => vals
  | p :: ps, i, vals => genericPlane cols existing p i (genericPlanes cols existing ps (i + 1) vals)

/-- `getBigValuesGeneric(request, values)` -/
def getBigValuesGeneric (b : BSI) (cols : List Nat) : List (Option Int) :=
  let values : List (Option Int) := List.replicate cols.length none
  let existing := inter b.ebm (requestSet cols)
  if existing.isEmpty then values
  else
    let values := (toList existing).foldl (fun vs c => vs.set (posOf cols c) (some 0)) values
    let values := genericPlanes cols existing b.planes 0 values
    let negativeSet := inter (b.planes.getD b.bitCount []) existing
    let values := (toList negativeSet).foldl
      (fun vs c => updAt vs (posOf cols c) (fun o => o.map negativeTwosComplementToInt)) values
    fillDup cols values

/-- one plane of `getBigValuesInt64` / `getValuesInt64`: `rawValues[pos[c]] |= 1 << bit` (a `uint64` shift: planes `≥ 64`
would contribute nothing; the callers only come here with at most 64 planes) -/
def rawPlane (cols : List Nat) (existing plane : BSet) (bit : Nat) (raw : List Nat) : List Nat :=
  (toList (inter plane existing)).foldl
    (fun rs c => updAt rs (posOf cols c) (fun r => r ||| (if bit < 64 then 2 ^ bit else 0))) raw

/-- `for bit := 0; bit <= signBit; bit++` -/
def rawPlanes (cols : List Nat) (existing : BSet) : List BSet → Nat → List Nat → List Nat
  | [], _, raw => raw
  | p :: ps, i, raw => rawPlanes cols existing ps (i + 1) (rawPlane cols existing p i raw)

/-- `int64(rawValue)` after the sign extension `if rawValue&signMask != 0 && width < 64 { rawValue |= ^uint64(0) << width }` -/
def rawToInt (signBit : Nat) (raw : Nat) : Int :=
  let width := signBit + 1
  let raw := if raw.testBit signBit && width < 64 then raw ||| (2 ^ 64 - 2 ^ width) else raw
  if raw ≥ 2 ^ 63 then (raw : Int) - (2 : Int) ^ 64 else (raw : Int)

/-- `getBigValuesInt64` / `getValuesInt64` (the two differ only in the type of the cells) -/
def getValuesInt64 (b : BSI) (cols : List Nat) : List (Option Int) :=
  let values : List (Option Int) := List.replicate cols.length none
  let existing := inter b.ebm (requestSet cols)
  if existing.isEmpty then values
  else
    let raw := rawPlanes cols existing b.planes 0 (List.replicate cols.length 0)
    let signBit := b.bitCount
    let values := (toList existing).foldl
      (fun vs c => vs.set (posOf cols c) (some (rawToInt signBit (raw.getD (posOf cols c) 0)))) values
    fillDup cols values

/-- `GetBigValues(columnIDs)`: a nil cell = `none` -/
def getBigValues (b : BSI) (cols : List Nat) : List (Option Int) :=
  match cols with
  | [] => []
  | [c] => [b.getValue c]
  | _ => if !b.isBig then b.getValuesInt64 cols else b.getBigValuesGeneric cols

/-- the check `GetValues` applies to a cell of the generic reader: nil, or `value.IsInt64()` -/
def cellOk (o : Option Int) : Bool :=
  match o with
  | some v => isInt64 v
  | none => true

/-- `GetValues(columnIDs)`: `none` = panic ("can't represent a … bit value as an int64"); a cell `none` = `exists[i] = false` -/
def getValues (b : BSI) (cols : List Nat) : Option (List (Option Int)) :=
  match cols with
  | [] => some []
  | [c] =>
    match b.getValue c with
    | none => some [none]
    | some v => if isInt64 v then some [some v] else none
  | _ =>
    if b.isBig then
      let vs := b.getBigValuesGeneric cols
      if vs.all cellOk then some vs else none
    else some (b.getValuesInt64 cols)

/-! ### `BatchEqualBig`, `BatchEqual` on a wide index -/

/-- one column of the worker `batchEqual`: `if value, ok := GetBigValue(cID); ok { if value ∈ values { results.Add(cID) } }`
(the map key `batchEqualBigKey` = sign byte + magnitude bytes identifies the integer) -/
def batchEqualStep (b : BSI) (values : List Int) (res : BSet) (c : Nat) : BSet :=
  match b.getValue c with
  | some v => if values.contains v then add res c else res
  | none => res

/-- the worker `batchEqual(task, batch)` -/
def batchEqualBatch (b : BSI) (values : List Int) (batch : List Nat) : BSet :=
  batch.foldl (batchEqualStep b values) []

/-- `batchEqualBigValuesAsInt64`: only for `BitCount() ≤ 63` and when every value is an `int64` -/
def batchEqualBigValuesAsInt64 (b : BSI) (values : List Int) : Option (List Int) :=
  if b.bitCount > 63 then none
  else if values.all isInt64 && !values.isEmpty then some values else none

/-- `BatchEqualBig(parallelism, values)` (no nil entries) -/
def batchEqualBig (b : BSI) (values : List Int) : BSet :=
  if b.ebm.isEmpty || values.isEmpty then []
  else
    match b.batchEqualBigValuesAsInt64 values with
    | some ints => (b.batchEqual ints).getD []            -- `BitCount() ≤ 63`: the plane algebra answers
    | none => batchEqualBatch b values (toList b.ebm)

/-- the per-column path of `BatchEqualBig` with `n ≥ 1` workers (`batchEqualPar_eq`: the same set as one batch) -/
def batchEqualPar (b : BSI) (values : List Int) (n : Nat) : BSet :=
  parExec n (batchEqualBatch b values) (toList b.ebm)

/-- `BatchEqual(parallelism, values)` for every width: `BitCount() ≥ 64` converts the values and calls `BatchEqualBig` -/
def batchEqualAny (b : BSI) (values : List Int) : BSet :=
  match b.batchEqual values with
  | some r => r
  | none => b.batchEqualBig values

end BSI
end RModel
