import RModel.Impl.Rep64Agg
import RModel.Impl.ParData
/-!
L2 of `roaring64`: the DATA side of `roaring64.ParOr` (`/repo/roaring64/parallel64.go`) as a deterministic function on the stored
representation `Rep64` — **the representation the Go function returns** (keys, which buckets are unions / private clones, bucket
flags, the `copyOnWrite` switch, and every inner 32-bit bitmap container by container) for well-formed operands and an effective
worker count `w ≥ 1`.  (The goroutine / channel protocol is the one of the 32-bit `ParOr`, modelled in `Impl/Par.lean`: results are
stored by chunk index (`chunks[chunk.idx] = chunk.ra`), so the value computed is a function of the chunk specs alone.)

How the Go code is read.

`ParOr(parallelism, bitmaps…)`:
* empty bitmaps (`IsEmpty()` = no bucket) are filtered out into a NEW slice; `lKey` / `hKey` = smallest first key / largest last key
  of the remaining ones (`minOfUint32` from `maxUint32`, `maxOfUint32` from `0`: `lowKey64`, `highKey64`);
  `lKey == maxUint32 && hKey == 0` → `New()`: for bitmaps with sorted keys this is exactly "nothing is left" (a remaining bitmap gives
  `lKey ≤ keys[0] ≤ keys[size-1] ≤ hKey`), which is how it is modelled; one bitmap left → `bitmaps[0].Clone()` (`Rep64.clone`);
* `keyRange = uint64(hKey) − uint64(lKey) + 1`; `keyRange == 1` (every remaining bitmap consists of the one bucket `lKey`) →
  `roaring32AsRoaring64(roaring.ParOr(parallelism, all buckets of all bitmaps…), lKey)`: the 32-bit `ParOr` is the proved model
  `Rep.parOr w` of `Impl/ParData.lean` (`parallelism == 0` stands for `runtime.NumCPU()` in both packages, so both layers run with the
  same effective worker count `w`); `roaring32AsRoaring64` returns the EMPTY bitmap for an empty 32-bit result, else the single
  bucket `lKey` holding that very bitmap, flag off, switch off (`as64`);
* the chunk grid (`int64` arithmetic; `parallelism == 0` → `runtime.NumCPU()`; the effective worker count `w ≥ 1` is the parameter
  here): `4·w > keyRange` → `chunkSize = 1, chunkCount = keyRange`; otherwise `chunkCount₀ = 4·w`,
  `chunkSize = ⌈keyRange / chunkCount₀⌉` and the count is re-trimmed to `chunkCount = ⌈keyRange / chunkSize⌉` — the same two
  functions as in the 32-bit package (`ParData.parOrChunkSize`, `ParData.parOrChunkCount`, pure `Nat` arithmetic).  Chunk `i` covers
  the keys `start = uint32(int64(lKey) + i·chunkSize)` … `end = uint32(min(int64(lKey) + (i+1)·chunkSize − 1, int64(hKey)))`
  (`chunkRange64`; the `uint32` conversions are modelled as `% 2^32` — `chunkRange64_eq` in `RProofs/Rep64ParOr.lean` shows that they
  never wrap, also at `hKey = 0xFFFFFFFF`).  The `int64` products cannot overflow for any worker count the program could be run
  with (`w` goroutines are started; `keyRange ≤ 2^32`), they are modelled in `Nat`;
* per chunk (`orChunk64`): `orOnRange(&bitmaps[0], &bitmaps[1], start, end)` — `parNaiveStartAt` skips the keys below `start`, the
  merge loops stop at the first key above `end` (`rangeBuckets`); `answer := &roaringArray64{}` is a fresh array whose `copyOnWrite`
  is off, so `answer.appendCopy(src, i)` appends `src.containers[i].Clone()` carrying the SOURCE flag (`copyBucket`; both branches
  of `appendCopy` clone); equal keys: the static `roaring.Or(c1, c2)` (`Rep.or2`) appended with the flag off — i.e. the walk of the
  static `roaring64.Or` (`orBuckets`) on the two restricted bucket lists.  Then for every further bitmap
  `iorOnRange(ra, &b, start, end)`: chunk-only keys untouched; a new key below a key of the chunk is inserted as `Clone()` with the
  flag off (`insertClone`); equal keys: `getWritableContainerAtIndex` (a flagged bucket — a clone appended from a flagged source
  bucket — is cloned again and unflagged: `writableBm`) then the in-place 32-bit `c1.Or(c2)` (`o.ior`), flag off; trailing new keys
  `ra1.appendCopy(*ra2, idx2)` (the chunk's switch is off: clone carrying the source flag) — i.e. the walk of the in-place
  `x.Or(y)` with both-switches-on = false (`iorBuckets o false`, `appendTail false b` = clone with `flag := false || b.flag`);
* the chunks are concatenated in chunk order into a bitmap with `copyOnWrite = false`.
  NOTE: the SET computed does not depend on the worker count (`Rep64.parOr_worker_independent`), the REPRESENTATION does: a flagged
  bucket of the third or a later operand whose key lies below a key already in the chunk is inserted with the flag off, while it is
  appended with the flag ON when a chunk boundary separates it from those keys (both are private clones; both are safe).
* The 32-bit in-place `Or` enters through the parameter `Ops32` (`o.ior`); `Rep64.parOr Ops32.exact` is the closed model whose 32-bit
  layer is the exact model `Rep.ior` of `Impl/RepMut.lean` (tied by `l2agg64 paror:<w>`, `Driver/L2R64Q.lean`).
* The operands: `Clone()` of an inner bitmap whose own switch is on flags that bitmap's containers (as for `FastOr`); nothing else
  of an operand is written (`appendCopy` sets the source flag only when it is set already).  Only the result is modelled here.

Core Lean only, executable (linked into the compiled checker).
-/
namespace RModel.Impl
open RModel
open R64Ops ParData

namespace R64Par

/-- `uint32(x)` of a non-negative `int64` -/
def u32 (x : Nat) : Nat := x % 4294967296

/-- the buckets `orOnRange` / `iorOnRange` look at: `parNaiveStartAt` walks past the keys below `start`, the merge loops run while
`key <= last` -/
def rangeBuckets (start last : Nat) (l : List Bucket) : List Bucket :=
  (l.dropWhile (fun b => b.high < start)).takeWhile (fun b => b.high ≤ last)

/-- the work of `orFunc` for one `parChunkSpec{start, end}`: `orOnRange` of the first two bitmaps, `iorOnRange` of the others -/
def orChunk64 (o : Ops32) (a b : List Bucket) (t : List (List Bucket)) (start last : Nat) : List Bucket :=
  t.foldl (fun acc c => iorBuckets o false acc (rangeBuckets start last c))
    (orBuckets (rangeBuckets start last a) (rangeBuckets start last b))

/-- `parChunkSpec.start`, `.end` of chunk `i`, with the `uint32` conversions -/
def chunkRange64 (lKey hKey w i : Nat) : Nat × Nat :=
  let cs := parOrChunkSize lKey hKey w
  (u32 (lKey + i * cs), u32 (min (lKey + (i + 1) * cs - 1) hKey))

def firstKey64 (r : Rep64) : Nat := (r.buckets.head?.map (·.high)).getD 0
def lastKey64 (r : Rep64) : Nat := (r.buckets.getLast?.map (·.high)).getD 0

/-- `lKey` : `minOfUint32` over `keys[0]`, from `maxUint32` -/
def lowKey64 (l : List Rep64) : Nat := l.foldl (fun m r => min m (firstKey64 r)) 4294967295
/-- `hKey` : `maxOfUint32` over `keys[size-1]`, from `0` -/
def highKey64 (l : List Rep64) : Nat := l.foldl (fun m r => max m (lastKey64 r)) 0

/-- all chunks in chunk order, concatenated -/
def parOrBuckets (o : Ops32) (w : Nat) (a b : Rep64) (t : List Rep64) : List Bucket :=
  let lKey := lowKey64 (a :: b :: t)
  let hKey := highKey64 (a :: b :: t)
  (List.range (parOrChunkCount lKey hKey w)).flatMap fun i =>
    orChunk64 o a.buckets b.buckets (t.map (·.buckets)) (chunkRange64 lKey hKey w i).1 (chunkRange64 lKey hKey w i).2

/-- `roaring32AsRoaring64(bm32, key)`: the empty bitmap for an empty `bm32` ("no bucket is ever empty"), else the one bucket -/
def as64 (bm : Rep) (key : Nat) : Rep64 :=
  if bm.isEmptyGo then {} else { cow := false, buckets := [{ high := key, bm := bm, flag := false }] }

end R64Par

open R64Par

/-- `roaring64.ParOr(w, bitmaps...)` for an effective worker count `w` -/
def Rep64.parOr (o : Ops32) (w : Nat) (l : List Rep64) : Rep64 :=
  match l.filter (fun r => !r.buckets.isEmpty) with
  | [] => {}
  | [a] => a.clone
  | a :: b :: t =>
    if highKey64 (a :: b :: t) + 1 - lowKey64 (a :: b :: t) == 1 then
      as64 (Rep.parOr w ((a :: b :: t).flatMap fun r => r.buckets.map (·.bm))) (lowKey64 (a :: b :: t))
    else { cow := false, buckets := parOrBuckets o w a b t }

end RModel.Impl
