import RModel.Spec.BSet
/-!
Plane-level model of `BitSliceIndexing.BSI` (BitSliceIndexing/bsi.go): the bit-sliced index over 32-bit columns.

`planes[i]` (`bA[i]`) is the set of columns whose bit `i` of `uint64(value)` is set; there is NO separate sign plane:
values are `int64`, a negative value simply has bit 63 set, so an index holding a negative value has 64 planes and
`GetValue` reads the 64 planes back as a two's complement `int64`.  `ebm` is the existence bitmap, `maxValue` /
`minValue` are the fields of the Go struct (`NewBSI(max, min)`); they are only ever inspected through
`MaxValue == 0 && MinValue == 0` ("auto-sized").  The `runOptimized` flag of the Go struct only selects the container
representation of the planes and has no meaning on sets; it is not modelled.

Sets of columns are `BSet`s (the verified oracle of `RModel/Spec/BSet.lean`); every `roaring.Bitmap` method used by
bsi.go is replaced by the `BSet` operation of the same meaning (`Or`→`union`, `And`→`inter`, `AndNot`→`diff`,
`Xor`→`xor`, `Add`→`add`, `Remove`→`remove`, `Contains`→`mem`, `AndCardinality`→`card (inter · ·)`,
`IsEmpty`→`isEmpty`, `ManyIterator`→`toList`, `ParOr`→ folded `union`).

The functions follow the Go control flow plane by plane (they are NOT defined through the column→value map):
upward loops `for i := 0; i < b.BitCount(); i++` are recursions over the plane list carrying the plane index, the
downward loop of `compareColumn` is a recursion on the plane index.  Goroutines (`parallelExecutor`, `Sum`, `ParOr`,
`ClearValues`, `MinMax`) only split independent per-column / per-plane work; they are modelled by the sequential loop
over all columns / planes (the batch results are combined with an associative, commutative operation).

Go integer semantics that matter and are modelled: `uint64(value) & (1 << uint64(i))` is `0` for `i ≥ 64` (shift count
≥ width), `int64 |= 1 << uint64(i)` likewise; `Sum` adds `int64(card << j)` with wrap-around (`atomic.AddInt64`).
Hence planes with index `≥ 64` (which `Add` / `Increment` can create by a carry out of plane 63) are never read.

Core Lean only (this file is linked into the compiled checker).
-/
namespace RModel
namespace BSI32
open BSet

structure Index where
  /-- `bA` -/
  planes : List BSet
  /-- `eBM` -/
  ebm : BSet
  /-- `MaxValue` -/
  maxValue : Int
  /-- `MinValue` -/
  minValue : Int
deriving Repr, DecidableEq, Inhabited

/-! ### scalar helpers (Go integer conversions) -/

/-- `uint64(v)` for an `int64` (in fact any integer): the residue modulo `2^64` -/
def u64 (v : Int) : Nat := (v % 18446744073709551616).toNat

/-- `int64(n)` for a `uint64` bit pattern (reduced modulo `2^64` first) -/
def i64 (n : Nat) : Int :=
  let r := n % 18446744073709551616
  if r < 9223372036854775808 then (r : Int) else (r : Int) - 18446744073709551616

/-- `bits.Len64(uint64(v))` -/
def len64 (v : Int) : Nat := if u64 v = 0 then 0 else (u64 v).log2 + 1

/-- `uint64(v) & (1 << uint64(i)) > 0` (false for `i ≥ 64`: the shifted constant is `0`) -/
def bit64 (v : Int) (i : Nat) : Bool := decide (i < 64) && (u64 v).testBit i

/-- `Min64BitSigned`, `Max64BitSigned` -/
def min64 : Int := -9223372036854775808
def max64 : Int := 9223372036854775807

/-- `BitCount()`: `len(b.bA)` -/
def bitCount (b : Index) : Nat := b.planes.length

/-- `b.MaxValue == 0 && b.MinValue == 0` -/
def auto (b : Index) : Bool := b.maxValue == 0 && b.minValue == 0

/-- `NewBSI(maxValue, minValue)`: `max (Len64 min) (Len64 max)` empty planes. -/
def new (maxValue minValue : Int) : Index :=
  let bitsz := len64 minValue
  let bitsz := if len64 maxValue > bitsz then len64 maxValue else bitsz
  { planes := List.replicate bitsz [], ebm := [], maxValue := maxValue, minValue := minValue }

/-- `NewDefaultBSI()` -/
def newDefault : Index := new 0 0

/-- `ValueExists` -/
def valueExists (b : Index) (col : Nat) : Bool := b.ebm.mem col

/-- `GetCardinality` -/
def cardinality (b : Index) : Nat := card b.ebm

/-! ### SetValue / SetMany -/

/-- the auto-sizing block of `SetValue` / `SetMany`:
`for i := bits.Len64(uint64(value)) - b.BitCount(); i > 0; i-- { b.bA = append(b.bA, roaring.NewBitmap()) }` -/
def widen (b : Index) (v : Int) : List BSet :=
  if auto b then b.planes ++ List.replicate (len64 v - b.planes.length) [] else b.planes

/-- `for i := 0; i < b.BitCount(); i++ { if bit i of value { bA[i].Add(col) } else if exists { bA[i].Remove(col) } }`;
`i` is the index of the head plane. -/
def writeBits (ex : Bool) (col : Nat) (v : Int) : List BSet → Nat → List BSet
  | [], _ => []
  | p :: ps, i =>
    (if bit64 v i then add p col else if ex then remove p col else p) :: writeBits ex col v ps (i + 1)

/-- `SetValue(columnID, value)` -/
def setValue (b : Index) (col : Nat) (v : Int) : Index :=
  let planes := widen b v
  let ex := b.ebm.mem col
  { b with planes := writeBits ex col v planes 0, ebm := add b.ebm col }

/-- `for i := 0; i < b.BitCount(); i++ { if bit i of value { bA[i].Or(foundSet) } else { bA[i].AndNot(foundSet) } }` -/
def writeMany (f : BSet) (v : Int) : List BSet → Nat → List BSet
  | [], _ => []
  | p :: ps, i => (if bit64 v i then union p f else diff p f) :: writeMany f v ps (i + 1)

/-- `SetMany(foundSet, value)` -/
def setMany (b : Index) (f : BSet) (v : Int) : Index :=
  { b with planes := writeMany f v (widen b v) 0, ebm := union b.ebm f }

/-! ### GetValue -/

/-- `for i := 0; i < b.BitCount(); i++ { if bA[i].Contains(col) { value |= 1 << uint64(i) } }` as an unsigned
accumulation (the bits are distinct, so `|=` is `+`; `1 << uint64(i)` is `0` for `i ≥ 64`). -/
def orBits (col : Nat) : List BSet → Nat → Nat
  | [], _ => 0
  | p :: ps, i => (if p.mem col && decide (i < 64) then 2 ^ i else 0) + orBits col ps (i + 1)

/-- `GetValue(columnID)`: `none` stands for `(0, false)`. -/
def getValue (b : Index) (col : Nat) : Option Int :=
  if !b.ebm.mem col then none else some (i64 (orBits col b.planes 0))

/-- the first component of `GetValue` (what callers that ignore `ok` see) -/
def getValueD (b : Index) (col : Nat) : Int := (getValue b col).getD 0

/-! ### ClearValues / NewBSIRetainSet / Clone -/

/-- `ClearValues(foundSet)`: every plane, then the existence bitmap, `AndNot foundSet`. -/
def clearValues (b : Index) (f : BSet) : Index :=
  { b with planes := b.planes.map (fun p => diff p f), ebm := diff b.ebm f }

/-- `NewBSIRetainSet(foundSet)`: `NewBSI(b.MaxValue, b.MinValue)` whose planes are replaced by clones `And foundSet`. -/
def retainSet (b : Index) (f : BSet) : Index :=
  { planes := b.planes.map (fun p => inter p f), ebm := inter b.ebm f, maxValue := b.maxValue, minValue := b.minValue }

/-- `Clone()`: `b.NewBSIRetainSet(b.eBM)` -/
def clone (b : Index) : Index := retainSet b b.ebm

/-! ### CompareValue -/

inductive Op where
  | LT | LE | EQ | GE | GT | RANGE
deriving Repr, DecidableEq, Inhabited

/-- `compareColumn(cID, value)`: `for j := 63; j >= 0; j--` with `n = j + 1` planes still to visit.
Result negative / zero / positive. -/
def compareColumn (b : Index) (c : Nat) (value : Int) : Nat → Int
  | 0 => 0
  | j + 1 =>
    let sliceContainsBit := decide (j < bitCount b) && (b.planes.getD j []).mem c
    if sliceContainsBit == bit64 value j then compareColumn b c value j
    else if sliceContainsBit != (j == 63) then 1 else -1

/-- the `switch e.op` of `compareValue` for one column -/
def keep (b : Index) (op : Op) (valueOrStart end_ : Int) (c : Nat) : Bool :=
  let c1 := compareColumn b c valueOrStart 64
  match op with
  | .LT => decide (c1 < 0)
  | .LE => decide (c1 ≤ 0)
  | .EQ => decide (c1 = 0)
  | .GE => decide (c1 ≥ 0)
  | .GT => decide (c1 > 0)
  | .RANGE => decide (c1 ≥ 0) && decide (compareColumn b c end_ 64 ≤ 0)

/-- the bitmap holding exactly the members of a strictly increasing list (`results.Add(cID)` in column order, then
`ParOr` of the batch results) -/
def ofSorted : List Nat → BSet
  | [] => []
  | x :: xs =>
    match ofSorted xs with
    | [] => [x, x + 1]
    | lo :: rest => if lo = x + 1 then x :: rest else x :: (x + 1) :: lo :: rest

/-- `CompareValue(parallelism, op, valueOrStart, end, foundSet)`: every column of `foundSet` (the existence bitmap when
nil) goes through `compareColumn`; NOTE that existence is not tested for the columns of a non-nil `foundSet`. -/
def compareValue (b : Index) (op : Op) (valueOrStart end_ : Int) (foundSet : Option BSet) : BSet :=
  ofSorted ((toList (foundSet.getD b.ebm)).filter (keep b op valueOrStart end_))

/-! ### MinMax -/

/-- the loop of `minOrMax` / the final reduction of `MinMax` -/
def minMaxStep (isMax : Bool) (value cVal : Int) : Int :=
  if (isMax && decide (cVal > value)) || (!isMax && decide (cVal < value)) then cVal else value

/-- `MinMax(parallelism, op, foundSet)`, `isMax = (op == MAX)`: the reduction of `GetValue` (first component: `0` for a
column without value) over the columns of `foundSet`, started at `Min64BitSigned` / `Max64BitSigned`. -/
def minMax (b : Index) (isMax : Bool) (foundSet : Option BSet) : Int :=
  (toList (foundSet.getD b.ebm)).foldl (fun acc c => minMaxStep isMax acc (getValueD b c)) (if isMax then min64 else max64)

/-! ### Sum -/

/-- `Σ_j uint64(|f ∩ bA[j]|) << j` (each term truncated to 64 bits as in Go); `i` = index of the head plane -/
def sumLoop (f : BSet) : List BSet → Nat → Nat
  | [], _ => 0
  | p :: ps, i => (card (inter f p) * 2 ^ i) % 18446744073709551616 + sumLoop f ps (i + 1)

/-- `Sum(foundSet)`: the wrapped `int64` sum and `foundSet.GetCardinality()`. -/
def sum (b : Index) (foundSet : Option BSet) : Int × Nat :=
  let f := foundSet.getD b.ebm
  (i64 (sumLoop f b.planes 0), card f)

/-! ### ParOr -/

/-- plane `j` of the result: `roaring.ParOr(parallelism, b.bA[j], x.bA[j] for every x with len(x.bA) > j)` -/
def parOrPlanes (bs : List Index) : List BSet → Nat → List BSet
  | [], _ => []
  | p :: ps, j =>
    bs.foldl (fun acc x => if x.planes.length > j then union acc (x.planes.getD j []) else acc) p
      :: parOrPlanes bs ps (j + 1)

/-- `b.ParOr(parallelism, bsis...)` -/
def parOr (b : Index) (bs : List Index) : Index :=
  let bits := bs.foldl (fun m x => if x.planes.length > m then bitCount x else m) b.planes.length
  let planes := b.planes ++ List.replicate (bits - b.planes.length) []
  { b with planes := parOrPlanes bs planes 0, ebm := bs.foldl (fun acc x => union acc x.ebm) b.ebm }

/-! ### Add / Increment -/

/-- `addDigit(foundSet, i)` seen from plane `i` upward (the argument is `bA[i:]`):
`carry := And(bA[i], foundSet); bA[i].Xor(foundSet); if !carry.IsEmpty() { addDigit(carry, i+1) }`.
The empty list stands for "plane `i` does not exist yet": Go appends an empty bitmap — either on entry
(`if i >= len(b.bA)`) or before the recursive call (`if i+1 >= len(b.bA)`) — and the new plane then becomes
`∅ Xor foundSet` with an empty carry, so the recursion stops there. -/
def addCarry : List BSet → BSet → List BSet
  | [], f => [xor [] f]
  | p :: ps, f =>
    let carry := inter p f
    if !carry.isEmpty then xor p f :: addCarry ps carry else xor p f :: ps

/-- `b.addDigit(foundSet, i)` for `i ≤ len(b.bA)` (Go indexes out of range for a larger `i`; never reached) -/
def addDigit (ps : List BSet) (f : BSet) (i : Nat) : List BSet := ps.take i ++ addCarry (ps.drop i) f

/-- `for i := 0; i < len(other.bA); i++ { b.addDigit(other.bA[i], i) }` -/
def addLoop : List BSet → List BSet → Nat → List BSet
  | ps, [], _ => ps
  | ps, q :: qs, i => addLoop (addDigit ps q i) qs (i + 1)

/-- `b.Add(other)` (`other` a different object) -/
def addIndex (b other : Index) : Index :=
  { b with planes := addLoop b.planes other.planes 0, ebm := union b.ebm other.ebm }

/-- `b.Increment(foundSet)` (nil = the existence bitmap) -/
def increment (b : Index) (foundSet : Option BSet) : Index :=
  let f := foundSet.getD b.ebm
  { b with planes := addDigit b.planes f 0, ebm := union b.ebm f }

/-! ### MarshalBinary / UnmarshalBinary -/

/-- `recv.UnmarshalBinary(src.MarshalBinary())`: the planes of the source; planes the receiver has beyond the data are
reset to empty (and kept); the existence bitmap of the source. -/
def unmarshalFrom (recv src : Index) : Index :=
  { recv with planes := src.planes ++ List.replicate (recv.planes.length - src.planes.length) [], ebm := src.ebm }

/-! ### BatchEqual: the match trie -/

def insertU (x : Nat) : List Nat → List Nat
  | [] => [x]
  | y :: ys => if x < y then x :: y :: ys else if x = y then y :: ys else y :: insertU x ys

/-- the value list of `BatchEqual`: unrepresentable values dropped, deduplicated, sorted (as `uint64`) -/
def batchVals (bitCount : Nat) (values : List Int) : List Nat :=
  values.foldl (fun acc v =>
    if bitCount < 64 && (decide (v < 0) || decide (u64 v ≥ 2 ^ bitCount)) then acc else insertU (u64 v) acc) []

/-- `matchTrie(vals, p, prefix, owned)` with `n = p + 1` planes still to visit (the `owned` flag only chooses in-place
versus fresh results) -/
def matchTrie (b : Index) : Nat → List Nat → BSet → BSet
  | 0, _, pre => pre
  | p + 1, vals, pre =>
    if pre.isEmpty then []
    else if decide (p < 63) && vals.length == 2 ^ (p + 1) then pre
    else
      let lo := vals.filter (fun v => !v.testBit p)
      let hi := vals.filter (fun v => v.testBit p)
      let plane := b.planes.getD p []
      if hi.isEmpty then matchTrie b p lo (diff pre plane)
      else if lo.isEmpty then matchTrie b p hi (inter pre plane)
      else union (matchTrie b p lo (diff pre plane)) (matchTrie b p hi (inter pre plane))

/-- `BatchEqual(parallelism, values)`; `none` = the query is large enough (`≥ 128` distinct values) for the
`shouldUseParallelScan` heuristic to be consulted, which is not modelled. -/
def batchEqual (b : Index) (values : List Int) : Option BSet :=
  if b.ebm.isEmpty || values.isEmpty then some []
  else
    let vals := batchVals (bitCount b) values
    if vals.isEmpty then some []
    else if vals.length ≥ 128 then none
    else some (matchTrie b (bitCount b) vals b.ebm)

end BSI32
end RModel
