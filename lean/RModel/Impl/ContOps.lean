import RModel.Impl.Repr
import RModel.Impl.ArrayC
/-!
L2: the NON-in-place container kernels `and`, `or`, `xor`, `andNot` of the three container kinds
(`arraycontainer.go`, `bitmapcontainer.go`, `runcontainer.go`) for all 3×3 pairings, returning **the representation the
Go kernel returns**: same kind, same payload, same cached cardinality — for well-formed operands (`Cont.wf`).

How the Go code is read (the dispatchers `func (xc *xContainer) op(a container)` and what they call):

* array × array            : the two-pointer kernels of `ArrayC`; `or`/`xor` switch to "set/toggle bits in a fresh bitmap,
                             count, go back to an array if `card ≤ 4096`" when `len a + len b > 4096`.
* array × bitmap (and/andNot): filter the array by `bitmapContainer.bitValue`.
* bitmap × array (or/xor/andNot): clone the bitmap, set / toggle / clear one bit per array value and keep the cached
                             cardinality up to date *incrementally*; xor/andNot re-type to array when `card ≤ 4096`
                             (`or` never re-types — not even a full result becomes a run container).
* bitmap × bitmap          : word-wise op + popcount; `and`/`andNot`/`xor`: array when `card ≤ 4096`;
                             `or`/`xor`: a full result is returned as the run container `[0,65535]`.
* run × anything           : `isFull` shortcuts first (`and` → clone of the other side, `or` → clone of the run);
                             run × run `and`/`or`/`andNot` work on interval lists and finish with
                             `toEfficientContainer` (run if `2+4·nruns < min(8224, 2·card)`, else array if `card ≤ 4096`,
                             else bitmap); run × array `or` merges into runs and finishes the same way;
                             `and` with an array filters the array; everything else converts the run (and an array
                             partner) to bitmap words and uses the bitmap × bitmap kernel.
Core Lean only, executable (linked into the compiled checker).
-/
namespace RModel.Impl
open RModel

namespace ContOps

/-- `arrayDefaultMaxSize` -/
def arrayMax : Nat := 4096

/-! ### bitmap words -/

/-- bit `x` of a word list (`bitmapContainer.contains` / `bitValue`) -/
def testBit (ws : List (BitVec 64)) (x : Nat) : Bool := (ws.getD (x / 64) 0#64).getLsbD (x % 64)

def bitMask (v : Nat) : BitVec 64 := 1#64 <<< (v % 64)

/-- `bitmap[v>>6] |= 1 << (v%64)` -/
def setBit (ws : List (BitVec 64)) (v : Nat) : List (BitVec 64) := ws.modify (v / 64) (· ||| bitMask v)
/-- `bitmap[v>>6] ^= 1 << (v%64)` -/
def flipBit (ws : List (BitVec 64)) (v : Nat) : List (BitVec 64) := ws.modify (v / 64) (· ^^^ bitMask v)
/-- `bitmap[v>>6] &^= 1 << (v%64)` -/
def clearBit (ws : List (BitVec 64)) (v : Nat) : List (BitVec 64) := ws.modify (v / 64) (· &&& ~~~ bitMask v)

/-- `newBitmapContainer()` : 1024 zero words -/
def emptyWords : List (BitVec 64) := List.replicate 1024 0#64

/-- `bitmapContainer.loadData(arrayContainer)` -/
def wordsOfArr (vals : List Nat) : List (BitVec 64) := vals.foldl setBit emptyWords

/-- the bits `j` of the word starting at `base` with `lo ≤ base + j < hi` -/
def rangeMask (base lo hi : Nat) : BitVec 64 :=
  if hi ≤ base || base + 64 ≤ lo || hi ≤ lo then 0#64
  else
    let a := lo - base
    let b := min hi (base + 64) - base
    (BitVec.allOnes 64 <<< a) &&& (BitVec.allOnes 64 >>> (64 - b))

def wordOfRuns (base : Nat) (rs : List (Nat × Nat)) : BitVec 64 :=
  rs.foldl (fun w (s, l) => w ||| rangeMask base s (s + l + 1)) 0#64

/-- `newBitmapContainerFromRun` / `runContainer16.toBitmapContainer` (the words; the cached cardinalities of these two
Go functions are never read by the kernels modelled here) -/
def wordsOfRuns (rs : List (Nat × Nat)) : List (BitVec 64) :=
  (List.range 1024).map fun i => wordOfRuns (64 * i) rs

def wordVals (base : Nat) (w : BitVec 64) : List Nat :=
  if w == 0#64 then [] else ((List.range 64).filter w.getLsbD).map (base + ·)

/-- `bitmapContainer.fillArray` / `fillArrayAND` …: the set bits in increasing order -/
def valsOfWordsFrom : Nat → List (BitVec 64) → List Nat
  | _, [] => []
  | base, w :: t => wordVals base w ++ valsOfWordsFrom (base + 64) t

def valsOfWords (ws : List (BitVec 64)) : List Nat := valsOfWordsFrom 0 ws

/-- `popcntSlice` -/
def wordsCard (ws : List (BitVec 64)) : Nat := (ws.map popcount).sum

def andW (a b : List (BitVec 64)) : List (BitVec 64) := List.zipWith (· &&& ·) a b
def orW (a b : List (BitVec 64)) : List (BitVec 64) := List.zipWith (· ||| ·) a b
def xorW (a b : List (BitVec 64)) : List (BitVec 64) := List.zipWith (· ^^^ ·) a b
def andNotW (a b : List (BitVec 64)) : List (BitVec 64) := List.zipWith (fun x y => x &&& ~~~ y) a b

/-! ### run lists `(start, length-1)` -/

def runsCard (rs : List (Nat × Nat)) : Nat := (rs.map fun (_, l) => l + 1).sum

def inRuns (rs : List (Nat × Nat)) (x : Nat) : Bool := rs.any fun (s, l) => s ≤ x && x ≤ s + l

/-- `runContainer16.isFull` -/
def isFullRun : List (Nat × Nat) → Bool
  | [(s, l)] => s == 0 && s + l == 65535
  | _ => false

/-- `newRunContainer16Range(0, MaxUint16)` -/
def fullRun : Cont := .run [(0, 65535)]

/-- `runContainer16.toArrayContainer` -/
def expandRuns (rs : List (Nat × Nat)) : List Nat := rs.flatMap fun (s, l) => List.range' s (l + 1)

/-- `runContainer16.toEfficientContainerFromCardinality(card)` (and `toEfficientContainer` with `card = getCardinality()`) -/
def runToEfficientCard (rs : List (Nat × Nat)) (card : Nat) : Cont :=
  if 2 + 4 * rs.length < min 8224 (2 * card) then .run rs
  else if card ≤ arrayMax then .arr (expandRuns rs)
  else .bmp (runsCard rs) (wordsOfRuns rs)

def runToEfficient (rs : List (Nat × Nat)) : Cont := runToEfficientCard rs (runsCard rs)

/-- `runContainer16.intersect` on sorted run lists: the overlaps, in order -/
def runInter : List (Nat × Nat) → List (Nat × Nat) → List (Nat × Nat)
  | [], _ => []
  | _, [] => []
  | (sa, la) :: ta, (sb, lb) :: tb =>
    let lo := max sa sb
    let hi := min (sa + la) (sb + lb)
    let out := if lo ≤ hi then [(lo, hi - lo)] else []
    if sa + la < sb + lb then out ++ runInter ta ((sb, lb) :: tb)
    else if sb + lb < sa + la then out ++ runInter ((sa, la) :: ta) tb
    else out ++ runInter ta tb
termination_by a b => a.length + b.length

/-- `runContainer16.AndNotRunContainer16` on sorted run lists -/
def runDiff : List (Nat × Nat) → List (Nat × Nat) → List (Nat × Nat)
  | [], _ => []
  | a, [] => a
  | (sa, la) :: ta, (sb, lb) :: tb =>
    if sa + la < sb then (sa, la) :: runDiff ta ((sb, lb) :: tb)
    else if sb + lb < sa then runDiff ((sa, la) :: ta) tb
    else
      let pre := if sa < sb then [(sa, sb - 1 - sa)] else []
      if sb + lb < sa + la then pre ++ runDiff ((sb + lb + 1, sa + la - (sb + lb + 1)) :: ta) tb
      else pre ++ runDiff ta ((sb, lb) :: tb)
termination_by a b => a.length + b.length

/-- merge two run lists by start -/
def runMerge : List (Nat × Nat) → List (Nat × Nat) → List (Nat × Nat)
  | [], b => b
  | a, [] => a
  | (sa, la) :: ta, (sb, lb) :: tb =>
    if sa ≤ sb then (sa, la) :: runMerge ta ((sb, lb) :: tb)
    else (sb, lb) :: runMerge ((sa, la) :: ta) tb
termination_by a b => a.length + b.length

/-- fuse overlapping / adjacent runs of a list sorted by start; `cur` is the run being grown -/
def coalesce : (cur : Nat × Nat) → List (Nat × Nat) → List (Nat × Nat)
  | cur, [] => [cur]
  | (s, l), (s', l') :: t =>
    if s' ≤ s + l + 1 then coalesce (s, max (s + l) (s' + l') - s) t
    else (s, l) :: coalesce (s', l') t

/-- `runContainer16.union` (and `runArrayUnionToRuns` with the array values as runs of length 1):
the maximal runs of the union -/
def runUnion (a b : List (Nat × Nat)) : List (Nat × Nat) :=
  match runMerge a b with
  | [] => []
  | h :: t => coalesce h t

/-! ### re-typing after a word-wise kernel -/

/-- `andBitmap` / `andNotBitmap`: bitmap if `card > 4096`, else array -/
def ofWordsAB (ws : List (BitVec 64)) : Cont :=
  let c := wordsCard ws
  if c > arrayMax then .bmp c ws else .arr (valsOfWords ws)

/-- `xorBitmap`: as above, and a full result becomes the run container `[0,65535]` -/
def ofWordsXor (ws : List (BitVec 64)) : Cont :=
  let c := wordsCard ws
  if c > arrayMax then (if c == 65536 then fullRun else .bmp c ws) else .arr (valsOfWords ws)

/-- `orBitmap` / `iorBitmap`: always a bitmap, except that a full result becomes the run container `[0,65535]` -/
def ofWordsOr (ws : List (BitVec 64)) : Cont :=
  let c := wordsCard ws
  if c == 65536 then fullRun else .bmp c ws

/-- `arrayContainer.orArray` / `xorArray` on the bitmap path (`len a + len b > 4096`) -/
def ofWordsArrArr (ws : List (BitVec 64)) : Cont :=
  let c := wordsCard ws
  if c ≤ arrayMax then .arr (valsOfWords ws) else .bmp c ws

end ContOps

open ContOps

/-- the bitmap words of a container (`toBitmapContainer`) -/
def Cont.toBitmapWords : Cont → List (BitVec 64)
  | .arr vals => wordsOfArr vals
  | .bmp _ ws => ws
  | .run rs => wordsOfRuns rs

/-- membership as each kind tests it (`contains`) -/
def Cont.has : Cont → Nat → Bool
  | .arr vals, x => vals.contains x
  | .bmp _ ws, x => testBit ws x
  | .run rs, x => inRuns rs x

/-- maximal runs `(start, length-1)` of a boundary list -/
def runsOfBounds : BSet → List (Nat × Nat)
  | lo :: hi :: t => (lo, hi - 1 - lo) :: runsOfBounds t
  | _ => []

/-- maximal runs of a word list (`newRunContainer16FromBitmapContainer`) -/
def runsOfWords (ws : List (BitVec 64)) : List (Nat × Nat) :=
  runsOfBounds (wordsBoundsFast 0 false ws []).flatten

/-- maximal runs of a strictly increasing value list (`newRunContainer16FromArray`) -/
def runsOfVals (vals : List Nat) : List (Nat × Nat) :=
  runsOfBounds (sortedValsBounds 0 vals none [])

/-- `numberOfRuns` of each kind (for arrays: of a strictly increasing list) -/
def Cont.numberOfRuns : Cont → Nat
  | .arr vals => (runsOfVals vals).length
  | .bmp _ ws => (runsOfWords ws).length
  | .run rs => rs.length

/-- `toEfficientContainer` of each kind -/
def Cont.toEfficient : Cont → Cont
  | .arr vals =>
    let rs := runsOfVals vals
    if 2 + 4 * rs.length < min 8224 (2 * vals.length) then .run rs
    else if vals.length ≤ arrayMax then .arr vals
    else .bmp vals.length (wordsOfArr vals)
  | .bmp c ws =>
    let rs := runsOfWords ws
    if (2 + 4 * rs.length : Int) < min 8224 (2 * c) then .run rs
    else if c ≤ (arrayMax : Int) then .arr (valsOfWords ws)
    else .bmp c ws
  | .run rs => runToEfficient rs

/-- a container from bitmap words, typed by cardinality (array up to 4096 values, else bitmap) -/
def Cont.ofWords (ws : List (BitVec 64)) : Cont := ofWordsAB ws

/-! ### the four kernels -/

def Cont.and2 : Cont → Cont → Cont
  | .arr xs, .arr ys => .arr (ArrayC.intersection2by2 xs ys)                 -- andArray
  | .arr xs, .bmp _ ws => .arr (xs.filter (testBit ws))                      -- bitmapContainer.andArray
  | .arr xs, .run rs =>
      if isFullRun rs then .arr xs                                            -- ac.clone()
      else if rs.isEmpty then .arr []                                         -- newArrayContainer()
      else .arr (xs.filter (inRuns rs))                                       -- runContainer16.andArray
  | .bmp _ ws, .arr ys => .arr (ys.filter (testBit ws))
  | .bmp _ ws1, .bmp _ ws2 => ofWordsAB (andW ws1 ws2)                        -- andBitmap
  | .bmp c ws, .run rs =>
      if isFullRun rs then .bmp c ws                                          -- bc.clone()
      else ofWordsAB (andW (wordsOfRuns rs) ws)                               -- andBitmapContainer
  | .run rs, b =>
      if isFullRun rs then b                                                  -- a.clone()
      else match b with
        | .run rs2 => runToEfficient (runInter rs rs2)                        -- intersect(..).toEfficientContainer()
        | .arr ys => if rs.isEmpty then .arr [] else .arr (ys.filter (inRuns rs))
        | .bmp _ ws => ofWordsAB (andW (wordsOfRuns rs) ws)

/-- `runContainer16.orArray` -/
def runOrArr (rs : List (Nat × Nat)) (ys : List Nat) : Cont :=
  if ys.isEmpty then .run rs
  else if rs.isEmpty then .arr ys
  else runToEfficient (runUnion rs (ys.map fun v => (v, 0)))

/-- `bitmapContainer.orArray`: cached cardinality + one for every value that was not yet present -/
def bmpOrArr (c : Int) (ws : List (BitVec 64)) (ys : List Nat) : Cont :=
  .bmp (c + ((ys.filter fun v => !testBit ws v).length : Nat)) (ys.foldl setBit ws)

def Cont.or2 : Cont → Cont → Cont
  | .arr xs, .arr ys =>
      if xs.length + ys.length > arrayMax then ofWordsArrArr (xs.foldl setBit (wordsOfArr ys))
      else .arr (ArrayC.union2by2 xs ys)
  | .arr xs, .bmp c ws => bmpOrArr c ws xs
  | .arr xs, .run rs => if isFullRun rs then .run rs else runOrArr rs xs
  | .bmp c ws, .arr ys => bmpOrArr c ws ys
  | .bmp _ ws1, .bmp _ ws2 => ofWordsOr (orW ws1 ws2)
  | .bmp _ ws, .run rs => if isFullRun rs then .run rs else ofWordsOr (orW (wordsOfRuns rs) ws)
  | .run rs, b =>
      if isFullRun rs then .run rs
      else match b with
        | .run rs2 => runToEfficient (runUnion rs rs2)
        | .arr ys => runOrArr rs ys
        | .bmp _ ws => ofWordsOr (orW (wordsOfRuns rs) ws)

/-- `bitmapContainer.xorArray`: cardinality ±1 per toggled bit; array when it ends `≤ 4096` -/
def bmpXorArr (c : Int) (ws : List (BitVec 64)) (ys : List Nat) : Cont :=
  let c' : Int := c + ((ys.filter fun v => !testBit ws v).length : Nat) - ((ys.filter fun v => testBit ws v).length : Nat)
  let ws' := ys.foldl flipBit ws
  if c' ≤ (arrayMax : Int) then .arr (valsOfWords ws') else .bmp c' ws'

def Cont.xor2 : Cont → Cont → Cont
  | .arr xs, .arr ys =>
      if xs.length + ys.length > arrayMax then ofWordsArrArr (xs.foldl flipBit (ys.foldl flipBit emptyWords))
      else .arr (ArrayC.exclusiveUnion2by2 xs ys)
  | .arr xs, .bmp c ws => bmpXorArr c ws xs
  | .bmp c ws, .arr ys => bmpXorArr c ws ys
  | .bmp _ ws1, .bmp _ ws2 => ofWordsXor (xorW ws1 ws2)
  | .arr xs, .run rs => ofWordsXor (xorW (wordsOfRuns rs) (wordsOfArr xs))   -- x.xorArray(ac)
  | .bmp _ ws, .run rs => ofWordsXor (xorW (wordsOfRuns rs) ws)              -- x.xorBitmap(bc)
  | .run rs, b => ofWordsXor (xorW (wordsOfRuns rs) b.toBitmapWords)

/-- `bitmapContainer.andNotArray`: cardinality −1 per cleared bit; array when it ends `≤ 4096` -/
def bmpAndNotArr (c : Int) (ws : List (BitVec 64)) (ys : List Nat) : Cont :=
  let c' : Int := c - ((ys.filter fun v => testBit ws v).length : Nat)
  let ws' := ys.foldl clearBit ws
  if c' ≤ (arrayMax : Int) then .arr (valsOfWords ws') else .bmp c' ws'

def Cont.andNot2 : Cont → Cont → Cont
  | .arr xs, .arr ys => .arr (ArrayC.difference xs ys)
  | .arr xs, .bmp _ ws => .arr (xs.filter fun v => !testBit ws v)            -- andNotBitmap
  | .bmp c ws, .arr ys => bmpAndNotArr c ws ys
  | .run rs, .run rs2 => runToEfficient (runDiff rs rs2)
  | a, b => ofWordsAB (andNotW a.toBitmapWords b.toBitmapWords)

end RModel.Impl
