import RModel.Impl.Rep64Mut
/-!
L2 of `roaring64`: the READ-ONLY drivers of `roaring64.go` / `roaringarray64.go` on the stored representation `Rep64`, as
the Go code runs them, delegating inside a bucket to the 32-bit drivers of `Impl/RepQuery.lean`:

  `Contains ContainsInt GetCardinality IsEmpty Minimum Maximum Rank Select Equals AndCardinality OrCardinality Intersects`

(`roaring64.go` has no neighbour searches `NextValue` / `PreviousValue` / `NextAbsentValue` / `PreviousAbsentValue` and no
`CardinalityInRange`: checked.)

How the Go code is read
* `Contains(x)`: `getContainer(x>>32)` = `binarySearch` over the key array (NOT `getIndex`), `nil` → `false`, else the 32-bit
  `Contains(uint32(x))`.  `ContainsInt(x)` = `Contains(uint64(x))`.
* `GetCardinality`: one pass adding the 32-bit `GetCardinality()` of every bucket (`uint64`).
* `Minimum` / `Maximum`: bucket `0` / `len-1`, the 32-bit `Minimum()` / `Maximum()`, `uint64(v) | uint64(key)<<32`.  The doc
  comment says "assumes that it is not empty"; on an empty bitmap the Go code PANICS (index out of range): modelled as the
  outcome `none` — not totalised.  (An empty inner bitmap would make the 32-bit method panic: also `none`.)
* `Rank(x)`: the buckets in order; key above `x>>32` → return what was counted; key below → add the whole bucket; equal → add the
  32-bit `Rank(uint32(x))` and return.
* `Select(x)`: `cardinality := GetCardinality(); if cardinality <= x` → error (`none`); else walk subtracting whole buckets
  while `remaining >= bucket cardinality`, then the 32-bit `Select(uint32(remaining))` (its error is passed on: `none`), the
  result `uint64(key)<<32 + uint64(selected)`; falling off the end is the second error return.
* `x.Equals(y)` = `y.highlowcontainer.equals(x.highlowcontainer)`: sizes, then ALL keys, then `ybucket.Equals(xbucket)` per index
  (the 32-bit `Equals`, `Rep.equals`).  Flags and the switches play no role.
* `AndCardinality` / `Intersects`: two-pointer walk with `advanceUntil` (gallop + bisect, the algorithm of the 32-bit key array:
  `RepQuery.advFrom`) on the side with the smaller key; equal keys → the 32-bit `AndCardinality` / `Intersects`.
  `OrCardinality`: two-pointer walk one key per turn, equal keys → `roaring.Or(c1, c2).GetCardinality()` (the union IS
  materialised: `Rep.or2`), then the two tail loops.
* results: `Int`; a value `uint64(v) | uint64(key)<<32` / `uint64(key)<<32 + uint64(v)` is written `key * 2^32 + v` (`combine64`;
  the same number for `0 ≤ v < 2^32`, the only values a 32-bit bitmap returns); `ContQuery.undef` (−2) marks the branches of the
  walks where `advanceUntil` would not move forward (unreachable on well-formed operands — part of the theorems).

The functions are NOT defined through the set abstraction `toBSet`; that they compute the set-level answers is proved in
`RProofs/Rep64Query.lean`, and that they return what the real Go functions return is checked line by line by the `l2q64`
correspondence check (`Driver/L2R64Q.lean`).  Core Lean only, executable.
-/
namespace RModel.Impl
open RModel

namespace R64Q
open RepQuery ContQuery

/-- `uint64(v) | uint64(key)<<32` for `0 ≤ v < 2^32` -/
def combine64 (key : Nat) (v : Int) : Int := (key : Int) * 4294967296 + v

/-- `roaringArray64.getContainer(x)`: `nil` = `none` -/
def getContainer64 (bs : List Bucket) (x : Nat) : Option Rep :=
  let i := binarySearch (keys64 bs) x
  if i < 0 then none else some (bAt bs i.toNat).bm

/-- `for _, c := range containers { size += c.GetCardinality() }` -/
def cardSum64 : List Bucket → Int
  | [] => 0
  | b :: t => b.bm.getCardinality + cardSum64 t

/-- the loop of `Rank` -/
def rankLoop64 (hb lb : Nat) : List Bucket → Int
  | [] => 0
  | b :: t =>
    if b.high > hb then 0
    else if b.high < hb then b.bm.getCardinality + rankLoop64 hb lb t
    else b.bm.rank lb

/-- the loop of `Select`; `none` = an `error` result -/
def selectLoop64 : List Bucket → Nat → Option Int
  | [], _ => none
  | b :: t, remaining =>
    let size := b.bm.getCardinality
    if (remaining : Int) ≥ size then selectLoop64 t (remaining - size.toNat)
    else (b.bm.select (remaining % 4294967296)).map (combine64 b.high)            -- c.Select(uint32(remaining))

/-- `for i, k := range ra.keys { if k != srb.keys[i] { return false } }` (equal lengths) -/
def keysEq64 : List Bucket → List Bucket → Bool
  | a :: ta, b :: tb => if a.high != b.high then false else keysEq64 ta tb
  | _, _ => true

/-- `for i, c := range ra.containers { if !c.Equals(srb.containers[i]) { return false } }` (equal lengths) -/
def bmsEq64 : List Bucket → List Bucket → Bool
  | a :: ta, b :: tb => if !(a.bm.equals b.bm) then false else bmsEq64 ta tb
  | _, _ => true

/-- the walk of `AndCardinality` from `(pos1, pos2)` -/
def andCardWalk64 (a b : List Bucket) (pos1 pos2 : Nat) : Int :=
  if pos1 < a.length ∧ pos2 < b.length then
    if (bAt a pos1).high = (bAt b pos2).high then
      (bAt a pos1).bm.andCardinality (bAt b pos2).bm + andCardWalk64 a b (pos1 + 1) (pos2 + 1)
    else if (bAt a pos1).high < (bAt b pos2).high then
      -- pos1 = advanceUntil(s2, pos1)
      if pos1 < advFrom (keys64 a) (pos1 + 1) a.length (bAt b pos2).high then
        andCardWalk64 a b (advFrom (keys64 a) (pos1 + 1) a.length (bAt b pos2).high) pos2
      else undef
    else
      if pos2 < advFrom (keys64 b) (pos2 + 1) b.length (bAt a pos1).high then
        andCardWalk64 a b pos1 (advFrom (keys64 b) (pos2 + 1) b.length (bAt a pos1).high)
      else undef
  else 0
termination_by (a.length - pos1) + (b.length - pos2)
decreasing_by all_goals omega

/-- the walk of `Intersects` from `(pos1, pos2)` -/
def intersectsWalk64 (a b : List Bucket) (pos1 pos2 : Nat) : Bool :=
  if pos1 < a.length ∧ pos2 < b.length then
    if (bAt a pos1).high = (bAt b pos2).high then
      if (bAt a pos1).bm.intersects (bAt b pos2).bm then true else intersectsWalk64 a b (pos1 + 1) (pos2 + 1)
    else if (bAt a pos1).high < (bAt b pos2).high then
      if pos1 < advFrom (keys64 a) (pos1 + 1) a.length (bAt b pos2).high then
        intersectsWalk64 a b (advFrom (keys64 a) (pos1 + 1) a.length (bAt b pos2).high) pos2
      else false
    else
      if pos2 < advFrom (keys64 b) (pos2 + 1) b.length (bAt a pos1).high then
        intersectsWalk64 a b pos1 (advFrom (keys64 b) (pos2 + 1) b.length (bAt a pos1).high)
      else false
  else false
termination_by (a.length - pos1) + (b.length - pos2)
decreasing_by all_goals omega

/-- the walk of `OrCardinality` (one key per turn) and its two tail loops -/
def orCardBuckets : List Bucket → List Bucket → Int
  | [], b => cardSum64 b
  | a, [] => cardSum64 a
  | ba :: ta, bb :: tb =>
    if ba.high < bb.high then ba.bm.getCardinality + orCardBuckets ta (bb :: tb)
    else if bb.high < ba.high then bb.bm.getCardinality + orCardBuckets (ba :: ta) tb
    else (Rep.or2 ba.bm bb.bm).getCardinality + orCardBuckets ta tb
termination_by a b => a.length + b.length

end R64Q

open R64Q

/-! ### the drivers -/

/-- `Contains(x)` -/
def Rep64.contains (r : Rep64) (x : Nat) : Bool :=
  match getContainer64 r.buckets (x / 4294967296) with
  | none => false
  | some c => c.contains (x % 4294967296)

/-- `ContainsInt(x)`: `Contains(uint64(x))` for a 64-bit `int` -/
def Rep64.containsInt (r : Rep64) (x : Int) : Bool := r.contains (x % 18446744073709551616).toNat

/-- `GetCardinality()` -/
def Rep64.getCardinality (r : Rep64) : Int := cardSum64 r.buckets

/-- `Minimum()`; `none` = the Go code panics (empty bitmap) -/
def Rep64.minimum (r : Rep64) : Option Int :=
  if r.buckets.length = 0 then none
  else ((bAt r.buckets 0).bm.minimum).map (combine64 (bAt r.buckets 0).high)

/-- `Maximum()`; `none` = the Go code panics (empty bitmap) -/
def Rep64.maximum (r : Rep64) : Option Int :=
  if r.buckets.length = 0 then none
  else
    let lastindex := r.buckets.length - 1
    ((bAt r.buckets lastindex).bm.maximum).map (combine64 (bAt r.buckets lastindex).high)

/-- `Rank(x)` -/
def Rep64.rank (r : Rep64) (x : Nat) : Int := rankLoop64 (x / 4294967296) (x % 4294967296) r.buckets

/-- `Select(x)`; `none` = an `error` result -/
def Rep64.select (r : Rep64) (x : Nat) : Option Int :=
  if r.getCardinality ≤ (x : Int) then none else selectLoop64 r.buckets x

/-- `x.Equals(y)` = `y.highlowcontainer.equals(x.highlowcontainer)` -/
def Rep64.equals (x y : Rep64) : Bool :=
  if x.buckets.length != y.buckets.length then false
  else keysEq64 y.buckets x.buckets && bmsEq64 y.buckets x.buckets

/-- `x.AndCardinality(y)` -/
def Rep64.andCardinality (x y : Rep64) : Int := andCardWalk64 x.buckets y.buckets 0 0

/-- `x.OrCardinality(y)` -/
def Rep64.orCardinality (x y : Rep64) : Int := orCardBuckets x.buckets y.buckets

/-- `x.Intersects(y)` -/
def Rep64.intersects (x y : Rep64) : Bool := intersectsWalk64 x.buckets y.buckets 0 0

end RModel.Impl
