import RModel.Impl.ContOps
/-!
L2: the container-level MUTATION kernels of the three container kinds (`arraycontainer.go`, `bitmapcontainer.go`,
`runcontainer.go`), returning **the representation the Go kernel returns** (kind, payload, cached cardinality) for a
well-formed receiver (`Cont.wf`) and in-domain arguments (`x < 65536`, `lo ≤ hi ≤ 65536`):

* `Cont.iaddRM / iremoveRM`  — `iaddReturnMinimized(x)` / `iremoveReturnMinimized(x)` (what `Bitmap.Add/Remove` call),
* `Cont.iadd / iremove`      — the bare `iadd(x)` / `iremove(x)` (container after the call + returned boolean),
* `Cont.iaddRange / iremoveRange` — half-open `[lo, hi)`,
* `Cont.notRange / inotRange`     — `not(lo, hi)` / `inot(lo, hi)`,
* `Cont.iand2 / ior2 / ixor2 / iandNot2` — the in-place binary kernels, 3×3 pairings.

How the Go code is read.

array receiver
* `iaddReturnMinimized`: already present → unchanged; 4096 values already → `toBitmapContainer()` (cached cardinality
  := len) then `iadd` (+1); else sorted insertion (the "append at the end" fast path is the same function).
* bare `iadd` never re-types (a 4096-value array becomes a 4097-value array: the kernel is only reachable through
  `iaddReturnMinimized`, which guards it); `iremove*` delete by binary search, an empty array may be returned.
* `iaddRange`: new cardinality `#{v<lo} + #{v≥hi} + (hi-lo)`; `> 4096` → `toBitmapContainer().iaddRange` else splice.
* `iremoveRange`: splice out; never re-types.
* `not / inot` (`notClose / inotClose`): new cardinality `len + span − 2·#in-range`; `> 4096` → the bitmap kernel on
  `toBitmapContainer()`; else the array with the range complemented.
bitmap receiver
* `iadd / iremove`: one bit, cardinality ±1 when the bit changed; `iaddReturnMinimized` returns the run container
  `[0,65535]` when the result is full; `iremoveReturnMinimized` returns an array exactly when the cardinality
  becomes 4096 (bare `iremove` keeps a 4096-value bitmap: only reachable through the minimizing form).
* `iaddRange`: `setBitmapRange`, cardinality by popcount difference, **never re-typed** (a full result stays a bitmap).
* `iremoveRange`: `resetBitmapRange`, same bookkeeping, array when `≤ 4096`.
* `inot / not`: `flipBitmapRange`; cardinality `65536 − c` for the whole chunk, recount when the span is `> 32768`, else
  popcount difference; array when `≤ 4096`.
run receiver
* `iadd` = `Add` (extend / fuse neighbours / insert), `iremove` = `removeKey` (shrink / split / delete): on a
  well-formed run list these are the maximal runs of the new set, i.e. `runUnion rs [(x,0)]` / `runDiff rs [(x,0)]`;
  the `…ReturnMinimized` forms finish with `toEfficientContainer`.
* `iaddRange` = `union` with the one-run container, `iremoveRange` = `isubtract`: in-place contract, **no re-typing**
  (`Bitmap.AddRange/RemoveRange` re-type afterwards through `minimizeRunContainer`).
* `not / inot` = `Not(lo,hi).toEfficientContainer()`, `Not` = `(¬A ∩ B) ∪ (A \ B)` on interval lists.
in-place binary kernels: mostly the non-in-place kernels of `ContOps`; the differences are spelled out below.

The model is tied to the Go code by the `kern` correspondence check (`Driver/Kern.lean`, verdict `l2Mut`): for a
well-formed receiver the rendering of the model result must be literally the Go result token.
Core Lean only, executable (linked into the compiled checker).
-/
namespace RModel.Impl
open RModel

namespace ContMut
open ContOps

/-- sorted insertion (`binarySearch` + shift); leaves the list alone when the value is present -/
def insertVal (x : Nat) : List Nat → List Nat
  | [] => [x]
  | y :: t => if x < y then x :: y :: t else if x = y then y :: t else y :: insertVal x t

/-- the half-open range `[lo, hi)` as a run list -/
def rangeRuns (lo hi : Nat) : List (Nat × Nat) := if lo < hi then [(lo, hi - 1 - lo)] else []

/-- `setBitmapRange(bitmap, lo, hi)` -/
def setRangeW (ws : List (BitVec 64)) (lo hi : Nat) : List (BitVec 64) := orW ws (wordsOfRuns (rangeRuns lo hi))
/-- `resetBitmapRange(bitmap, lo, hi)` -/
def clearRangeW (ws : List (BitVec 64)) (lo hi : Nat) : List (BitVec 64) := andNotW ws (wordsOfRuns (rangeRuns lo hi))
/-- `flipBitmapRange(bitmap, lo, hi)` -/
def flipRangeW (ws : List (BitVec 64)) (lo hi : Nat) : List (BitVec 64) := xorW ws (wordsOfRuns (rangeRuns lo hi))

/-- `…AndCardinalityChange`: popcount after − popcount before (the Go code counts only the touched words; the other
words are unchanged, so the difference is the same number) -/
def cardDelta (before after : List (BitVec 64)) : Int := (wordsCard after : Int) - (wordsCard before : Int)

/-! ### bitmap receiver -/

/-- `bitmapContainer.iadd` -/
def bmpAdd (c : Int) (ws : List (BitVec 64)) (x : Nat) : Cont × Bool :=
  let isNew := !testBit ws x
  (.bmp (c + (if isNew then 1 else 0)) (setBit ws x), isNew)

/-- `bitmapContainer.iaddReturnMinimized` -/
def bmpAddRM (c : Int) (ws : List (BitVec 64)) (x : Nat) : Cont :=
  let c' : Int := c + (if testBit ws x then 0 else 1)
  if c' == 65536 then fullRun else .bmp c' (setBit ws x)

/-- `bitmapContainer.iremove` -/
def bmpRemove (c : Int) (ws : List (BitVec 64)) (x : Nat) : Cont × Bool :=
  if testBit ws x then (.bmp (c - 1) (clearBit ws x), true) else (.bmp c ws, false)

/-- `bitmapContainer.iremoveReturnMinimized` -/
def bmpRemoveRM (c : Int) (ws : List (BitVec 64)) (x : Nat) : Cont :=
  if testBit ws x then
    (if c - 1 == 4096 then .arr (valsOfWords (clearBit ws x)) else .bmp (c - 1) (clearBit ws x))
  else .bmp c ws

/-- `bitmapContainer.iaddRange` -/
def bmpAddRange (c : Int) (ws : List (BitVec 64)) (lo hi : Nat) : Cont :=
  let ws' := setRangeW ws lo hi
  .bmp (c + cardDelta ws ws') ws'

/-- `bitmapContainer.iremoveRange` -/
def bmpRemoveRange (c : Int) (ws : List (BitVec 64)) (lo hi : Nat) : Cont :=
  let ws' := clearRangeW ws lo hi
  let c' := c + cardDelta ws ws'
  if c' ≤ (arrayMax : Int) then .arr (valsOfWords ws') else .bmp c' ws'

/-- `bitmapContainer.inot` (and `not` = `clone().inot`) -/
def bmpNot (c : Int) (ws : List (BitVec 64)) (lo hi : Nat) : Cont :=
  let ws' := flipRangeW ws lo hi
  let span : Int := (hi : Int) - (lo : Int)
  let c' : Int :=
    if span == 65536 then 65536 - c
    else if span > 32768 then (wordsCard ws' : Int)
    else c + cardDelta ws ws'
  if c' ≤ (arrayMax : Int) then .arr (valsOfWords ws') else .bmp c' ws'

/-! ### array receiver -/

/-- `arrayContainer.iaddRange` -/
def arrAddRange (xs : List Nat) (lo hi : Nat) : Cont :=
  if hi ≤ lo then .arr xs
  else
    let pre := xs.filter (· < lo)
    let post := xs.filter (hi ≤ ·)
    if pre.length + post.length + (hi - lo) > arrayMax then bmpAddRange xs.length (wordsOfArr xs) lo hi
    else .arr (pre ++ List.range' lo (hi - lo) ++ post)

/-- `arrayContainer.iremoveRange` -/
def arrRemoveRange (xs : List Nat) (lo hi : Nat) : Cont :=
  .arr (xs.filter fun v => v < lo || hi ≤ v)

/-- `arrayContainer.notClose` / `inotClose` -/
def arrNot (xs : List Nat) (lo hi : Nat) : Cont :=
  if hi ≤ lo then .arr xs
  else
    let cur := (xs.filter fun v => lo ≤ v && v < hi).length
    let newCard := (xs.length - cur) + ((hi - lo) - cur)
    if newCard > arrayMax then bmpNot xs.length (wordsOfArr xs) lo hi
    else .arr (xs.filter (· < lo) ++ (List.range' lo (hi - lo)).filter (fun v => !xs.contains v) ++ xs.filter (hi ≤ ·))

/-! ### run receiver -/

/-- `runContainer16.Add` on a well-formed run list -/
def runAdd (rs : List (Nat × Nat)) (x : Nat) : List (Nat × Nat) := runUnion rs [(x, 0)]

/-- `runContainer16.removeKey` on a well-formed run list -/
def runRemove (rs : List (Nat × Nat)) (x : Nat) : List (Nat × Nat) := runDiff rs [(x, 0)]

/-- `runContainer16.Not(lo, hi)`: `(¬A ∩ B) ∪ (A \ B)` with `B = [lo, hi)` (`¬A ∩ B` computed as `B \ A`) -/
def runFlip (rs : List (Nat × Nat)) (lo hi : Nat) : List (Nat × Nat) :=
  let b := rangeRuns lo hi
  runUnion (runDiff b rs) (runDiff rs b)

end ContMut

open ContOps ContMut

/-! ### the unary mutators -/

/-- `iaddReturnMinimized(x)` -/
def Cont.iaddRM : Cont → Nat → Cont
  | .arr xs, x =>
      if xs.contains x then .arr xs
      else if xs.length ≥ arrayMax then (bmpAdd xs.length (wordsOfArr xs) x).1
      else .arr (insertVal x xs)
  | .bmp c ws, x => bmpAddRM c ws x
  | .run rs, x => runToEfficient (runAdd rs x)

/-- `iadd(x)`: the receiver after the call and the returned "was new" -/
def Cont.iadd : Cont → Nat → Cont × Bool
  | .arr xs, x => (.arr (insertVal x xs), !xs.contains x)
  | .bmp c ws, x => bmpAdd c ws x
  | .run rs, x => (.run (runAdd rs x), !inRuns rs x)

/-- `iremoveReturnMinimized(x)` -/
def Cont.iremoveRM : Cont → Nat → Cont
  | .arr xs, x => .arr (xs.filter (· != x))
  | .bmp c ws, x => bmpRemoveRM c ws x
  | .run rs, x => runToEfficient (runRemove rs x)

/-- `iremove(x)`: the receiver after the call and the returned "was present" -/
def Cont.iremove : Cont → Nat → Cont × Bool
  | .arr xs, x => (.arr (xs.filter (· != x)), xs.contains x)
  | .bmp c ws, x => bmpRemove c ws x
  | .run rs, x => (.run (runRemove rs x), inRuns rs x)

/-- `iaddRange(lo, hi)` -/
def Cont.iaddRange : Cont → Nat → Nat → Cont
  | .arr xs, lo, hi => arrAddRange xs lo hi
  | .bmp c ws, lo, hi => bmpAddRange c ws lo hi
  | .run rs, lo, hi => .run (runUnion rs (rangeRuns lo hi))     -- `*rc = *rc.union(addme)`: stays a run container

/-- `iremoveRange(lo, hi)` -/
def Cont.iremoveRange : Cont → Nat → Nat → Cont
  | .arr xs, lo, hi => arrRemoveRange xs lo hi
  | .bmp c ws, lo, hi => bmpRemoveRange c ws lo hi
  | .run rs, lo, hi => .run (runDiff rs (rangeRuns lo hi))      -- `isubtract`: stays a run container

/-- `not(lo, hi)` -/
def Cont.notRange : Cont → Nat → Nat → Cont
  | .arr xs, lo, hi => arrNot xs lo hi
  | .bmp c ws, lo, hi => bmpNot c ws lo hi
  | .run rs, lo, hi => runToEfficient (runFlip rs lo hi)

/-- `inot(lo, hi)`: in all three kinds the returned container is the one `not` returns (array: `inotClose` computes
the same list in place; bitmap: `not` IS `clone().inot`; run: `rc = rc.Not(..); return rc.toEfficientContainer()`) -/
def Cont.inotRange (a : Cont) (lo hi : Nat) : Cont := a.notRange lo hi

/-! ### the in-place binary kernels -/

/-- `iand`: differs from `and` only for a bitmap receiver with an array / run argument, which goes through
`iandBitmap` on the argument converted to a bitmap -/
def Cont.iand2 : Cont → Cont → Cont
  | .bmp _ ws, .arr ys => ofWordsAB (andW ws (wordsOfArr ys))
  | .bmp c ws, .run rs => if isFullRun rs then .bmp c ws else ofWordsAB (andW ws (wordsOfRuns rs))
  | a, b => a.and2 b

/-- `ior` -/
def Cont.ior2 : Cont → Cont → Cont
  | .arr xs, .arr ys =>                                          -- iorArray: merge, bitmap only when really > 4096
      let u := ArrayC.union2by2 xs ys
      if u.length > arrayMax then .bmp u.length (wordsOfArr u) else .arr u
  | .arr xs, .run rs =>
      if isFullRun rs then .run rs
      else if runsCard rs < xs.length && runsCard rs + xs.length < arrayMax then   -- iorRun16: heuristic, add range by range
        rs.foldl (fun acc p => acc.iaddRange p.1 (p.1 + p.2 + 1)) (.arr xs)
      else runOrArr rs xs
  | .bmp c ws, .arr ys =>                                        -- iorArray: as orArray, plus the full check
      let c' : Int := c + ((ys.filter fun v => !testBit ws v).length : Nat)
      if c' == 65536 then fullRun else .bmp c' (ys.foldl setBit ws)
  | .bmp c ws, .run rs =>                                        -- iaddRange run by run, then the full check
      if isFullRun rs then .run rs
      else
        let ws' := orW ws (wordsOfRuns rs)
        let c' := c + cardDelta ws ws'
        if c' == 65536 then fullRun else .bmp c' ws'
  | a, b => a.or2 b

/-- `ixor`: everything that is not array × array / array × bitmap goes through `ixorBitmap` (no "full → run" step),
except run × bitmap which is `value2.xor(rc)` -/
def Cont.ixor2 : Cont → Cont → Cont
  | .arr xs, .arr ys => (Cont.arr xs).xor2 (.arr ys)
  | .arr xs, .bmp c ws => (Cont.arr xs).xor2 (.bmp c ws)
  | .arr xs, .run rs => ofWordsAB (xorW (wordsOfRuns rs) (wordsOfArr xs))
  | .bmp _ ws, b => ofWordsAB (xorW ws b.toBitmapWords)
  | .run rs, .bmp _ ws => ofWordsXor (xorW (wordsOfRuns rs) ws)
  | .run rs, b => ofWordsAB (xorW (wordsOfRuns rs) b.toBitmapWords)

/-- `iandNot` -/
def Cont.iandNot2 : Cont → Cont → Cont
  | .arr xs, .run rs => .arr (xs.filter fun v => !inRuns rs v)   -- iandNotRun16: in-place filter
  | .bmp c ws, .run rs =>                                        -- iandNotRun16: reset range by range
      let ws' := andNotW ws (wordsOfRuns rs)
      let c' := c + cardDelta ws ws'
      if c' ≤ (arrayMax : Int) then .arr (valsOfWords ws') else .bmp c' ws'
  | .run rs, .arr ys =>                                          -- to bitmaps, iandNotBitmapSurely, toEfficientContainer
      let ws' := andNotW (wordsOfRuns rs) (wordsOfArr ys)
      (Cont.bmp (wordsCard ws') ws').toEfficient
  | .run rs, .bmp _ ws =>
      let ws' := andNotW (wordsOfRuns rs) ws
      (Cont.bmp (wordsCard ws') ws').toEfficient
  | a, b => a.andNot2 b

end RModel.Impl
