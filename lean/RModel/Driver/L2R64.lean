import RModel.Driver.State
import RModel.Driver.Ser
import RModel.Driver.R64
import RModel.Impl.Rep64
import RModel.Impl.Rep64Agg
import RModel.Impl.RepXform
/-!
roaring64 bucket-level exact-representation tie (model: `Impl/Rep64.lean`, Go side: `harness/l2r64.go`).

`repr64` = `cow=<0|1>` then per bucket `|<high>@<flag 0|1>@<repr32>`.

* `l2op64 <and|or|xor|andnot> z x y` — Go prints `<repr64 x before> <repr64 y before> <repr64 z> ok`, or
  `… chg <repr64 x after> <repr64 y after>` when the raw representation of an operand changed.  Checked, in this order:
  1. the representations parse; the abstraction of the operands' representations is the model state (`st.bm64`) of `x`, `y`;
  2. SET semantics: the abstraction of `repr64(z)` is the L1 operation (verified `BSet`) on the model states;
  3. the abstraction of the operands is unchanged, and (well-formed operands) the operands afterwards are literally what
     the model says (`Rep64.afterStatic`: only inner flags of buckets whose own copy-on-write switch is on may change);
  4. for well-formed operands (`Rep64.wf`): `render64 (Rep64.<op> rx ry)` is literally the third token (same keys, which
     buckets were dropped, flags, every inner bitmap container by container), and the result is well-formed.
* `l2flip64 z x lo hi` (static `Flip`) and `l2range64 <add|remove|flip> x lo hi` (in place): same checks 1–3 with the L1
  `flipRange / addRange / removeRange`; check 4 first compares the bucket STRUCTURE (switch, keys, bucket flags, buckets outside
  the key range of `[lo, hi)` literally, buckets inside it as sets — `Ops32.viaSet`; this yields the readable message) and then
  the WHOLE representation literally, with the 32-bit layer instantiated by the exact models (`Ops32.exact` = `Rep.flip /
  addRange / removeRange / iand / ior / iandNot` of `Impl/RepMut.lean`; for the static `Flip` the 32-bit static `Rep.flipStatic`
  of `Impl/RepXform.lean`), and the result is well-formed.
* `l2iop64 <and|or|xor|andnot> x y` (in place; Go prints `<repr64 x> <repr64 y> <repr64 x after> <repr64 y after>`): checks
  1–2 as above; the argument denotes the same set afterwards; for well-formed operands the exact bucket structure of the
  receiver (`Rep64.iand / ior / ixor / iandNot`: switch, keys, flags, buckets of one side only literally — untouched or
  cloned —, equal-key buckets as sets and then LITERALLY for `and / or / andnot` (`Ops32.exact`) and LITERALLY for `xor`
  (static `roaring.Xor`, `Rep.xor2`)), well-formed result, and the argument afterwards literally (`Rep64.argAfter`: `or` /
  `xor` flag the appended tail buckets when both switches are on).  `x.Xor(x)` is `Clear()`.
The model state of `z` / `x` becomes the L1 result.
-/
namespace RModel.Driver
open RModel RModel.Impl

def renderRep64 (r : Rep64) : String :=
  "|".intercalate ((if r.cow then "cow=1" else "cow=0") ::
    r.buckets.map fun b => toString b.high ++ (if b.flag then "@1@" else "@0@") ++ renderRep b.bm)

def parseBucket (s : String) : Option Bucket :=
  match s.splitOn "@" with
  | [h, f, r] =>
    match h.toNat?, parseRep r with
    | some high, some bm =>
      if f == "1" then some { high := high, bm := bm, flag := true }
      else if f == "0" then some { high := high, bm := bm, flag := false }
      else none
    | _, _ => none
  | _ => none

def parseRep64 (s : String) : Option Rep64 :=
  match s.splitOn "|" with
  | cow :: bs =>
    if cow != "cow=1" && cow != "cow=0" then none
    else (bs.mapM parseBucket).map fun l => { cow := cow == "cow=1", buckets := l }
  | _ => none

/-! ### the checker's instance of the 32-bit range functions: rebuild the bucket from the L1 result -/

/-- `[lo, hi)` cut at the 16-bit chunk borders: `(key, start, length-1)` -/
def piecesOf (lo hi : Nat) : List (Nat × Nat × Nat) :=
  if lo < hi then
    (keyRange (lo / 65536) ((hi - 1) / 65536)).map fun k =>
      let s := max lo (k * 65536)
      let e := min hi ((k + 1) * 65536)
      (k, s - k * 65536, e - s - 1)
  else []

def allPieces : BSet → List (Nat × Nat × Nat)
  | lo :: hi :: t => piecesOf lo hi ++ allPieces t
  | _ => []

def groupPieces : List (Nat × Nat × Nat) → List Slot
  | [] => []
  | (k, s, l) :: t =>
    match groupPieces t with
    | { key := k', c := .run rs, flag := _ } :: rest =>
      if k' == k then { key := k, c := .run ((s, l) :: rs) } :: rest
      else { key := k, c := .run [(s, l)] } :: { key := k', c := .run rs } :: rest
    | rest => { key := k, c := .run [(s, l)] } :: rest

/-- some representation (run containers only) of a subset of `[0, 2^32)` -/
def Rep.ofBSet (s : BSet) : Rep := { cow := false, slots := groupPieces (allPieces s) }

def Ops32.viaSet : Ops32 where
  flip r lo hi := Rep.ofBSet (BSet.flipRange r.toBSetFast lo hi)
  addRange r lo hi := Rep.ofBSet (BSet.addRange r.toBSetFast lo hi)
  removeRange r lo hi := Rep.ofBSet (BSet.removeRange r.toBSetFast lo hi)
  iand a b := Rep.ofBSet (BSet.inter a.toBSetFast b.toBSetFast)
  ior a b := Rep.ofBSet (BSet.union a.toBSetFast b.toBSetFast)
  iandNot a b := Rep.ofBSet (BSet.diff a.toBSetFast b.toBSetFast)

/-- structure comparison: switch, keys, flags; `touched` buckets as sets, the others literally -/
def sameStructureP (touched : Nat → Bool) (model go : Rep64) : Verdict :=
  if model.cow != go.cow then some ("copyOnWrite switch " ++ toString model.cow)
  else
    let keysM := model.buckets.map (·.high)
    let keysG := go.buckets.map (·.high)
    if keysM != keysG then some ("bucket keys " ++ toString keysM)
    else
      firstFail ((model.buckets.zip go.buckets).map fun (m, g) =>
        if m.flag != g.flag then some ("bucket " ++ toString m.high ++ " flag " ++ toString m.flag)
        else if touched m.high then
          failIf (m.bm.toBSetFast != g.bm.toBSetFast)
            ("bucket " ++ toString m.high ++ " (touched) as a set = " ++ (dump m.bm.toBSetFast).take 200)
        else
          failIf (renderRep m.bm != renderRep g.bm)
            ("bucket " ++ toString m.high ++ " (untouched) literally = " ++ (renderRep m.bm).take 200))

/-- buckets with key in `[kLo, kHi]` as sets, the others literally -/
def sameStructure (kLo kHi : Nat) (model go : Rep64) : Verdict :=
  sameStructureP (fun k => kLo ≤ k && k ≤ kHi) model go

def renderBucket (b : Bucket) : String :=
  toString b.high ++ (if b.flag then "@1@" else "@0@") ++ renderRep b.bm

/-- the argument of an in-place operation afterwards: literally the model, except that a bucket for which `writ` holds
may show the inner flags of a `Clone()` (`Rep.cloneSrcB`) -/
def argAfterMatches (writ : Nat → Bool) (model go : Rep64) (name : String) : Verdict :=
  if model.cow != go.cow || model.buckets.length != go.buckets.length then
    some ("argument " ++ name ++ " after = " ++ (renderRep64 model).take 300)
  else
    firstFail ((model.buckets.zip go.buckets).map fun (m, g) =>
      let lit := renderBucket m == renderBucket g
      let alt := writ m.high && renderBucket { high := m.high, bm := m.bm.cloneSrcB, flag := m.flag } == renderBucket g
      failIf (!(lit || alt)) ("argument " ++ name ++ " after, bucket " ++ (renderBucket m).take 300))

def l2Sem64 (op : String) : Option ((BSet → BSet → BSet) × (Rep64 → Rep64 → Rep64) × Bool × Bool) :=
  match op with
  | "and" => some (BSet.inter, Rep64.and2, false, false)
  | "or" => some (BSet.union, Rep64.or2, true, true)
  | "xor" => some (BSet.xor, Rep64.xor2, true, true)
  | "andnot" => some (BSet.diff, Rep64.andNot2, true, false)
  | _ => none

/-- the most buckets a generated range may span (the Go loops visit every key of the range) -/
def maxSpan : Nat := 64

def stepL2R64 (st : St) (cmd : List String) (got : String) : Option (St × Verdict) :=
  match cmd with
  | "l2op64" :: op :: z :: x :: y :: _ =>
    match l2Sem64 op, st.bm64[x]?, st.bm64[y]? with
    | some (f1, f2, cl1, cl2), some sx, some sy =>
      let expSet := f1 sx sy
      let st' := { st with bm64 := st.bm64.insert z expSet }
      let toks := got.splitOn " "
      match toks with
      | rxS :: ryS :: rzS :: status :: after =>
        match parseRep64 rxS, parseRep64 ryS, parseRep64 rzS with
        | some rx, some ry, some rz =>
          let wfOps := rx.wf && ry.wf
          let afterV : Verdict :=
            let mx := renderRep64 (Rep64.afterStatic cl1 rx (if x == y then rx else ry))
            let my := renderRep64 (Rep64.afterStatic cl2 ry (if x == y then ry else rx))
            match status, after with
            | "ok", [] =>
              if wfOps && (mx != rxS || my != ryS) then some "chg (the model says an operand's inner flags change)" else none
            | "chg", [rx2S, ry2S] =>
              match parseRep64 rx2S, parseRep64 ry2S with
              | some rx2, some ry2 =>
                firstFail [
                  failIf (rx2.toBSetFast != sx) ("operand " ++ x ++ " denotes the same set after the static operation"),
                  failIf (ry2.toBSetFast != sy) ("operand " ++ y ++ " denotes the same set after the static operation"),
                  failIf (wfOps && rx2S != mx) ("operand " ++ x ++ " after = " ++ mx.take 300),
                  failIf (wfOps && ry2S != my) ("operand " ++ y ++ " after = " ++ my.take 300)]
              | _, _ => some "parsable representations after chg"
            | _, _ => some "ok | chg <repr64 x> <repr64 y>"
          let exact : Verdict :=
            if wfOps then
              let r := renderRep64 (f2 rx ry)
              if !rz.wf then some ("well-formed result of static " ++ op ++ " on well-formed operands")
              else if r != rzS then some ("L2 bucket model = Go representation; model: " ++ r.take 400)
              else none
            else none
          some (st', firstFail [
            failIf (rx.toBSetFast != sx) ("abs(repr64 " ++ x ++ ")=" ++ digest sx),
            failIf (ry.toBSetFast != sy) ("abs(repr64 " ++ y ++ ")=" ++ digest sy),
            failIf (rz.toBSetFast != expSet) ("abs(repr64 result)=" ++ digest expSet ++ " = " ++ (dump expSet).take 300),
            afterV,
            exact])
        | _, _, _ => some (st', some "three parsable representations")
      | _ => some (st', some "<repr64 x> <repr64 y> <repr64 z> <ok|chg ..>")
    | _, _, _ => some (skipV st got)
  | ["l2flip64", z, x, a, b] =>
    match val64? a, val64? b, st.bm64[x]? with
    | some lo, some hi, some sx =>
      if lo < hi && hi / 4294967296 - lo / 4294967296 > maxSpan then some (skipV st got) else
      let expSet := BSet.flipRange sx lo hi
      let st' := { st with bm64 := st.bm64.insert z expSet }
      match got.splitOn " " with
      | rxS :: rzS :: status :: after =>
        match parseRep64 rxS, parseRep64 rzS with
        | some rx, some rz =>
          let wfOp := rx.wf
          let mx := renderRep64 (rx.sflipSrc lo hi)
          let afterV : Verdict :=
            match status, after with
            | "ok", [] => if wfOp && mx != rxS then some "chg (the model says the operand's inner flags change)" else none
            | "chg", [rx2S] =>
              match parseRep64 rx2S with
              | some rx2 => firstFail [
                  failIf (rx2.toBSetFast != sx) ("operand " ++ x ++ " denotes the same set after static Flip"),
                  failIf (wfOp && rx2S != mx) ("operand " ++ x ++ " after = " ++ mx.take 300)]
              | none => some "parsable representation after chg"
            | _, _ => some "ok | chg <repr64 x>"
          let exact : Verdict :=
            if wfOp then
              let m := Rep64.sflip Ops32.viaSet rx lo hi
              let (kLo, kHi) := if lo < hi then (lo / 4294967296, hi / 4294967296) else (1, 0)
              if !rz.wf then some "well-formed result of static Flip on a well-formed operand" else
              match sameStructure kLo kHi m rz with
              | some e => some ("L2 bucket structure of static Flip: " ++ e)
              | none =>
                if false then none
                else
                  -- the touched buckets literally: the 32-bit layer instantiated with the exact `RepMut` models (`Ops32.exact`)
                  let lit := renderRep64 (Rep64.sflip { Ops32.exact with flip := Rep.flipStatic } rx lo hi)
                  failIf (lit != rzS) ("L2 exact (32-bit layer = exact static Flip model) static Flip = " ++ lit.take 400)
            else none
          some (st', firstFail [
            failIf (rx.toBSetFast != sx) ("abs(repr64 " ++ x ++ ")=" ++ digest sx),
            failIf (rz.toBSetFast != expSet) ("abs(repr64 result)=" ++ digest expSet ++ " = " ++ (dump expSet).take 300),
            afterV,
            exact])
        | _, _ => some (st', some "two parsable representations")
      | _ => some (st', some "<repr64 x> <repr64 z> <ok|chg ..>")
    | _, _, _ => some (skipV st got)
  | ["l2range64", op, x, a, b] =>
    match val64? a, val64? b, st.bm64[x]? with
    | some lo, some hi, some sx =>
      let sem : Option ((BSet → Nat → Nat → BSet) × (Ops32 → Rep64 → Nat → Nat → Rep64) × Nat) :=
        match op with
        | "add" => some (BSet.addRange, Rep64.addRange, (hi - 1) / 4294967296)
        | "remove" => some (BSet.removeRange, Rep64.removeRange, (hi - 1) / 4294967296)
        | "flip" => some (BSet.flipRange, Rep64.flip, hi / 4294967296)
        | _ => none
      match sem with
      | none => some (skipV st got)
      | some (f1, f2, kHi0) =>
        if lo < hi && op != "remove" && kHi0 - lo / 4294967296 > maxSpan then some (skipV st got) else
        let expSet := f1 sx lo hi
        let st' := { st with bm64 := st.bm64.insert x expSet }
        match got.splitOn " " with
        | [rxS, rzS] =>
          match parseRep64 rxS, parseRep64 rzS with
          | some rx, some rz =>
            let exact : Verdict :=
              if rx.wf then
                let m := f2 Ops32.viaSet rx lo hi
                let (kLo, kHi) := if lo < hi then (lo / 4294967296, kHi0) else (1, 0)
                if !rz.wf then some ("well-formed result of in-place " ++ op ++ " on a well-formed operand") else
                match sameStructure kLo kHi m rz with
                | some e => some ("L2 bucket structure of in-place " ++ op ++ ": " ++ e)
                | none =>
                  if false then none
                  else
                    let lit := renderRep64 (f2 Ops32.exact rx lo hi)
                    failIf (lit != rzS) ("L2 exact (Ops32.exact) in-place " ++ op ++ " = " ++ lit.take 400)
              else none
            some (st', firstFail [
              failIf (rx.toBSetFast != sx) ("abs(repr64 " ++ x ++ ")=" ++ digest sx),
              failIf (rz.toBSetFast != expSet) ("abs(repr64 after)=" ++ digest expSet ++ " = " ++ (dump expSet).take 300),
              exact])
          | _, _ => some (st', some "two parsable representations")
        | _ => some (st', some "<repr64 x before> <repr64 x after>")
    | _, _, _ => some (skipV st got)
  | ["l2iop64", op, x, y] =>
    match st.bm64[x]?, st.bm64[y]? with
    | some sx, some sy =>
      let sem : Option ((BSet → BSet → BSet) × (Rep64 → Rep64 → Rep64) × Bool × Bool) :=
        match op with
        | "and" => some (BSet.inter, Rep64.iand Ops32.viaSet, true, false)
        | "or" => some (BSet.union, Rep64.ior Ops32.viaSet, true, true)
        | "xor" => some (BSet.xor, Rep64.ixor, false, true)
        | "andnot" => some (BSet.diff, Rep64.iandNot Ops32.viaSet, true, false)
        | _ => none
      match sem with
      | none => some (skipV st got)
      | some (f1, f2, abstractEq, clonesArg) =>
        let expSet := f1 sx sy
        let st' := { st with bm64 := st.bm64.insert x expSet }
        let syAfter := if x == y then expSet else sy
        match got.splitOn " " with
        | [rxS, ryS, rx2S, ry2S] =>
          match parseRep64 rxS, parseRep64 ryS, parseRep64 rx2S, parseRep64 ry2S with
          | some rx, some ry, some rx2, some ry2 =>
            let exact : Verdict :=
              if rx.wf && ry.wf then
                let m : Rep64 := if x == y && op == "xor" then {} else f2 rx ry
                let touched : Nat → Bool := fun k =>
                  abstractEq && rx.buckets.any (·.high == k) && ry.buckets.any (·.high == k)
                if !rx2.wf then some ("well-formed result of in-place " ++ op ++ " on well-formed operands") else
                match sameStructureP touched m rx2 with
                | some e => some ("L2 bucket structure of in-place " ++ op ++ ": " ++ e)
                | none =>
                  -- the touched buckets literally: the 32-bit layer instantiated with the exact in-place models (`Ops32.exact`)
                  let litM : Rep64 :=
                    if x == y && op == "xor" then {} else
                    match op with
                    | "and" => Rep64.iand Ops32.exact rx ry
                    | "or" => Rep64.ior Ops32.exact rx ry
                    | "andnot" => Rep64.iandNot Ops32.exact rx ry
                    | _ => m
                  let lit := renderRep64 litM
                  if !rx2.wf then some ("well-formed result of in-place " ++ op ++ " on well-formed operands")
                  else if x != y && lit != rx2S then some ("L2 exact (Ops32.exact) in-place " ++ op ++ " = " ++ lit.take 400)
                  else if x == y then failIf (ry2S != rx2S) "same object: both names show the result"
                  else
                    -- a flagged equal-key bucket of the receiver is `Clone()`d by getWritableContainerAtIndex; when that
                    -- inner bitmap is the very object the argument holds (copy-on-write clone) and its OWN switch is on,
                    -- the clone flags its containers, which shows through the argument: either form is accepted
                    let writ : Nat → Bool := fun k => abstractEq && rx.buckets.any (fun b => b.high == k && b.flag)
                    argAfterMatches writ (if clonesArg then Rep64.argAfter rx ry else ry) ry2 y
              else none
            some (st', firstFail [
              failIf (rx.toBSetFast != sx) ("abs(repr64 " ++ x ++ ")=" ++ digest sx),
              failIf (ry.toBSetFast != sy) ("abs(repr64 " ++ y ++ ")=" ++ digest sy),
              failIf (rx2.toBSetFast != expSet) ("abs(repr64 " ++ x ++ " after)=" ++ digest expSet ++ " = " ++ (dump expSet).take 300),
              failIf (ry2.toBSetFast != syAfter) ("argument " ++ y ++ " denotes the same set after the in-place operation"),
              exact])
          | _, _, _, _ => some (st', some "four parsable representations")
        | _ => some (st', some "<repr64 x> <repr64 y> <repr64 x after> <repr64 y after>")
    | _, _ => some (skipV st got)
  | _ => none

end RModel.Driver
