import RModel.Driver.State
import RModel.Driver.Ser
import RModel.Driver.Kern
import RModel.Driver.Agg
import RModel.Driver.L2Agg
import RModel.Spec.Agg
import RModel.Impl.RepBulk
/-!
Exact-representation tie of the bulk entry points (`Impl/RepBulk.lean`):

* `l2addmany x tok…` — Go prints `<repr(x) before> <repr(x) after>`; `l2bitmapof x tok…` — `<repr(x)>` (x is registered).
  Value tokens are expanded IN ORDER: `v`, `a..b` (ascending when `a ≤ b`, else descending), `a..b/s` (step `s ≥ 1`).
* `l2heap <or|xor> y x1 x2 …` — `<repr of every operand before> | <repr(y)> | ok` or `… | changed:<i> <repr(operand i after)>`.
* `l2toarr x` — `<repr(x)> <len>:<hash>`; `l2toex x n` — `<repr(x)> <len>:<hash> <same|moved>` (or a panic when `n` is too small):
  the hash is the order-sensitive FNV fold `h := (h xor v) * P64` over the slice.
* `l2stats x` — `<repr(x)>` and the eleven fields of `Statistics`.

Checked, in this order:
1. the representations parse; the abstraction of every "before" representation is the model state of that name;
2. SET semantics (verified L1 oracle): `AddMany` = the state united with the values; `HeapOr` / `HeapXor` = `BSet.unionL` / `BSet.xorL`
   of the operand states; `ToArray` = the members in increasing order (hashed interval by interval, never materialised);
   `ToExistingArray` = members followed by the untouched tail of the caller's slice, a panic when the slice is too short;
   `Stats.Cardinality` = `BSet.card`;
3. operands of `l2heap` unchanged (one operand = `Clone()`: under copy-on-write the source gets all flags set, `Rep.cloneSrc`);
4. for well-formed operands (`Rep.wf`, any flag pattern / copy-on-write switch): the Go token is literally the rendering of
   `Rep.addMany` / `Rep.bitmapOf` / `Rep.heapOr` / `Rep.heapXor` (keys, kinds, payloads, cached cardinalities, flags, switch),
   `Rep.toArray` / `Rep.toExistingArray` (hash of the sequence), `Rep.stats`, the result is well-formed, and the model's own
   sharing trace says that no cached write of `AddMany` met a flagged slot (`Rep.addManyWriteFlags`).
-/
namespace RModel.Driver
open RModel RModel.Impl

/-- expand the value tokens of `l2addmany` / `l2bitmapof` -/
def bulkTok (t : String) : Option (List Nat) :=
  let (body, step?) : String × Option Nat :=
    match t.splitOn "/" with
    | [b] => (b, some 1)
    | [b, s] => (b, (nat? s).bind fun v => if v == 0 || v ≥ U32 then none else some v)
    | _ => (t, none)
  match step? with
  | none => none
  | some step =>
    match body.splitOn ".." with
    | [v] => if step != 1 then none else (nat? v).bind fun v => if v < U32 then some [v] else none
    | [a, b] =>
      match nat? a, nat? b with
      | some a, some b =>
        if a ≥ U32 || b ≥ U32 then none
        else if a ≤ b then some ((List.range ((b - a) / step + 1)).map fun i => a + i * step)
        else some ((List.range ((a - b) / step + 1)).map fun i => a - i * step)
      | _, _ => none
    | _ => none

def bulkVals (toks : List String) : Option (List Nat) := (toks.mapM bulkTok).map List.flatten

def seqHashStep (h : UInt64) (v : Nat) : UInt64 := (h ^^^ v.toUInt64) * P64

def seqHash (l : List Nat) : String :=
  toString l.length ++ ":" ++ hex16 (l.foldl seqHashStep 1469598103934665603)

/-- hash `lo, lo+1, …, lo+n-1` into `h` -/
def hashRange (lo : Nat) : (n : Nat) → UInt64 → UInt64
  | 0, h => h
  | n + 1, h => hashRange (lo + 1) n (seqHashStep h lo)

/-- the sequence hash of the members of a set in increasing order followed by `tail`, without building the list -/
def seqHashSet (s : BSet) (tail : List Nat) : String :=
  let rec go : BSet → UInt64 → UInt64
    | lo :: hi :: t, h => go t (hashRange lo (hi - lo) h)
    | _, h => h
  toString (BSet.card s + tail.length) ++ ":" ++ hex16 (tail.foldl seqHashStep (go s 1469598103934665603))

def renderStats (s : Stats) : String :=
  " ".intercalate [toString s.cardinality, toString s.containers,
    toString s.arrayContainers, toString s.arrayContainerBytes, toString s.arrayContainerValues,
    toString s.bitmapContainers, toString s.bitmapContainerBytes, toString s.bitmapContainerValues,
    toString s.runContainers, toString s.runContainerBytes, toString s.runContainerValues]

def toexFill (n : Nat) : List Nat := (List.range n).map (2768240640 + ·)      -- 0xA5000000 + i

def stepL2Bulk (st : St) (cmd : List String) (got : String) : Option (St × Verdict) :=
  match cmd with
  | "l2addmany" :: x :: toks =>
    match bulkVals toks, st.bm[x]? with
    | some vals, some sx =>
      let expSet := BSet.union sx (ofVals vals)
      let st' := { st with bm := st.bm.insert x expSet }
      match got.splitOn " " with
      | [rbS, raS] =>
        match parseRep rbS, parseRep raS with
        | some rb, some ra =>
          let exact : Verdict :=
            if rb.wf then
              let r := renderRep (rb.addMany vals)
              if !ra.wf then some "well-formed result of AddMany on a well-formed receiver"
              else if r != raS then some ("L2 AddMany model = Go representation; model: " ++ r.take 400)
              else if (rb.addManyWriteFlags vals).any id then some "model: no cached write meets a flagged slot"
              else none
            else none
          some (st', firstFail [
            failIf (rb.toBSetFast != sx) ("abs(repr " ++ x ++ ")=" ++ digest sx),
            failIf (ra.toBSetFast != expSet) ("abs(repr after)=" ++ digest expSet ++ " = " ++ (dump expSet).take 300),
            exact])
        | _, _ => some (st', some "two parsable representations")
      | _ => some (st', some "<repr x before> <repr x after>")
    | _, _ => some (skipV st got)
  | "l2bitmapof" :: x :: toks =>
    match bulkVals toks with
    | some vals =>
      let expSet := ofVals vals
      let st' := { st with bm := st.bm.insert x expSet }
      match parseRep got with
      | some ra =>
        let r := renderRep (Rep.bitmapOf vals)
        some (st', firstFail [
          failIf (ra.toBSetFast != expSet) ("abs(repr)=" ++ digest expSet ++ " = " ++ (dump expSet).take 300),
          failIf (!ra.wf) "well-formed result of BitmapOf",
          failIf (r != got) ("L2 BitmapOf model = Go representation; model: " ++ r.take 400)])
      | none => some (st', some "a parsable representation")
    | none => some (skipV st got)
  | "l2heap" :: fn :: z :: names =>
    let parsed : Option ((List BSet → BSet) × (List Rep → Rep)) :=
      match fn with
      | "or" => some (BSet.unionL, Rep.heapOr)
      | "xor" => some (BSet.xorL, Rep.heapXor)
      | _ => none
    match parsed, lookupAll st names with
    | some (f1, f2), some sets =>
      let expSet := f1 sets
      let st' := { st with bm := st.bm.insert z expSet }
      match barGroups ((got.splitOn " ").filter (· ≠ "")) with
      | [opToks, [rzS], status] =>
        match opToks.mapM parseRep, parseRep rzS with
        | some reps, some rz =>
          if reps.length != names.length then some (st', some "one representation per operand") else
          let absOk : Verdict := firstFail (((names.zip reps).zip sets).map fun ((n, r), s) =>
            failIf (r.toBSetFast != s) ("abs(repr " ++ n ++ ")=" ++ digest s))
          let unchanged : Verdict :=
            match status, reps with
            | ["ok"], [r] =>
                if renderRep r.cloneSrc != renderRep r then
                  some ("changed:0 (Clone of a copy-on-write bitmap flags the source): " ++ (renderRep r.cloneSrc).take 200)
                else none
            | ["ok"], _ => none
            | [c, after], [r] =>
                if c == "changed:0" && renderRep r.cloneSrc == after then none
                else some "ok (operand unchanged, or flagged by Clone under copy-on-write)"
            | _, _ => some "ok (operands unchanged by the aggregate)"
          let exact : Verdict :=
            if reps.all Rep.wf then
              let r := renderRep (f2 reps)
              if !rz.wf then some ("well-formed result of Heap" ++ fn ++ " on well-formed operands")
              else if r != rzS then some ("L2 heap aggregate model = Go representation; model: " ++ r.take 400)
              else none
            else none
          some (st', firstFail [
            absOk,
            failIf (rz.toBSetFast != expSet) ("abs(repr result)=" ++ digest expSet ++ " = " ++ (dump expSet).take 300),
            unchanged,
            exact])
        | _, _ => some (st', some "parsable representations")
      | _ => some (st', some "<repr x1> … | <repr z> | <ok|changed:i repr>")
    | _, _ => some (skipV st got)
  | ["l2toarr", x] =>
    match st.bm[x]? with
    | none => some (skipV st got)
    | some sx =>
      match got.splitOn " " with
      | [rS, h] =>
        match parseRep rS with
        | some r =>
          some (st, firstFail [
            failIf (r.toBSetFast != sx) ("abs(repr " ++ x ++ ")=" ++ digest sx),
            failIf (h != seqHashSet sx []) ("members in increasing order: " ++ seqHashSet sx []),
            (if r.wf then failIf (seqHash r.toArray != h) ("L2 ToArray model: " ++ seqHash r.toArray) else none)])
        | none => some (st, some "a parsable representation")
      | _ => some (st, some "<repr x> <len>:<hash>")
  | ["l2toex", x, n] =>
    match st.bm[x]?, nat? n with
    | some sx, some n =>
      if n > 16777216 then some (skipV st got) else
      let card := BSet.card sx
      if card > n then some (st, expect "panic" got) else
      match got.splitOn " " with
      | [rS, h, same] =>
        match parseRep rS with
        | some r =>
          let exp1 := seqHashSet sx ((toexFill n).drop card)
          let l2 : Verdict :=
            if r.wf then
              match r.toExistingArray (toexFill n) with
              | some l => failIf (seqHash l != h) ("L2 ToExistingArray model: " ++ seqHash l)
              | none => some "L2 ToExistingArray model: panic"
            else none
          some (st, firstFail [
            failIf (r.toBSetFast != sx) ("abs(repr " ++ x ++ ")=" ++ digest sx),
            failIf (h != exp1) ("members in increasing order, then the untouched tail: " ++ exp1),
            failIf (same != "same") "the caller's slice is returned",
            l2])
        | none => some (st, some "a parsable representation")
      | _ => some (st, some "<repr x> <len>:<hash> <same|moved>")
    | _, _ => some (skipV st got)
  | ["l2stats", x] =>
    match st.bm[x]? with
    | none => some (skipV st got)
    | some sx =>
      match got.splitOn " " with
      | rS :: fields =>
        match parseRep rS with
        | some r =>
          some (st, firstFail [
            failIf (r.toBSetFast != sx) ("abs(repr " ++ x ++ ")=" ++ digest sx),
            failIf (fields.head? != some (toString (BSet.card sx))) ("Cardinality " ++ toString (BSet.card sx)),
            (if r.wf then failIf (renderStats r.stats != " ".intercalate fields) ("L2 Stats model: " ++ renderStats r.stats) else none)])
        | none => some (st, some "a parsable representation")
      | _ => some (st, some "<repr x> <11 numbers>")
  | _ => none

end RModel.Driver
