import RModel.Driver.State
import RModel.Driver.Ser
import RModel.Impl.RepOps
/-!
Bitmap-level exact-representation tie: `l2op <and|or|xor|andnot> z x y`.

Go prints `<repr(x) before> <repr(y) before> <repr(z)> <ok|xchg|ychg>`.  Checked, in this order:
1. the three representations parse; the abstraction of the operands' representations is the model state of `x`, `y`;
2. SET semantics: the abstraction of `repr(z)` is the L1 operation (verified `BSet`) of the model states of `x` and `y`;
3. the operands' representation is unchanged by the static operation (`ok`);
4. for well-formed operands (`Rep.wf`; copy-on-write switch and `needCopyOnWrite` flags allowed):
   `renderRep (Rep.<op> rx ry)` is literally the third token (same keys, kinds, payloads, cached cardinalities, flags,
   `cow=0`), and the result is well-formed (`Rep.wf`, property C09 at bitmap level).
   (`xor` / `andnot` of an object with itself take the `x1 == x2` shortcut in Go; on a well-formed operand the modelled walk
   returns the same empty representation — `Rep.xor2_self`, `Rep.andNot2_self` in RProofs/RepOps.lean — so no special case.)
The model state of `z` becomes the L1 result.
-/
namespace RModel.Driver
open RModel RModel.Impl

def l2Sem (op : String) : Option ((BSet → BSet → BSet) × (Rep → Rep → Rep)) :=
  match op with
  | "and" => some (BSet.inter, Rep.and2)
  | "or" => some (BSet.union, Rep.or2)
  | "xor" => some (BSet.xor, Rep.xor2)
  | "andnot" => some (BSet.diff, Rep.andNot2)
  | _ => none

def stepL2Rep (st : St) (cmd : List String) (got : String) : Option (St × Verdict) :=
  match cmd with
  | "l2op" :: op :: z :: x :: y :: _ =>
    match l2Sem op, st.bm[x]?, st.bm[y]? with
    | some (f1, f2), some sx, some sy =>
      let expSet := f1 sx sy
      let st' := { st with bm := st.bm.insert z expSet }
      match got.splitOn " " with
      | [rxS, ryS, rzS, unch] =>
        match parseRep rxS, parseRep ryS, parseRep rzS with
        | some rx, some ry, some rz =>
          let exact : Verdict :=
            if rx.wf && ry.wf then
              let r := renderRep (f2 rx ry)
              if !rz.wf then some ("well-formed result of static " ++ op ++ " on well-formed operands")
              else if r != rzS then
                some ("L2 bitmap model = Go representation; model: " ++ r.take 400)
              else none
            else none
          some (st', firstFail [
            failIf (rx.toBSetFast != sx) ("abs(repr " ++ x ++ ")=" ++ digest sx),
            failIf (ry.toBSetFast != sy) ("abs(repr " ++ y ++ ")=" ++ digest sy),
            failIf (rz.toBSetFast != expSet) ("abs(repr result)=" ++ digest expSet ++ " = " ++ (dump expSet).take 300),
            failIf (unch != "ok") "ok (operands unchanged by a static operation)",
            exact])
        | _, _, _ => some (st', some "three parsable representations")
      | _ => some (st', some "<repr x> <repr y> <repr z> <ok>")
    | _, _, _ => some (skipV st got)
  | _ => none

end RModel.Driver
