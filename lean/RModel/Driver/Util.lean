import RModel.Spec.BSet
import Std.Data.HashMap
/-! Driver glue (trusted, unverified): parsing and printing. -/
namespace RModel.Driver
open RModel

def P64 : UInt64 := 1099511628211

/-- digest of a canonical boundary list: number of intervals and an FNV-style hash of (lo, hi-1) pairs -/
def digestAux : BSet → UInt64 → Nat → UInt64 × Nat
  | lo :: hi :: t, h, n =>
      let h1 := (h ^^^ lo.toUInt64) * P64
      let h2 := (h1 ^^^ (hi - 1).toUInt64) * P64
      digestAux t h2 (n + 1)
  | _, h, n => (h, n)

def hexDigit (n : Nat) : Char :=
  if n < 10 then Char.ofNat (48 + n) else Char.ofNat (87 + n)

def hex16 (x : UInt64) : String :=
  let n := x.toNat
  String.ofList ((List.range 16).map (fun i => hexDigit ((n >>> (4 * (15 - i))) % 16)))

def digest (s : BSet) : String :=
  let (h, n) := digestAux s 1469598103934665603 0
  toString n ++ ":" ++ hex16 h

def dumpAux : BSet → List String → List String
  | lo :: hi :: t, acc =>
      dumpAux t ((if hi = lo + 1 then toString lo else toString lo ++ "-" ++ toString (hi - 1)) :: acc)
  | _, acc => acc

def dump (s : BSet) : String :=
  match s with
  | [] => "-"
  | _ => ",".intercalate (dumpAux s []).reverse

def unionPairs : List BSet → List BSet
  | a :: b :: t => BSet.union a b :: unionPairs t
  | l => l

def unionAllFuel : Nat → List BSet → BSet
  | 0, l => l.foldl BSet.union []
  | _, [] => []
  | _, [a] => a
  | n + 1, l => unionAllFuel n (unionPairs l)

/-- union of many sets by pairwise merging (O(n log n) with the verified `union`) -/
def unionAll (l : List BSet) : BSet := unionAllFuel l.length l

def ofVals (l : List Nat) : BSet := unionAll (l.map BSet.single)

def bstr (b : Bool) : String := if b then "true" else "false"

def U32 : Nat := 4294967296
def U64 : Nat := 18446744073709551616

end RModel.Driver
