import RModel.Driver.Bsi
import RModel.Driver.BsiL2
import RModel.Impl.BSI32Ops
/-!
Plane-level answers for the rest of the 32-bit bit-sliced index (`BitSliceIndexing.BSI`, model `Impl/BSI32Ops.lean`, theorems
`RProofs/BSI32Ops.lean`).  For an index the tracker of `Driver/BsiL2.lean` follows, the lines

* `beq r s w v…`      — `BatchEqual`, EVERY length of the value list: the dispatch of the model (`batchEqualPath`) is named in the
                        message; the bitmap is the one of `batchEqualAny` (evaluated through `batchEqualFast`, equal by
                        `batchEqualAny_eq_fast` for an index of at most 64 planes; the dispatch itself for a wider one);
* `btrans r s`, `bitrans r s w f` — `Transpose` / `IntersectAndTranspose` with the batches of `w` workers (`transposePar`);
* `btwc t s w f -`    — `TransposeWithCounts`: the map digest of the modelled result index (`transposeWithCounts`);
* `bmarsh t s [u]`    — `MarshalBinary` → `UnmarshalBinary` through the modelled loops (`roundTrip`): both map digests

are ALSO answered by the plane model (state BEFORE the line; the map-level family of `Driver/Bsi.lean` has the first word).
`w = 0` means `runtime.NumCPU()` workers on the Go side; the model then uses one worker (the theorems
`…_worker_independent` say the answer is the same).  A per-column model walk is only made when it is affordable
(`affordable`); otherwise the line is left to the map-level check.

The tracker side (the result index of `btwc` / `bmarsh` keeps being followed, `bplanes` compares its planes) is in
`trackBsi32L2` of `Driver/BsiL2.lean`, which calls `twcTracked` / `BSI32.roundTrip`.
-/
namespace RModel.Driver
open RModel

/-- the column → value map denoted by a plane-level index, read through the modelled `GetValue` -/
def mapOf32 (b : BSI32.Index) : BMap := (BSet.toList b.ebm).map (fun c => (c, BSI32.getValueD b c))

/-- the map digest `D(s)` of `harness/bsi.go` computed from the plane model -/
def dOf32 (b : BSI32.Index) : String := mdig (mapOf32 b)

def pathName (p : Option Bool) : String :=
  match p with
  | none => "early"
  | some true => "scan"
  | some false => "trie"

/-- plane-level checks of `beq` / `btrans` / `bitrans` / `btwc` / `bmarsh` on a tracked 32-bit index (state BEFORE the line) -/
def checkBsi32Ops (st : St) (cmd : List String) (got : String) : Verdict :=
  let first := (got.splitOn " ").headD ""
  let verdict (what exp act : String) : Verdict :=
    if got.startsWith "skip" || exp == act then none else some ("plane model (Impl/BSI32Ops." ++ what ++ "): " ++ exp)
  match cmd with
  | "beq" :: _ :: s :: w :: vals =>
    match idx32? st s, w.toNat?, vals.mapM (fun (v : String) => v.toInt?) with
    | some b, some wn, some vs =>
      if wn > 64 || !(vs.all inI64) then none
      else
        let path := pathName (BSI32.batchEqualPath b vs)
        if BSI32.bitCount b ≤ 64 then
          verdict ("batchEqualAny, path=" ++ path) (digest (BSI32.batchEqualFast b vs)) first
        else if path != "scan" || affordable b (BSet.card b.ebm) then
          verdict ("batchEqualAny, path=" ++ path ++ ", >64 planes") (digest (BSI32.batchEqualAny b (effWorkers wn) vs)) first
        else none
    | _, _, _ => none
  | ["btrans", _, s] =>
    match idx32? st s with
    | some b =>
      if affordable b (BSet.card b.ebm) then verdict "transposePar" (digest (BSI32.transposePar b 1 none)) first else none
    | none => none
  | ["bitrans", _, s, w, f] =>
    match idx32? st s, w.toNat? with
    | some b, some wn =>
      if wn > 64 then none else
      match fs32? st b f with
      | some fs =>
        if affordable b (BSet.card (fs.getD b.ebm)) then
          verdict "transposePar" (digest (BSI32.transposePar b (effWorkers wn) fs)) first
        else none
      | none => none
    | _, _ => none
  | ["btwc", _, s, w, f, g] =>
    match idx32? st s, w.toNat? with
    | some b, some wn =>
      if wn > 64 || g != "-" then none else
      match fs32? st b f with
      | some fs =>
        if affordable b (2 * BSet.card (fs.getD b.ebm)) then
          verdict "transposeWithCounts" (dOf32 (BSI32.transposeWithCounts b (effWorkers wn) fs)) first
        else none
      | none => none
    | _, _ => none
  | ["bmarsh", _, s] =>
    match idx32? st s with
    | some b =>
      if affordable b (2 * BSet.card b.ebm) then
        match BSI32.roundTrip b b with
        | some r => verdict "roundTrip" (dOf32 r ++ " " ++ dOf32 b) got
        | none => verdict "roundTrip" "panic" (if got.startsWith "panic" then "panic" else got)
      else none
    | none => none
  | ["bmarsh", t, s, u] =>
    if t == u || s == u then none else
    match idx32? st s, idx32? st u with
    | some b, some r0 =>
      if affordable b (2 * BSet.card b.ebm) then
        match BSI32.roundTrip r0 b with
        | some r => verdict "roundTrip" (dOf32 r ++ " " ++ dOf32 b) got
        | none => verdict "roundTrip" "panic" (if got.startsWith "panic" then "panic" else got)
      else none
    | _, _ => none
  | _ => none

end RModel.Driver
