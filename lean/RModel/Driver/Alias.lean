import RModel.Driver.State
import RModel.Impl.Heap
/-! value-semantics / container-sharing (C07) and zero-copy buffer (C08, C16) command family:
`safe` (pointer graph → `Impl.Safe`), `digall` (every live bitmap against its model state), `drop`,
and the protected-buffer commands `zbuf zfrozen zrd zdetach zkill zsame zdense zfromdense zbitset zfrombitset bsset bsclr bsdig gc`. -/
namespace RModel.Driver
open RModel RModel.Impl

def parseArrId (s : String) : Option ArrId :=
  if s.startsWith "F" then (s.drop 1).toNat?.map fun n => { id := n, foreign := true }
  else s.toNat?.map fun n => { id := n, foreign := false }

def parseBit (s : String) : Option Bool :=
  if s == "1" then some true else if s == "0" then some false else none

def parseHSlot (s : String) : Option HSlot :=
  match s.splitOn "," with
  | [k, c, b, f] =>
    match k.toNat?, c.toNat?, parseArrId b, parseBit f with
    | some k, some c, some b, some f => some { key := k, cell := c, backing := b, flag := f }
    | _, _, _, _ => none
  | _ => none

def parseHBitmap (s : String) : Option HBitmap :=
  match s.splitOn ":" with
  | [name, cowS, mS, slotsS] =>
    if !(cowS.startsWith "cow=") || !(mS.startsWith "m=") then none else
    match parseBit (cowS.drop 4).toString, ((mS.drop 2).toString.splitOn ",").mapM parseArrId,
          (if slotsS.isEmpty then some [] else (slotsS.splitOn ";").mapM parseHSlot) with
    | some cow, some hdr, some slots =>
      if hdr.length == 3 then some { name := name, cow := cow, hdr := hdr, slots := slots } else none
    | _, _, _ => none
  | _ => none

def parseHeap (s : String) : Option Heap :=
  if s == "-" then some [] else ((s.splitOn " ").filter (· ≠ "")).mapM parseHBitmap

def sortedNames (m : Std.HashMap String BSet) : List String :=
  (m.toList.map (·.1)).mergeSort (fun a b => decide (a ≤ b))

def digallStr (st : St) : String :=
  match sortedNames st.bm with
  | [] => "-"
  | ns => " ".intercalate (ns.map fun n => n ++ "=" ++ digest (st.bm[n]?.getD []))

def denseWords (s : BSet) (pad : Bool) : Nat :=
  match BSet.maximum s with
  | none => 0
  | some m =>
    let w := (m + 1 + 63) / 64
    if pad then (w + 1023) / 1024 * 1024 else w

def copyOpt (opts : List String) : Option Bool :=
  if opts.contains "copy=1" then some true else if opts.contains "copy=0" then some false else none

/-- `FromDense` result line: `<digest> <references into caller memory>`; a copying build must have none -/
def fromDenseVerdict (s : BSet) (copy : Bool) (got : String) : Verdict :=
  match got.splitOn " " with
  | [dg, refs] =>
    if dg != digest s then some (digest s ++ " <refs>")
    else if copy && refs != "0" then some (digest s ++ " 0")
    else if refs.toNat?.isNone then some (digest s ++ " <refs>")
    else none
  | _ => some (digest s ++ " <refs>")

def stepAlias (st : St) (cmd : List String) (got : String) : Option (St × Verdict) :=
  match cmd with
  | ["safe"] =>
    match parseHeap got with
    | none => some (st, some "unparsable heap dump")
    | some h =>
      if h.map (·.name) != sortedNames st.bm then some (st, some ("live bitmaps: " ++ " ".intercalate (sortedNames st.bm)))
      else if Safe h then some (st, none)
      else some (st, some ("Safe(heap): " ++ (firstViolation h).getD "violated"))
  | ["digall"] => some (st, expect (digallStr st) got)
  | ["gc"] => some (st, expect "ok" got)
  | ["drop", x] =>
    match st.bm[x]? with
    | none => some (skipV st got)
    | some _ => some ({ st with bm := st.bm.erase x }, expect "ok" got)
  | ["zbuf", b, x] =>
    match st.bm[x]? with
    | none => some (skipV st got)
    | some s => some ({ st with zb := st.zb.insert b ("portable", s, true) }, expect "ok" got)
  | ["zfrozen", b, x] =>
    match st.bm[x]? with
    | none => some (skipV st got)
    | some s => some ({ st with zb := st.zb.insert b ("frozen", s, true) }, expect "ok" got)
  | ["zrd", y, entry, b] =>
    let zeroCopy := entry == "frombuffer" || entry == "fromunsafe" || entry == "frozen"
    let copying := entry == "readfrom" || entry == "must" || entry == "mustck" || entry == "readfromck" || entry == "unmarshal" || entry == "base64"
    let want := if entry == "frozen" then "frozen" else if zeroCopy || copying then "portable" else ""
    match st.zb[b]? with
    | some (kind, s, true) =>
      if want == "" || kind != want then some (skipV st got)
      else
        -- <digest> <whole buffer consumed> <references into the caller's buffer>: a copying decoder must keep none
        let v : Verdict := match got.splitOn " " with
          | [dg, c, refs] =>
            if dg != digest s || c != "true" then some (digest s ++ " true <refs>")
            else if copying && refs != "0" then some (digest s ++ " true 0")
            else if refs.toNat?.isNone then some (digest s ++ " true <refs>")
            else none
          | _ => some (digest s ++ " true <refs>")
        some ({ st with bm := st.bm.insert y s }, v)
    | _ => some (skipV st got)
  | ["zdetach", y] =>
    -- afterwards the bitmap must not reference caller memory at all
    match st.bm[y]? with
    | none => some (skipV st got)
    | some s => some (st, expect (digest s ++ " 0") got)
  | ["zsame", b] =>
    match st.zb[b]? with
    | some (_, _, true) => some (st, expect "true" got)
    | _ => some (skipV st got)
  | "zkill" :: b :: _ =>
    match st.zb[b]? with
    -- domain: every bitmap that may depend on b was detached or dropped before; so no live bitmap references b any more
    | some (kind, s, true) => some ({ st with zb := st.zb.insert b (kind, s, false) }, expect "ok -" got)
    | _ => some (skipV st got)
  | "zdense" :: b :: x :: opts =>
    match st.bm[x]? with
    | none => some (skipV st got)
    | some s =>
      some ({ st with zb := st.zb.insert b ("dense", s, true) },
            expect ("ok " ++ toString (denseWords s (opts.contains "pad")) ++ " " ++ digest s) got)
  | ["zbitset", b, x] =>
    match st.bm[x]? with
    | none => some (skipV st got)
    | some s =>
      some ({ st with zb := st.zb.insert b ("bitset", s, true) },
            expect ("ok " ++ toString (denseWords s true) ++ " " ++ digest s) got)
  | ["zfrombitset", y, b] =>
    match st.zb[b]? with
    | some (kind, s, true) =>
      if kind.startsWith "bitset" then some ({ st with bm := st.bm.insert y s }, expect (digest s) got)
      else some (skipV st got)
    | _ => some (skipV st got)
  | ["bsset", b, v] | ["bsclr", b, v] =>
    -- the caller changes HIS BitSet; bitmaps built from it earlier are values of their own (model: untouched)
    match st.zb[b]?, v.toNat? with
    | some ("bitset", s, true), some n =>
      if n < 64 * denseWords s true then
        let s' := if cmd.head? == some "bsset" then BSet.add s n else BSet.remove s n
        -- the BitSet keeps its length: the word count is fixed by the set it was created from
        some ({ st with zb := st.zb.insert b ("bitset:" ++ toString (denseWords s true), s', true) }, expect (digest s') got)
      else some (skipV st got)
    | some (kind, s, true), some n =>
      if kind.startsWith "bitset:" then
        let w := ((kind.drop 7).toNat?).getD 0
        if n < 64 * w then
          let s' := if cmd.head? == some "bsset" then BSet.add s n else BSet.remove s n
          some ({ st with zb := st.zb.insert b (kind, s', true) }, expect (digest s') got)
        else some (skipV st got)
      else some (skipV st got)
    | _, _ => some (skipV st got)
  | ["bsdig", b] =>
    match st.zb[b]? with
    | some (kind, s, true) => if kind.startsWith "bitset" then some (st, expect (digest s) got) else some (skipV st got)
    | _ => some (skipV st got)
  | "zfromdense" :: y :: b :: opts =>
    match st.zb[b]?, copyOpt opts with
    | some ("dense", s, true), some copy =>
      some ({ st with bm := st.bm.insert y s }, fromDenseVerdict s copy got)
    | _, _ => some (skipV st got)
  | _ => none

end RModel.Driver
