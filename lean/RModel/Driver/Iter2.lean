import RModel.Driver.Iter
import RModel.Driver.L2R64
import RModel.Impl.Iter2
/-!
Tie of the L2 models of `Impl/Iter2.lean` (Go side: `harness/l2iter.go`).

Commands answered here at the SET level (`stepIter2`, chained after the other families):
* `l2it unset i x lo hi`   = `uit i x lo hi` that also prints the raw representation: `ok <repr32(x)>`
* `l2reinit i x lo hi`     = `reinit i x lo hi` (kind unset) printing `ok <repr32(x)>`
* `l2it64 <fwd|rev|many> i x` = `it64 / rit64 / mit64` printing `ok <repr64(x)>`;  `l2reit64 i x` = `reit64` printing the same
* `l2iterate x k`          = `x.Iterate(cb)`, `cb` recording every value it is handed and answering `false` on its `k`-th
                             call (`k = -1` never, `k = 0` like `1`): `<repr32(x)> <n> <digest>` (ascending) — the values
                             seen must be the first `max k 1` members (all for `k = -1`); an unordered enumeration is only
                             accepted when it is complete (`Iterate` promises no order).
* `l2seq <values|backward|unset> x k [lo hi]` = the range-over-func forms `Values / Backward / Unset(x, lo, hi-1)` with the
                             same recording yield function: `<repr32(x)> <n> <digest>`.
* `l2ranges x k`           = `x.Ranges()(yield)`, same recording yield function: `<repr32(x)> <pairs>` rendered one by one
                             (`lo-hi` inclusive, `v`, `bad:s:end`; `-` for none): the first `max k 1` maximal intervals.
The printed representation must abstract to the model state of `x`.

L2 shadow (`shadowIter2`, run by `stepAll` on the state BEFORE the line): iterators created by the commands above carry the
modelled Go struct (`St.l2uit`, `St.l2it64`), built from the printed representation.  Every later
`hasnext / next? / next! / peek? / peek! / adv / advrel / drain` (32-bit family, unset iterator) resp.
`hasnext64 / next64 / peek64 / adv64 / many64 / drain64` (64-bit family) on the name steps the model and requires
  (a) the model's answer = the Go answer,
  (b) the model's state afterwards agrees with the set-level cursor (`hasNext`, and the peeked value where there is one).
`l2iterate` is answered by `iterateSeen` on the parsed representation and compared literally.
Any other creation / re-initialisation command on the name, or a Go panic, drops the L2 state.
-/
namespace RModel.Driver
open RModel RModel.Impl RModel.Impl.It

/-- `ok <repr64(x)>`: parses and abstracts to the model state of `x` -/
def okRepr64 (s : BSet) (got : String) : Verdict :=
  match got.splitOn " " with
  | ["ok", rs] =>
    match parseRep64 rs with
    | some r => if r.toBSetFast != s then some ("ok <repr64 of the set " ++ digest s ++ ">") else none
    | none => some "ok <parsable repr64>"
  | _ => some "ok <repr64>"

def unsetSnap (s : BSet) (lo hi : Nat) : BSet := BSet.restrict (BSet.compl U32 s) lo hi

/-- the `k` argument of `l2iterate`: number of values the recording callback sees before it answers `false` -/
def seenLimit (k : Int) : Option Nat := if k < 0 then none else some (max k.toNat 1)

def stepIter2 (st : St) (cmd : List String) (got : String) : Option (St × Verdict) :=
  match cmd with
  | ["l2it", "unset", i, x, a, b] =>
    match st.bm[x]?, nat? a, nat? b with
    | some s, some lo, some hi =>
      if hi > U32 then some (st, expect "panic" got)
      else some (setIter st i { kind := "unset", snap := unsetSnap s lo hi, cur := 0 }, okRepr s got)
    | _, _, _ => some (skipV st got)
  | ["l2reinit", i, x, a, b] =>
    some (withIter st i got fun it =>
      match st.bm[x]?, nat? a, nat? b with
      | some s, some lo, some hi =>
        if it.kind == "unset" then
          if hi > U32 then (st, expect "panic" got)
          else (setIter st i { it with snap := unsetSnap s lo hi, cur := 0 }, okRepr s got)
        else (setIter st i { it with snap := s, cur := if it.kind == "rev" then U32 else 0 }, okRepr s got)
      | _, _, _ => skipV st got)
  | ["l2it64", kind, i, x] =>
    match st.bm64[x]? with
    | some s =>
      if kind != "fwd" && kind != "rev" && kind != "many" then some (skip64 st got) else
      let it : IterSt := if kind == "rev" then ⟨"rev", s, U64⟩ else ⟨kind, s, 0⟩
      some ({ st with it64 := st.it64.insert i it }, okRepr64 s got)
    | none => some (skip64 st got)
  | ["l2reit64", i, x] =>
    match st.it64[i]?, st.bm64[x]? with
    | some it, some s =>
      let it' : IterSt := { it with snap := s, cur := if it.kind == "rev" then U64 else 0 }
      some ({ st with it64 := st.it64.insert i it' }, okRepr64 s got)
    | _, _ => some (skip64 st got)
  | ["l2iterate", x, k] =>
    match st.bm[x]?, kArg? k with
    | some s, some kk =>
      match got.splitOn " " with
      | rs :: rest =>
        match parseRep rs with
        | none => some (st, some "<parsable repr> <n> <digest>")
        | some r =>
          if r.toBSetFast != s then some (st, some ("<repr of the set " ++ digest s ++ "> ..")) else
          let n := match seenLimit kk with
            | none => BSet.card s
            | some l => min l (BSet.card s)
          let res := " ".intercalate rest
          if res.startsWith "unord " && n == BSet.card s then
            some (st, if res == "unord " ++ countDigest n s then none else some (rs ++ " unord " ++ countDigest n s))
          else
            let e := seqExpect "fwd" s (n : Int)
            let e := if n == 0 then countDigest 0 [] else e
            some (st, if res == e then none else some (rs ++ " " ++ e))
      | _ => some (st, some "<repr> <n> <digest>")
    | _, _ => some (skipV st got)
  | ["l2ranges", x, k] =>
    match st.bm[x]?, kArg? k with
    | some s, some kk =>
      match got.splitOn " " with
      | [rs, res] =>
        match parseRep rs with
        | none => some (st, some "<parsable repr> <ranges>")
        | some r =>
          if r.toBSetFast != s then some (st, some ("<repr of the set " ++ digest s ++ "> ..")) else
          -- the first n maximal intervals, exactly as the model holds them
          let n := match seenLimit kk with
            | none => s.length / 2
            | some l => min l (s.length / 2)
          let e := dump (s.take (2 * n))
          some (st, if res == e then none else some (rs ++ " " ++ e))
      | _ => some (st, some "<repr> <ranges>")
    | _, _ => some (skipV st got)
  | "l2seq" :: form :: x :: k :: rest =>
    match st.bm[x]?, kArg? k with
    | some s, some kk =>
      let snap? : Option (BSet × String) :=
        match form, rest with
        | "values", [] => some (s, "fwd")
        | "backward", [] => some (s, "rev")
        | "unset", [a, b] =>
          match nat? a, nat? b with
          | some lo, some hi => if lo < hi && hi ≤ U32 then some (unsetSnap s lo hi, "unset") else none
          | _, _ => none
        | _, _ => none
      match snap?, got.splitOn " " with
      | some (snap, kind), rs :: res =>
        match parseRep rs with
        | none => some (st, some "<parsable repr> <n> <digest>")
        | some r =>
          if r.toBSetFast != s then some (st, some ("<repr of the set " ++ digest s ++ "> ..")) else
          let n := match seenLimit kk with
            | none => BSet.card snap
            | some l => min l (BSet.card snap)
          let e := seqExpect kind snap (n : Int)
          some (st, if " ".intercalate res == e then none else some (rs ++ " " ++ e))
      | _, _ => some (skipV st got)
    | _, _ => some (skipV st got)
  | _ => none

/-! ## L2 shadow -/

def l2Msg2 (what m : String) : Verdict := some ("L2 " ++ what ++ " model = Go; model: " ++ m)

def l2ExpectU (exp got : String) : Verdict := if exp == got then none else l2Msg2 "unset iterator" exp
def l2Expect64 (exp got : String) : Verdict := if exp == got then none else l2Msg2 "roaring64 iterator" exp

/-- one command on an L2-tracked unset iterator -/
def l2StepU (l1 : Option IterSt) (s : UnsetIt) (cmd : List String) (got : String) : Option UnsetIt × Verdict :=
  if got.startsWith "skip" then (some s, none)
  else if got.startsWith "panic" then (none, none)
  else
  let l1peek : Option Nat := match l1 with | some l => l.peek | none => none
  match cmd with
  | ["hasnext", _] => let h := s.hasNext; (some h.2, l2ExpectU (bstr h.1) got)
  | ["next?", _] =>
    let h := s.hasNext
    if h.1 then let r := h.2.next; (some r.2, l2ExpectU (toString r.1) got)
    else (some h.2, l2ExpectU "none" got)
  | ["next!", _] =>
    -- the harness calls Next() without HasNext() exactly when the SET has a next value
    if l1peek.isNone then (some s, l2ExpectU "none" got)
    else let r := s.next; (some r.2, l2ExpectU (toString r.1) got)
  | ["peek?", _] =>
    let h := s.hasNext
    if h.1 then
      let p := h.2.peekNext
      (some p.2, l2ExpectU (match p.1 with | some v => toString v | none => "panic") got)
    else (some h.2, l2ExpectU "none" got)
  | ["peek!", _] =>
    if l1peek.isNone then (some s, l2ExpectU "none" got)
    else
      let p := s.peekNext
      (some p.2, l2ExpectU (match p.1 with | some v => toString v | none => "panic") got)
  | ["adv", _, m] =>
    match nat? m with
    | some mv => if mv ≥ U32 then (some s, none) else (some (s.advanceIfNeeded mv), l2ExpectU "ok" got)
    | none => (some s, none)
  | ["advrel", _, d] =>
    match d.toInt? with
    | some dd =>
      let h := s.hasNext
      if !h.1 then (some h.2, l2ExpectU "none" got) else
      let p := h.2.peekNext
      match p.1 with
      | none => (some p.2, l2ExpectU "panic" got)
      | some v =>
        let t : Int := (v : Int) + dd
        let m : Nat := if t < 0 then 0 else min t.toNat (U32 - 1)
        (some (p.2.advanceIfNeeded m), l2ExpectU ("ok " ++ toString m) got)
    | none => (some s, none)
  | "drain" :: _ :: rest =>
    match drainLimit rest with
    | some lim =>
      let r := s.drain (lim.getD 4294967297)
      (some r.2, l2ExpectU (renderL2 r.1 false) got)
    | none => (some s, none)
  | _ => (some s, none)

/-- check (b) for the unset iterator -/
def l2AgreeU (l1 : Option IterSt) (s : UnsetIt) : Verdict :=
  match l1 with
  | some l =>
    let h := s.hasNext
    let a : Option Nat := if h.1 then h.2.peekNext.1 else none
    if a == l.peek then none
    else some ("L2 unset iterator model = set-level cursor; L2 next=" ++ toString a ++ " set-level next=" ++ toString l.peek)
  | none => none

def valsOutL (vals : List Nat) : String :=
  if Cont.toBSetFast.strictIncFast vals then countDigest vals.length (sortedValsBounds 0 vals none [])
  else "unsorted"

/-- one command on an L2-tracked roaring64 iterator -/
def l2Step64 (s : L2It64) (cmd : List String) (got : String) : Option L2It64 × Verdict :=
  if got.startsWith "skip" then (some s, none)
  else if got.startsWith "panic" then (none, none)
  else
  match s, cmd with
  | .fwd it, ["hasnext64", _] => (some s, l2Expect64 (bstr it.hasNext) got)
  | .rev it, ["hasnext64", _] => (some s, l2Expect64 (bstr it.hasNext) got)
  | .fwd it, ["next64", _] =>
    if it.hasNext then let r := it.next; (some (.fwd r.2), l2Expect64 (toString r.1) got)
    else (some s, l2Expect64 "end" got)
  | .rev it, ["next64", _] =>
    if it.hasNext then let r := it.next; (some (.rev r.2), l2Expect64 (toString r.1) got)
    else (some s, l2Expect64 "end" got)
  | .fwd it, ["peek64", _] => (some s, l2Expect64 (if it.hasNext then toString it.peekNext else "end") got)
  | .fwd it, ["adv64", _, m] =>
    match val64? m with
    | some mv =>
      let it' := it.advanceIfNeeded mv
      (some (.fwd it'), l2Expect64 (if it'.hasNext then toString it'.peekNext else "end") got)
    | none => (some s, none)
  | .many it, ["many64", _, n] =>
    match n.toNat? with
    | some nn =>
      if nn > toArrCap then (some s, none) else
      let r := it.nextMany nn
      (some (.many r.2), l2Expect64 (valsOutL r.1) got)
    | none => (some s, none)
  | .fwd it, ["drain64", _, n] =>
    match n.toNat? with
    | some nn =>
      if nn > toArrCap then (some s, none) else
      let r := it.drain nn
      (some (.fwd r.2), l2Expect64 (valsOutL r.1) got)
    | none => (some s, none)
  | .rev it, ["drain64", _, n] =>
    match n.toNat? with
    | some nn =>
      if nn > toArrCap then (some s, none) else
      let r := it.drain nn
      (some (.rev r.2), l2Expect64 (valsOutL r.1.reverse) got)
    | none => (some s, none)
  | _, _ => (some s, none)

/-- check (b) for the roaring64 iterators -/
def l2Agree64 (l1 : Option IterSt) (s : L2It64) : Verdict :=
  match l1, s with
  | some l, .fwd it =>
    let a : Option Nat := if it.hasNext then some it.peekNext else none
    if a == iterNext l then none
    else some ("L2 roaring64 iterator model = set-level cursor; L2 next=" ++ toString a ++ " set-level next=" ++ toString (iterNext l))
  | some l, .rev it =>
    if it.hasNext == (iterNext l).isSome then none
    else some ("L2 roaring64 iterator model = set-level cursor; L2 hasNext=" ++ bstr it.hasNext ++ " set-level next=" ++ toString (iterNext l))
  | _, _ => none

def l2Cmds64 : List String := ["hasnext64", "next64", "peek64", "adv64", "many64", "drain64"]

/-- `l2iterate x k`: the model's enumeration of the printed representation, compared literally -/
def l2IterateCheck (k got : String) : Verdict :=
  match kArg? k, got.splitOn " " with
  | some kk, rs :: rest =>
    match parseRep rs with
    | some r =>
      let seen := iterateSeen r (seenLimit kk)
      let e := renderL2 seen false
      if " ".intercalate rest == e then none else some ("L2 Iterate model = Go; model: " ++ rs ++ " " ++ e)
    | none => none
  | _, _ => none

/-- `l2seq <values|backward|unset> x k [lo hi]`: the model's enumeration of the printed representation -/
def l2SeqCheck (form k : String) (rest : List String) (got : String) : Verdict :=
  match kArg? k, got.splitOn " " with
  | some kk, rs :: res =>
    match parseRep rs with
    | some r =>
      let seen? : Option (List Nat) :=
        match form, rest with
        | "values", [] => some (valuesSeen r (seenLimit kk))
        | "backward", [] => some (backwardSeen r (seenLimit kk))
        | "unset", [a, b] =>
          match nat? a, nat? b with
          | some lo, some hi => if lo < hi && hi ≤ U32 then some (unsetSeen r lo (hi - 1) (seenLimit kk)) else none
          | _, _ => none
        | _, _ => none
      match seen? with
      | some seen =>
        let e := renderL2 seen (form == "backward")
        if " ".intercalate res == e then none else some ("L2 " ++ form ++ " model = Go; model: " ++ rs ++ " " ++ e)
      | none => none
    | none => none
  | _, _ => none

/-- one yielded pair as the harness prints it -/
def renderPair (p : Nat × Nat) : String :=
  if p.2 ≤ p.1 || p.2 > U32 then "bad:" ++ toString p.1 ++ ":" ++ toString p.2
  else if p.2 == p.1 + 1 then toString p.1
  else toString p.1 ++ "-" ++ toString (p.2 - 1)

/-- `l2ranges x k`: the model's `Ranges()` on the printed representation, compared literally -/
def l2RangesCheck (k got : String) : Verdict :=
  match kArg? k, got.splitOn " " with
  | some kk, [rs, res] =>
    match parseRep rs with
    | some r =>
      let seen := rangesSeen r (seenLimit kk)
      let e := if seen.isEmpty then "-" else ",".intercalate (seen.map renderPair)
      if res == e then none else some ("L2 Ranges model = Go; model: " ++ rs ++ " " ++ e)
    | none => none
  | _, _ => none

/-- the L2 shadow of one script line; reads the state BEFORE the line -/
def shadowIter2 (st : St) (cmd : List String) (got : String) :
    Std.HashMap String UnsetIt × Std.HashMap String L2It64 × Verdict :=
  let skipped := got.startsWith "skip"
  let okTok : Option String := match got.splitOn " " with
    | ["ok", rs] => some rs
    | _ => none
  match cmd with
  | ["l2it", "unset", i, _, a, b] =>
    if skipped then (st.l2uit, st.l2it64, none) else
    match okTok.bind parseRep, nat? a, nat? b with
    | some r, some lo, some hi =>
      let it := UnsetIt.create r lo hi
      let l1' : Option IterSt := match stepIter2 st cmd got with
        | some (st1, _) => st1.it[i]?
        | none => none
      (st.l2uit.insert i it, st.l2it64, l2AgreeU l1' it)
    | _, _, _ => (st.l2uit.erase i, st.l2it64, none)
  | ["l2reinit", i, _, a, b] =>
    if skipped then (st.l2uit, st.l2it64, none) else
    match st.l2uit[i]?, okTok.bind parseRep, nat? a, nat? b with
    | some it, some r, some lo, some hi =>
      let it' := it.reinit r lo hi
      let l1' : Option IterSt := match stepIter2 st cmd got with
        | some (st1, _) => st1.it[i]?
        | none => none
      (st.l2uit.insert i it', st.l2it64, l2AgreeU l1' it')
    | _, _, _, _ => (st.l2uit.erase i, st.l2it64, none)
  | ["l2iterate", _, k] => (st.l2uit, st.l2it64, if skipped then none else l2IterateCheck k got)
  | ["l2ranges", _, k] => (st.l2uit, st.l2it64, if skipped then none else l2RangesCheck k got)
  | "l2seq" :: form :: _ :: k :: rest => (st.l2uit, st.l2it64, if skipped then none else l2SeqCheck form k rest got)
  | ["l2it64", kind, i, _] =>
    if skipped then (st.l2uit, st.l2it64, none) else
    match okTok.bind parseRep64 with
    | some r =>
      if kind == "fwd" then (st.l2uit, st.l2it64.insert i (.fwd (IntIt64.create r)), none)
      else if kind == "rev" then (st.l2uit, st.l2it64.insert i (.rev (IntRevIt64.create r)), none)
      else if kind == "many" then (st.l2uit, st.l2it64.insert i (.many (ManyIt64.create r)), none)
      else (st.l2uit, st.l2it64.erase i, none)
    | none => (st.l2uit, st.l2it64.erase i, none)
  | ["l2reit64", i, _] =>
    if skipped then (st.l2uit, st.l2it64, none) else
    match st.l2it64[i]?, okTok.bind parseRep64 with
    | some (.fwd it), some r => (st.l2uit, st.l2it64.insert i (.fwd (it.reinit r)), none)
    | some (.rev it), some r => (st.l2uit, st.l2it64.insert i (.rev (it.reinit r)), none)
    | some (.many it), some r => (st.l2uit, st.l2it64.insert i (.many (it.reinit r)), none)
    | _, _ => (st.l2uit, st.l2it64.erase i, none)
  | ["it64", i, _] | ["rit64", i, _] | ["mit64", i, _] | ["reit64", i, _] =>
    if skipped then (st.l2uit, st.l2it64, none) else (st.l2uit, st.l2it64.erase i, none)
  | ["it", i, _] | ["rit", i, _] | ["mit", i, _] | ["uit", i, _, _, _] | ["l2it", _, i, _] =>
    if skipped then (st.l2uit, st.l2it64, none) else (st.l2uit.erase i, st.l2it64, none)
  | "reinit" :: i :: _ | "l2reinit" :: i :: _ =>
    if skipped then (st.l2uit, st.l2it64, none) else (st.l2uit.erase i, st.l2it64, none)
  | c :: i :: _ =>
    if l2Cmds.contains c then
      match st.l2uit[i]? with
      | none => (st.l2uit, st.l2it64, none)
      | some s =>
        let (s', v) := l2StepU st.it[i]? s cmd got
        match s' with
        | none => (st.l2uit.erase i, st.l2it64, v)
        | some s2 =>
          let l1' : Option IterSt := match stepIter st cmd got with
            | some (st1, _) => st1.it[i]?
            | none => none
          (st.l2uit.insert i s2, st.l2it64, match v with | some m => some m | none => l2AgreeU l1' s2)
    else if l2Cmds64.contains c then
      match st.l2it64[i]? with
      | none => (st.l2uit, st.l2it64, none)
      | some s =>
        let (s', v) := l2Step64 s cmd got
        match s' with
        | none => (st.l2uit, st.l2it64.erase i, v)
        | some s2 =>
          let l1' : Option IterSt := match step64 st cmd got with
            | some (st1, _) => st1.it64[i]?
            | none => none
          (st.l2uit, st.l2it64.insert i s2, match v with | some m => some m | none => l2Agree64 l1' s2)
    else (st.l2uit, st.l2it64, none)
  | _ => (st.l2uit, st.l2it64, none)

end RModel.Driver
