import RModel.Driver.State
import RModel.Impl.BSI
/-!
Plane-level (L2) tracking of roaring64 bit-sliced indexes: next to the column→value map used by `Driver/Bsi.lean`,
the checker replays `bnew` / `bset` / `bsetbig` / `bclr` / `bclone` / `bretainset` on the plane model `Impl/BSI.lean`
(the model the theorems of `RProofs/BSI.lean` are about) and compares
* `bplanes s`  — the real bit planes, plane by plane, with the model's planes;
* `bcmp …`     — the result of the modelled plane-algebra fast path `BSI.compareInt64Value` with the Go result.
An operation that is not modelled at plane level forgets the plane state of the indexes it changes (they are simply no
longer compared).
-/
namespace RModel.Driver
open RModel

def parseOp (s : String) : Option BSI.Op :=
  match s with
  | "LT" => some .LT | "LE" => some .LE | "EQ" => some .EQ | "GE" => some .GE | "GT" => some .GT | "RANGE" => some .RANGE
  | _ => none

/-- state update only (no verdict): called for every line before the command families -/
def trackBsiL2 (st : St) (cmd : List String) : St :=
  let forget (names : List String) : St := { st with bsiL2 := names.foldl (fun m n => m.erase n) st.bsiL2 }
  match cmd with
  | ["bnew", s, "64"] => { st with bsiL2 := st.bsiL2.insert s (BSI.new 0 0, false) }
  | ["bnew", s, "64", mx, mn] =>
    match mx.toInt?, mn.toInt? with
    | some a, some b => { st with bsiL2 := st.bsiL2.insert s (BSI.new a b, !(a == 0 && b == 0)) }
    | _, _ => forget [s]
  | "bnew" :: s :: _ => forget [s]
  | ["bset", s, c, v] | ["bsetbig", s, c, v] =>
    match st.bsiL2[s]?, c.toNat?, v.toInt? with
    | some (b, fixed), some col, some val =>
      { st with bsiL2 := st.bsiL2.insert s ((if fixed then b.setValueFixed col val else b.setValue col val), fixed) }
    | _, _, _ => forget [s]
  | ["bclr", s, f] =>
    match st.bsiL2[s]? with
    | some (b, fixed) =>
      let fs : Option BSet := if f == "@" then some b.ebm else st.bm64[f]?
      match fs with
      | some x => { st with bsiL2 := st.bsiL2.insert s (b.clearValues x, fixed) }
      | none => forget [s]
    | none => st
  | ["bclone", t, s] =>
    match st.bsiL2[s]? with
    | some (b, _) => { st with bsiL2 := st.bsiL2.insert t (b.retainSet b.ebm, false) }
    | none => forget [t]
  | ["bretainset", t, s, f] =>
    match st.bsiL2[s]? with
    | some (b, _) =>
      let fs : Option BSet := if f == "@" then some b.ebm else st.bm64[f]?
      match fs with
      | some x => { st with bsiL2 := st.bsiL2.insert t (b.retainSet x, false) }
      | none => forget [t]
    | none => forget [t]
  -- commands that change an index in a way the plane model does not follow
  | "bsetmany" :: s :: _ | "bsetmanybig" :: s :: _ | "bretain" :: s :: _ | "bparor" :: s :: _ | "badd" :: s :: _
  | "binc" :: s :: _ | "bincall" :: s :: _ | "bopt" :: s :: _ => forget [s]
  | "bmarsh" :: t :: _ | "bstream" :: t :: _ | "btwc" :: t :: _ => forget [t]
  | _ => st

/-- extra plane-level checks on lines the map-level family already accepted -/
def checkBsiL2 (st : St) (cmd : List String) (got : String) : Verdict :=
  match cmd with
  | ["bplanes", s] =>
    match st.bsiL2[s]? with
    | none => none
    | some (b, _) =>
      let exp := " ".intercalate (toString b.planes.length :: digest b.ebm :: b.planes.map digest)
      if got.startsWith "skip" then none else if exp == got then none else some ("plane model: " ++ exp)
  | "bcmp" :: _ :: s :: _ :: op :: rest =>
    match st.bsiL2[s]?, parseOp op with
    | some (b, _), some o =>
      let (k, k2, f) : Option Int × Option Int × String :=
        match o, rest with
        | .RANGE, [a, c] => (a.toInt?, c.toInt?, "-")
        | .RANGE, [a, c, f] => (a.toInt?, c.toInt?, f)
        | _, [a] => (a.toInt?, some 0, "-")
        | _, [a, f] => (a.toInt?, some 0, f)
        | _, _ => (none, none, "-")
      let found : Option (Option BSet) :=
        if f == "-" then some none else if f == "@" then some (some b.ebm) else (st.bm64[f]?).map some
      match k, k2, found with
      | some kv, some kv2, some fs =>
        match b.compareInt64Value o kv kv2 fs with
        | some r =>
          let d := (got.splitOn " ").headD ""
          if d == digest r then none else some ("plane-algebra model (Impl/BSI.compareInt64Value): " ++ digest r)
        | none => none
      | _, _, _ => none
    | _, _ => none
  | _ => none

end RModel.Driver
