import RModel.Driver.State
import RModel.Impl.BSI
import RModel.Impl.BSI32
import RModel.Impl.BSI64Ops
import RModel.Impl.BSI32Ops
/-!
Plane-level (L2) tracking of roaring64 bit-sliced indexes: next to the column→value map used by `Driver/Bsi.lean`,
the checker replays `bnew` / `bset` / `bsetbig` / `bclr` / `bclone` / `bretainset` on the plane model `Impl/BSI.lean`
(the model the theorems of `RProofs/BSI.lean` are about) and compares
* `bplanes s`  — the real bit planes, plane by plane, with the model's planes;
* `bcmp …`     — the result of the modelled plane-algebra fast path `BSI.compareInt64Value` with the Go result.
An operation that is not modelled at plane level forgets the plane state of the indexes it changes (they are simply no
longer compared).

Since `Impl/BSI64Ops.lean` (theorems: `RProofs/BSI64Ops.lean`) the 64-bit tracker also replays
`bsetmany/bsetmanybig` (`SetBigMany`), `bretain` (`Retain`), `bparor` (`ParOr`, sign extension), `badd` (`Add`), `binc/bincall`
(`Increment`: ripple carry, widening), `bopt` (`RunOptimize`: no change of the sets), `bmarsh` (`MarshalBinary`/`UnmarshalBinary`:
the sign plane is dropped), `bstream` (`WriteTo`/`ReadFrom`), both with a fresh or a previously used receiver, and `btwc`
(`TransposeWithCounts`) for ONE worker — see `trackBsi64Ops`; and the plane model also answers `beq` (`BatchEqual`: cube /
trie path), `btrans` / `bitrans` (`Transpose`, `IntersectAndTranspose`), `bgetbig`, `bsumbig` — see `checkBsi64Ops`.
What still forgets an index: an operation whose participant is the target itself or is not tracked, `btwc` with more than one
worker (the batch results are added in goroutine delivery order), `bstream` into a fixed-width receiver that is wider than the
source (the plane count of `NewBSI(max, min)` is no longer known afterwards).

The second half of the file does the same for 32-bit indexes (`BitSliceIndexing.BSI`, plane model `Impl/BSI32.lean`, hook
`BitSliceIndexing.VerifBSIPlanes`): `bnew/bset/bsetmany/bclr/bclone/bretainset/bmarsh/bparor/badd/binc/bincall/bopt` are
replayed on the planes, `bplanes` compares them, and `bcmp/beq/bsum/bminmax/bget/bexists/bcard` are also answered by the
plane-level query algorithms.  Since `Impl/BSI32Ops.lean`: `bmarsh` goes through the modelled `MarshalBinary` / `UnmarshalBinary`
loops (`BSI32.roundTrip`), the result index of `btwc` (`TransposeWithCounts`) is followed (`BSI32.transposeWithCounts`), and
`beq` (every list length) / `btrans` / `bitrans` / `btwc` / `bmarsh` are also answered by that model — `Driver/Bsi32Ops.lean`.
-/
namespace RModel.Driver
open RModel

def parseOp (s : String) : Option BSI.Op :=
  match s with
  | "LT" => some .LT | "LE" => some .LE | "EQ" => some .EQ | "GE" => some .GE | "GT" => some .GT | "RANGE" => some .RANGE
  | _ => none

/-- state update only (no verdict): called for every line before the command families -/
def trackBsi64L2 (st : St) (cmd : List String) : St :=
  let forget (names : List String) : St := { st with bsiL2 := names.foldl (fun m n => m.erase n) st.bsiL2 }
  match cmd with
  | ["bnew", s, "64"] => { st with bsiL2 := st.bsiL2.insert s (BSI.new 0 0, false) }
  | ["bnew", s, "64", mx, mn] =>
    match mx.toInt?, mn.toInt? with
    | some a, some b => { st with bsiL2 := st.bsiL2.insert s (BSI.new a b, !(a == 0 && b == 0)) }
    | _, _ => forget [s]
  | "bnew" :: s :: _ => forget [s]
  | ["bset", s, c, v] | ["bsetbig", s, c, v] =>
    match st.bsiL2[s]?, c.toNat?, v.toInt? with
    | some (b, fixed), some col, some val =>
      { st with bsiL2 := st.bsiL2.insert s ((if fixed then b.setValueFixed col val else b.setValue col val), fixed) }
    | _, _, _ => forget [s]
  | ["bclr", s, f] =>
    match st.bsiL2[s]? with
    | some (b, fixed) =>
      let fs : Option BSet := if f == "@" then some b.ebm else st.bm64[f]?
      match fs with
      | some x => { st with bsiL2 := st.bsiL2.insert s (b.clearValues x, fixed) }
      | none => forget [s]
    | none => st
  | ["bclone", t, s] =>
    match st.bsiL2[s]? with
    | some (b, _) => { st with bsiL2 := st.bsiL2.insert t (b.retainSet b.ebm, false) }
    | none => forget [t]
  | ["bretainset", t, s, f] =>
    match st.bsiL2[s]? with
    | some (b, _) =>
      let fs : Option BSet := if f == "@" then some b.ebm else st.bm64[f]?
      match fs with
      | some x => { st with bsiL2 := st.bsiL2.insert t (b.retainSet x, false) }
      | none => forget [t]
    | none => forget [t]
  -- commands that change an index in a way the plane model does not follow
  | "bsetmany" :: s :: _ | "bsetmanybig" :: s :: _ | "bretain" :: s :: _ | "bparor" :: s :: _ | "badd" :: s :: _
  | "binc" :: s :: _ | "bincall" :: s :: _ | "bopt" :: s :: _ => forget [s]
  | "bmarsh" :: t :: _ | "bstream" :: t :: _ | "btwc" :: t :: _ => forget [t]
  | _ => st

/-- extra plane-level checks on lines the map-level family already accepted -/
def checkBsi64L2 (st : St) (cmd : List String) (got : String) : Verdict :=
  match cmd with
  | ["bplanes", s] =>
    match st.bsiL2[s]? with
    | none => none
    | some (b, _) =>
      let exp := " ".intercalate (toString b.planes.length :: digest b.ebm :: b.planes.map digest)
      if got.startsWith "skip" then none else if exp == got then none else some ("plane model: " ++ exp)
  | "bcmp" :: _ :: s :: _ :: op :: rest =>
    match st.bsiL2[s]?, parseOp op with
    | some (b, _), some o =>
      let (k, k2, f) : Option Int × Option Int × String :=
        match o, rest with
        | .RANGE, [a, c] => (a.toInt?, c.toInt?, "-")
        | .RANGE, [a, c, f] => (a.toInt?, c.toInt?, f)
        | _, [a] => (a.toInt?, some 0, "-")
        | _, [a, f] => (a.toInt?, some 0, f)
        | _, _ => (none, none, "-")
      let found : Option (Option BSet) :=
        if f == "-" then some none else if f == "@" then some (some b.ebm) else (st.bm64[f]?).map some
      match k, k2, found with
      | some kv, some kv2, some fs =>
        match b.compareInt64Value o kv kv2 fs with
        | some r =>
          let d := (got.splitOn " ").headD ""
          if d == digest r then none else some ("plane-algebra model (Impl/BSI.compareInt64Value): " ++ digest r)
        | none => none
      | _, _, _ => none
    | _, _ => none
  | _ => none

/-! ### 32-bit indexes (`BitSliceIndexing.BSI`): plane model `Impl/BSI32.lean`

The plane state of a 32-bit index lives in the same table `St.bsiL2` (a name denotes one index; `St.bsi[name].is64` says
which implementation it is).  The carrier `(RModel.BSI × Bool)` holds the planes, the existence set and "not auto-sized";
`MaxValue` / `MinValue` are only ever observed through `MaxValue == 0 && MinValue == 0`, and a fixed-width index never has
fewer planes than `NewBSI(MaxValue, MinValue)` allocates, so nothing else is needed to replay the commands. -/

def toIdx32 (p : RModel.BSI × Bool) : BSI32.Index :=
  { planes := p.1.planes, ebm := p.1.ebm, maxValue := if p.2 then 1 else 0, minValue := 0 }

def ofIdx32 (b : BSI32.Index) : RModel.BSI × Bool := ({ planes := b.planes, ebm := b.ebm }, !BSI32.auto b)

/-- the name denotes a 32-bit index (map-level state) -/
def isBsi32 (st : St) (s : String) : Bool :=
  match st.bsi[s]? with
  | some b => !b.is64
  | none => false

def idx32? (st : St) (s : String) : Option BSI32.Index :=
  if isBsi32 st s then (st.bsiL2[s]?).map toIdx32 else none

def inI64 (v : Int) : Bool := decide (-9223372036854775808 ≤ v) && decide (v ≤ 9223372036854775807)

/-- found-set token of a 32-bit index: outer `none` = undefined; `some none` = nil -/
def fs32? (st : St) (b : BSI32.Index) (tok : String) : Option (Option BSet) :=
  if tok == "-" then some none else if tok == "@" then some (some b.ebm) else (st.bm[tok]?).map some

def parseOp32 (s : String) : Option BSI32.Op :=
  match s with
  | "LT" => some .LT | "LE" => some .LE | "EQ" => some .EQ | "GE" => some .GE | "GT" => some .GT | "RANGE" => some .RANGE
  | _ => none

/-- effective worker count used by the 32-bit plane model for the script's `w` (`0` = `runtime.NumCPU()` on the Go side; the
theorems `…_worker_independent` of `RProofs/BSI32Ops.lean` say the answer is the same for every count, and
`transposeWithCounts_planes_order_independent` of `RProofs/BSI32OpsPlanes.lean` says the INDEX returned by `TransposeWithCounts` —
planes and number of planes — is the same for every count and every arrival order of the batch results) -/
def effWorkers (w : Nat) : Nat := if w == 0 then 1 else w

/-- is a per-column walk of `cols` columns over the planes of `b` affordable for the checker?  (`mem` on an interval list is
linear in its length) -/
def affordable (b : BSI32.Index) (cols : Nat) : Bool :=
  cols * (b.planes.foldl (fun a p => a + p.length) b.ebm.length + 1) ≤ 12000000

/-- state update for commands whose subject is a 32-bit index; `none` = not such a command.
`st` is the state AFTER the map-level family handled the line. -/
def trackBsi32L2 (st : St) (cmd : List String) : Option St :=
  let put (n : String) (b : BSI32.Index) : Option St := some { st with bsiL2 := st.bsiL2.insert n (ofIdx32 b) }
  let forget (n : String) : Option St := some { st with bsiL2 := st.bsiL2.erase n }
  let keepSt : Option St := some st
  match cmd with
  | ["bnew", s, "32"] => put s BSI32.newDefault
  | ["bnew", s, "32", mx, mn] =>
    match mx.toInt?, mn.toInt? with
    | some a, some b => if inI64 a && inI64 b then put s (BSI32.new a b) else keepSt
    | _, _ => keepSt
  | ["bset", s, c, v] =>
    if !isBsi32 st s then none else
    match idx32? st s, c.toNat?, v.toInt? with
    | some b, some col, some val => if col < U32 && inI64 val then put s (BSI32.setValue b col val) else keepSt
    | none, _, _ => keepSt
    | _, _, _ => keepSt
  | ["bsetmany", s, f, v] =>
    if !isBsi32 st s then none else
    match idx32? st s, v.toInt? with
    | some b, some val =>
      match fs32? st b f with
      | some (some x) => if inI64 val then put s (BSI32.setMany b x val) else keepSt
      | _ => keepSt
    | _, _ => keepSt
  | ["bclr", s, f] =>
    if !isBsi32 st s then none else
    match idx32? st s with
    | some b =>
      match fs32? st b f with
      | some (some x) => put s (BSI32.clearValues b x)
      | _ => keepSt
    | none => keepSt
  | ["bclone", t, s] =>
    if !isBsi32 st s then none else
    match idx32? st s with
    | some b => put t (BSI32.clone b)
    | none => forget t
  | ["bretainset", t, s, f] =>
    if !isBsi32 st s then none else
    match idx32? st s with
    | some b =>
      match fs32? st b f with
      | some (some x) => put t (BSI32.retainSet b x)
      | _ => keepSt
    | none => forget t
  | ["bmarsh", t, s] =>
    if !isBsi32 st s then none else
    match idx32? st s with
    | some b =>
      -- the receiver `NewBSI(max, min)` never has more planes than `s`; the modelled loops of Impl/BSI32Ops (`roundTrip_eq`: = `unmarshalFrom`)
      match BSI32.roundTrip b b with
      | some r => put t r
      | none => forget t
    | none => forget t
  | ["bmarsh", t, s, u] =>
    if !isBsi32 st s then none else
    -- the map-level family has already consumed `u` when the command was accepted
    if t == u then forget t else
    match st.bsi[u]? with
    | some _ => keepSt       -- skipped (same name / other kind): nothing happened
    | none =>
      match idx32? st s, (st.bsiL2[u]?).map toIdx32 with
      | some b, some r =>
        match BSI32.roundTrip r b with
        | some x => (put t x).map (fun st' => if t == u then st' else { st' with bsiL2 := st'.bsiL2.erase u })
        | none => (forget t).map (fun st' => { st' with bsiL2 := st'.bsiL2.erase u })
      | _, _ => (forget t).map (fun st' => { st' with bsiL2 := st'.bsiL2.erase u })
  | "bparor" :: s :: w :: ts =>
    if !isBsi32 st s then none else
    match idx32? st s, w.toNat? with
    | some b, some wn =>
      if wn > 64 || ts.isEmpty || !(ts.all (isBsi32 st)) then keepSt
      else if ts.contains s then forget s
      else match ts.mapM (idx32? st) with
        | some bs => put s (BSI32.parOr b bs)
        | none => forget s
    | none, _ => keepSt
    | _, _ => keepSt
  | ["badd", s, t] =>
    if !isBsi32 st s then none else
    if !isBsi32 st t then keepSt
    else if s == t then forget s
    else match idx32? st s, idx32? st t with
      | some b, some o => put s (BSI32.addIndex b o)
      | _, _ => forget s
  | ["binc", s, f] =>
    if !isBsi32 st s then none else
    match idx32? st s with
    | some b =>
      match fs32? st b f with
      | some fs => put s (BSI32.increment b fs)
      | none => keepSt
    | none => keepSt
  | ["bincall", s] =>
    if !isBsi32 st s then none else
    match idx32? st s with
    | some b => put s (BSI32.increment b (some b.ebm))
    | none => keepSt
  | ["bopt", s] => if !isBsi32 st s then none else keepSt        -- RunOptimize: representation only
  | ["btwc", t, s, w, f, g] =>
    if !isBsi32 st s then none else
    match w.toNat? with
    | some wn =>
      if wn > 64 || g != "-" then keepSt           -- skipped by the harness
      else match idx32? st s with
        | some b =>
          match fs32? st b f with
          | some fs =>
            if affordable b (2 * BSet.card (fs.getD b.ebm)) then put t (BSI32.transposeWithCounts b (effWorkers wn) fs)
            else forget t
          | none => keepSt                         -- undefined found set: skipped
        | none => forget t
    | none => keepSt
  | "btwc" :: t :: s :: _ => if !isBsi32 st s then none else forget t
  | _ => none

/-- the index a `b…` command operates on is a 32-bit one (copies: the SOURCE index) -/
def subjectIs32 (st : St) (cmd : List String) : Bool :=
  match cmd with
  | "bnew" :: _ => false
  | c :: a0 :: a1 :: _ =>
    if c == "bclone" || c == "bretainset" || c == "bmarsh" || c == "bstream" || c == "btwc" then isBsi32 st a1
    else isBsi32 st a0
  | [_, a0] => isBsi32 st a0
  | _ => false

/-! ### 64-bit indexes, continued: the operations of `Impl/BSI64Ops.lean`

`bsetmany/bsetmanybig/bretain/bparor/badd/binc/bincall/bopt/bmarsh/bstream/btwc` are replayed on the plane model instead of
forgetting the index.  `st` is the state AFTER the map-level family handled the line; a command the harness skipped
(undefined name, nil found-set where none is allowed, mixed implementations, malformed number) leaves the plane state alone. -/

/-- the name denotes a 64-bit index (map-level state) -/
def isBsi64 (st : St) (s : String) : Bool :=
  match st.bsi[s]? with
  | some b => b.is64
  | none => false

/-- found-set token of a 64-bit index: outer `none` = undefined; `some none` = nil -/
def fs64? (st : St) (b : RModel.BSI) (tok : String) : Option (Option BSet) :=
  if tok == "-" then some none else if tok == "@" then some (some b.ebm) else (st.bm64[tok]?).map some

/-- the receiver `newLike(s)` of a two-argument `bmarsh` / `bstream`: `NewBSI(MaxValue, MinValue)` never has more planes
than the index it was derived from, so for the plane count of the result a one-plane receiver stands for it -/
def freshRecv : RModel.BSI := BSI.new 0 0

/-- state update for the commands modelled in `Impl/BSI64Ops.lean` whose subject is NOT a 32-bit index; `none` = not such a
command (then `trackBsi64L2` decides). -/
def trackBsi64Ops (st : St) (cmd : List String) : Option St :=
  let put (n : String) (b : RModel.BSI) (fixed : Bool) : Option St := some { st with bsiL2 := st.bsiL2.insert n (b, fixed) }
  let forget (n : String) : Option St := some { st with bsiL2 := st.bsiL2.erase n }
  let keepSt : Option St := some st
  match cmd with
  | ["bsetmany", s, f, v] | ["bsetmanybig", s, f, v] =>
    match st.bsiL2[s]?, v.toInt? with
    | some (b, fixed), some val =>
      match fs64? st b f with
      | some (some x) =>
        if cmd.head? == some "bsetmany" && !inI64 val then keepSt
        else put s (if fixed then b.setManyFixed x val else b.setMany x val) fixed
      | _ => keepSt
    | _, _ => keepSt
  | ["bretain", s, f] =>
    match st.bsiL2[s]? with
    | some (b, fixed) =>
      match fs64? st b f with
      | some (some x) => put s (b.retain x) fixed
      | _ => keepSt
    | none => keepSt
  | "bparor" :: s :: w :: ts =>
    match st.bsiL2[s]?, w.toNat? with
    | some (b, fixed), some wn =>
      if wn > 64 || ts.isEmpty || !(ts.all (isBsi64 st)) then keepSt
      else if ts.contains s then forget s
      else match ts.mapM (fun t => (st.bsiL2[t]?).map (·.1)) with
        | some bs => put s (b.parOr bs) fixed
        | none => forget s
    | _, _ => keepSt
  | ["badd", s, t] =>
    match st.bsiL2[s]? with
    | some (b, fixed) =>
      if !isBsi64 st t then keepSt
      else if s == t then forget s
      else match st.bsiL2[t]? with
        | some (o, _) => put s (b.addIndex o) fixed
        | none => forget s
    | none => keepSt
  | ["binc", s, f] =>
    match st.bsiL2[s]? with
    | some (b, fixed) =>
      match fs64? st b f with
      | some fs => put s (b.increment fs) fixed
      | none => keepSt
    | none => keepSt
  | ["bincall", s] =>
    match st.bsiL2[s]? with
    | some (b, fixed) => put s (b.increment (some b.ebm)) fixed
    | none => keepSt
  | ["bopt", _] => keepSt                                   -- RunOptimize: representation only
  | ["bmarsh", t, s] =>
    match st.bsiL2[s]? with
    | some (b, fixed) => put t (BSI.unmarshalFrom freshRecv b) fixed
    | none => if isBsi64 st s then forget t else keepSt
  | ["bstream", t, s] =>
    match st.bsiL2[s]? with
    | some (b, fixed) => put t (BSI.streamFrom freshRecv b) fixed
    | none => if isBsi64 st s then forget t else keepSt
  | ["bmarsh", t, s, u] | ["bstream", t, s, u] =>
    -- the map-level family has already consumed `u` when the command was accepted
    if t == u then forget t else
    match st.bsi[u]? with
    | some _ => keepSt       -- skipped (same name / other kind): nothing happened
    | none =>
      let st' : St := { st with bsiL2 := (st.bsiL2.erase u).erase t }
      match st.bsiL2[s]?, st.bsiL2[u]? with
      | some (b, _), some (r, rfixed) =>
        if cmd.head? == some "bmarsh" then some { st' with bsiL2 := st'.bsiL2.insert t (BSI.unmarshalFrom r b, rfixed) }
        else if rfixed && b.planes.length < r.planes.length then some st'   -- fewer planes than `NewBSI(max, min)`: not followed
        else some { st' with bsiL2 := st'.bsiL2.insert t (BSI.streamFrom r b, rfixed) }
      | _, _ => some st'
  | ["btwc", t, s, w, f, g] =>
    match st.bsiL2[s]?, w.toNat? with
    | some (b, _), some wn =>
      match fs64? st b f, fs64? st b g with
      | some fs, some gs =>
        if wn == 1 then
          match b.transposeWithCounts1 fs gs with
          | some r => put t r false
          | none => forget t
        else forget t
      | _, _ => keepSt
    | _, _ => if isBsi64 st s then forget t else keepSt
  | _ => none

/-- state update only (no verdict): called for every line after the command families -/
def trackBsiL2 (st : St) (cmd : List String) : St :=
  match trackBsi32L2 st cmd with
  | some st' => st'
  | none =>
    -- a command on a 32-bit index that the 32-bit tracker does not know (64-bit-only operations: skipped by the harness,
    -- pure queries) must never be replayed on the 64-bit plane model
    if subjectIs32 st cmd then st
    else match trackBsi64Ops st cmd with
      | some st' => st'
      | none => trackBsi64L2 st cmd

/-- plane-level checks of queries on a tracked 32-bit index (state BEFORE the line); `none` = not such a line -/
def checkBsi32L2 (st : St) (cmd : List String) (got : String) : Option Verdict :=
  let first := (got.splitOn " ").headD ""
  let verdict (what exp act : String) : Option Verdict :=
    some (if got.startsWith "skip" || exp == act then none else some ("plane model (Impl/BSI32." ++ what ++ "): " ++ exp))
  match cmd with
  | "bcmp" :: _ :: s :: _ :: op :: rest =>
    if !isBsi32 st s then none else
    match idx32? st s, parseOp32 op with
    | some b, some o =>
      let (k, k2, f) : Option Int × Option Int × String :=
        match o, rest with
        | .RANGE, [a, c] => (a.toInt?, c.toInt?, "-")
        | .RANGE, [a, c, f] => (a.toInt?, c.toInt?, f)
        | .RANGE, _ => (none, none, "-")
        | _, [a] => (a.toInt?, some 0, "-")
        | _, [a, f] => (a.toInt?, some 0, f)
        | _, _ => (none, none, "-")
      match k, k2, fs32? st b f with
      | some kv, some kv2, some fs =>
        if inI64 kv && inI64 kv2 then verdict "compareValue" (digest (BSI32.compareValue b o kv kv2 fs)) first else some none
      | _, _, _ => some none
    | _, _ => some none
  | "beq" :: _ :: s :: _ :: vals =>
    if !isBsi32 st s then none else
    match idx32? st s, vals.mapM (fun (v : String) => v.toInt?) with
    | some b, some vs =>
      if vs.all inI64 then
        match BSI32.batchEqual b vs with
        | some r => verdict "batchEqual" (digest r) first
        | none => some none
      else some none
    | _, _ => some none
  | ["bsum", s, f] =>
    if !isBsi32 st s then none else
    match idx32? st s with
    | some b =>
      match fs32? st b f with
      | some fs => let r := BSI32.sum b fs; verdict "sum" (toString r.1 ++ " " ++ toString r.2) got
      | none => some none
    | none => some none
  | ["bminmax", s, _, op, f] =>
    if !isBsi32 st s then none else
    match idx32? st s with
    | some b =>
      match fs32? st b f with
      | some fs =>
        if op == "MIN" || op == "MAX" then verdict "minMax" (toString (BSI32.minMax b (op == "MAX") fs)) got else some none
      | none => some none
    | none => some none
  | ["bget", s, c] =>
    if !isBsi32 st s then none else
    match idx32? st s, c.toNat? with
    | some b, some col =>
      if col < U32 then
        verdict "getValue" (match BSI32.getValue b col with | some v => toString v ++ " true" | none => "0 false") got
      else some none
    | _, _ => some none
  | ["bexists", s, c] =>
    if !isBsi32 st s then none else
    match idx32? st s, c.toNat? with
    | some b, some col => if col < U32 then verdict "valueExists" (bstr (BSI32.valueExists b col)) got else some none
    | _, _ => some none
  | ["bcard", s] =>
    if !isBsi32 st s then none else
    match idx32? st s with
    | some b => verdict "cardinality" (toString (BSI32.cardinality b)) got
    | none => some none
  | _ => none

/-- plane-level checks of queries on a tracked 64-bit index (state BEFORE the line) answered by `Impl/BSI64Ops.lean` -/
def checkBsi64Ops (st : St) (cmd : List String) (got : String) : Verdict :=
  let first := (got.splitOn " ").headD ""
  let verdict (what exp act : String) : Verdict :=
    if got.startsWith "skip" || exp == act then none else some ("plane model (Impl/BSI64Ops." ++ what ++ "): " ++ exp)
  let idx (s : String) : Option RModel.BSI := if isBsi64 st s then (st.bsiL2[s]?).map (·.1) else none
  match cmd with
  | "beq" :: _ :: s :: _ :: vals =>
    match idx s, vals.mapM (fun (v : String) => v.toInt?) with
    | some b, some vs =>
      if vs.all inI64 then
        match b.batchEqual vs with
        | some r => verdict "batchEqual" (digest r) first
        | none => none
      else none
    | _, _ => none
  | ["btrans", _, s] =>
    match idx s with
    | some b =>
      match b.transpose none with
      | some r => verdict "transpose" (digest r) first
      | none => none
    | none => none
  | ["bitrans", _, s, _, f] =>
    match idx s with
    | some b =>
      match fs64? st b f with
      | some fs =>
        match b.transpose fs with
        | some r => verdict "transpose" (digest r) first
        | none => none
      | none => none
    | none => none
  | ["bgetbig", s, c] =>
    match idx s, c.toNat? with
    | some b, some col =>
      if col < U64 then
        verdict "getValue" (match b.getValue col with | some v => toString v ++ " true" | none => "nil false") got
      else none
    | _, _ => none
  | ["bsumbig", s, f] =>
    match idx s with
    | some b =>
      match fs64? st b f with
      | some fs => let r := b.sumBigValues fs; verdict "sumBigValues" (toString r.1 ++ " " ++ toString r.2) got
      | none => none
    | none => none
  | _ => none

/-- extra plane-level checks on lines the map-level family already accepted -/
def checkBsiL2 (st : St) (cmd : List String) (got : String) : Verdict :=
  match checkBsi32L2 st cmd got with
  | some v => v
  | none =>
    match checkBsi64L2 st cmd got with
    | some m => some m
    | none => checkBsi64Ops st cmd got

end RModel.Driver
