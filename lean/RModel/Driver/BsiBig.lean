import RModel.Driver.State
import RModel.Driver.Bsi
import RModel.Driver.BsiL2
import RModel.Impl.BSI64Big
/-!
Tie of the "big" paths of `roaring64.BSI` (`Impl/BSI64Big.lean`, theorems in `RProofs/BSI64Big.lean`).

For every 64-bit index the plane tracker of `Driver/BsiL2.lean` follows, the following lines are ALSO answered by the algorithm
models of `Impl/BSI64Big.lean` (and `BSI.minMax` of `Impl/BSI.lean`) and compared with the Go output — for every width, so
the dispatch between the int64 plane algebra and the per-column code is part of what is compared:

* `bcmp` / `bcmpbig`   — `BSI.compareValueAny` / `BSI.compareBigValue` (`CompareValue`, `CompareBigValue`: fast path, else
                         the per-column automaton `compareColumn` over the found set);
* `bcmpabs`            — the same for found sets that may contain columns without value (new command, see below);
* `bminmax` / `bminmaxbig` — `BSI.minMaxBig` (sentinel on an empty candidate set included);
* `bcmpbsi`            — `BSI.compareBSI`;
* `bgets` / `bgetsbig` — `BSI.getValues` / `BSI.getBigValues` (batch paths, duplicates, absent columns, panic of `GetValues`);
* `beq` / `beqbig`     — `BSI.batchEqualAny` / `BSI.batchEqualBig`.

A disagreement is reported as `big model (Impl/BSI64Big.<function>): <expected>`.

New command (harness/bsibig.go), a pure query:

    bcmpabs s w OP k [k2] f      CompareBigValue(w, OP, k, k2, f), `f` a named found set or `@` (not nil) that may contain
                                 columns holding no value
    output: <digest raw result> <digest of result ∩ existence bitmap> <same|changed> <digest f>

The map semantics (`stepBsiBig`) judges tokens 2-4 only: the columns of the result that HOLD A VALUE are exactly the columns
of `f` whose value satisfies the predicate.  What the code does with the other columns of `f` is outside the documented
domain of `CompareBigValue` ("found-set of existing columns"); it is modelled all the same (`BSI.compareBig`: they are read
as the value 0 by the per-column path and dropped by the plane algebra) and token 1 is compared with that model.
-/
namespace RModel.Driver
open RModel

/-- map-level family of the new command; `none` = not ours -/
def stepBsiBig (st : St) (cmd : List String) (got : String) : Option (St × Verdict) :=
  match cmd with
  | "bcmpabs" :: s :: w :: op :: rest =>
    let r : Option String := do
      let b ← st.bsi[s]?
      let wn ← nat? w
      guard (b.is64 && wn ≤ 64)
      let (k, k2, ftok) ← (match op, rest with
        | "RANGE", [a, c, f] => do pure ((← int? a), (← int? c), f)
        | "RANGE", _ => none
        | _, [a, f] => do pure ((← int? a), (0 : Int), f)
        | _, _ => none)
      let _ ← pred op k k2 0
      let fs ← fsTok st b ftok
      let _ ← fs            -- nil is not allowed
      let res := ofVals (((sel b.vals fs).filter (fun p => (pred op k k2 p.2).getD false)).map (·.1))
      pure (digest res ++ " same " ++ fsd ftok fs b.vals)
    match r with
    | none => some (st, expect "skip" got)
    | some e =>
      let toks := got.splitOn " "
      if toks.length == 4 && " ".intercalate (toks.drop 1) == e then some (st, none)
      else some (st, some ("<raw> " ++ e))
  | _ => none

/-- the constants and the found-set token of a comparison line -/
def cmpArgs (o : BSI.Op) (rest : List String) : Option Int × Option Int × String :=
  match o, rest with
  | .RANGE, [a, c] => (a.toInt?, c.toInt?, "-")
  | .RANGE, [a, c, f] => (a.toInt?, c.toInt?, f)
  | .RANGE, _ => (none, none, "-")
  | _, [a] => (a.toInt?, some 0, "-")
  | _, [a, f] => (a.toInt?, some 0, f)
  | _, _ => (none, none, "-")

def renderCells (l : List (Option Int)) : String :=
  if l.isEmpty then "-" else ",".intercalate (l.map fun o => match o with | some v => toString v | none => "-")

/-- extra checks (state BEFORE the line) of the big-path queries on a tracked 64-bit index -/
def checkBsiBig (st : St) (cmd : List String) (got : String) : Verdict :=
  let first := (got.splitOn " ").headD ""
  let verdict (what exp act : String) : Verdict :=
    if got.startsWith "skip" || exp == act then none else some ("big model (Impl/BSI64Big." ++ what ++ "): " ++ exp)
  let idx (s : String) : Option RModel.BSI := if isBsi64 st s then (st.bsiL2[s]?).map (·.1) else none
  match cmd with
  | "bcmp" :: _ :: s :: _ :: op :: rest =>
    match idx s, parseOp op with
    | some b, some o =>
      let (k, k2, f) := cmpArgs o rest
      match k, k2, fs64? st b f with
      | some kv, some kv2, some fs =>
        if inI64 kv && inI64 kv2 then verdict "compareValueAny" (digest (b.compareValueAny o kv kv2 fs)) first else none
      | _, _, _ => none
    | _, _ => none
  | "bcmpbig" :: _ :: s :: _ :: op :: rest =>
    match idx s, parseOp op with
    | some b, some o =>
      let (k, k2, f) := cmpArgs o rest
      match k, k2, fs64? st b f with
      | some kv, some kv2, some fs => verdict "compareBigValue" (digest (b.compareBigValue o kv kv2 fs)) first
      | _, _, _ => none
    | _, _ => none
  | "bcmpabs" :: s :: _ :: op :: rest =>
    match idx s, parseOp op with
    | some b, some o =>
      let (k, k2, f) := cmpArgs o rest
      match k, k2, fs64? st b f with
      | some kv, some kv2, some (some fs) => verdict "compareBigValue" (digest (b.compareBigValue o kv kv2 (some fs))) first
      | _, _, _ => none
    | _, _ => none
  | ["bminmax", s, _, op, f] | ["bminmaxbig", s, _, op, f] =>
    match idx s with
    | some b =>
      match fs64? st b f with
      | some fs =>
        if op == "MIN" || op == "MAX" then
          let r := b.minMaxBig (op == "MAX") fs
          -- `MinMax` is `MinMaxBig(…).Int64()`: only defined when the extremum is an int64
          if cmd.head? == some "bminmax" && !inI64 r then none else verdict "minMaxBig" (toString r) got
        else none
      | none => none
    | none => none
  | "bcmpbsi" :: _ :: s :: op :: t :: rest =>
    match idx s, idx t, parseOp op with
    | some b, some o, some opv =>
      let f := match rest with | [f] => f | _ => "-"
      if rest.length > 1 then none else
      match fs64? st b f with
      | some fs =>
        match b.compareBSI opv o fs with
        | some r => verdict "compareBSI" (digest r) first
        | none => none
      | none => none
    | _, _, _ => none
  | "bgetsbig" :: s :: cs =>
    match idx s, cs.mapM (fun (c : String) => c.toNat?) with
    | some b, some cols =>
      if cols.all (· < U64) then verdict "getBigValues" (renderCells (b.getBigValues cols)) got else none
    | _, _ => none
  | "bgets" :: s :: cs =>
    match idx s, cs.mapM (fun (c : String) => c.toNat?) with
    | some b, some cols =>
      if cols.all (· < U64) then
        match b.getValues cols with
        | some r => verdict "getValues" (renderCells r) got
        | none => if got.startsWith "panic" || got.startsWith "skip" then none else some "big model (Impl/BSI64Big.getValues): panic"
      else none
    | _, _ => none
  | "beq" :: _ :: s :: _ :: vals =>
    match idx s, vals.mapM (fun (v : String) => v.toInt?) with
    | some b, some vs => if vs.all inI64 then verdict "batchEqualAny" (digest (b.batchEqualAny vs)) first else none
    | _, _ => none
  | "beqbig" :: _ :: s :: _ :: vals =>
    match idx s, vals.mapM (fun (v : String) => v.toInt?) with
    | some b, some vs => verdict "batchEqualBig" (digest (b.batchEqualBig vs)) first
    | _, _ => none
  | _ => none

end RModel.Driver
