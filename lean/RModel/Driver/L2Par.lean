import RModel.Driver.State
import RModel.Driver.Ser
import RModel.Driver.Kern
import RModel.Driver.Agg
import RModel.Driver.L2Agg
import RModel.Impl.ParData
/-!
Exact-representation tie of the DATA model of the parallel aggregates: `l2par <paror|parand|parheapor> z w x1 x2 …`.

Go prints `<repr of every operand before the call> | <repr(result)> | ok | ncpu=<n>` or
`… | changed:<i> <repr(operand i after)> | ncpu=<n>` (`ncpu = runtime.NumCPU()`, the worker count that `w = 0` stands for).
Checked, in this order:
1. all representations parse; the abstraction of every operand's representation is the model state of that name;
2. SET semantics: the abstraction of the result's representation is the verified L1 fold (`BSet.unionL` / `BSet.interL`) of the
   model states — whatever the worker count;
3. operands unchanged.  The one documented exception is the `Clone()` path (`ParOr`: exactly one NON-EMPTY operand; `ParAnd` /
   `ParHeapOr`: exactly one operand): with copy-on-write switched on the clone shares every container and both sides get all their
   `needCopyOnWrite` flags set — then that operand after the call must be `Rep.cloneSrc` of the operand before;
4. when every operand is well-formed (`Rep.wf`): `renderRep (Rep.parOr / parAnd / parHeapOr w' operands)` is literally the result
   token (same keys, kinds, payloads, cached cardinalities, flags, copy-on-write switch), where `w'` is the effective worker count
   (`w`, or `ncpu` when `w = 0`), and the result is well-formed.
The model state of `z` becomes the L1 result.
-/
namespace RModel.Driver
open RModel RModel.Impl

def stepL2Par (st : St) (cmd : List String) (got : String) : Option (St × Verdict) :=
  match cmd with
  | "l2par" :: fn :: z :: wS :: names =>
    let sem : Option ((List BSet → BSet) × (Nat → List Rep → Rep)) :=
      match fn with
      | "paror" => some (BSet.unionL, Rep.parOr)
      | "parand" => some (BSet.interL, Rep.parAnd)
      | "parheapor" => some (BSet.unionL, Rep.parHeapOr)
      | _ => none
    match sem, wS.toNat? with
    | some (f1, f2), some w =>
      if w > 1048576 then some (skipV st got) else
      match lookupAll st names with
      | none => some (skipV st got)
      | some sets =>
        let expSet := f1 sets
        let st' := { st with bm := st.bm.insert z expSet }
        match barGroups ((got.splitOn " ").filter (· ≠ "")) with
        | [opToks, [rzS], status, [ncpuS]] =>
          match opToks.mapM parseRep, parseRep rzS, (ncpuS.drop 5).toNat? with
          | some reps, some rz, some ncpu =>
            if reps.length != names.length then some (st', some "one representation per operand") else
            if !ncpuS.startsWith "ncpu=" || ncpu == 0 then some (st', some "ncpu=<positive>") else
            let absOk : Verdict := firstFail (((names.zip reps).zip sets).map fun ((n, r), s) =>
              failIf (r.toBSetFast != s) ("abs(repr " ++ n ++ ")=" ++ digest s))
            -- the Clone path: which operand (if any) is cloned
            let cloned : Option Nat :=
              if fn == "paror" then
                match ((List.range reps.length).zip reps).filter (fun p => !p.2.slots.isEmpty) with
                | [(i, _)] => some i
                | _ => none
              else if reps.length == 1 then some 0 else none
            let before := reps.map renderRep
            let after := ((List.range reps.length).zip reps).map fun (i, r) =>
              if cloned == some i then renderRep r.cloneSrc else renderRep r
            let expStatus : String :=
              match ((List.range reps.length).zip (before.zip after)).find? (fun p => p.2.1 != p.2.2) with
              | none => "ok"
              | some (i, _, a) => "changed:" ++ toString i ++ " " ++ a
            let unchanged : Verdict :=
              failIf (" ".intercalate status != expStatus)
                ("operands unchanged (except: Clone of a copy-on-write bitmap flags the source): " ++ expStatus.take 200)
            let w' := if w == 0 then ncpu else w
            let exact : Verdict :=
              if reps.all Rep.wf then
                let r := renderRep (f2 w' reps)
                if !rz.wf then some ("well-formed result of " ++ fn ++ " on well-formed operands")
                else if r != rzS then some ("L2 parallel-aggregate model (w=" ++ toString w' ++ ") = Go representation; model: " ++ r.take 400)
                else none
              else none
            some (st', firstFail [
              absOk,
              failIf (rz.toBSetFast != expSet) ("abs(repr result)=" ++ digest expSet ++ " = " ++ (dump expSet).take 300),
              unchanged,
              exact])
          | _, _, _ => some (st', some "parsable representations")
        | _ => some (st', some "<repr x1> … | <repr z> | <ok|changed:i repr> | ncpu=<n>")
    | _, _ => some (skipV st got)
  | "l2par" :: _ => some (skipV st got)
  | _ => none

end RModel.Driver
