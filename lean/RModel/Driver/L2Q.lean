import RModel.Driver.State
import RModel.Driver.Ser
import RModel.Impl.RepQuery
/-!
Bitmap-level exact tie of the READ-ONLY drivers:

  `l2q <card|empty|has|min|max|rank|sel|cir|iwi|nv|pv|nav|pav> x [args]`   Go prints `<repr(x)> <answer>`
  `l2q2 <andcard|orcard|isect|eq> x y`                                      Go prints `<repr(x)> <repr(y)> <answer>`

Checked, in this order:
1. the representation(s) parse and their abstraction is the model state of `x` (and `y`);
2. SET semantics: the answer is the L1 answer (verified `BSet` query on the model state — the expressions of the L1 commands
   `card empty has min max rank sel cir iwi nv pv nav pav andcard orcard isect eq` in `Driver/Core.lean`);
3. for well-formed operands (`Rep.wf`): the answer is literally what the L2 driver model (`Impl/RepQuery.lean`: the Go
   algorithm on the printed representation) returns.
The model state does not change (`!chg` in the answer = Go changed the representation during a query: never expected).
-/
namespace RModel.Driver
open RModel RModel.Impl

def optInt (o : Option Int) (none_ : String) : String := match o with | some v => toString v | none => none_

/-- unary queries: (set-level answer, L2 model answer) -/
def l2qSem (q : String) (args : List Nat) : Option ((BSet → String) × (Rep → String)) :=
  match q, args with
  | "card", [] => some (fun s => toString (BSet.card s), fun r => toString r.getCardinality)
  | "empty", [] => some (fun s => bstr (BSet.isEmpty s), fun r => bstr r.isEmptyQ)
  | "has", [v] => if v < U32 then some (fun s => bstr (BSet.mem s v), fun r => bstr (r.contains v)) else none
  | "min", [] => some (fun s => match BSet.minimum s with | some v => toString v | none => "panic",
                       fun r => optInt r.minimum "panic")
  | "max", [] => some (fun s => match BSet.maximum s with | some v => toString v | none => "panic",
                       fun r => optInt r.maximum "panic")
  | "rank", [v] => if v < U32 then some (fun s => toString (BSet.rankLt s (v + 1)), fun r => toString (r.rank v)) else none
  | "sel", [i] => if i < U32 then
      some (fun s => match BSet.select s i with | some v => toString v | none => "err", fun r => optInt (r.select i) "err")
      else none
  | "cir", [a, b] => some (fun s => toString (BSet.cardInRange s a b), fun r => toString (r.cardInRange a b))
  | "iwi", [a, b] => some (fun s => bstr (BSet.cardInRange s a b != 0), fun r => bstr (r.intersectsWithInterval a b))
  | "nv", [t] => if t < U32 then some (fun s => optNat (BSet.nextValue s t), fun r => toString (r.nextValue t)) else none
  | "pv", [t] => if t < U32 then some (fun s => optNat (BSet.prevValue s t), fun r => toString (r.previousValue t)) else none
  | "nav", [t] => if t < U32 then
      some (fun s => let v := BSet.nextAbsent s t; if v < U32 then toString v else "-1", fun r => toString (r.nextAbsentValue t))
      else none
  | "pav", [t] => if t < U32 then some (fun s => optNat (BSet.prevAbsent s t), fun r => toString (r.previousAbsentValue t)) else none
  | _, _ => none

def l2q2Sem (q : String) : Option ((BSet → BSet → String) × (Rep → Rep → String)) :=
  match q with
  | "andcard" => some (fun a b => toString (BSet.card (BSet.inter a b)), fun x y => toString (x.andCardinality y))
  | "orcard" => some (fun a b => toString (BSet.card (BSet.union a b)), fun x y => toString (x.orCardinality y))
  | "isect" => some (fun a b => bstr (!BSet.isEmpty (BSet.inter a b)), fun x y => bstr (x.intersects y))
  | "eq" => some (fun a b => bstr (a == b), fun x y => bstr (x.equals y))
  | _ => none

def stepL2Q (st : St) (cmd : List String) (got : String) : Option (St × Verdict) :=
  match cmd with
  | "l2q" :: q :: x :: args =>
    match nats? args, st.bm[x]? with
    | some as, some sx =>
      match l2qSem q as with
      | none => some (skipV st got)
      | some (f1, f2) =>
        match got.splitOn " " with
        | [rxS, ans] =>
          match parseRep rxS with
          | some rx =>
            let exact : Verdict :=
              if rx.wf then
                let m := f2 rx
                if m != ans then some ("L2 driver model = Go answer; model: " ++ m) else none
              else none
            some (st, firstFail [
              failIf (rx.toBSetFast != sx) ("abs(repr " ++ x ++ ")=" ++ digest sx),
              failIf (f1 sx != ans) ("set-level answer " ++ f1 sx),
              exact])
          | none => some (st, some "a parsable representation")
        | _ => some (st, if got.startsWith "skip" then some "<repr x> <answer>" else some "<repr x> <answer>")
    | _, _ => some (skipV st got)
  | ["l2q2", q, x, y] =>
    match l2q2Sem q, st.bm[x]?, st.bm[y]? with
    | some (f1, f2), some sx, some sy =>
      match got.splitOn " " with
      | [rxS, ryS, ans] =>
        match parseRep rxS, parseRep ryS with
        | some rx, some ry =>
          let exact : Verdict :=
            if rx.wf && ry.wf then
              let m := f2 rx ry
              if m != ans then some ("L2 driver model = Go answer; model: " ++ m) else none
            else none
          some (st, firstFail [
            failIf (rx.toBSetFast != sx) ("abs(repr " ++ x ++ ")=" ++ digest sx),
            failIf (ry.toBSetFast != sy) ("abs(repr " ++ y ++ ")=" ++ digest sy),
            failIf (f1 sx sy != ans) ("set-level answer " ++ f1 sx sy),
            exact])
        | _, _ => some (st, some "two parsable representations")
      | _ => some (st, some "<repr x> <repr y> <answer>")
    | _, _, _ => some (skipV st got)
  | "l2q2" :: _ => some (skipV st got)
  | "l2q" :: _ => some (skipV st got)
  | _ => none

end RModel.Driver
