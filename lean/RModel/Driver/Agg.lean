import RModel.Driver.State
import RModel.Spec.Agg
/-! Many-way aggregates (C11), their value semantics (C07) and the parallel code's observable contract (C12).

Expected results are the plain folds `BSet.unionL / interL / xorL / andAny` of `Spec/Agg.lean` (their meaning in terms of
membership, canonical form and order-independence is proved in `RProofs/Agg.lean`); the worker count, GOMAXPROCS and
the number of repetitions never enter the expected value.

Domain assumptions (documented, nothing outside is generated):
* D1  the aggregate of the EMPTY list is the empty bitmap for every function, including the intersections
      `FastAnd()` / `ParAnd(w)` (the fold has no seed; the universe is not a sensible return value of a function
      documented as intersecting "many bitmaps", and the Go code returns `NewBitmap()`).
* D2  `x.AndAny()` with an empty list is outside the property ("for a non-empty list"): both sides answer `skip`.
* D3  worker counts are 0 ≤ w ≤ 65536; negative counts are outside the quantifier.
-/
namespace RModel.Driver
open RModel

def lookupAll (st : St) (names : List String) : Option (List BSet) := names.mapM (fun n => st.bm[n]?)

def aggFn : String → Option (List BSet → BSet)
  | "fastor" | "heapor" | "paror" | "parheapor" => some BSet.unionL
  | "fastand" | "parand" => some BSet.interL       -- D1 for the empty list
  | "heapxor" => some BSet.xorL
  | _ => none

def aggLine (r : BSet) (ops : List BSet) : String :=
  " ".intercalate (digest r :: ops.map digest) ++ " slice=ok valid=ok"

def workers? (s : String) : Option Nat :=
  match s.toNat? with
  | some w => if w ≤ 65536 then some w else none
  | none => none

/-- chunk keys (value / 65536) that hold at least one member, ascending -/
def chunkKeysAux : BSet → Option Nat → List Nat → List Nat
  | lo :: hi :: t, last, acc =>
      let k0 := lo / 65536
      let k1 := (hi - 1) / 65536
      let ks := (List.range (k1 + 1 - k0)).map (· + k0)
      let ks := match last with
        | some l => ks.filter (· != l)
        | none => ks
      chunkKeysAux t (some k1) (ks.reverse ++ acc)
  | _, _, acc => acc.reverse

def chunkKeys (s : BSet) : List Nat := chunkKeysAux s none []

/-- the single-value updates of `aggindep`: per chunk of `a`, (values to add, values to remove) -/
def indepUpdates (a : BSet) : List Nat × List Nat :=
  (chunkKeys a).foldl (fun (acc : List Nat × List Nat) k =>
    match BSet.nextValue a (k * 65536) with
    | none => acc
    | some m =>
      let g := BSet.nextAbsent a m
      let adds := if g / 65536 == k then g :: acc.1 else acc.1
      (adds, m :: acc.2)) ([], [])

def optTok (toks : List String) (key : String) (dflt : Nat) : Option Nat :=
  match toks.find? (fun t => t.startsWith (key ++ "=")) with
  | none => some dflt
  | some t => ((t.drop (key.length + 1)).toString).toNat?

def stepAgg (st : St) (cmd : List String) (got : String) : Option (St × Verdict) :=
  match cmd with
  | "andany" :: x :: names =>
    match st.bm[x]?, lookupAll st names with
    | some sx, some ops =>
      if ops.isEmpty then some (skipV st got)      -- D2
      else
        let r := BSet.andAny sx ops
        let st' := { st with bm := st.bm.insert x r }
        -- an operand that is the receiver itself shows the new contents
        let after := (names.zip ops).map (fun (n, s) => if n == x then r else s)
        some (st', expect (aggLine r after) got)
    | _, _ => some (skipV st got)
  | "aggindep" :: y :: a :: dir :: extra =>
    if y == a then some (skipV st got) else
    match st.bm[y]?, st.bm[a]?, lookupAll st extra with
    | some sy, some sa, some _ =>
      if dir != "res" && dir != "in" then some (skipV st got) else
      let (adds, rems) := indepUpdates sa
      let upd := fun (t : BSet) => BSet.diff (BSet.union t (ofVals adds)) (ofVals rems)
      let (tgt, oth) := if dir == "res" then (y, sa) else (a, sy)
      let t' := upd (if dir == "res" then sy else sa)
      let st' := { st with bm := st.bm.insert tgt t' }
      -- the other operands of the aggregate must not move (a name equal to the target shows the new contents)
      let rest := extra.map (fun n => digest ((st'.bm[n]?).getD []))
      some (st', expect (" ".intercalate (digest t' :: digest oth :: rest)) got)
    | _, _, _ => some (skipV st got)
  | "sched" :: fn :: rest =>
    if fn != "paror" && fn != "parand" && fn != "parheapor" then some (skipV st got) else
    let names := rest.filter (fun t => !t.contains '=')
    match aggFn fn, lookupAll st names, optTok rest "gomaxprocs" 1, optTok rest "workers" 0, optTok rest "reps" 1,
          optTok rest "noise" 0 with
    | some f, some ops, some p, some w, some r, some nz =>
      if p < 1 || p > 256 || w > 65536 || r < 1 || r > 10000 || nz > 64 then some (skipV st got)
      else some (st, expect (digest (f ops) ++ " same=true leak=0 in=ok") got)
    | _, _, _, _, _, _ => some (skipV st got)
  | "concagg" :: fn :: k :: w :: names =>
    match aggFn fn, lookupAll st names, k.toNat?, w.toNat? with
    | some f, some ops, some kk, some ww =>
      if kk < 1 || kk > 64 || ww > 65536 || !(fn == "paror" || fn == "parand" || fn == "parheapor") then some (skipV st got)
      else some (st, expect (digest (f ops) ++ " same=true in=ok") got)
    | _, _, _, _ => some (skipV st got)
  | ["aggmany", fn, w, n, k1, k2] =>
    match workers? w, n.toNat?, k1.toNat?, k2.toNat? with
    | some _, some n, some k1, some k2 =>
      if n < 1 || n > 262144 || k1 > 65535 || k2 > 65535 || k1 == k2 then some (skipV st got)
      else
        let isOr := fn == "fastor" || fn == "heapor" || fn == "paror" || fn == "parheapor"
        let isAnd := fn == "fastand" || fn == "parand"
        if !(isOr || isAnd) then some (skipV st got) else
        let b1 := k1 * 65536
        let b2 := k2 * 65536
        let common := BSet.union (BSet.single (b1 + 1)) (BSet.single (b2 + 2))
        let own := BSet.union (BSet.range (b1 + 10) (b1 + 10 + min n 60000)) (BSet.range (b2 + 10) (b2 + 10 + min n 50000))
        -- the intersection of n >= 2 members: the common values (two members never share BOTH own values; a shared single own
        -- value needs every member to hold it, i.e. n = 1)
        let r := if isOr then BSet.union common own
                 else if n == 1 then BSet.union common (BSet.union (BSet.single (b1 + 10)) (BSet.single (b2 + 10)))
                 else common
        some (st, expect (digest r ++ " valid=ok") got)
    | _, _, _, _ => some (skipV st got)
  | "concdec" :: k :: x :: mode =>
    match k.toNat?, st.bm[x]? with
    | some kk, some _ =>
      if kk < 1 || kk > 256 then some (skipV st got)
      else if !(mode == [] || mode == ["readfrom"] || mode == ["frombuffer"] || mode == ["mixed"] || mode == ["afterfail"]) then some (skipV st got)
      else some (st, expect "ok" got)
    | _, _ => some (skipV st got)
  | op :: y :: rest =>
    match aggFn op with
    | none => none
    | some f =>
      let isPar := op.startsWith "par"
      match isPar, rest with
      | true, [] => some (skipV st got)
      | true, w :: names =>
        match workers? w, lookupAll st names with
        | some _, some ops =>
          let r := f ops
          some ({ st with bm := st.bm.insert y r }, expect (aggLine r ops) got)
        | _, _ => some (skipV st got)
      | false, names =>
        match lookupAll st names with
        | some ops =>
          let r := f ops
          some ({ st with bm := st.bm.insert y r }, expect (aggLine r ops) got)
        | none => some (skipV st got)
  | _ => none

end RModel.Driver
