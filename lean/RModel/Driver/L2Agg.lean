import RModel.Driver.State
import RModel.Driver.Ser
import RModel.Driver.Kern
import RModel.Driver.Agg
import RModel.Impl.LazyOps
/-!
Exact-representation tie of the many-way aggregates: `l2agg <fastor|fastand> z x1 x2 …`, `l2agg andany x y1 y2 …`, and the
container kernels behind them: `l2lazy <lazyOR|lazyIOR|iand|ior> c1 c2`.

Go prints `<repr of every operand before the call> | <repr(result)> | ok` or `… | changed:<i> <repr(operand i after)>`.
Checked, in this order:
1. all representations parse; the abstraction of every operand's representation is the model state of that name;
2. SET semantics: the abstraction of the result's representation is the verified L1 fold
   (`BSet.unionL` / `BSet.interL` / `BSet.andAny`) of the model states;
3. operands unchanged.  The one documented exception is the ONE-operand form, which is `Clone()`: with copy-on-write switched
   on the clone shares every container and both sides get all their `needCopyOnWrite` flags set — then the operand after the
   call must be `Rep.cloneSrc` of the operand before (same set, same containers, flags on);
4. when every operand is well-formed (`Rep.wf`): `renderRep (Rep.fastOr / Rep.fastAnd operands)` is literally the result token
   (same keys, kinds, payloads, cached cardinalities, flags, copy-on-write switch) and the result is well-formed.
The model state of `z` (for `andany`: of `x`) becomes the L1 result.

`l2lazy op c1 c2` prints `<returned container> <c2 after>`: the argument must be unchanged, the abstraction of the result must be
the union (`iand`: intersection) and, for operands in the domain of the lazy path (`c2` well-formed; `c1` well-formed, or for
`lazyIOR` a 1024-word bitmap container with ANY cached cardinality — the receiver may itself be a lazy intermediate; for `ior` a
1024-word bitmap container with an EXACT cached cardinality of any size — the scratch container of `AndAny`), the result
is literally `renderCont (Cont.lazyOR2 / lazyIOR2 / aggIand2 / aggIor2 c1 c2)`.
-/
namespace RModel.Driver
open RModel RModel.Impl

/-- split `a b | c | d e` into the token groups between the bars -/
def barGroups (toks : List String) : List (List String) :=
  let rec go : List String → List String → List (List String) → List (List String)
    | [], cur, acc => (cur.reverse :: acc).reverse
    | t :: rest, cur, acc => if t == "|" then go rest [] (cur.reverse :: acc) else go rest (t :: cur) acc
  go toks [] []

def lazyRecvOk (op : String) (c : Cont) : Bool :=
  c.wf || match c with
    | .bmp k ws => ws.length == 1024 && (op == "lazyIOR" || (op == "ior" && k == (ContOps.wordsCard ws : Int)))
    | _ => false

def stepL2Agg (st : St) (cmd : List String) (got : String) : Option (St × Verdict) :=
  match cmd with
  | "l2agg" :: fn :: rest =>
    let parsed : Option (String × List String × (List BSet → BSet) × Option (List Rep → Rep)) :=
      match fn, rest with
      | "fastor", z :: names => some (z, names, BSet.unionL, some Rep.fastOr)
      | "fastand", z :: names => some (z, names, BSet.interL, some Rep.fastAnd)
      | "andany", x :: y :: names =>
          some (x, x :: y :: names, (fun l => match l with
            | sx :: ys => BSet.andAny sx ys
            | [] => []), some (fun l => match l with
            | rx :: rys => Rep.andAny rx rys
            | [] => {}))
      | _, _ => none
    match parsed with
    | none => some (skipV st got)
    | some (z, names, f1, f2) =>
      match lookupAll st names with
      | none => some (skipV st got)
      | some sets =>
        let expSet := f1 sets
        let st' := { st with bm := st.bm.insert z expSet }
        match barGroups ((got.splitOn " ").filter (· ≠ "")) with
        | [opToks, [rzS], status] =>
          match opToks.mapM parseRep, parseRep rzS with
          | some reps, some rz =>
            if reps.length != names.length then some (st', some "one representation per operand") else
            let absOk : Verdict := firstFail (((names.zip reps).zip sets).map fun ((n, r), s) =>
              failIf (r.toBSetFast != s) ("abs(repr " ++ n ++ ")=" ++ digest s))
            let unchanged : Verdict :=
              match status, reps with
              | ["ok"], [r] =>
                  if fn != "andany" && renderRep r.cloneSrc != renderRep r then
                    some ("changed:0 (Clone of a copy-on-write bitmap flags the source): " ++ (renderRep r.cloneSrc).take 200)
                  else none
              | ["ok"], _ => none
              | [c, after], [r] =>
                  if fn != "andany" && c == "changed:0" && renderRep r.cloneSrc == after then none
                  else some "ok (operand unchanged, or flagged by Clone under copy-on-write)"
              | _, _ => some "ok (operands unchanged by the aggregate)"
            let exact : Verdict :=
              match f2 with
              | none => none
              | some g =>
                if reps.all Rep.wf then
                  let r := renderRep (g reps)
                  if !rz.wf then some ("well-formed result of " ++ fn ++ " on well-formed operands")
                  else if r != rzS then some ("L2 aggregate model = Go representation; model: " ++ r.take 400)
                  else none
                else none
            some (st', firstFail [
              absOk,
              failIf (rz.toBSetFast != expSet) ("abs(repr result)=" ++ digest expSet ++ " = " ++ (dump expSet).take 300),
              unchanged,
              exact])
          | _, _ => some (st', some "parsable representations")
        | _ => some (st', some "<repr x1> … | <repr z> | <ok|changed:i repr>")
  | ["l2lazy", op, c1, c2] =>
    let sem : Option ((BSet → BSet → BSet) × (Cont → Cont → Cont)) :=
      match op with
      | "lazyOR" => some (BSet.union, Cont.lazyOR2)
      | "lazyIOR" => some (BSet.union, Cont.lazyIOR2)
      | "iand" => some (BSet.inter, Cont.aggIand2)
      | "ior" => some (BSet.union, Cont.aggIor2)
      | _ => none
    match sem, parseContTok c1, parseContTok c2 with
    | some (f1, f2), some ca, some cb =>
      match got.splitOn " " with
      | [resS, bAfterS] =>
        let a := ca.toBSetFast 0
        let b := cb.toBSetFast 0
        let expSet := f1 a b
        let setOk : Verdict :=
          if resS == "-" then failIf (!expSet.isEmpty) ("result " ++ (dump expSet).take 300) else
          match parseContTok resS with
          | none => some "parsable result"
          | some c => failIf (c.toBSetFast 0 != expSet) ("result set " ++ (dump expSet).take 300)
        let exact : Verdict :=
          if lazyRecvOk op ca && cb.wf then
            let r := renderCont (f2 ca cb)
            failIf (r != resS) ("L2 container model = Go representation; model: " ++ r.take 300)
          else none
        some (st, firstFail [setOk, failIf ((parseContTok bAfterS).map (· == cb) != some true) "argument container unchanged", exact])
      | _ => some (st, some "<res> <c2 after>")
    | _, _, _ => some (skipV st got)
  | _ => none

end RModel.Driver
