import RModel.Driver.L2R64
import RModel.Impl.Serial64
/-!
Exact tie of the 64-bit serialization model (`Impl/Serial64.lean`; Go side: `harness/l2ser64.go`).

* `l2ser64 x` — Go prints `<repr64 x> <len(ToBytes)> <GetSerializedSizeInBytes> <hex of ToBytes | toobig>`.  Checked:
  the representation parses and denotes the model state of `x`; `Rep64.encode (repr) = bytes` byte for byte;
  `Rep64.serializedSize (repr) = len = GetSerializedSizeInBytes`; the independent reading of the format specification
  (`FormatSpec.specDecode64`) reads the bytes as the model state, consuming all of them; for a well-formed representation
  the model reader reads the bytes back as `Rep64.asDecoded` (both `zeroCopy` values), consuming all of them.
* `l2dec64 y <entry> <hex|-> [reuse]` — Go prints `ok <n|-> <consumed|-> <valid|invalid> cow0=<0|1> <repr64 y>` or `err`
  (or `panic:..` / `fatal:..`, never expected).  Checked: `decode64 zeroCopy bytes` classifies identically
  (`zeroCopy` = the entry is `fromunsafe`); `n` and `consumed` are the model's byte count; the representation is LITERALLY
  `renderRep64` of the model's (bucket keys in stream order, bucket flags off, every inner bitmap container by container
  with the zero-copy flags, the receiver's switch `cow0` kept); `valid` iff `Rep64.validate`; valid ⇒ `Rep64.wf`; and when
  the independent spec reading accepts the stream the model reads the same set and byte count.
  `y` becomes the decoded set iff accepted and valid (same rule on the Go side).
* `checkSer64L2` runs alongside the existing `hex64` / `dec64` lines of `Driver/R64.lean` (no representation is printed
  there): `hex64`: the model reader accepts the bytes, consumes all of them, the result denotes the model state and is valid
  and well formed; `dec64`: same ok / err classification, same byte count, and an accepted stream that the model validates
  must be reported `ok` with the dump of the model's set.
-/
namespace RModel.Driver
open RModel RModel.Impl

def outcomeName {α} : Outcome α → String
  | .ok _ => "ok"
  | .err => "err"
  | .panic => "panic"

def stepL2Ser64 (st : St) (cmd : List String) (got : String) : Option (St × Verdict) :=
  match cmd with
  | ["l2ser64", x] =>
    match st.bm64[x]? with
    | none => some (skipV st got)
    | some s =>
      match got.splitOn " " with
      | [reprS, lenS, szS, hexS] =>
        match parseRep64 reprS, lenS.toNat?, szS.toNat? with
        | some r, some len, some sz =>
          let msz := r.serializedSize serParams
          let sizes := firstFail [
            failIf (r.toBSetFast != s) ("abs(repr64 " ++ x ++ ")=" ++ digest s),
            failIf (msz != sz) ("model serializedSize = GetSerializedSizeInBytes; model=" ++ toString msz),
            failIf (msz != len) ("model serializedSize = len(ToBytes); model=" ++ toString msz)]
          if hexS == "toobig" then some (st, sizes)
          else match bytesOfHex hexS with
            | none => some (st, some "<hex>")
            | some bytes =>
              let enc := r.encode serParams
              let rt (flag : Bool) : Verdict :=
                if !r.wf then none else
                match decode64 serParams flag bytes with
                | .ok (r', m) => firstFail [
                    failIf (m != bytes.length) "model decode64 consumes the whole written stream",
                    failIf (renderRep64 r' != renderRep64 (r.asDecoded flag)) "model decode64 (encode r) = asDecoded r",
                    failIf (!r'.validate) "model Validate accepts decode64 (encode r)",
                    failIf (!r'.wf) "WF(decode64 (encode r))"]
                | o => some ("model decode64 accepts the written stream (model: " ++ outcomeName o ++ ")")
              some (st, firstFail [
                sizes,
                failIf (bytes.length != len) "len(hex) = len",
                failIf (enc != bytes) ("model encode(repr64) = bytes; model=" ++ hexOfBytes (enc.take 96)),
                (if !r.wf then none else
                 match FormatSpec.specDecode64 bytes.toArray with
                 | none => some "spec reading accepts the written stream"
                 | some d => firstFail [failIf (d.set != s) "spec reading of the bytes = set",
                                        failIf (d.consumed != bytes.length) "spec reading consumes all"]),
                rt false, rt true])
        | _, _, _ => some (st, some "parsable <repr64> <len> <size>")
      | _ => some (st, some "<repr64> <len> <size> <hex|toobig>")
  | "l2dec64" :: y :: entry :: hx :: opts =>
    if !entry64 entry || !(opts.all (· == "reuse")) then some (skipV st got)
    else match hexBytes hx with
      | none => some (skipV st got)
      | some arr =>
        let bytes := arr.toList
        let st0 := { st with bm64 := st.bm64.erase y }
        let zeroCopy := entry == "fromunsafe"
        match decode64 serParams zeroCopy bytes with
        | .panic => some (st0, some "model: the reader would panic")
        | .err => some (st0, expect "err" got)
        | .ok (r, m) =>
          let v := r.validate
          let nS := if entry == "unmarshal" then "-" else toString m
          let cS := if entry == "readfrom" || entry == "readfrom1" then toString m else "-"
          let head := "ok " ++ nS ++ " " ++ cS ++ " " ++ (if v then "valid" else "invalid") ++ " "
          let expFor (cow : Bool) : String :=
            head ++ (if cow then "cow0=1 " else "cow0=0 ") ++ renderRep64 { cow := cow, buckets := r.buckets }
          let reuse := !opts.isEmpty && st.bm64.contains y
          let okGot := got == expFor false || (reuse && got == expFor true)
          let specV : Verdict :=
            match FormatSpec.specDecode64 arr with
            | none => none
            | some d => firstFail [
                failIf (r.toBSetFast != d.set) "MACHINERY: model reader and spec reading disagree on the set",
                failIf (m != d.consumed) "MACHINERY: model reader and spec reading disagree on the byte count"]
          if !okGot then some (st0, some ((expFor false).take 600).toString)
          else if v && !r.wf then some (st0, some "Validate()==nil implies well-formed (model WF fails on this accepted stream)")
          else match specV with
            | some e => some (st0, some e)
            | none =>
              if v then some ({ st0 with bm64 := st0.bm64.insert y r.toBSetFast }, none) else some (st0, none)
  | _ => none

/-- extra checks on the existing `hex64` / `dec64` lines (they run on the state BEFORE the line) -/
def checkSer64L2 (st : St) (cmd : List String) (got : String) : Verdict :=
  match cmd with
  | ["hex64", x] =>
    match st.bm64[x]? with
    | none => none
    | some s =>
      if got == "toobig" then none
      else match hexBytes got with
        | none => none
        | some arr =>
          match decode64 serParams false arr.toList with
          | .ok (r, m) => firstFail [
              failIf (m != arr.size) "L2: model decode64 consumes the whole written stream",
              failIf (r.toBSetFast != s) ("L2: model decode64 (ToBytes) denotes " ++ digest s),
              failIf (!r.validate) "L2: model Validate accepts decode64 (ToBytes)",
              failIf (!r.wf) "L2: WF(decode64 (ToBytes))"]
          | o => some ("L2: model decode64 accepts the written stream (model: " ++ outcomeName o ++ ")")
  | "dec64" :: _ :: entry :: hx :: _ =>
    if !entry64 entry then none
    else match hexBytes hx with
      | none => none
      | some arr =>
        match decode64 serParams (entry == "fromunsafe") arr.toList with
        | .panic => some "L2 model: the reader would panic"
        | .err => failIf (got != "err") "L2: err (model decode64 rejects the stream)"
        | .ok (r, m) =>
          let nS := if entry == "unmarshal" then "-" else toString m
          match got.splitOn " " with
          | ["ok", n, wf, dmp] =>
            firstFail [
              failIf (n != nS) ("L2: ok " ++ nS ++ " (model byte count)"),
              failIf (r.validate && wf != "ok") "L2: the model's Validate accepts the decoded representation",
              failIf (r.validate && dmp != dump r.toBSetFast) ("L2: dump of the model's decoded set = " ++ (dump r.toBSetFast).take 200),
              failIf (r.validate && !r.wf) "L2: Validate()==nil implies well-formed"]
          | _ => some ("L2: ok " ++ nS ++ " .. (model decode64 accepts the stream)")
  | _ => none

end RModel.Driver
