import RModel.Driver.State
/-! The checker: interprets one script line on the model state and compares with the Go output. -/
namespace RModel.Driver
open RModel

abbrev Cmd := St → List String → String → St × Verdict


/-- mutate bitmap `x` with `f`, expected output = prefix ++ digest -/
def mut32 (st : St) (x : String) (got : String) (f : BSet → BSet) (pre : BSet → String := fun _ => "") :
    St × Verdict :=
  match st.bm[x]? with
  | none => skipV st got
  | some s =>
    let s' := f s
    ({ st with bm := st.bm.insert x s' }, expect (pre s ++ digest s') got)

def query32 (st : St) (x : String) (got : String) (f : BSet → String) : St × Verdict :=
  match st.bm[x]? with
  | none => skipV st got
  | some s => (st, expect (f s) got)

def static32 (st : St) (y a b got : String) (f : BSet → BSet → BSet) : St × Verdict :=
  match st.bm[a]?, st.bm[b]? with
  | some sa, some sb =>
    let r := f sa sb
    ({ st with bm := st.bm.insert y r }, expect (digest r ++ " " ++ digest sa ++ " " ++ digest sb) got)
  | _, _ => skipV st got

def inplace32 (st : St) (a b got : String) (f : BSet → BSet → BSet) : St × Verdict :=
  match st.bm[a]?, st.bm[b]? with
  | some sa, some sb =>
    let r := f sa sb
    let st' := { st with bm := st.bm.insert a r }
    -- when a and b are the same object the second digest is the updated one
    let sb' := if a == b then r else sb
    (st', expect (digest r ++ " " ++ digest sb') got)
  | _, _ => skipV st got

def step32 (st : St) (cmd : List String) (got : String) : Option (St × Verdict) :=
  match cmd with
  | ["new", x] => some ({ st with bm := st.bm.insert x [] }, expect (digest []) got)
  | "of" :: x :: vs =>
    match nats? vs with
    | some l => if l.all (· < U32) then
        let s := ofVals l
        some ({ st with bm := st.bm.insert x s }, expect (digest s) got)
      else some (skipV st got)
    | none => some (skipV st got)
  | ["clone", y, x] | ["cowclone", y, x] =>
    match st.bm[x]? with
    | some s => some ({ st with bm := st.bm.insert y s }, expect (digest s) got)
    | none => some (skipV st got)
  | ["setcow", x, _] => some (query32 st x got (fun _ => "ok"))
  | ["detach", x] | ["opt", x] | ["dig", x] => some (query32 st x got digest)
  | ["clear", x] => some (mut32 st x got (fun _ => []))
  | ["add", x, v] | ["addint", x, v] =>
    match nat? v with
    | some n => if n < U32 then some (mut32 st x got (fun s => BSet.add s n)) else some (skipV st got)
    | none => some (skipV st got)
  | ["rem", x, v] =>
    match nat? v with
    | some n => if n < U32 then some (mut32 st x got (fun s => BSet.remove s n)) else some (skipV st got)
    | none => some (skipV st got)
  | ["cadd", x, v] =>
    match nat? v with
    | some n => if n < U32 then
        some (mut32 st x got (fun s => BSet.add s n) (fun s => bstr (!BSet.mem s n) ++ " "))
      else some (skipV st got)
    | none => some (skipV st got)
  | ["crem", x, v] =>
    match nat? v with
    | some n => if n < U32 then
        some (mut32 st x got (fun s => BSet.remove s n) (fun s => bstr (BSet.mem s n) ++ " "))
      else some (skipV st got)
    | none => some (skipV st got)
  | ["addstride", x, a, b, c] =>
    match nat? a, nat? b, nat? c with
    | some start, some step, some cnt =>
      if cnt > 1048576 || step == 0 || (cnt > 0 && start + (cnt - 1) * step ≥ U32) then some (skipV st got)
      else some (mut32 st x got (fun s => BSet.union s (ofVals ((List.range cnt).map fun i => start + i * step))))
    | _, _, _ => some (skipV st got)
  | "addmanyfrom" :: x :: v :: n :: rest =>
    match nat? v, nat? n, st.bm[x]?, (match rest with | [] => some 2 | [t] => nat? t | _ => none) with
    | some v, some n, some s, some step =>
      if v ≥ U32 || n > 100000 || step == 0 || step > 1048576 then some (skipV st got)
      else match BSet.nextValue s v with
        | none => some (st, expect "none" got)
        | some m =>
          let vals := ((List.range (n + 1)).map fun i => m + step * i).filter (· < U32)
          some (mut32 st x got (fun s => BSet.union s (ofVals vals)))
    | _, _, _, _ => some (skipV st got)
  | "addmany" :: x :: vs =>
    match nats? vs with
    | some l => if l.all (· < U32) then some (mut32 st x got (fun s => BSet.union s (ofVals l)))
                else some (skipV st got)
    | none => some (skipV st got)
  | ["addr", x, a, b] =>
    match nat? a, nat? b with
    | some lo, some hi =>
      if lo < hi && hi > U32 then some (query32 st x got (fun _ => "panic"))
      else some (mut32 st x got (fun s => BSet.addRange s lo hi))
    | _, _ => some (skipV st got)
  | ["remr", x, a, b] =>
    match nat? a, nat? b with
    | some lo, some hi => some (mut32 st x got (fun s => BSet.removeRange s lo (min hi U32)))
    | _, _ => some (skipV st got)
  | ["flip", x, a, b] =>
    match nat? a, nat? b with
    | some lo, some hi =>
      if hi > U32 || lo > U32 then some (query32 st x got (fun _ => "panic"))
      else some (mut32 st x got (fun s => BSet.flipRange s lo hi))
    | _, _ => some (skipV st got)
  | ["sflip", y, x, a, b] =>
    match nat? a, nat? b, st.bm[x]? with
    | some lo, some hi, some s =>
      if hi > U32 || lo > U32 then some (st, expect "panic" got)
      else
        let r := BSet.flipRange s lo hi
        some ({ st with bm := st.bm.insert y r }, expect (digest r ++ " " ++ digest s) got)
    | _, _, _ => some (skipV st got)
  | ["and", y, a, b] => some (static32 st y a b got BSet.inter)
  | ["or", y, a, b] => some (static32 st y a b got BSet.union)
  | ["xor", y, a, b] => some (static32 st y a b got BSet.xor)
  | ["andnot", y, a, b] => some (static32 st y a b got BSet.diff)
  | ["iand", a, b] => some (inplace32 st a b got BSet.inter)
  | ["ior", a, b] => some (inplace32 st a b got BSet.union)
  | ["ixor", a, b] => some (inplace32 st a b got BSet.xor)
  | ["iandnot", a, b] => some (inplace32 st a b got BSet.diff)
  | ["andcard", a, b] =>
    match st.bm[a]?, st.bm[b]? with
    | some sa, some sb => some (st, expect (toString (BSet.card (BSet.inter sa sb))) got)
    | _, _ => some (skipV st got)
  | ["orcard", a, b] =>
    match st.bm[a]?, st.bm[b]? with
    | some sa, some sb => some (st, expect (toString (BSet.card (BSet.union sa sb))) got)
    | _, _ => some (skipV st got)
  | ["isect", a, b] =>
    match st.bm[a]?, st.bm[b]? with
    | some sa, some sb => some (st, expect (bstr (!BSet.isEmpty (BSet.inter sa sb))) got)
    | _, _ => some (skipV st got)
  | ["eq", a, b] =>
    match st.bm[a]?, st.bm[b]? with
    | some sa, some sb => some (st, expect (bstr (sa == sb)) got)
    | _, _ => some (skipV st got)
  | ["card", x] => some (query32 st x got (fun s => toString (BSet.card s)))
  | ["empty", x] => some (query32 st x got (fun s => bstr (BSet.isEmpty s)))
  | ["has", x, v] =>
    match nat? v with
    | some n => some (query32 st x got (fun s => bstr (BSet.mem s n)))
    | none => some (skipV st got)
  | ["min", x] => some (query32 st x got (fun s => match BSet.minimum s with | some v => toString v | none => "panic"))
  | ["max", x] => some (query32 st x got (fun s => match BSet.maximum s with | some v => toString v | none => "panic"))
  | ["rank", x, v] =>
    match nat? v with
    | some n => some (query32 st x got (fun s => toString (BSet.rankLt s (n + 1))))
    | none => some (skipV st got)
  | ["sel", x, v] =>
    match nat? v with
    | some n => some (query32 st x got (fun s => match BSet.select s n with | some v => toString v | none => "err"))
    | none => some (skipV st got)
  | ["cir", x, a, b] =>
    match nat? a, nat? b with
    | some lo, some hi => some (query32 st x got (fun s => toString (BSet.cardInRange s lo hi)))
    | _, _ => some (skipV st got)
  | ["iwi", x, a, b] =>
    match nat? a, nat? b with
    | some lo, some hi => some (query32 st x got (fun s => bstr (BSet.cardInRange s lo hi != 0)))
    | _, _ => some (skipV st got)
  | ["toarr", x] | ["toexarr", x] =>
    some (query32 st x got (fun s => toString (BSet.card s) ++ " " ++ digest s))
  | ["nv", x, t] =>
    match nat? t with
    | some n => some (query32 st x got (fun s => optNat (BSet.nextValue s n)))
    | none => some (skipV st got)
  | ["pv", x, t] =>
    match nat? t with
    | some n => some (query32 st x got (fun s => optNat (BSet.prevValue s n)))
    | none => some (skipV st got)
  | ["nav", x, t] =>
    match nat? t with
    | some n => some (query32 st x got (fun s =>
        let v := BSet.nextAbsent s n; if v < U32 then toString v else "-1"))
    | none => some (skipV st got)
  | ["pav", x, t] =>
    match nat? t with
    | some n => some (query32 st x got (fun s => optNat (BSet.prevAbsent s n)))
    | none => some (skipV st got)
  | ["dump", x] => some (query32 st x got dump)
  | ["chkeq", x] => some (query32 st x got (fun _ => "true"))
  | ["off", y, x, d] =>
    match d.toInt?, st.bm[x]? with
    | some dd, some s =>
      let r := BSet.shift U32 s dd
      some ({ st with bm := st.bm.insert y r }, expect (digest r ++ " " ++ digest s) got)
    | _, _ => some (skipV st got)
  | ["off32", y, x, d] =>
    match nat? d, st.bm[x]? with
    | some dd, some s =>
      let r := BSet.shift U32 s dd
      some ({ st with bm := st.bm.insert y r }, expect (digest r ++ " " ++ digest s) got)
    | _, _ => some (skipV st got)
  | _ => none

end RModel.Driver
