import RModel.Driver.State
import RModel.Impl.Iter
/-! Iteration protocols of the 32-bit bitmap (property C04).

An iterator is a CURSOR over a snapshot of the enumerated set:
* forward / many / unset : every member `≥ cur` remains; `Next` returns `v = nextValue snap cur` and sets `cur := v+1`;
  `PeekNext` returns the same `v`; `AdvanceIfNeeded m` sets `cur := max cur m`; `HasNext ⇔ nextValue snap cur ≠ none`.
* reverse : every member `< cur` remains; `Next` returns `v = prevValue snap (cur-1)` and sets `cur := v`.
* unset over `[a,b)` : a forward cursor over `restrict (compl U32 s) a b`.
`NextMany` with a buffer of length `n` returns the next `min n remaining` members.  Bulk results are never materialised:
the result of taking `t` members is `restrict snap cur (v_last+1)` with `v_last = select snap (rankLt snap cur + t - 1)`. -/
namespace RModel.Driver
open RModel

/-- number of members still to come -/
def IterSt.remaining (it : IterSt) : Nat :=
  if it.kind == "rev" then BSet.rankLt it.snap it.cur
  else BSet.card it.snap - BSet.rankLt it.snap it.cur

/-- the next value, if any -/
def IterSt.peek (it : IterSt) : Option Nat :=
  if it.kind == "rev" then (if it.cur = 0 then none else BSet.prevValue it.snap (it.cur - 1))
  else BSet.nextValue it.snap it.cur

def IterSt.moved (it : IterSt) (v : Nat) : IterSt :=
  if it.kind == "rev" then { it with cur := v } else { it with cur := v + 1 }

/-- take the next `min n remaining` members: (their set, how many, the iterator afterwards) -/
def IterSt.take (it : IterSt) (n : Nat) : BSet × Nat × IterSt :=
  let t := min n it.remaining
  if t = 0 then ([], 0, it)
  else if it.kind == "rev" then
    match BSet.select it.snap (BSet.rankLt it.snap it.cur - t) with
    | some vf => (BSet.restrict it.snap vf it.cur, t, { it with cur := vf })
    | none => ([], 0, it)
  else
    match BSet.select it.snap (BSet.rankLt it.snap it.cur + t - 1) with
    | some vl => (BSet.restrict it.snap it.cur (vl + 1), t, { it with cur := vl + 1 })
    | none => ([], 0, it)

def countDigest (n : Nat) (s : BSet) : String := toString n ++ " " ++ digest s

/-- `k = -1` : never stop; otherwise stop after `k` items -/
def limitOf (k : Int) (total : Nat) : Nat := if k < 0 then total else min k.toNat total

def kArg? (s : String) : Option Int :=
  match s.toInt? with
  | some k => if k < -1 then none else some k
  | none => none

/-- callback / range-func enumeration of `snap` with early stop after `k` items -/
def seqExpect (kind : String) (snap : BSet) (k : Int) : String :=
  let it : IterSt := { kind := kind, snap := snap, cur := if kind == "rev" then U32 else 0 }
  let (res, n, _) := it.take (limitOf k (BSet.card snap))
  countDigest n res

def withIter (st : St) (i : String) (got : String) (f : IterSt → St × Verdict) : St × Verdict :=
  match st.it[i]? with
  | none => skipV st got
  | some it => f it

def setIter (st : St) (i : String) (it : IterSt) : St := { st with it := st.it.insert i it }

def peekable (it : IterSt) : Bool := it.kind == "fwd" || it.kind == "unset"
def hasHasNext (it : IterSt) : Bool := it.kind != "many"

def mkIter (st : St) (kind i x got : String) : St × Verdict :=
  match st.bm[x]? with
  | none => skipV st got
  | some s => (setIter st i { kind := kind, snap := s, cur := if kind == "rev" then U32 else 0 }, expect "ok" got)

/-- the output `ok <repr32(x)>` of `l2it` / `l2reinit`: the representation parses and abstracts to the model state of `x` -/
def okRepr (s : BSet) (got : String) : Verdict :=
  match got.splitOn " " with
  | ["ok", rs] =>
    match RModel.Impl.parseRep rs with
    | some r => if r.toBSetFast != s then some ("ok <repr of the set " ++ digest s ++ ">") else none
    | none => some "ok <parsable repr>"
  | _ => some "ok <repr>"

/-- `l2it <fwd|rev|many> i x`: `it` / `rit` / `mit` that also prints the raw representation -/
def mkIterL2 (st : St) (kind i x got : String) : St × Verdict :=
  match st.bm[x]? with
  | none => skipV st got
  | some s =>
    if kind != "fwd" && kind != "rev" && kind != "many" then skipV st got else
    (setIter st i { kind := kind, snap := s, cur := if kind == "rev" then U32 else 0 }, okRepr s got)

/-- `l2reinit i x`: `reinit` (kinds fwd / rev / many) that also prints the raw representation -/
def reinitL2 (st : St) (i x got : String) : St × Verdict :=
  withIter st i got fun it =>
    match st.bm[x]? with
    | none => skipV st got
    | some s =>
      if it.kind == "unset" then skipV st got
      else (setIter st i { it with snap := s, cur := if it.kind == "rev" then U32 else 0 }, okRepr s got)

def seqCmd (st : St) (c x k got : String) : St × Verdict :=
  match st.bm[x]?, kArg? k with
  | some s, some kk =>
    if c == "ranges" then
      -- the first k maximal intervals, exactly as the model holds them
      let n := limitOf kk (s.length / 2)
      (st, expect (dump (s.take (2 * n))) got)
    else if c == "backward" then (st, expect (seqExpect "rev" s kk) got)
    else if c == "values" then (st, expect (seqExpect "fwd" s kk) got)
    else
      -- Iterate: its doc comment promises no order.  An ascending enumeration must be the prefix; an unordered
      -- one is only checkable when it ran to completion.
      let n := limitOf kk (BSet.card s)
      if got.startsWith "unord " && n == BSet.card s then
        (st, expect ("unord " ++ countDigest n s) got)
      else (st, expect (seqExpect "fwd" s kk) got)
  | _, _ => skipV st got

def stepIter (st : St) (cmd : List String) (got : String) : Option (St × Verdict) :=
  match cmd with
  | ["it", i, x] => some (mkIter st "fwd" i x got)
  | ["rit", i, x] => some (mkIter st "rev" i x got)
  | ["mit", i, x] => some (mkIter st "many" i x got)
  | ["l2it", kind, i, x] => some (mkIterL2 st kind i x got)
  | ["l2reinit", i, x] => some (reinitL2 st i x got)
  | ["uit", i, x, a, b] =>
    match st.bm[x]?, nat? a, nat? b with
    | some s, some lo, some hi =>
      -- documented domain: [start,end) inside the 32-bit universe; end > 2^32 panics (Initialize says so)
      if hi > U32 then some (st, expect "panic" got)
      else some (setIter st i { kind := "unset", snap := BSet.restrict (BSet.compl U32 s) lo hi, cur := 0 }, expect "ok" got)
    | _, _, _ => some (skipV st got)
  | "reinit" :: i :: x :: rest =>
    some (withIter st i got fun it =>
      match st.bm[x]? with
      | none => skipV st got
      | some s =>
        if it.kind == "unset" then
          match rest with
          | [a, b] =>
            match nat? a, nat? b with
            | some lo, some hi =>
              if hi > U32 then (st, expect "panic" got)
              else (setIter st i { it with snap := BSet.restrict (BSet.compl U32 s) lo hi, cur := 0 }, expect "ok" got)
            | _, _ => skipV st got
          | _ => skipV st got
        else (setIter st i { it with snap := s, cur := if it.kind == "rev" then U32 else 0 }, expect "ok" got))
  | ["hasnext", i] =>
    some (withIter st i got fun it =>
      if hasHasNext it then (st, expect (bstr it.peek.isSome) got) else skipV st got)
  | ["next?", i] | ["next!", i] =>
    some (withIter st i got fun it =>
      if !hasHasNext it then skipV st got else
      match it.peek with
      | some v => (setIter st i (it.moved v), expect (toString v) got)
      | none => (st, expect "none" got))
  | ["peek?", i] | ["peek!", i] =>
    some (withIter st i got fun it =>
      if !peekable it then skipV st got else
      match it.peek with
      | some v => (st, expect (toString v) got)
      | none => (st, expect "none" got))
  | ["adv", i, m] =>
    some (withIter st i got fun it =>
      match nat? m with
      | some mv =>
        if !peekable it || mv ≥ U32 then skipV st got
        else (setIter st i { it with cur := max it.cur mv }, expect "ok" got)
      | none => skipV st got)
  | ["advrel", i, d] =>
    some (withIter st i got fun it =>
      match d.toInt? with
      | some dd =>
        if !peekable it then skipV st got else
        match it.peek with
        | none => (st, expect "none" got)
        | some v =>
          let t : Int := (v : Int) + dd
          let m : Nat := if t < 0 then 0 else min t.toNat (U32 - 1)
          (setIter st i { it with cur := max it.cur m }, expect ("ok " ++ toString m) got)
      | none => skipV st got)
  | ["many", i, n] =>
    some (withIter st i got fun it =>
      match nat? n with
      | some nn =>
        if it.kind != "many" || nn > 16777216 then skipV st got else
        let (res, t, it') := it.take nn
        (setIter st i it', expect (countDigest t res) got)
      | none => skipV st got)
  | ["manyhs", i, n, hs] =>
    some (withIter st i got fun it =>
      match nat? n, nat? hs with
      | some nn, some h =>
        -- domain: hs is a high-bits mask (what roaring64 passes); OR-ing it in = adding it
        if it.kind != "many" || nn > 16777216 || h % U32 != 0 || h ≥ U64 then skipV st got else
        let (res, t, it') := it.take nn
        (setIter st i it', expect (countDigest t (BSet.shiftUp res h)) got)
      | _, _ => skipV st got)
  | "drain" :: i :: rest =>
    some (withIter st i got fun it =>
      let lim : Option Int := match rest with
        | [] => some (-1)
        | [l] => kArg? l
        | _ => none
      match lim with
      | some k =>
        let (res, t, it') := it.take (limitOf k it.remaining)
        (setIter st i it', expect (countDigest t res) got)
      | none => skipV st got)
  | ["iterate", x, k] => some (seqCmd st "iterate" x k got)
  | ["values", x, k] => some (seqCmd st "values" x k got)
  | ["backward", x, k] => some (seqCmd st "backward" x k got)
  | ["seqlate", kind, x, v] =>
    match st.bm[x]?, nat? v with
    | some s, some w =>
      if w ≥ U32 || !(kind == "ranges" || kind == "values" || kind == "backward") then some (skipV st got)
      else
        let s' := BSet.add s w
        let d := digest s'
        some ({ st with bm := st.bm.insert x s' }, expect (d ++ " " ++ d ++ " " ++ d) got)
    | _, _ => some (skipV st got)
  | ["ranges", x, k] => some (seqCmd st "ranges" x k got)
  | ["unset", x, a, b, k] =>
    match st.bm[x]?, nat? a, nat? b, kArg? k with
    | some s, some lo, some hi, some kk =>
      -- Unset(b, min, max) is documented on the inclusive window [min,max] = [a, b-1]
      if !(lo < hi && hi ≤ U32) then some (skipV st got)
      else some (st, expect (seqExpect "unset" (BSet.restrict (BSet.compl U32 s) lo hi) kk) got)
    | _, _, _, _ => some (skipV st got)
  | _ => none

/-! ## L2 shadow: the modelled Go state machines (Impl/Iter.lean) stepped next to the real iterators

An iterator created by `l2it` has, besides its set-level cursor (`St.it`), an L2 state (`St.l2it`): the model of the Go
struct, initialised from the representation the harness printed.  Every later `hasnext / next? / next! / peek? / peek! /
adv / advrel / many / manyhs / drain / l2reinit` on that name steps the L2 state and requires
  (a) the model's answer = the Go answer                      ("L2 iterator model = Go; model: …"),
  (b) fwd / rev: the model's state after the step agrees with the set-level cursor on `hasNext` (and `peekNext`)
                                                               ("L2 iterator model = set-level cursor; …").
(The set-level check of the Go answer itself is `stepIter`'s and takes precedence in the report.)
`it / rit / mit / uit / reinit` on the name drop the L2 state (no representation known); so does a Go panic. -/
open RModel.Impl RModel.Impl.It

def l2Msg (m : String) : Verdict := some ("L2 iterator model = Go; model: " ++ m)

def l2Expect (exp got : String) : Verdict := if exp == got then none else l2Msg exp

/-- rendering of a value sequence as `renderVals` (harness) does for a strictly ascending (descending) sequence -/
def renderL2 (vals : List Nat) (desc : Bool) : String :=
  let v := if desc then vals.reverse else vals
  if Cont.toBSetFast.strictIncFast v then countDigest v.length (sortedValsBounds 0 v none [])
  else "unord " ++ toString v.length

/-- rendering of the result of one `NextMany` call as the `many` / `manyhs` commands do -/
def renderMany (vals : List Nat) : String :=
  if Cont.toBSetFast.strictIncFast vals then countDigest vals.length (sortedValsBounds 0 vals none [])
  else "unsorted"

/-- `drain` of a many-iterator as the harness does it: `NextMany` with buffers of 1000 (or what is left of the limit)
until a call returns 0 -/
def drainManyL2 (fuel : Nat) (limit : Option Nat) (ii : ManyIt) (have_ : Nat) : List Nat × ManyIt :=
  match fuel with
  | 0 => ([], ii)
  | fuel + 1 =>
    let sz := match limit with
      | none => 1000
      | some l => min 1000 (l - have_)
    if limit.isSome && sz == 0 then ([], ii) else
    let (vs, ii') := ii.nextMany sz
    if vs.length == 0 then ([], ii') else
    let (ws, r) := drainManyL2 fuel limit ii' (have_ + vs.length)
    (vs ++ ws, r)

def drainLimit (rest : List String) : Option (Option Nat) :=
  match rest with
  | [] => some none
  | [l] => match kArg? l with
    | some k => if k < 0 then some none else some (some k.toNat)
    | none => none
  | _ => none

/-- one command on an L2-tracked iterator: (state afterwards — `none`: tracking stops, verdict (a)) -/
def l2Step (l1 : Option IterSt) (s : L2It) (cmd : List String) (got : String) : Option L2It × Verdict :=
  if got.startsWith "skip" then (some s, none)
  else if got.startsWith "panic" then (none, none)
  else
  let l1peek : Option Nat := match l1 with | some l => l.peek | none => none
  match s, cmd with
  | .fwd it, ["hasnext", _] => (some s, l2Expect (bstr it.hasNext) got)
  | .rev it, ["hasnext", _] => (some s, l2Expect (bstr it.hasNext) got)
  | .fwd it, ["next?", _] =>
    if it.hasNext then let (v, it') := it.next; (some (.fwd it'), l2Expect (toString v) got)
    else (some s, l2Expect "none" got)
  | .rev it, ["next?", _] =>
    if it.hasNext then let (v, it') := it.next; (some (.rev it'), l2Expect (toString v) got)
    else (some s, l2Expect "none" got)
  | .fwd it, ["next!", _] =>
    -- the harness calls Next() without HasNext() exactly when the SET has a next value
    if l1peek.isNone then (some s, l2Expect "none" got)
    else if !it.hasNext then (some s, l2Msg "exhausted (hasNext = false) although the set has a next value")
    else let (v, it') := it.next; (some (.fwd it'), l2Expect (toString v) got)
  | .rev it, ["next!", _] =>
    if l1peek.isNone then (some s, l2Expect "none" got)
    else if !it.hasNext then (some s, l2Msg "exhausted (hasNext = false) although the set has a next value")
    else let (v, it') := it.next; (some (.rev it'), l2Expect (toString v) got)
  | .fwd it, ["peek?", _] =>
    (some s, l2Expect (if it.hasNext then toString it.peekNext else "none") got)
  | .fwd it, ["peek!", _] =>
    if l1peek.isNone then (some s, l2Expect "none" got)
    else if !it.hasNext then (some s, l2Msg "exhausted (hasNext = false) although the set has a next value")
    else (some s, l2Expect (toString it.peekNext) got)
  | .fwd it, ["adv", _, m] =>
    match nat? m with
    | some mv => if mv ≥ U32 then (some s, none) else (some (.fwd (it.advanceIfNeeded mv)), l2Expect "ok" got)
    | none => (some s, none)
  | .fwd it, ["advrel", _, d] =>
    match d.toInt? with
    | some dd =>
      if !it.hasNext then (some s, l2Expect "none" got) else
      let t : Int := (it.peekNext : Int) + dd
      let m : Nat := if t < 0 then 0 else min t.toNat (U32 - 1)
      (some (.fwd (it.advanceIfNeeded m)), l2Expect ("ok " ++ toString m) got)
    | none => (some s, none)
  | .many it, ["many", _, n] =>
    match nat? n with
    | some nn =>
      if nn > 16777216 then (some s, none) else
      let (vs, it') := it.nextMany nn
      (some (.many it'), l2Expect (renderMany vs) got)
    | none => (some s, none)
  | .many it, ["manyhs", _, n, hs] =>
    match nat? n, nat? hs with
    | some nn, some h =>
      if nn > 16777216 || h % U32 != 0 || h ≥ U64 then (some s, none) else
      let (vs, it') := it.nextMany64 h nn
      (some (.many it'), l2Expect (renderMany vs) got)
    | _, _ => (some s, none)
  | .fwd it, "drain" :: _ :: rest =>
    match drainLimit rest with
    | some lim =>
      let (vs, it') := it.drain (lim.getD 4294967297)
      (some (.fwd it'), l2Expect (renderL2 vs false) got)
    | none => (some s, none)
  | .rev it, "drain" :: _ :: rest =>
    match drainLimit rest with
    | some lim =>
      let (vs, it') := it.drain (lim.getD 4294967297)
      (some (.rev it'), l2Expect (renderL2 vs true) got)
    | none => (some s, none)
  | .many it, "drain" :: _ :: rest =>
    match drainLimit rest with
    | some lim =>
      let (vs, it') := drainManyL2 4294967297 lim it 0
      (some (.many it'), l2Expect (renderL2 vs false) got)
    | none => (some s, none)
  | _, _ => (some s, none)

/-- check (b): the L2 state agrees with the set-level cursor -/
def l2Agree (l1 : Option IterSt) (s : L2It) : Verdict :=
  match l1, s with
  | some l, .fwd it =>
    let a : Option Nat := if it.hasNext then some it.peekNext else none
    if a == l.peek then none
    else some ("L2 iterator model = set-level cursor; L2 next=" ++ toString a ++ " set-level next=" ++ toString l.peek)
  | some l, .rev it =>
    if it.hasNext == l.peek.isSome then none
    else some ("L2 iterator model = set-level cursor; L2 hasNext=" ++ bstr it.hasNext ++ " set-level next=" ++ toString l.peek)
  | _, _ => none

def l2Cmds : List String :=
  ["hasnext", "next?", "next!", "peek?", "peek!", "adv", "advrel", "many", "manyhs", "drain"]

/-- the L2 shadow of one script line; reads the state BEFORE the line, returns the new `l2it` map and the verdict -/
def shadowIterL2 (st : St) (cmd : List String) (got : String) : Std.HashMap String L2It × Verdict :=
  let okRep : Option Rep := match got.splitOn " " with
    | ["ok", rs] => parseRep rs
    | _ => none
  match cmd with
  | ["l2it", kind, i, _] =>
    if got.startsWith "skip" then (st.l2it, none) else
    match okRep with
    | some r =>
      if kind == "fwd" then (st.l2it.insert i (.fwd (IntIt.create r)), none)
      else if kind == "rev" then (st.l2it.insert i (.rev (IntRevIt.create r)), none)
      else if kind == "many" then (st.l2it.insert i (.many (ManyIt.create r)), none)
      else (st.l2it.erase i, none)
    | none => (st.l2it.erase i, none)
  | ["l2it", "unset", i, _, _, _] =>
    -- an unset iterator takes over the name (its L2 state lives in `St.l2uit`, Driver/Iter2.lean)
    if got.startsWith "skip" then (st.l2it, none) else (st.l2it.erase i, none)
  | ["l2reinit", i, _] | ["l2reinit", i, _, _, _] =>
    if got.startsWith "skip" then (st.l2it, none) else
    match st.l2it[i]?, okRep with
    | some (.fwd it), some r => (st.l2it.insert i (.fwd (it.reinit r)), none)
    | some (.rev it), some r => (st.l2it.insert i (.rev (it.reinit r)), none)
    | some (.many it), some r => (st.l2it.insert i (.many (it.reinit r)), none)
    | _, _ => (st.l2it.erase i, none)
  | ["it", i, _] | ["rit", i, _] | ["mit", i, _] | ["uit", i, _, _, _] =>
    if got.startsWith "skip" then (st.l2it, none) else (st.l2it.erase i, none)
  | "reinit" :: i :: _ =>
    if got.startsWith "skip" then (st.l2it, none) else (st.l2it.erase i, none)
  | c :: i :: _ =>
    if !l2Cmds.contains c then (st.l2it, none) else
    match st.l2it[i]? with
    | none => (st.l2it, none)
    | some s =>
      let (s', v) := l2Step st.it[i]? s cmd got
      match s' with
      | none => (st.l2it.erase i, v)
      | some s2 =>
        let l1' : Option IterSt := match stepIter st cmd got with
          | some (st1, _) => st1.it[i]?
          | none => none
        (st.l2it.insert i s2, match v with | some m => some m | none => l2Agree l1' s2)
  | _ => (st.l2it, none)

end RModel.Driver
