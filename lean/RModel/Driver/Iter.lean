import RModel.Driver.State
/-! Iteration protocols of the 32-bit bitmap (property C04).

An iterator is a CURSOR over a snapshot of the enumerated set:
* forward / many / unset : every member `≥ cur` remains; `Next` returns `v = nextValue snap cur` and sets `cur := v+1`;
  `PeekNext` returns the same `v`; `AdvanceIfNeeded m` sets `cur := max cur m`; `HasNext ⇔ nextValue snap cur ≠ none`.
* reverse : every member `< cur` remains; `Next` returns `v = prevValue snap (cur-1)` and sets `cur := v`.
* unset over `[a,b)` : a forward cursor over `restrict (compl U32 s) a b`.
`NextMany` with a buffer of length `n` returns the next `min n remaining` members.  Bulk results are never materialised:
the result of taking `t` members is `restrict snap cur (v_last+1)` with `v_last = select snap (rankLt snap cur + t - 1)`. -/
namespace RModel.Driver
open RModel

/-- number of members still to come -/
def IterSt.remaining (it : IterSt) : Nat :=
  if it.kind == "rev" then BSet.rankLt it.snap it.cur
  else BSet.card it.snap - BSet.rankLt it.snap it.cur

/-- the next value, if any -/
def IterSt.peek (it : IterSt) : Option Nat :=
  if it.kind == "rev" then (if it.cur = 0 then none else BSet.prevValue it.snap (it.cur - 1))
  else BSet.nextValue it.snap it.cur

def IterSt.moved (it : IterSt) (v : Nat) : IterSt :=
  if it.kind == "rev" then { it with cur := v } else { it with cur := v + 1 }

/-- take the next `min n remaining` members: (their set, how many, the iterator afterwards) -/
def IterSt.take (it : IterSt) (n : Nat) : BSet × Nat × IterSt :=
  let t := min n it.remaining
  if t = 0 then ([], 0, it)
  else if it.kind == "rev" then
    match BSet.select it.snap (BSet.rankLt it.snap it.cur - t) with
    | some vf => (BSet.restrict it.snap vf it.cur, t, { it with cur := vf })
    | none => ([], 0, it)
  else
    match BSet.select it.snap (BSet.rankLt it.snap it.cur + t - 1) with
    | some vl => (BSet.restrict it.snap it.cur (vl + 1), t, { it with cur := vl + 1 })
    | none => ([], 0, it)

def countDigest (n : Nat) (s : BSet) : String := toString n ++ " " ++ digest s

/-- `k = -1` : never stop; otherwise stop after `k` items -/
def limitOf (k : Int) (total : Nat) : Nat := if k < 0 then total else min k.toNat total

def kArg? (s : String) : Option Int :=
  match s.toInt? with
  | some k => if k < -1 then none else some k
  | none => none

/-- callback / range-func enumeration of `snap` with early stop after `k` items -/
def seqExpect (kind : String) (snap : BSet) (k : Int) : String :=
  let it : IterSt := { kind := kind, snap := snap, cur := if kind == "rev" then U32 else 0 }
  let (res, n, _) := it.take (limitOf k (BSet.card snap))
  countDigest n res

def withIter (st : St) (i : String) (got : String) (f : IterSt → St × Verdict) : St × Verdict :=
  match st.it[i]? with
  | none => skipV st got
  | some it => f it

def setIter (st : St) (i : String) (it : IterSt) : St := { st with it := st.it.insert i it }

def peekable (it : IterSt) : Bool := it.kind == "fwd" || it.kind == "unset"
def hasHasNext (it : IterSt) : Bool := it.kind != "many"

def mkIter (st : St) (kind i x got : String) : St × Verdict :=
  match st.bm[x]? with
  | none => skipV st got
  | some s => (setIter st i { kind := kind, snap := s, cur := if kind == "rev" then U32 else 0 }, expect "ok" got)

def seqCmd (st : St) (c x k got : String) : St × Verdict :=
  match st.bm[x]?, kArg? k with
  | some s, some kk =>
    if c == "ranges" then
      -- the first k maximal intervals, exactly as the model holds them
      let n := limitOf kk (s.length / 2)
      (st, expect (dump (s.take (2 * n))) got)
    else if c == "backward" then (st, expect (seqExpect "rev" s kk) got)
    else if c == "values" then (st, expect (seqExpect "fwd" s kk) got)
    else
      -- Iterate: its doc comment promises no order.  An ascending enumeration must be the prefix; an unordered
      -- one is only checkable when it ran to completion.
      let n := limitOf kk (BSet.card s)
      if got.startsWith "unord " && n == BSet.card s then
        (st, expect ("unord " ++ countDigest n s) got)
      else (st, expect (seqExpect "fwd" s kk) got)
  | _, _ => skipV st got

def stepIter (st : St) (cmd : List String) (got : String) : Option (St × Verdict) :=
  match cmd with
  | ["it", i, x] => some (mkIter st "fwd" i x got)
  | ["rit", i, x] => some (mkIter st "rev" i x got)
  | ["mit", i, x] => some (mkIter st "many" i x got)
  | ["uit", i, x, a, b] =>
    match st.bm[x]?, nat? a, nat? b with
    | some s, some lo, some hi =>
      -- documented domain: [start,end) inside the 32-bit universe; end > 2^32 panics (Initialize says so)
      if hi > U32 then some (st, expect "panic" got)
      else some (setIter st i { kind := "unset", snap := BSet.restrict (BSet.compl U32 s) lo hi, cur := 0 }, expect "ok" got)
    | _, _, _ => some (skipV st got)
  | "reinit" :: i :: x :: rest =>
    some (withIter st i got fun it =>
      match st.bm[x]? with
      | none => skipV st got
      | some s =>
        if it.kind == "unset" then
          match rest with
          | [a, b] =>
            match nat? a, nat? b with
            | some lo, some hi =>
              if hi > U32 then (st, expect "panic" got)
              else (setIter st i { it with snap := BSet.restrict (BSet.compl U32 s) lo hi, cur := 0 }, expect "ok" got)
            | _, _ => skipV st got
          | _ => skipV st got
        else (setIter st i { it with snap := s, cur := if it.kind == "rev" then U32 else 0 }, expect "ok" got))
  | ["hasnext", i] =>
    some (withIter st i got fun it =>
      if hasHasNext it then (st, expect (bstr it.peek.isSome) got) else skipV st got)
  | ["next?", i] | ["next!", i] =>
    some (withIter st i got fun it =>
      if !hasHasNext it then skipV st got else
      match it.peek with
      | some v => (setIter st i (it.moved v), expect (toString v) got)
      | none => (st, expect "none" got))
  | ["peek?", i] | ["peek!", i] =>
    some (withIter st i got fun it =>
      if !peekable it then skipV st got else
      match it.peek with
      | some v => (st, expect (toString v) got)
      | none => (st, expect "none" got))
  | ["adv", i, m] =>
    some (withIter st i got fun it =>
      match nat? m with
      | some mv =>
        if !peekable it || mv ≥ U32 then skipV st got
        else (setIter st i { it with cur := max it.cur mv }, expect "ok" got)
      | none => skipV st got)
  | ["advrel", i, d] =>
    some (withIter st i got fun it =>
      match d.toInt? with
      | some dd =>
        if !peekable it then skipV st got else
        match it.peek with
        | none => (st, expect "none" got)
        | some v =>
          let t : Int := (v : Int) + dd
          let m : Nat := if t < 0 then 0 else min t.toNat (U32 - 1)
          (setIter st i { it with cur := max it.cur m }, expect ("ok " ++ toString m) got)
      | none => skipV st got)
  | ["many", i, n] =>
    some (withIter st i got fun it =>
      match nat? n with
      | some nn =>
        if it.kind != "many" || nn > 16777216 then skipV st got else
        let (res, t, it') := it.take nn
        (setIter st i it', expect (countDigest t res) got)
      | none => skipV st got)
  | ["manyhs", i, n, hs] =>
    some (withIter st i got fun it =>
      match nat? n, nat? hs with
      | some nn, some h =>
        -- domain: hs is a high-bits mask (what roaring64 passes); OR-ing it in = adding it
        if it.kind != "many" || nn > 16777216 || h % U32 != 0 || h ≥ U64 then skipV st got else
        let (res, t, it') := it.take nn
        (setIter st i it', expect (countDigest t (BSet.shiftUp res h)) got)
      | _, _ => skipV st got)
  | "drain" :: i :: rest =>
    some (withIter st i got fun it =>
      let lim : Option Int := match rest with
        | [] => some (-1)
        | [l] => kArg? l
        | _ => none
      match lim with
      | some k =>
        let (res, t, it') := it.take (limitOf k it.remaining)
        (setIter st i it', expect (countDigest t res) got)
      | none => skipV st got)
  | ["iterate", x, k] => some (seqCmd st "iterate" x k got)
  | ["values", x, k] => some (seqCmd st "values" x k got)
  | ["backward", x, k] => some (seqCmd st "backward" x k got)
  | ["ranges", x, k] => some (seqCmd st "ranges" x k got)
  | ["unset", x, a, b, k] =>
    match st.bm[x]?, nat? a, nat? b, kArg? k with
    | some s, some lo, some hi, some kk =>
      -- Unset(b, min, max) is documented on the inclusive window [min,max] = [a, b-1]
      if !(lo < hi && hi ≤ U32) then some (skipV st got)
      else some (st, expect (seqExpect "unset" (BSet.restrict (BSet.compl U32 s) lo hi) kk) got)
    | _, _, _, _ => some (skipV st got)
  | _ => none

end RModel.Driver
