import RModel.Driver.State
import RModel.Impl.ByteInput
/-!
`bytein <buf|adapter> <data> <chunks> <errAt|-1> <op>...` — the byte-input layer (`internal.ByteInput`).

  data   : hex string | `-` (empty) | `g<len>:<seed>` (byte i = (((i+seed)·2654435761) mod 2^32) >> 24)
  chunks : csv of chunk sizes | `-` (no limit), optional trailing `!` = eager end-of-data (error together with the last bytes)
  errAt  : the reader fails once that many bytes were delivered (`-1`: never)
  op     : `n<k>` Next(k) | `s<k>` SkipBytes(k) | `u32` | `u16`

Go prints one token per op — `ok:<v>:<GetReadBytes>` (v = hex of the bytes, `-` if none, `#<len>.<fnv64>` if more than 24; the
integer in decimal; `.` for a skip), `eof:<rb>` (io.EOF), `ueof:<rb>` (io.ErrUnexpectedEOF), `err:<rb>` (another error), `panic` —
and a final token `safe=<NextReturnsSafeSlice>,alias=<Next results inside the input slice>,stable=<results intact and disjoint>`.

Checked:
 1. EVERY token equals the token computed from the model of that implementation (`Impl/ByteInput.lean`: `Buf.run` for `buf`,
    `Adapter.run` over `Reader.ofData data chunks errAt eager` for `adapter`), including the exact error value and the counter
    after a failed operation; the summary token: `ByteBuffer` is unsafe and every non-empty `Next` result aliases the input,
    the adapter is safe and nothing aliases; results stay intact and disjoint.
 2. the instance of theorem `adapter_refines_buf(_errAt)` for this line: `observe (adapter model) = observe (buffer model over the
    bytes before the error position)`.
 3. Go against Go: a `bytein buf` line is remembered; an `adapter` line over the same effective bytes (the data cut at the error
    position) and the same ops must agree with the remembered BUFFER OUTPUT OF THE GO CODE up to the abstraction of theorem B:
    identical tokens up to the first failure, failure at the same op (error value and counter of the failing op abstracted,
    nothing demanded after it), no panic.
-/
namespace RModel.Driver
open RModel RModel.Impl.ByteIn

namespace ByteInDrv

def hexVal (c : Char) : Option Nat :=
  if '0' ≤ c && c ≤ '9' then some (c.toNat - 48)
  else if 'a' ≤ c && c ≤ 'f' then some (c.toNat - 87)
  else if 'A' ≤ c && c ≤ 'F' then some (c.toNat - 55)
  else none

def hexBytes : List Char → Option Bytes
  | [] => some []
  | a :: b :: t =>
    match hexVal a, hexVal b, hexBytes t with
    | some x, some y, some r => some (UInt8.ofNat (16 * x + y) :: r)
    | _, _, _ => none
  | _ => none

def genByte (seed i : Nat) : UInt8 :=
  ((((i + seed).toUInt64 * 2654435761) &&& 0xFFFFFFFF) >>> 24).toUInt8

def parseData (s : String) : Option Bytes :=
  if s == "-" then some []
  else if s.startsWith "g" then
    match (s.drop 1).toString.splitOn ":" with
    | [n, seed] =>
      match n.toNat?, seed.toNat? with
      | some n, some seed => if n > 16777216 || seed > 4294967296 then none else some ((List.range n).map (genByte seed))
      | _, _ => none
    | _ => none
  else hexBytes s.toList

/-- chunk schedule and the eager flag -/
def parseChunks (s : String) : Option (List Nat × Bool) :=
  let eager := s.endsWith "!"
  let s := if eager then (s.dropEnd 1).toString else s
  if s == "-" then some ([], eager)
  else
    match (s.splitOn ",").mapM (fun t => t.toNat?) with
    | some l => if l.any (· ≥ 4294967296) then none else some (l, eager)
    | none => none

def parseErrAt (s : String) : Option (Option Nat) :=
  if s == "-1" then some none else s.toNat?.map some

def parseOp (t : String) : Option Op :=
  if t == "u32" then some .u32
  else if t == "u16" then some .u16
  else if t.length > 1 && (t.startsWith "n" || t.startsWith "s") then
    match (t.drop 1).toString.toNat? with
    | some k => if k > 67108864 then none else some (if t.startsWith "n" then .next k else .skip k)
    | none => none
  else none

def hex2 (b : UInt8) : String := String.ofList [hexDigit (b.toNat / 16), hexDigit (b.toNat % 16)]

def renderBytes (l : Bytes) : String :=
  if l.isEmpty then "-"
  else if l.length ≤ 24 then String.join (l.map hex2)
  else
    let h := l.foldl (fun (h : UInt64) b => (h ^^^ b.toUInt64) * P64) 1469598103934665603
    "#" ++ toString l.length ++ "." ++ hex16 h

def renderStep (s : Step) : String :=
  let rb := toString s.readBytes
  match s.res with
  | .ok (.bytes l) => "ok:" ++ renderBytes l ++ ":" ++ rb
  | .ok (.num v) => "ok:" ++ toString v ++ ":" ++ rb
  | .ok .unit => "ok:.:" ++ rb
  | .error .eof => "eof:" ++ rb
  | .error .unexpectedEOF => "ueof:" ++ rb
  | .error .other => "err:" ++ rb

/-- number of successful non-empty `Next` results -/
def aliasCount (steps : List Step) : Nat :=
  (steps.filter fun s => match s.res with | .ok (.bytes l) => !l.isEmpty | _ => false).length

def isFailTok (t : String) : Bool := t.startsWith "eof:" || t.startsWith "ueof:" || t.startsWith "err:"

/-- Go against Go, under the abstraction of theorem B: `none` = the two token lists agree -/
def crossCheck : Nat → List String → List String → Option String
  | _, [], [] => none
  | i, b :: bs, a :: as =>
    if b == "panic" || a == "panic" then some s!"op {i}: no panic inside the domain (buffer {b}, adapter {a})"
    else if isFailTok b && isFailTok a then none
    else if isFailTok b || isFailTok a then some s!"op {i}: buffer {b} and adapter {a} fail at the same operation"
    else if b == a then crossCheck (i + 1) bs as
    else some s!"op {i}: buffer {b} = adapter {a}"
  | i, _, _ => some s!"op {i}: same number of tokens"

def dataKey (eff : Bytes) (ops : List String) : String :=
  renderBytes eff ++ "/" ++ toString eff.length ++ " " ++ " ".intercalate ops

end ByteInDrv

open ByteInDrv in
def stepByteIn (st : St) (cmd : List String) (got : String) : Option (St × Verdict) :=
  match cmd with
  | "bytein" :: kind :: dataS :: chunksS :: errS :: opsS =>
    match parseData dataS, parseChunks chunksS, parseErrAt errS, opsS.mapM parseOp with
    | some data, some (sched, eager), some errAt, some ops =>
      if kind != "buf" && kind != "adapter" then some (skipV st got) else
      let adapter := kind == "adapter"
      let bufSteps := (Buf.mk data 0).run ops
      let adSteps := (Adapter.mk (Reader.ofData data sched errAt eager) 0).run ops
      -- the bytes the adapter can see: the data cut at the error position
      let eff := match errAt with | some e => data.take e | none => data
      let effSteps := if adapter then (Buf.mk eff 0).run ops else bufSteps
      let steps := if adapter then adSteps else bufSteps
      let summary :=
        if adapter then "safe=1,alias=0,stable=1"
        else "safe=0,alias=" ++ toString (aliasCount bufSteps) ++ ",stable=1"
      let want := " ".intercalate (steps.map renderStep ++ [summary])
      let gotToks := (got.splitOn " ").filter (· ≠ "")
      let goOps := gotToks.take ops.length
      -- 2. the theorem instance (adapter lines: against the buffer over the effective bytes; buffer lines: the adapter model
      --    with this line's schedule and no error position against this buffer)
      let thm : Verdict :=
        let other := if adapter then adSteps else (Adapter.mk (Reader.ofData data sched none eager) 0).run ops
        failIfB (observe other != observe effSteps) "model: observe(adapter) = observe(buffer) (theorem adapter_refines_buf)"
      -- 3. Go against Go
      let key := dataKey (if adapter then eff else data) opsS
      let cross : Verdict :=
        if adapter then
          match st.byteIn with
          | some (k, bufToks) =>
            if k == key then
              (crossCheck 0 bufToks goOps).map fun m => "adapter line agrees with the buffer line up to the first failure: " ++ m
            else none
          | none => none
        else none
      let st' := if adapter then st else { st with byteIn := some (key, goOps) }
      let v : Verdict := match expect want got with
        | some m => some m
        | none => match thm with | some m => some m | none => cross
      some (st', v)
    | _, _, _, _ => some (skipV st got)
  | "bytein" :: _ => some (skipV st got)
  | _ => none
where
  failIfB (c : Bool) (msg : String) : Verdict := if c then some msg else none

end RModel.Driver
