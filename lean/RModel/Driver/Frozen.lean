import RModel.Driver.State
import RModel.Driver.Ser
import RModel.Impl.Frozen
import RModel.Spec.FrozenSpec
import RModel.Gen.Facts
/-! CRoaring "frozen" format command family (C13, and the FrozenView part of C10):
`frz`, `frzsmall`, `frzwfail`, `fview`, `fdec`, `fspec`, `fchk`, `fgc`. -/
namespace RModel.Driver
open RModel RModel.Impl

/-- frozen-format parameters instantiated from the regenerated facts -/
def frozenParams : FrozenParams :=
  { cookie := Facts.frozenCookie.toNat
    -- the type codes, the container limit and the bitset size are unnamed literals in the Go code (`case 1/2/3`,
    -- `1 << 16`, `1 << 13`); they are written here as in the CRoaring layout comment and tied by the byte-for-byte
    -- `frz` / `fdec` correspondence (the cookie is a named constant and comes from the regenerated facts)
    typeBitmap := 1
    typeArray := 2
    typeRun := 3
    maxContainers := 65536
    bitmapBytes := 8192 }

/-- the representation a frozen view of `r` must have: same keys and containers, every container flagged
copy-on-write, copy-on-write switch on -/
def frozenOf (r : Rep) : Rep :=
  { cow := true, slots := r.slots.map fun s => { s with flag := true } }

def hexArg (s : String) : Option (List UInt8) := if s == "-" then some [] else bytesOfHex s

def stepFrozen (st : St) (cmd : List String) (got : String) : Option (St × Verdict) :=
  match cmd with
  | ["frz", x] =>
    match st.bm[x]? with
    | none => some (skipV st got)
    | some s =>
      match got.splitOn " " with
      | [reprS, hexS, szS, agree] =>
        match parseRep reprS, bytesOfHex hexS, szS.toNat? with
        | some r, some bytes, some sz =>
          let enc := r.freeze frozenParams
          let spec := FrozenSpec.frozenSpecDecode bytes.toArray
          let view := frozenView frozenParams bytes
          some (st, firstFail [
            failIf (agree != "true") "true (Freeze = FreezeTo(exact,+1,+4096)[:n] = WriteFrozenTo, n = size, tail untouched)",
            failIf (r.toBSet != s) "abs(repr)=state",
            failIf (sz != bytes.length) "GetFrozenSizeInBytes = len(Freeze())",
            failIf (r.frozenSize frozenParams != sz) ("model-frozenSize(repr)=" ++ toString (r.frozenSize frozenParams)),
            failIf (enc != bytes) ("model-freeze(repr)=bytes; model=" ++ hexOfBytes (enc.take 64)),
            (match spec with
             | none => some "layout reading (FrozenSpec) accepts the written stream"
             | some d => failIf (d != s) "frozenSpecDecode(bytes)=set"),
            (match view with
             | .ok r' =>
               -- same keys and containers as `r` (whose abstraction is the state): same set, and well-formed if `r` is
               if r' == frozenOf r then none
               else firstFail [failIf (r'.toBSet != s) "model-frozenView(bytes) has the same set",
                               failIf (r.wf && !r'.wf) "WF(frozenView(freeze r))",
                               some "model-frozenView(bytes) = repr with all flags set"]
             | .err => some "model-frozenView accepts the written stream"
             | .panic => some "model-frozenView does not panic on the written stream")])
        | _, _, _ => some (st, some "unparsable frz output")
      | _ => some (st, some "<repr> <hex> <size> true")
  | "frzsmall" :: x :: k :: _ =>
    match st.bm[x]?, k.toNat? with
    | some _, some kk => if kk < 1 then some (skipV st got) else some (st, expect "err untouched" got)
    | _, _ => some (skipV st got)
  | ["frzwfail", x, off] =>
    match st.bm[x]?, off.toNat? with
    | some _, some o =>
      match got.splitOn " " with
      | [status, nS, szS] =>
        let sz := szS.toNat?.getD 0
        let n := nS.toNat?.getD (sz + 1)
        let exp := if o < sz then "err" else "ok"
        some (st, firstFail [
          failIf (status != exp) exp,
          failIf (o ≥ sz && n != sz) "returned count = size on success",
          failIf (o < sz && n > o) "returned count <= bytes accepted by the writer"])
      | _ => some (st, some "<status> n size")
    | _, _ => some (skipV st got)
  | "fview" :: y :: x :: _ =>
    match st.bm[x]? with
    | none => some (skipV st got)
    | some s =>
      match got.splitOn " " with
      | [dg, valid, eqS, xrepS, yrepS] =>
        match parseRep xrepS, parseRep yrepS with
        | some rx, some ry =>
          let st' := { st with bm := st.bm.insert y s, bufLen := st.bufLen.insert y (rx.frozenSize frozenParams) }
          some (st', firstFail [
            failIf (dg != digest s) ("digest " ++ digest s),
            failIf (valid != "ok") "frozen view validates",
            failIf (eqS != "true") "Equals(original)",
            failIf (!ry.cow) "copy-on-write switch on",
            failIf (!ry.slots.all (·.flag)) "every container flagged needCopyOnWrite",
            failIf (ry != frozenOf rx) "same keys and containers as the original",
            failIf (ry.toBSet != s) "abs(repr y)=state",
            failIf (!ry.wf) "WF(view)"])
        | _, _ => some (st, some "unparsable fview output")
      | _ => some (st, some (digest s ++ " ok true <repr x> <repr y>"))
  | "fdec" :: y :: hexS :: opts =>
    match hexArg hexS with
    | none => some (skipV st got)
    | some bytes =>
      let st0 := { st with bm := st.bm.erase y }
      let must := opts.contains "must"
      let spec := FrozenSpec.frozenSpecDecode bytes.toArray
      match frozenView frozenParams bytes with
      | .panic => some (st0, some "model: FrozenView panics on this input (must return an error instead)")
      | .err =>
        if spec.isSome then some (st0, some "MACHINERY: layout reading accepts a stream the FrozenView model rejects")
        else some (st0, expect "err" got)
      | .ok r =>
        let v := r.validate
        let exp := "ok " ++ renderRep r ++ " " ++ (if v then "valid" else "invalid")
        if must && !v then some (st0, expect "err" got)            -- MustFrozenView reports the validation failure
        else if got != exp then some (st0, some (if exp.length > 400 then (exp.take 400).toString ++ "..." else exp))
        else if spec.isSome && spec != some r.toBSet then
          some (st0, some "MACHINERY: layout reading and FrozenView model disagree on the set")
        else if v && !r.wf then
          some (st0, some "Validate()==nil implies well-formed (model WF fails on this accepted input)")
        else if v then
          some ({ st0 with bm := st0.bm.insert y r.toBSet, bufLen := st0.bufLen.insert y bytes.length }, none)
        else some (st0, none)
  | "fspec" :: y :: hexS :: claimed :: _ =>
    match hexArg hexS with
    | none => some (skipV st got)
    | some bytes =>
      match FrozenSpec.frozenSpecDecode bytes.toArray with
      | none => some (st, some "MACHINERY: independent layout reading rejects the generator's stream")
      | some d =>
        if digest d != claimed then some (st, some ("MACHINERY: layout reading gives " ++ digest d))
        else
          some ({ st with bm := st.bm.insert y d, bufLen := st.bufLen.insert y bytes.length },
                expect ("ok " ++ claimed) got)
  | ["fchk", y] =>
    match st.bufLen[y]? with
    | none => some (skipV st got)
    | some _ => some (st, expect "intact" got)
  | ["fgc"] => some (st, expect "ok" got)
  | _ => none

end RModel.Driver
