import RModel.Driver.State
import RModel.Driver.Ser
import RModel.Impl.Checksum
/-!
`l2cksum x`: Go prints `<repr32(x)> <Checksum> <Clone().Checksum> <readfrom> <frombuffer> <fromunsafe> <unmarshal> <frozenview|->`.
Checked: the representation parses and abstracts to the model state of `x`; EVERY checksum token equals `Rep.checksum` of the
parsed representation (the model of the Go function; `RProofs/Checksum.lean` proves it invariant under `Clone` and under both
round trips); no token is an error for a well-formed bitmap; the call did not change the representation.
-/
namespace RModel.Driver
open RModel RModel.Impl

def stepL2Cksum (st : St) (cmd : List String) (got : String) : Option (St × Verdict) :=
  match cmd with
  | ["l2cksum", x] =>
    match st.bm[x]? with
    | none => some (skipV st got)
    | some sx =>
      match got.splitOn " " with
      | reprS :: toks =>
        match parseRep reprS with
        | none => some (st, some "<repr> <checksums..>")
        | some r =>
          let want := toString r.checksum
          let frozenTok := toks.getD 6 "?"
          let main := toks.take 6
          some (st, firstFail [
            failIf (r.toBSetFast != sx) ("abs(repr " ++ x ++ ")=" ++ digest sx),
            failIf (toks.length != 7) "seven checksum tokens and no !chg marker (a query must not modify the bitmap)",
            failIf (main.any (· != want)) ("Checksum = Clone = every round trip = model " ++ want),
            failIf (frozenTok != want && !(frozenTok == "-" && r.slots.isEmpty)) ("frozen round trip checksum = model " ++ want)])
      | _ => some (st, some "<repr> <checksums..>")
  | _ => none

end RModel.Driver
