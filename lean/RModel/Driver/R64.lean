import RModel.Driver.State
/-! roaring64 command family (64-bit bitmaps over the L1 oracle with universe 2^64). -/
namespace RModel.Driver
open RModel

def step64 (_st : St) (_cmd : List String) (_got : String) : Option (St × Verdict) := none

end RModel.Driver
