import RModel.Driver.State
import RModel.Spec.FormatSpec64
/-!
roaring64 command family (64-bit bitmaps over the L1 oracle `BSet` with universe `U64 = 2^64`).

Documented domain encoded here (checked against /repo/roaring64/roaring64.go):
* every value argument is a `uint64`; ranges are `[start,end)` with `uint64` arguments, so `end ≤ 2^64-1` and the
  value `2^64-1` can never be reached by `AddRange`/`RemoveRange`/`Flip` (only by point operations);
  `start ≥ end` is documented (by the code's first statement) as a no-op - it *is* generated;
* `Minimum`/`Maximum` "assume that the bitmap is not empty": on an empty bitmap any output is accepted;
* `Next`/`PeekNext` are only defined while `HasNext` - the harness prints `end` instead of calling them;
* iterators are invalidated by a mutation of their bitmap: scripts never use them afterwards;
* `ParOr(parallelism, ...)` with `parallelism ≥ 0` (0 = default number of workers).
For serialization commands the model does not know byte counts: it checks the *relations* between the numbers the
Go side prints (n = len = size, digests equal to the source set, `allerr`, never `panic`/`fatal`), and it decodes
hex streams with the independent reading of the format (`FormatSpec.specDecode64`).
-/
namespace RModel.Driver
open RModel

def skip64 (st : St) (got : String) : St × Verdict := (st, expect "skip" got)

def val64? (s : String) : Option Nat :=
  match s.toNat? with
  | some n => if n < U64 then some n else none
  | none => none

def vals64? (l : List String) : Option (List Nat) := l.mapM val64?

def mut64 (st : St) (x : String) (got : String) (f : BSet → BSet) (pre : BSet → String := fun _ => "") :
    St × Verdict :=
  match st.bm64[x]? with
  | none => skip64 st got
  | some s =>
    let s' := f s
    ({ st with bm64 := st.bm64.insert x s' }, expect (pre s ++ digest s') got)

def query64 (st : St) (x : String) (got : String) (f : BSet → String) : St × Verdict :=
  match st.bm64[x]? with
  | none => skip64 st got
  | some s => (st, expect (f s) got)

/-- query whose result is unconstrained for some sets (`none` = any output accepted) -/
def queryOpt64 (st : St) (x : String) (got : String) (f : BSet → Option String) : St × Verdict :=
  match st.bm64[x]? with
  | none => skip64 st got
  | some s => match f s with
    | some e => (st, expect e got)
    | none => (st, none)

def static64 (st : St) (y a b got : String) (f : BSet → BSet → BSet) : St × Verdict :=
  match st.bm64[a]?, st.bm64[b]? with
  | some sa, some sb =>
    let r := f sa sb
    ({ st with bm64 := st.bm64.insert y r }, expect (digest r ++ " " ++ digest sa ++ " " ++ digest sb) got)
  | _, _ => skip64 st got

def inplace64 (st : St) (a b got : String) (f : BSet → BSet → BSet) : St × Verdict :=
  match st.bm64[a]?, st.bm64[b]? with
  | some sa, some sb =>
    let r := f sa sb
    let st' := { st with bm64 := st.bm64.insert a r }
    let sb' := if a == b then r else sb
    (st', expect (digest r ++ " " ++ digest sb') got)
  | _, _ => skip64 st got

def scalar64 (st : St) (a b got : String) (f : BSet → BSet → String) : St × Verdict :=
  match st.bm64[a]?, st.bm64[b]? with
  | some sa, some sb => (st, expect (f sa sb) got)
  | _, _ => skip64 st got

/-- n-ary aggregate: result digest, `args=same` (the caller's slice is not modified), operand digests -/
def many64 (st : St) (y : String) (names : List String) (got : String) (f : List BSet → BSet) : St × Verdict :=
  match names.mapM (fun n => st.bm64[n]?) with
  | none => skip64 st got
  | some sets =>
    let r := f sets
    ({ st with bm64 := st.bm64.insert y r },
      expect (digest r ++ " args=same" ++ String.join (sets.map fun s => " " ++ digest s)) got)

def interAll : List BSet → BSet
  | [] => []
  | a :: t => t.foldl BSet.inter a

def valsOut (s : BSet) : String := toString (BSet.card s) ++ " " ++ digest s

def toArrCap : Nat := 4194304

/-- the `n` smallest members `≥ cur`, and the new cursor -/
def takeFwd (s : BSet) (cur n : Nat) : BSet × Nat :=
  let rem := BSet.restrict s cur U64
  if n == 0 then ([], cur)
  else if BSet.card rem ≤ n then (rem, U64)
  else match BSet.select rem n with
    | some v => (BSet.restrict rem cur v, v)
    | none => (rem, U64)

/-- the `n` largest members `< cur`, and the new cursor -/
def takeRev (s : BSet) (cur n : Nat) : BSet × Nat :=
  let rem := BSet.restrict s 0 cur
  let k := BSet.card rem
  if n == 0 then ([], cur)
  else if k ≤ n then (rem, 0)
  else match BSet.select rem (k - n) with
    | some v => (BSet.restrict rem v cur, v)
    | none => (rem, 0)

def iterNext (it : IterSt) : Option Nat :=
  if it.kind == "rev" then (if it.cur == 0 then none else BSet.prevValue it.snap (it.cur - 1))
  else BSet.nextValue it.snap it.cur

def endOr (o : Option Nat) : String := match o with | some v => toString v | none => "end"

-- ---------------------------------------------------------------------------------------- hex / dump parsing

def hexNib (c : Char) : Option Nat :=
  if '0' ≤ c && c ≤ '9' then some (c.toNat - 48)
  else if 'a' ≤ c && c ≤ 'f' then some (c.toNat - 87)
  else if 'A' ≤ c && c ≤ 'F' then some (c.toNat - 55)
  else none

def hexBytesAux : List Char → Array UInt8 → Option (Array UInt8)
  | [], acc => some acc
  | a :: b :: t, acc => match hexNib a, hexNib b with
    | some x, some y => hexBytesAux t (acc.push (UInt8.ofNat (16 * x + y)))
    | _, _ => none
  | _, _ => none

def hexBytes (s : String) : Option (Array UInt8) := if s == "-" then some #[] else hexBytesAux s.toList #[]

/-- parse the canonical dump `lo-hi,v,...` (inclusive) back into a boundary list; `none` if not canonical -/
def parseDump (s : String) : Option BSet :=
  if s == "-" then some []
  else do
    let parts ← (s.splitOn ",").mapM fun p =>
      match p.splitOn "-" with
      | [v] => do let n ← v.toNat?; pure [n, n + 1]
      | [lo, hi] => do
        let l ← lo.toNat?
        let h ← hi.toNat?
        if l < h then pure [l, h + 1] else none
      | _ => none
    let b := parts.flatten
    if FormatSpec.strictlyIncreasing b && b.all (· ≤ U64) then some b else none

def entry64 (e : String) : Bool := e == "readfrom" || e == "readfrom1" || e == "readpipe" || e == "fromunsafe" || e == "unmarshal" || e == "base64"

-- ---------------------------------------------------------------------------------------- the command family

def step64 (st : St) (cmd : List String) (got : String) : Option (St × Verdict) :=
  match cmd with
  | ["lenient64", "runsize"] => some (st, expect "ok" got)
  | "alias64" :: names =>
    if names.isEmpty then some (skip64 st got)
    else if names.all (fun n => st.bm64.contains n) then some (st, expect "ok" got) else some (skip64 st got)
  | ["new64", x] => some ({ st with bm64 := st.bm64.insert x [] }, expect (digest []) got)
  | "of64" :: x :: vs =>
    match vals64? vs with
    | some l =>
      let s := ofVals l
      some ({ st with bm64 := st.bm64.insert x s }, expect (digest s) got)
    | none => some (skip64 st got)
  | ["clone64", y, x] | ["cowclone64", y, x] =>
    match st.bm64[x]? with
    | some s => some ({ st with bm64 := st.bm64.insert y s }, expect (digest s ++ " " ++ digest s) got)
    | none => some (skip64 st got)
  | ["setcow64", x, f] => some (query64 st x got (fun _ => bstr (f == "1")))
  | ["detach64", x] | ["opt64", x] | ["dig64", x] => some (query64 st x got digest)
  | ["clear64", x] => some (mut64 st x got (fun _ => []))
  | ["add64", x, v] | ["addint64", x, v] =>
    match val64? v with
    | some n => some (mut64 st x got (fun s => BSet.add s n))
    | none => some (skip64 st got)
  | ["rem64", x, v] =>
    match val64? v with
    | some n => some (mut64 st x got (fun s => BSet.remove s n))
    | none => some (skip64 st got)
  | ["cadd64", x, v] =>
    match val64? v with
    | some n => some (mut64 st x got (fun s => BSet.add s n) (fun s => bstr (!BSet.mem s n) ++ " "))
    | none => some (skip64 st got)
  | ["crem64", x, v] =>
    match val64? v with
    | some n => some (mut64 st x got (fun s => BSet.remove s n) (fun s => bstr (BSet.mem s n) ++ " "))
    | none => some (skip64 st got)
  | "addmany64" :: x :: vs =>
    match vals64? vs with
    | some l => some (mut64 st x got (fun s => BSet.union s (ofVals l)))
    | none => some (skip64 st got)
  | ["addstride64", x, a, b, c] =>
    match val64? a, val64? b, c.toNat? with
    | some start, some step, some cnt =>
      if cnt > 1048576 || step == 0 || (cnt > 0 && (U64 - 1 - start) / step < cnt - 1) then some (skip64 st got)
      else some (mut64 st x got (fun s => BSet.union s (ofVals ((List.range cnt).map fun i => start + i * step))))
    | _, _, _ => some (skip64 st got)
  | "sermany64" :: xs =>
    if xs.isEmpty || !(xs.all fun x => (st.bm64[x]?).isSome) then some (skip64 st got)
    else some (st, expect "ok" got)
  | ["addr64", x, a, b] =>
    match val64? a, val64? b with
    | some lo, some hi => some (mut64 st x got (fun s => BSet.addRange s lo hi))
    | _, _ => some (skip64 st got)
  | ["remr64", x, a, b] =>
    match val64? a, val64? b with
    | some lo, some hi => some (mut64 st x got (fun s => BSet.removeRange s lo hi))
    | _, _ => some (skip64 st got)
  | ["flip64", x, a, b] | ["flipint64", x, a, b] =>
    match val64? a, val64? b with
    | some lo, some hi => some (mut64 st x got (fun s => BSet.flipRange s lo hi))
    | _, _ => some (skip64 st got)
  | ["sflip64", y, x, a, b] =>
    match val64? a, val64? b, st.bm64[x]? with
    | some lo, some hi, some s =>
      let r := BSet.flipRange s lo hi
      some ({ st with bm64 := st.bm64.insert y r }, expect (digest r ++ " " ++ digest s) got)
    | _, _, _ => some (skip64 st got)
  | ["and64", y, a, b] => some (static64 st y a b got BSet.inter)
  | ["or64", y, a, b] => some (static64 st y a b got BSet.union)
  | ["xor64", y, a, b] => some (static64 st y a b got BSet.xor)
  | ["andnot64", y, a, b] => some (static64 st y a b got BSet.diff)
  | ["iand64", a, b] => some (inplace64 st a b got BSet.inter)
  | ["ior64", a, b] => some (inplace64 st a b got BSet.union)
  | ["ixor64", a, b] => some (inplace64 st a b got BSet.xor)
  | ["iandnot64", a, b] => some (inplace64 st a b got BSet.diff)
  | ["andcard64", a, b] => some (scalar64 st a b got fun sa sb => toString (BSet.card (BSet.inter sa sb)))
  | ["orcard64", a, b] => some (scalar64 st a b got fun sa sb => toString (BSet.card (BSet.union sa sb)))
  | ["isect64", a, b] => some (scalar64 st a b got fun sa sb => bstr (!BSet.isEmpty (BSet.inter sa sb)))
  | ["eq64", a, b] => some (scalar64 st a b got fun sa sb => bstr (sa == sb))
  | ["card64", x] => some (query64 st x got (fun s => toString (BSet.card s)))
  | ["empty64", x] => some (query64 st x got (fun s => bstr (BSet.isEmpty s)))
  | ["has64", x, v] | ["hasint64", x, v] =>
    match val64? v with
    | some n => some (query64 st x got (fun s => bstr (BSet.mem s n)))
    | none => some (skip64 st got)
  | ["min64", x] => some (queryOpt64 st x got (fun s => (BSet.minimum s).map toString))
  | ["max64", x] => some (queryOpt64 st x got (fun s => (BSet.maximum s).map toString))
  | ["rank64", x, v] =>
    match val64? v with
    | some n => some (query64 st x got (fun s => toString (BSet.rankLt s (n + 1))))
    | none => some (skip64 st got)
  | ["sel64", x, v] =>
    match val64? v with
    | some n => some (query64 st x got (fun s => match BSet.select s n with | some v => toString v | none => "err"))
    | none => some (skip64 st got)
  | ["toarr64", x] =>
    some (query64 st x got (fun s => if BSet.card s > toArrCap then "toobig" else valsOut s))
  | ["str64", x] =>
    some (query64 st x got (fun s => if BSet.card s > 4096 then "toobig" else valsOut s))
  | ["dump64", x] => some (query64 st x got dump)
  | ["wf64", x] | ["bufchk64", x] => some (query64 st x got (fun _ => "ok"))
  | ["runs64", x] => some (query64 st x got (fun _ => "true"))
  | ["stats64", x] => some (query64 st x got (fun s => toString (BSet.card s) ++ " true"))
  | "fastor64" :: y :: names => some (many64 st y names got unionAll)
  | "fastand64" :: y :: names => some (many64 st y names got interAll)
  | "paror64" :: y :: w :: names =>
    match w.toNat? with
    | some _ => some (many64 st y names got unionAll)
    | none => some (skip64 st got)
  | "concagg64" :: k :: w :: names =>
    match k.toNat?, w.toNat?, names.mapM (fun n => st.bm64[n]?) with
    | some kk, some _, some sets =>
      if kk < 1 || kk > 64 || names.isEmpty then some (skip64 st got)
      else some (st, expect (digest (unionAll sets) ++ " same=true in=ok") got)
    | _, _, _ => some (skip64 st got)
  | ["as64", y, x] =>
    match st.bm[x]? with
    | some s => some ({ st with bm64 := st.bm64.insert y s }, expect (digest s ++ " " ++ digest s) got)
    | none => some (skip64 st got)
  -- ---- iterators (snapshot semantics: scripts do not mutate the bitmap while an iterator is live)
  | [c, i, x] =>
    if c == "it64" || c == "rit64" || c == "mit64" then
      match st.bm64[x]? with
      | some s =>
        let it : IterSt := if c == "rit64" then ⟨"rev", s, U64⟩ else ⟨if c == "it64" then "fwd" else "many", s, 0⟩
        some ({ st with it64 := st.it64.insert i it }, expect "ok" got)
      | none => some (skip64 st got)
    else if c == "reit64" then
      match st.it64[i]?, st.bm64[x]? with
      | some it, some s =>
        let it' : IterSt := { it with snap := s, cur := if it.kind == "rev" then U64 else 0 }
        some ({ st with it64 := st.it64.insert i it' }, expect "ok" got)
      | _, _ => some (skip64 st got)
    else if c == "adv64" then
      match st.it64[i]?, val64? x with
      | some it, some m =>
        if it.kind != "fwd" then some (skip64 st got)
        else
          let it' := { it with cur := max it.cur m }
          some ({ st with it64 := st.it64.insert i it' }, expect (endOr (iterNext it')) got)
      | _, _ => some (skip64 st got)
    else if c == "many64" || c == "drain64" then
      match st.it64[i]?, x.toNat? with
      | some it, some n =>
        if n > toArrCap then some (skip64 st got)
        else if (c == "many64") != (it.kind == "many") then some (skip64 st got)
        else
          let (taken, cur') := if it.kind == "rev" then takeRev it.snap it.cur n else takeFwd it.snap it.cur n
          some ({ st with it64 := st.it64.insert i { it with cur := cur' } }, expect (valsOut taken) got)
      | _, _ => some (skip64 st got)
    else if c == "seq64" then
      -- seq64 x dir n   (here: i = bitmap, x = direction) is a 4-token command, handled below
      none
    else if c == "trunc64" then
      -- trunc64 x entry
      match st.bm64[i]? with
      | some _ =>
        if !entry64 x then some (skip64 st got)
        else if got == "toobig" then some (st, none)
        else some (st, expect "allerr" got)
      | none => some (skip64 st got)
    else none
  | ["hasnext64", i] =>
    match st.it64[i]? with
    | some it => if it.kind == "many" then some (skip64 st got) else some (st, expect (bstr (iterNext it).isSome) got)
    | none => some (skip64 st got)
  | ["next64", i] =>
    match st.it64[i]? with
    | some it =>
      if it.kind == "many" then some (skip64 st got)
      else match iterNext it with
        | some v =>
          let it' := { it with cur := if it.kind == "rev" then v else v + 1 }
          some ({ st with it64 := st.it64.insert i it' }, expect (toString v) got)
        | none => some (st, expect "end" got)
    | none => some (skip64 st got)
  | ["peek64", i] =>
    match st.it64[i]? with
    | some it => if it.kind != "fwd" then some (skip64 st got) else some (st, expect (endOr (iterNext it)) got)
    | none => some (skip64 st got)
  | ["seq64", x, dir, n] =>
    match st.bm64[x]?, n.toNat? with
    | some s, some k =>
      if k > toArrCap then some (skip64 st got)
      else if dir == "fwd" then some (st, expect (valsOut (takeFwd s 0 k).1) got)
      else if dir == "rev" then some (st, expect (valsOut (takeRev s U64 k).1) got)
      else some (skip64 st got)
    | _, _ => some (skip64 st got)
  -- ---- serialization: relations between the printed numbers
  | ["ser64", x] =>
    match st.bm64[x]? with
    | some _ =>
      let l := (got.splitOn " ").headD ""
      match l.toNat? with
      | some _ => some (st, expect (l ++ " " ++ l ++ " " ++ l ++ " true true true") got)
      | none => some (st, some "L L L true true true")
    | none => some (skip64 st got)
  | ["hex64", x] =>
    match st.bm64[x]? with
    | some s =>
      if got == "toobig" then some (st, none)
      else match hexBytes got with
        | none => some (st, some "<hex>")
        | some b => match FormatSpec.specDecode64 b with
          | some d =>
            if d.set == s && d.consumed == b.size then some (st, none)
            else some (st, some ("spec-valid stream for " ++ digest s ++ " (spec reads " ++ digest d.set ++ ", " ++
                                 toString d.consumed ++ " of " ++ toString b.size ++ " bytes)"))
          | none => some (st, some ("spec-valid stream for " ++ digest s))
    | none => some (skip64 st got)
  | "rd64" :: y :: entry :: x :: opts =>
    match st.bm64[x]? with
    | some s =>
      if !entry64 entry then some (skip64 st got)
      else if !(opts.all fun o => o == "reuse" || ((o.splitOn "=").headD "" == "extra" &&
                 (((o.splitOn "=").getD 1 "").toNat?).isSome)) then some (skip64 st got)
      else
        let toks := got.splitOn " "
        let l := toks.getD 2 "L"
        let l := if (l.toNat?).isSome then l else "L"
        let nExp := if entry == "unmarshal" then "-" else l
        let cExp := if entry == "readfrom" || entry == "readfrom1" || entry == "readpipe" then l else "-"
        some ({ st with bm64 := st.bm64.insert y s },
          expect (digest s ++ " " ++ nExp ++ " " ++ l ++ " " ++ cExp ++ " ok") got)
    | none => some (skip64 st got)
  | "rdfail64" :: y :: entry :: x :: cut :: _ =>
    match st.bm64[y]?, st.bm64[x]?, cut.toNat? with
    | some _, some _, some _ =>
      if !entry64 entry || got.startsWith "skip" then some (skip64 st got)
      else some ({ st with bm64 := st.bm64.erase y }, expect "err ok" got)
    | _, _, _ => some (skip64 st got)
  | "dec64" :: y :: entry :: hx :: _ =>
    if !entry64 entry then some (skip64 st got)
    else match hexBytes hx with
      | none => some (skip64 st got)
      | some b =>
        let st0 := { st with bm64 := st.bm64.erase y }
        match FormatSpec.specDecode64 b with
        | some d =>
          let nExp := if entry == "unmarshal" then "-" else toString d.consumed
          some ({ st0 with bm64 := st0.bm64.insert y d.set }, expect ("ok " ++ nExp ++ " ok " ++ dump d.set) got)
        | none =>
          -- not a spec-valid stream: an error or any bitmap, never a panic / crash
          if got == "err" then some (st0, none)
          else match got.splitOn " " with
            | ["ok", _, wf, dmp] =>
              if wf == "ok" then
                match parseDump dmp with
                | some s => some ({ st0 with bm64 := st0.bm64.insert y s }, none)
                | none => some (st0, some "err | ok n wf <canonical dump>")
              else some (st0, none)
            | _ => some (st0, some "err | ok ..")
  | ["cor64", x, entry, _, _] =>
    match st.bm64[x]? with
    | some _ =>
      if !entry64 entry then some (skip64 st got)
      else if got == "err" || got.startsWith "ok " || got.startsWith "skip" then some (st, none)
      else some (st, some "err | ok ..")
    | none => some (skip64 st got)
  | _ => none

end RModel.Driver
