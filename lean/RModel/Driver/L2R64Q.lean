import RModel.Driver.L2R64
import RModel.Driver.L2Q
import RModel.Impl.Rep64Mut
import RModel.Impl.Rep64Query
import RModel.Impl.Rep64Agg
import RModel.Impl.Rep64ParOr -- [paror]
/-!
roaring64 exact-representation tie of the POINT MUTATORS and the READ-ONLY drivers (models: `Impl/Rep64Mut.lean`,
`Impl/Rep64Query.lean`; Go side: `harness/l2r64q.go`).  `repr64` as in `Driver/L2R64.lean`.

* `l2mut64 <add|cadd|rem|crem> x v`, `l2mut64 addint x <int64>`, `l2mut64 addmany x v…`, `l2mut64 clear x`:
  Go prints `<repr64(x) before> <result token> <repr64(x) after>` (`true|false` for the Checked forms, else `-`).  Checked, in this order:
  1. the representations parse; the abstraction of the "before" representation is the model state (`st.bm64`) of `x`;
  2. SET semantics: the abstraction of `repr64 after` is the L1 operation (verified `BSet`) on the model state; the Boolean of the
     Checked forms is `!mem` / `mem`;
  3. for a well-formed receiver (`Rep64.wf`; any switch / flag pattern, also of the inner bitmaps): `renderRep64 (Rep64.<op> …)`
     is LITERALLY the "after" token — same keys, created / removed buckets, bucket flags, switch, and every inner bitmap
     container by container with its flags — the model Boolean is the token, and the result is well-formed.
* `l2q64 <card|empty|has v|hasint v|min|max|rank v|sel i> x`: Go prints `<repr64(x)> <answer>`;
  `l2q64 <andcard|orcard|isect|eq> x y`: `<repr64(x)> <repr64(y)> <answer>`.  Checked: 1. as above; 2. the answer is the L1 answer
  (the expressions of the L1 commands `card64 …` in `Driver/R64.lean`; `Minimum` / `Maximum` of an empty bitmap: `panic`);
  3. for well-formed operands the answer is literally what the L2 driver model returns.  `!chg` = the query changed the representation.
* `l2agg64 <fastor|fastand> z x1 … xn`: Go prints the `n` representations before, `repr64(z)`, the `n` representations after.
  Checked: 1. as above for every input; 2. the abstraction of `repr64(z)` is the L1 union / intersection (`unionAll` / `interAll`, as
  the L1 commands `fastor64` / `fastand64`); every input denotes the same set afterwards; 3. for well-formed inputs
  `renderRep64 (Rep64.fastOr Ops32.exact inputs)` (resp. `fastAnd`) is LITERALLY `repr64(z)` — the 32-bit layer is the exact model
  `Impl/RepMut.lean` — and the result is well-formed.
* [paror] `l2agg64 paror:<w> z x1 … xn` (`roaring64.ParOr(w, …)`): as `fastor`, Go appends one more token `ncpu=<runtime.NumCPU()>`;
  the model is `Rep64.parOr Ops32.exact w'` (`Impl/Rep64ParOr.lean`) with the effective worker count `w' = w`, or `ncpu` when `w = 0`.
The model state of `x` / `z` becomes the L1 result.
-/
namespace RModel.Driver
open RModel RModel.Impl

/-- a decimal `int64` -/
def int64? (s : String) : Option Int :=
  match s.toInt? with
  | some v => if -9223372036854775808 ≤ v && v < 9223372036854775808 then some v else none
  | none => none

/-- what a point mutator does: L1 set function, L2 representation function, expected result token from the set / the representation -/
structure L2Mut64Sem where
  f1 : BSet → BSet
  f2 : Rep64 → Rep64
  tok1 : BSet → String := fun _ => "-"
  tok2 : Rep64 → String := fun _ => "-"

def l2Mut64Sem (op : String) (args : List String) : Option L2Mut64Sem :=
  match op, args with
  | "add", [a] => (val64? a).map fun v => { f1 := (BSet.add · v), f2 := (Rep64.add · v) }
  | "rem", [a] => (val64? a).map fun v => { f1 := (BSet.remove · v), f2 := (Rep64.remove · v) }
  | "cadd", [a] => (val64? a).map fun v =>
      { f1 := (BSet.add · v), f2 := fun r => (r.checkedAdd v).1,
        tok1 := fun s => bstr (!BSet.mem s v), tok2 := fun r => bstr (r.checkedAdd v).2 }
  | "crem", [a] => (val64? a).map fun v =>
      { f1 := (BSet.remove · v), f2 := fun r => (r.checkedRemove v).1,
        tok1 := fun s => bstr (BSet.mem s v), tok2 := fun r => bstr (r.checkedRemove v).2 }
  | "addint", [a] => (int64? a).map fun v =>
      { f1 := (BSet.add · (v % 18446744073709551616).toNat), f2 := (Rep64.addInt · v) }
  | "addmany", as => (vals64? as).map fun l => { f1 := fun s => BSet.union s (ofVals l), f2 := (Rep64.addMany · l) }
  | "clear", [] => some { f1 := fun _ => [], f2 := fun _ => Rep64.cleared }
  | _, _ => none

/-- unary queries: (set-level answer, L2 model answer) -/
def l2q64Sem (q : String) (args : List String) : Option ((BSet → String) × (Rep64 → String)) :=
  match q, args with
  | "card", [] => some (fun s => toString (BSet.card s), fun r => toString r.getCardinality)
  | "empty", [] => some (fun s => bstr (BSet.isEmpty s), fun r => bstr r.isEmptyQ)
  | "has", [a] => (val64? a).map fun v => (fun s => bstr (BSet.mem s v), fun r => bstr (r.contains v))
  | "hasint", [a] => (int64? a).map fun v =>
      (fun s => bstr (BSet.mem s (v % 18446744073709551616).toNat), fun r => bstr (r.containsInt v))
  | "min", [] => some (fun s => match BSet.minimum s with | some v => toString v | none => "panic",
                       fun r => optInt r.minimum "panic")
  | "max", [] => some (fun s => match BSet.maximum s with | some v => toString v | none => "panic",
                       fun r => optInt r.maximum "panic")
  | "rank", [a] => (val64? a).map fun v => (fun s => toString (BSet.rankLt s (v + 1)), fun r => toString (r.rank v))
  | "sel", [a] => (val64? a).map fun i =>
      (fun s => match BSet.select s i with | some v => toString v | none => "err", fun r => optInt (r.select i) "err")
  | _, _ => none

def l2q64Sem2 (q : String) : Option ((BSet → BSet → String) × (Rep64 → Rep64 → String)) :=
  match q with
  | "andcard" => some (fun a b => toString (BSet.card (BSet.inter a b)), fun x y => toString (x.andCardinality y))
  | "orcard" => some (fun a b => toString (BSet.card (BSet.union a b)), fun x y => toString (x.orCardinality y))
  | "isect" => some (fun a b => bstr (!BSet.isEmpty (BSet.inter a b)), fun x y => bstr (x.intersects y))
  | "eq" => some (fun a b => bstr (a == b), fun x y => bstr (x.equals y))
  | _ => none

def stepL2R64Q (st : St) (cmd : List String) (got : String) : Option (St × Verdict) :=
  match cmd with
  | "l2agg64" :: op :: z :: names =>
    let sem : Option ((List BSet → BSet) × (List Rep64 → Rep64)) :=
      match op with
      | "fastor" => some (unionAll, Rep64.fastOr Ops32.exact)
      | "fastand" => some (interAll, Rep64.fastAnd Ops32.exact)
      | _ =>
        -- [paror] `paror:<w>`: the effective worker count is `w`, or the trailing token `ncpu=<n>` of the Go line when `w = 0`
        if op.startsWith "paror:" then
          match (op.drop 6).toNat?, (((got.splitOn " ").getLast?.getD "").drop 5).toNat? with
          | some w, some ncpu =>
            if w > 1048576 || ncpu == 0 then none
            else some (unionAll, Rep64.parOr Ops32.exact (if w == 0 then ncpu else w))
          | some w, none => if w > 1048576 then none else some (unionAll, fun _ => {})   -- not a result line: reported below
          | _, _ => none
        else none
    match sem, names.mapM (fun n => st.bm64[n]?) with
    | some (f1, f2), some sets =>
      let expSet := f1 sets
      let st' := { st with bm64 := st.bm64.insert z expSet }
      let toks := got.splitOn " "
      -- [paror] the trailing `ncpu=<n>` token of a `paror:` line is not a representation
      let isPar := op.startsWith "paror:"
      if isPar && !(toks.getLast?.getD "").startsWith "ncpu=" then some (st', some "<n reprs before> <repr64 z> <n reprs after> ncpu=<n>") else
      let toks := if isPar then toks.dropLast else toks
      let n := names.length
      if toks.length != 2 * n + 1 then some (st', some "<n reprs before> <repr64 z> <n reprs after>") else
      match (toks.take n).mapM parseRep64, parseRep64 (toks.getD n ""), (toks.drop (n + 1)).mapM parseRep64 with
      | some before, some rz, some after =>
        let exact : Verdict :=
          if before.all (·.wf) then
            let r := renderRep64 (f2 before)
            if !rz.wf then some ("well-formed result of " ++ op ++ " on well-formed inputs")
            else if r != toks.getD n "" then some ("L2 aggregate model = Go representation; model: " ++ r.take 400)
            else none
          else none
        some (st', firstFail [
          firstFail ((before.zip (sets.zip names)).map fun (r, s, nm) =>
            failIf (r.toBSetFast != s) ("abs(repr64 " ++ nm ++ ")=" ++ digest s)),
          failIf (rz.toBSetFast != expSet) ("abs(repr64 result)=" ++ digest expSet ++ " = " ++ (dump expSet).take 300),
          firstFail ((after.zip (sets.zip names)).map fun (r, s, nm) =>
            failIf (r.toBSetFast != s) ("input " ++ nm ++ " denotes the same set after the aggregate")),
          exact])
      | _, _, _ => some (st', some "parsable representations")
    | _, _ => some (skipV st got)
  | "l2mut64" :: op :: x :: args =>
    match l2Mut64Sem op args, st.bm64[x]? with
    | some sem, some sx =>
      let expSet := sem.f1 sx
      let st' := { st with bm64 := st.bm64.insert x expSet }
      match got.splitOn " " with
      | [rbS, tok, raS] =>
        match parseRep64 rbS, parseRep64 raS with
        | some rb, some ra =>
          let exact : Verdict :=
            if rb.wf then
              let r := renderRep64 (sem.f2 rb)
              if !ra.wf then some ("well-formed result of " ++ op ++ " on a well-formed receiver")
              else if sem.tok2 rb != tok then some ("L2 model result token " ++ sem.tok2 rb)
              else if r != raS then some ("L2 mutator model = Go representation; model: " ++ r.take 400)
              else none
            else none
          some (st', firstFail [
            failIf (rb.toBSetFast != sx) ("abs(repr64 " ++ x ++ ")=" ++ digest sx),
            failIf (ra.toBSetFast != expSet) ("abs(repr64 after)=" ++ digest expSet ++ " = " ++ (dump expSet).take 300),
            failIf (sem.tok1 sx != tok) ("returned " ++ sem.tok1 sx),
            exact])
        | _, _ => some (st', some "two parsable representations")
      | _ => some (st', some "<repr64 x before> <bool|-> <repr64 x after>")
    | _, _ => some (skipV st got)
  | "l2mut64" :: _ => some (skipV st got)
  | "l2q64" :: q :: x :: args =>
    match l2q64Sem2 q, args with
    | some (f1, f2), [y] =>
      match st.bm64[x]?, st.bm64[y]? with
      | some sx, some sy =>
        match got.splitOn " " with
        | [rxS, ryS, ans] =>
          match parseRep64 rxS, parseRep64 ryS with
          | some rx, some ry =>
            let exact : Verdict :=
              if rx.wf && ry.wf then
                let m := f2 rx ry
                if m != ans then some ("L2 driver model = Go answer; model: " ++ m) else none
              else none
            some (st, firstFail [
              failIf (rx.toBSetFast != sx) ("abs(repr64 " ++ x ++ ")=" ++ digest sx),
              failIf (ry.toBSetFast != sy) ("abs(repr64 " ++ y ++ ")=" ++ digest sy),
              failIf (f1 sx sy != ans) ("set-level answer " ++ f1 sx sy),
              exact])
          | _, _ => some (st, some "two parsable representations")
        | _ => some (st, some "<repr64 x> <repr64 y> <answer>")
      | _, _ => some (skipV st got)
    | some _, _ => some (skipV st got)
    | none, _ =>
      match l2q64Sem q args, st.bm64[x]? with
      | some (f1, f2), some sx =>
        match got.splitOn " " with
        | [rxS, ans] =>
          match parseRep64 rxS with
          | some rx =>
            let exact : Verdict :=
              if rx.wf then
                let m := f2 rx
                if m != ans then some ("L2 driver model = Go answer; model: " ++ m) else none
              else none
            some (st, firstFail [
              failIf (rx.toBSetFast != sx) ("abs(repr64 " ++ x ++ ")=" ++ digest sx),
              failIf (f1 sx != ans) ("set-level answer " ++ f1 sx),
              exact])
          | none => some (st, some "a parsable representation")
        | _ => some (st, some "<repr64 x> <answer>")
      | _, _ => some (skipV st got)
  | "l2q64" :: _ => some (skipV st got)
  | _ => none

end RModel.Driver
