import RModel.Driver.State
import RModel.Impl.Serial
import RModel.Spec.FormatSpec
import RModel.Gen.Facts
/-! serialization / well-formedness / size-bound command family (C05, C06, C09, C10, C14). -/
namespace RModel.Driver
open RModel RModel.Impl

/-- serializer parameters instantiated from the regenerated facts -/
def serParams : SerParams :=
  { serialCookie := Facts.serialCookie.toNat
    serialCookieNoRun := Facts.serialCookieNoRunContainer.toNat
    noOffsetThreshold := Facts.noOffsetThreshold.toNat
    arrayMax := Facts.arrayDefaultMaxSize.toNat }

def hexOfBytes (bs : List UInt8) : String :=
  String.ofList (bs.flatMap fun b => [hexDigit (b.toNat / 16), hexDigit (b.toNat % 16)])

def bytesOfHex (s : String) : Option (List UInt8) :=
  let rec go : List Char → List UInt8 → Option (List UInt8)
    | [], acc => some acc.reverse
    | a :: b :: t, acc => match hexVal a, hexVal b with
        | some x, some y => go t (UInt8.ofNat (x * 16 + y) :: acc)
        | _, _ => none
    | _, _ => none
  go s.toList []

/-- render a representation the way the harness does (only used to compare decoded representations) -/
def renderWords (ws : List (BitVec 64)) : String :=
  let rec go : List (BitVec 64) → List String → List String
    | [], acc => acc.reverse
    | w :: t, acc =>
      let k := (t.takeWhile (· == w)).length
      let h := String.ofList (Nat.toDigits 16 w.toNat)
      go (t.drop k) ((if k == 0 then h else h ++ "*" ++ toString (k + 1)) :: acc)
  termination_by l => l.length
  decreasing_by simp; omega
  ".".intercalate (go ws [])

def renderCont : Cont → String
  | .arr vals => "A:" ++ ",".intercalate (vals.map toString)
  | .bmp card ws => "B:" ++ toString card ++ ":" ++ renderWords ws
  | .run runs => "R:" ++ ",".intercalate (runs.map fun (s, l) => toString s ++ "+" ++ toString l)

def renderRep (r : Rep) : String :=
  ";".intercalate ((if r.cow then "cow=1" else "cow=0") ::
    r.slots.map fun s => toString s.key ++ ":" ++ renderCont s.c ++ (if s.flag then "/f" else ""))

def readmeBound (n u : Nat) : Nat := 8 + 9 * ((u + 65535) / 65536) + 2 * n

def failIf (c : Bool) (msg : String) : Verdict := if c then some msg else none

def firstFail : List Verdict → Verdict
  | [] => none
  | some m :: _ => some m
  | none :: t => firstFail t

def stepSer (st : St) (cmd : List String) (got : String) : Option (St × Verdict) :=
  match cmd with
  | ["wf", x] =>
    match st.bm[x]? with
    | none => some (skipV st got)
    | some s =>
      match got.splitOn " " with
      | [status, reprS] =>
        match parseRep reprS with
        | none => some (st, some "unparsable-repr")
        | some r => some (st, firstFail [
            failIf (status != "ok") "ok (Validate()==nil on a library-made bitmap)",
            failIf (!r.wf) "WF(repr)",
            failIf (!r.validate) "model-validate(repr)",
            failIf (r.toBSetFast != s) ("abs(repr)=" ++ digest s)])
      | _ => some (st, some "ok <repr>")
  | ["size", x] =>
    match st.bm[x]? with
    | none => some (skipV st got)
    | some s =>
      match (got.splitOn " ").map String.toNat? with
      | [some sz, some len, some bound] =>
        let n := BSet.card s
        let u := match BSet.maximum s with | some m => m + 1 | none => 0
        some (st, firstFail [
          failIf (sz != len) "size==len(ToBytes)",
          failIf (sz > readmeBound n u) ("size<=README bound " ++ toString (readmeBound n u)),
          failIf ((bound : Int) != Facts.boundSerializedSizeInBytes n u) ("BoundSerializedSizeInBytes model=" ++ toString (Facts.boundSerializedSizeInBytes n u)),
          failIf (sz > bound) "size<=BoundSerializedSizeInBytes"])
      | _ => some (st, some "<size> <len> <bound>")
  | ["ser", x] =>
    match st.bm[x]? with
    | none => some (skipV st got)
    | some s =>
      match got.splitOn " " with
      | [reprS, hexS, szS, nS, agree] =>
        match parseRep reprS, bytesOfHex hexS, szS.toNat?, nS.toNat? with
        | some r, some bytes, some sz, some n =>
          let enc := r.encode serParams
          let spec := FormatSpec.specDecode bytes.toArray
          let dec := decode serParams false bytes
          some (st, firstFail [
            failIf (agree != "true") "ToBytes/WriteTo/MarshalBinary/ToBase64 agree",
            failIf (r.toBSetFast != s) "abs(repr)=state",
            failIf (enc != bytes) ("model-encode(repr)=bytes; model=" ++ hexOfBytes (enc.take 64)),
            failIf (r.serializedSize serParams != sz) "model-serializedSize=GetSerializedSizeInBytes",
            failIf (sz != bytes.length || n != bytes.length) "size==n==len",
            (match spec with
             | none => some "spec-decode accepts the written stream"
             | some d => firstFail [failIf (d.set != s) "spec-decode(bytes)=set", failIf (d.consumed != bytes.length) "spec consumed all"]),
            (match dec with
             | .ok (r', m) => firstFail [failIf (m != bytes.length) "model-decode consumed all",
                                        failIf (r'.toBSetFast != s) "model-decode(bytes)=set",
                                        failIf (!r'.wf) "WF(decode(encode r))"]
             | _ => some "model-decode accepts the written stream")])
        | _, _, _, _ => some (st, some "unparsable ser output")
      | _ => some (st, some "<repr> <hex> <size> <n> <agree>")
  | "rd" :: y :: entry :: x :: opts =>
    match st.bm[x]? with
    | none => some (skipV st got)
    | some s =>
      match got.splitOn " " with
      | [dg, nS, pulledS, lenS, valid, eqS] =>
        let len := lenS.toNat?.getD 0
        let nOk := if entry == "unmarshal" || entry == "base64" || entry == "frozen" then true
                   else nS.toInt? == some (len : Int)
        -- a stream reader may not pull more than the encoding from the source
        let pulledOk := match pulledS.toInt? with
          | some p => p == -1 || p == (len : Int)
          | none => false
        let _ := opts
        let v := firstFail [
          failIf (dg != digest s) ("digest " ++ digest s),
          failIf (!nOk) "returned n == stream length",
          failIf (!pulledOk) "reader consumed exactly the stream",
          failIf (valid != "ok") "round trip validates",
          failIf (eqS != "true") "Equals(original)"]
        -- a failed round trip leaves no object behind on either side (the executor drops it under the same conditions),
        -- so the two states stay in step and the script can go on
        some ((match v with
               | none => { st with bm := st.bm.insert y s }
               | some _ => { st with bm := st.bm.erase y }), v)
      | _ => some ({ st with bm := st.bm.erase y }, some ("<digest> n pulled len ok true, digest=" ++ digest s))
  | ["wrfail", x, off] =>
    match st.bm[x]?, off.toNat? with
    | some _, some o =>
      match got.splitOn " " with
      | [status, _, szS] =>
        let sz := szS.toNat?.getD 0
        some (st, failIf (status != (if o < sz then "err" else "ok")) (if o < sz then "err" else "ok"))
      | _ => some (st, some "<status> n size")
    | _, _ => some (skipV st got)
  | ["trunc", x, _] =>
    match st.bm[x]? with
    | none => some (skipV st got)
    | some _ => some (st, expect "allerr" got)
  | "rdfail" :: y :: _entry :: x :: cut :: _ =>
    match st.bm[y]?, st.bm[x]?, cut.toNat? with
    | some _, some _, some _ =>
      -- the receiver is consumed; whether the cut lies inside the stream is decided by the executor ("skip" otherwise)
      if got.startsWith "skip" then some (st, none)
      else some ({ st with bm := st.bm.erase y }, expect "err ok" got)
    | _, _, _ => some (skipV st got)
  | ["wrfailall", x] =>
    match st.bm[x]? with
    | none => some (skipV st got)
    | some _ => some (st, expect "allerr" got)
  | ["rdsplit", x] =>
    match st.bm[x]? with
    | none => some (skipV st got)
    | some _ => some (st, expect "allok" got)
  | "spec" :: y :: entry :: hexS :: claimed :: _ =>
    match bytesOfHex hexS with
    | none => some (skipV st got)
    | some bytes =>
      match FormatSpec.specDecode bytes.toArray with
      | none => some (st, some "MACHINERY: independent spec reading rejects the generator's stream")
      | some d =>
        if digest d.set != claimed then some (st, some ("MACHINERY: spec reading gives " ++ digest d.set))
        else
          let n := if entry == "unmarshal" then "-1" else toString bytes.length
          some ({ st with bm := st.bm.insert y d.set }, expect ("ok " ++ claimed ++ " " ++ n) got)
  | "dec" :: y :: entry :: hexS :: _ =>
    match bytesOfHex hexS with
    | none => some (skipV st got)
    | some bytes =>
      let st0 := { st with bm := st.bm.erase y }
      let zeroCopy := entry == "frombuffer" || entry == "fromunsafe"
      match decode serParams zeroCopy bytes with
      | .panic => some (st0, some "model: decoder would panic")
      | .err => some (st0, expect "err" got)
      | .ok (r, m) =>
        -- accepted: the Go side must accept too, with the same representation and validity verdict
        let v := r.validate
        let exp := "ok " ++ (if entry == "unmarshal" then "-1" else toString m) ++ " " ++
          (if v then "valid" else "invalid") ++ " " ++ renderRep r
        if (entry == "must" || entry == "mustck") && !v then some (st0, expect "panic" got)   -- MustReadFrom panics to report a validation failure
        else if got != exp then some (st0, some exp)
        else if v && !r.wf then
          some (st0, some "Validate()==nil implies well-formed (model WF fails on this accepted input)")
        else if v then some ({ st0 with bm := st0.bm.insert y r.toBSetFast }, none)
        else some (st0, none)
  | _ => none

end RModel.Driver
