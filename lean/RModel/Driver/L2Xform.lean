import RModel.Driver.State
import RModel.Driver.Ser
import RModel.Impl.RepXform
/-!
Exact-representation tie of the whole-bitmap transforms (`Impl/RepXform.lean`).

`l2off z x d` / `l2sflip z x lo hi`: Go prints `<repr(x) before> <repr(z)> <ok|xchg>`.  Checked, in this order:
1. both representations parse; the abstraction of `repr(x)` is the model state of `x`;
2. SET semantics: the abstraction of `repr(z)` is the L1 operation on the model state of `x`
   (`BSet.shift U32 · d`, `BSet.flipRange · lo hi`; `lo < hi` with `hi > 2^32` must panic);
3. the operand's representation afterwards: unchanged (`ok`) — except `Flip` with an empty range on a copy-on-write
   bitmap, whose `Clone()` flags every container of the operand (`Rep.flipStaticSrc`);
4. for a well-formed operand (`Rep.wf`): `renderRep (Rep.addOffset64 rx d)` / `renderRep (Rep.flipStatic rx lo hi)` is
   literally the second token, and the result is well-formed.
The model state of `z` becomes the L1 result.

`l2dense x`: Go prints `<repr(x)> <words> <DenseSize> <agree>`: abstraction of `repr(x)` = model state; the set of the dense
words (`boundsOfBits`, computed word-wise) = model state; number of words = `DenseSize` = `⌈(max+1)/64⌉`; `WriteDenseTo`
agrees; for a well-formed `x`: `Rep.toDense rx` is literally the word list.

`l2fromdense y copy words`: Go prints `<repr(y)>`: its abstraction = the set of the words; `renderRep (Rep.fromDense words copy)`
is literally the output; the result is well-formed.  The model state of `y` becomes the set of the words.
-/
namespace RModel.Driver
open RModel RModel.Impl

def l2Words? (s : String) : Option (List (BitVec 64)) := if s == "-" then some [] else parseWords s

def l2WordsSet (ws : List (BitVec 64)) : BSet := (wordsBoundsFast 0 false ws []).flatten

/-- shared tail of `l2off` / `l2sflip` -/
def l2Unary (st : St) (z x : String) (sx expSet : BSet) (got : String) (what : String)
    (model : Rep → Rep) (src : Rep → Rep) : St × Verdict :=
  let st' := { st with bm := st.bm.insert z expSet }
  match got.splitOn " " with
  | [rxS, rzS, unch] =>
    match parseRep rxS, parseRep rzS with
    | some rx, some rz =>
      let exact : Verdict :=
        if rx.wf then
          let r := renderRep (model rx)
          if !rz.wf then some ("well-formed result of " ++ what ++ " on a well-formed operand")
          else if r != rzS then some ("L2 " ++ what ++ " model = Go representation; model: " ++ (r.take 400).toString)
          else none
        else none
      let expUnch := if renderRep (src rx) == rxS then "ok" else "xchg"
      (st', firstFail [
        failIf (rx.toBSetFast != sx) ("abs(repr " ++ x ++ ")=" ++ digest sx),
        failIf (rz.toBSetFast != expSet) ("abs(repr result)=" ++ digest expSet ++ " = " ++ ((dump expSet).take 300).toString),
        failIf (unch != expUnch) (expUnch ++ " (operand representation after the call)"),
        exact])
    | _, _ => (st', some "two parsable representations")
  | _ => (st', some "<repr x> <repr z> <ok|xchg>")

def stepL2Xform (st : St) (cmd : List String) (got : String) : Option (St × Verdict) :=
  match cmd with
  | ["l2off", z, x, d] =>
    match d.toInt?, st.bm[x]? with
    | some dd, some sx =>
      some (l2Unary st z x sx (BSet.shift U32 sx dd) got "AddOffset64" (fun r => r.addOffset64 dd) id)
    | _, _ => some (skipV st got)
  | ["l2sflip", z, x, a, b] =>
    match nat? a, nat? b, st.bm[x]? with
    | some lo, some hi, some sx =>
      if lo < hi && hi > U32 then some (st, expect "panic" got)
      else
        some (l2Unary st z x sx (BSet.flipRange sx lo hi) got "static Flip"
          (fun r => r.flipStatic lo hi) (fun r => r.flipStaticSrc lo hi))
    | _, _, _ => some (skipV st got)
  | ["l2dense", x] =>
    match st.bm[x]? with
    | none => some (skipV st got)
    | some sx =>
      match got.splitOn " " with
      | [rxS, wsS, szS, agree] =>
        match parseRep rxS, l2Words? wsS, szS.toNat? with
        | some rx, some ws, some sz =>
          let n := match BSet.maximum sx with | some m => (m + 1 + 63) / 64 | none => 0
          some (st, firstFail [
            failIf (rx.toBSetFast != sx) ("abs(repr " ++ x ++ ")=" ++ digest sx),
            failIf (l2WordsSet ws != sx) ("set of the dense words = " ++ digest sx),
            failIf (ws.length != n) ("number of words = " ++ toString n),
            failIf (sz != n) ("DenseSize = " ++ toString n),
            failIf (agree != "true") "true (WriteDenseTo = ToDense, operand unchanged)",
            failIf (rx.wf && rx.denseSize != sz) "L2 denseSize model = DenseSize()",
            failIf (rx.wf && rx.toDense != ws) "L2 toDense model = ToDense() word for word"])
        | _, _, _ => some (st, some "<repr> <words> <size> <agree>")
      | _ => some (st, some "<repr> <words> <size> <agree>")
  | ["l2fromdense", y, cp, wsS] =>
    match l2Words? wsS with
    | some ws =>
      if ws.length > 65536 * 1024 then some (skipV st got) else
      let s := l2WordsSet ws
      let st' := { st with bm := st.bm.insert y s }
      match parseRep got with
      | some ry =>
        let r := renderRep (Rep.fromDense ws (cp == "1"))
        some (st', firstFail [
          failIf (ry.toBSetFast != s) ("abs(repr " ++ y ++ ")=" ++ digest s),
          failIf (!ry.wf) "well-formed result of FromDense",
          failIf (r != got) ("L2 FromDense model = Go representation; model: " ++ (r.take 400).toString)])
      | none => some (st', some "a parsable representation")
    | none => some (skipV st got)
  | _ => none

end RModel.Driver
