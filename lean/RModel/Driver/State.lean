import RModel.Driver.Util
import RModel.Impl.Repr
import RModel.Impl.BSI
import RModel.Impl.Iter
import RModel.Impl.Iter2
/-! Checker state and verdict helpers shared by all command families. -/
namespace RModel.Driver
open RModel

structure IterSt where
  kind : String        -- "fwd" | "rev" | "many" | "unset"
  snap : BSet          -- the set being enumerated (for unset: complement restricted to the window)
  cur : Nat            -- fwd: next candidate (values ≥ cur remain); rev: values < cur remain
  deriving Inhabited

/-- model of a bit-sliced index: the column → value map (sorted by column) plus its declared width -/
structure BsiSt where
  vals : List (Nat × Int) := []
  is64 : Bool := true          -- roaring64.BSI (sign plane) vs BitSliceIndexing.BSI
  deriving Inhabited

/-- L2 shadow of an iterator created by `l2it`: the modelled Go state machine (Impl/Iter.lean) -/
inductive L2It where
  | fwd (it : RModel.Impl.It.IntIt)
  | rev (it : RModel.Impl.It.IntRevIt)
  | many (it : RModel.Impl.It.ManyIt)
  deriving Inhabited

/-- L2 shadow of a roaring64 iterator created by `l2it64`: the modelled Go state machine (Impl/Iter2.lean) -/
inductive L2It64 where
  | fwd (it : RModel.Impl.It.IntIt64)
  | rev (it : RModel.Impl.It.IntRevIt64)
  | many (it : RModel.Impl.It.ManyIt64)
  deriving Inhabited

structure St where
  bm : Std.HashMap String BSet := {}          -- 32-bit bitmaps
  bm64 : Std.HashMap String BSet := {}        -- 64-bit bitmaps
  it : Std.HashMap String IterSt := {}
  it64 : Std.HashMap String IterSt := {}      -- roaring64 iterators (own namespace on the Go side too)
  bsi : Std.HashMap String BsiSt := {}
  bufLen : Std.HashMap String Nat := {}       -- byte buffers known only by length
  bsiL2 : Std.HashMap String (RModel.BSI × Bool) := {}    -- plane-level model of roaring64 BSIs (index, fixed-width?)
  zb : Std.HashMap String (String × BSet × Bool) := {}  -- protected caller-owned buffers: (kind, encoded set, alive)
  l2it : Std.HashMap String L2It := {}        -- L2 iterator state machines running next to `it` (names created by `l2it`)
  l2uit : Std.HashMap String RModel.Impl.It.UnsetIt := {}   -- L2 unset iterators (names created by `l2it unset`)
  l2it64 : Std.HashMap String L2It64 := {}    -- L2 roaring64 iterators running next to `it64` (names created by `l2it64`)
  byteIn : Option (String × List String) := none   -- last `bytein buf` line: (digest of data + ops, Go's tokens), see Driver/ByteIn.lean
  deriving Inhabited

/-- result of checking a line: `none` = agrees -/
abbrev Verdict := Option String

def expect (exp got : String) : Verdict :=
  if exp == got then none
  else if exp == "panic" && got.startsWith "panic" then none
  else if exp == "skip" && got.startsWith "skip" then none
  else some exp

def nat? (s : String) : Option Nat := s.toNat?

def nats? (l : List String) : Option (List Nat) := l.mapM nat?

def optNat (o : Option Nat) : String := match o with | some v => toString v | none => "-1"


def skipV (st : St) (got : String) : St × Verdict := (st, expect "skip" got)

end RModel.Driver
