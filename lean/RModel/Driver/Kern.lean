import RModel.Driver.State
import RModel.Impl.Repr
import RModel.Impl.ArrayC
import RModel.Impl.ContOps
import RModel.Impl.ContQuery
import RModel.Impl.ContMut
import RModel.Driver.Ser
/-! container-kernel command family: direct calls of the unexported 16-bit kernels (C01, C03, C15, C16 amplifier). -/
namespace RModel.Driver
open RModel RModel.Impl

def parseContTok (s : String) : Option Cont :=
  match s.splitOn ":" with
  | kind :: fields => parseCont kind fields
  | _ => none

def C16 : Nat := 65536

/-- expected (result set, scalar) of a kernel; `none` component = not produced -/
def kernSem (op : String) (a b : BSet) (args : List Int) : Option (Option BSet × Option Int) :=
  let arg (i : Nat) : Nat := (args.getD i 0).toNat
  let b2i (x : Bool) : Int := if x then 1 else 0
  match op with
  | "and" | "iand" => some (some (BSet.inter a b), none)
  | "or" | "ior" | "lazyOR" | "lazyIOR" => some (some (BSet.union a b), none)
  | "xor" | "ixor" => some (some (BSet.xor a b), none)
  | "andNot" | "iandNot" => some (some (BSet.diff a b), none)
  | "andCardinality" => some (none, some (BSet.card (BSet.inter a b)))
  | "orCardinality" => some (none, some (BSet.card (BSet.union a b)))
  | "intersects" => some (none, some (b2i (!BSet.isEmpty (BSet.inter a b))))
  | "equals" => some (none, some (b2i (a == b)))
  | "iaddRange" => some (some (BSet.addRange a (arg 0) (arg 1)), none)
  | "iremoveRange" => some (some (BSet.removeRange a (arg 0) (arg 1)), none)
  | "not" | "inot" => some (some (BSet.flipRange a (arg 0) (arg 1)), none)
  | "iaddReturnMinimized" => some (some (BSet.add a (arg 0)), none)
  | "iremoveReturnMinimized" => some (some (BSet.remove a (arg 0)), none)
  | "iadd" => some (some (BSet.add a (arg 0)), some (b2i (!BSet.mem a (arg 0))))
  | "iremove" => some (some (BSet.remove a (arg 0)), some (b2i (BSet.mem a (arg 0))))
  | "toEfficientContainer" | "clone" => some (some a, none)
  | "resetTo" => some (some b, none)       -- the receiver (a dirty scratch bitmap container) becomes a copy of the argument
  | "rank" => some (none, some (BSet.rankLt a (arg 0 + 1)))
  | "selectInt" => (BSet.select a (arg 0)).map fun v => (none, some (v : Int))
  | "contains" => some (none, some (b2i (BSet.mem a (arg 0))))
  | "getCardinality" => some (none, some (BSet.card a))
  | "getCardinalityInRange" => some (none, some (BSet.cardInRange a (arg 0) (arg 1)))
  | "minimum" => (BSet.minimum a).map fun v => (none, some (v : Int))
  | "maximum" => (BSet.maximum a).map fun v => (none, some (v : Int))
  | "nextValue" => some (none, some (match BSet.nextValue a (arg 0) with | some v => v | none => -1))
  | "previousValue" => some (none, some (match BSet.prevValue a (arg 0) with | some v => v | none => -1))
  | "nextAbsentValue" => some (none, some (min (BSet.nextAbsent a (arg 0)) C16))
  | "previousAbsentValue" => some (none, some (match BSet.prevAbsent a (arg 0) with | some v => v | none => -1))
  | "numberOfRuns" => some (none, some (a.length / 2))
  | "isFull" => some (none, some (b2i (a == [0, C16])))
  | "isEmpty" => some (none, some (b2i (BSet.isEmpty a)))
  | "addOffsetLo" =>
      let r := BSet.restrict (BSet.shiftUp a (arg 0)) 0 C16
      some (if r.isEmpty then (none, some (-1)) else (some r, none))
  | "addOffsetHi" =>
      let r := BSet.shiftDown (BSet.restrict (BSet.shiftUp a (arg 0)) C16 (2 * C16)) C16
      some (if r.isEmpty then (none, some (-1)) else (some r, none))
  | _ => none

/-- the L2 query model (`Impl/ContQuery.lean`: the Go ALGORITHMS of the query kernels) on a receiver, for in-domain
arguments (`x < 65536`; `getCardinalityInRange`: `start, end ≤ 65536`); `none` = not a query kernel / out of domain -/
def kernQuery (op : String) (c : Cont) (args : List Int) : Option Int :=
  let arg (i : Nat) : Nat := (args.getD i 0).toNat
  let b2i (x : Bool) : Int := if x then 1 else 0
  let dom16 := args.length == 1 && args.all (fun a => 0 ≤ a && a < 65536)
  match op with
  | "rank" => if dom16 then some (c.rankQ (arg 0)) else none
  | "selectInt" => if dom16 then some (c.selectQ (arg 0)) else none
  | "contains" => if dom16 then some (b2i (c.containsQ (arg 0))) else none
  | "getCardinality" => some c.getCardinalityQ
  | "getCardinalityInRange" =>
      if args.length == 2 && args.all (fun a => 0 ≤ a && a ≤ 65536) then some (c.cardInRangeQ (arg 0) (arg 1)) else none
  | "minimum" => some c.minimumQ
  | "maximum" => some c.maximumQ
  | "nextValue" => if dom16 then some (c.nextValueQ (arg 0)) else none
  | "previousValue" => if dom16 then some (c.previousValueQ (arg 0)) else none
  | "nextAbsentValue" => if dom16 then some (c.nextAbsentValueQ (arg 0)) else none
  | "previousAbsentValue" => if dom16 then some (c.previousAbsentValueQ (arg 0)) else none
  | "numberOfRuns" => some c.numberOfRunsQ
  | "isFull" => some (b2i c.isFullQ)
  | "isEmpty" => some (b2i c.isEmptyQ)
  | _ => none

def inPlaceOps : List String :=
  ["resetTo", "iand", "ior", "ixor", "iandNot", "lazyIOR", "iaddRange", "iremoveRange", "inot", "iaddReturnMinimized",
   "iremoveReturnMinimized", "iadd", "iremove"]

def stepKern (st : St) (cmd : List String) (got : String) : Option (St × Verdict) :=
  match cmd with
  | "kern" :: op :: c1 :: c2 :: rest =>
    match parseContTok c1, (if c2 == "-" then some none else (parseContTok c2).map some), rest.mapM String.toInt? with
    | some ca, some cb, some args =>
      let a := ca.toBSetFast 0
      let b := match cb with | some c => c.toBSetFast 0 | none => []
      match kernSem op a b args with
      | none => some (st, if got.startsWith "skip" || got.startsWith "panic" then none else some "skip-or-panic (out of domain)")
      | some (expSet, expScal) =>
        match got.splitOn " " with
        | [resS, scS, alias, aAfterS, bAfterS] =>
          let resOk : Verdict :=
            match expSet, resS with
            | none, "-" => none
            | none, _ => if op == "iadd" || op == "iremove" then none else some "no container result"
            | some s, "-" => if s.isEmpty then none else some ("result " ++ dump s)
            | some s, r => match parseContTok r with
                | none => some "parsable result"
                | some c => if c.toBSetFast 0 == s then none else some ("result set " ++ (dump s).take 300)
          let scOk : Verdict :=
            match expScal with
            | none => none
            | some v => if scS == toString v then none else some ("scalar " ++ toString v)
          -- L2 tie of the query kernels: for a well-formed receiver the Go scalar is the value of the modelled ALGORITHM
          -- (checked after `scOk`: a Go scalar that differs from the set-level answer is reported as such first)
          let scOk : Verdict :=
            match scOk with
            | some m => some m
            | none =>
              if cb.isNone && ca.wfQ then
                match kernQuery op ca args with
                | some v =>
                  if scS == toString v then none else some ("L2 query model = Go scalar; model: " ++ toString v)
                | none => none
              else none
          let aliasOk : Verdict :=
            if alias == "arg" || alias == "arg-backing" then some "result must not alias the argument" else none
          let bOk : Verdict :=
            match cb, parseContTok bAfterS with
            | some _, some c' => if c'.toBSetFast 0 == b then none else some ("argument unchanged: " ++ (dump b).take 200)
            | some _, none => some "parsable argument"
            | none, _ => none
          let aOk : Verdict :=
            if inPlaceOps.contains op then none else
            match parseContTok aAfterS with
            | some c' => if c'.toBSetFast 0 == a then none else some "receiver unchanged by a non-in-place kernel"
            | none => some "parsable receiver"
          -- L2 tie: on two array containers the Go result, when it is an array, is literally the list the
          -- modelled two-pointer kernel produces
          let l2Ok : Verdict :=
            match ca, cb, parseContTok resS with
            | .arr xs, some (.arr ys), some (.arr zs) =>
              let exp : Option (List Nat) := match op with
                | "and" | "iand" => some (ArrayC.intersection2by2 xs ys)
                | "or" | "ior" => some (ArrayC.union2by2 xs ys)
                | "xor" | "ixor" => some (ArrayC.exclusiveUnion2by2 xs ys)
                | "andNot" | "iandNot" => some (ArrayC.difference xs ys)
                | _ => none
              match exp with
              | some e => if e == zs then none else some "array kernel model (L2) = Go array"
              | none => none
            | _, _, _ => none
          let resOk := match resOk with | some m => some m | none => l2Ok
          -- L2 tie for all kind pairings: for well-formed operands the non-in-place kernels return exactly the
          -- representation (kind, payload, cached cardinality) computed by the container model `ContOps`
          let l2Exact : Verdict :=
            match cb with
            | some cb' =>
              if ca.wf && cb'.wf then
                let exp : Option Cont := match op with
                  | "and" => some (ca.and2 cb')
                  | "or" => some (ca.or2 cb')
                  | "xor" => some (ca.xor2 cb')
                  | "andNot" => some (ca.andNot2 cb')
                  | _ => none
                match exp with
                | some e =>
                  let r := renderCont e
                  if r == resS then none
                  else some ("L2 container model = Go representation; model: " ++ r.take 300)
                | none => none
              else none
            | none =>
              if op == "toEfficientContainer" && ca.wf then
                let r := renderCont ca.toEfficient
                if r == resS then none else some ("L2 toEfficient model = Go representation; model: " ++ r.take 300)
              else none
          -- a cached cardinality that is known (not the lazy marker) and is not the number of set bits is a WRONG ANSWER of
          -- getCardinality, not a matter of representation: reported before the literal comparison
          let stale : Verdict :=
            match parseContTok resS with
            | some (.bmp card words) =>
              let n : Nat := (words.map popcount).sum
              if card ≥ 0 && card != (n : Int) then some ("cached cardinality of the result = number of set bits (" ++ toString n ++ ")")
              else none
            | _ => none
          let resOk := match resOk with | some m => some m | none => stale
          let resOk := match resOk with | some m => some m | none => l2Exact
          let l2Mut : Verdict :=
            let x : Nat := (args.getD 0 0).toNat
            let y : Nat := (args.getD 1 0).toNat
            let nonneg := args.all (· ≥ 0)
            let chk (e : Cont) : Verdict :=
              let r := renderCont e
              if r == resS then none else some ("L2 container model = Go representation; model: " ++ r.take 300)
            let chkB (e : Cont × Bool) : Verdict :=
              match chk e.1 with
              | some m => some m
              | none => if scS == (if e.2 then "1" else "0") then none
                        else some ("L2 container model = Go boolean; model: " ++ toString e.2)
            match cb with
            | none =>
              if !ca.wf || !nonneg then none else
              match op, args.length with
              | "iaddReturnMinimized", 1 => if x < C16 then chk (ca.iaddRM x) else none
              | "iremoveReturnMinimized", 1 => if x < C16 then chk (ca.iremoveRM x) else none
              | "iadd", 1 => if x < C16 then chkB (ca.iadd x) else none
              | "iremove", 1 => if x < C16 then chkB (ca.iremove x) else none
              | "iaddRange", 2 => if x ≤ y && y ≤ C16 then chk (ca.iaddRange x y) else none
              | "iremoveRange", 2 => if x ≤ y && y ≤ C16 then chk (ca.iremoveRange x y) else none
              | "not", 2 => if x ≤ y && y ≤ C16 then chk (ca.notRange x y) else none
              | "inot", 2 => if x ≤ y && y ≤ C16 then chk (ca.inotRange x y) else none
              | _, _ => none
            | some cb' =>
              if !ca.wf || !cb'.wf then none else
              match op with
              | "iand" => chk (ca.iand2 cb')
              | "ior" => chk (ca.ior2 cb')
              | "ixor" => chk (ca.ixor2 cb')
              | "iandNot" => chk (ca.iandNot2 cb')
              | _ => none
          let resOk := match resOk with | some m => some m | none => l2Mut
          some (st, match resOk, scOk, aliasOk, bOk, aOk with
            | some m, _, _, _, _ => some m
            | _, some m, _, _, _ => some m
            | _, _, some m, _, _ => some m
            | _, _, _, some m, _ => some m
            | _, _, _, _, some m => some m
            | _, _, _, _, _ => none)
        | _ => some (st, some "<res> <scalar> <alias> <a> <b>")
    | _, _, _ => some (skipV st got)
  | "kernwf" :: op :: c1 :: c2 :: _ =>
    -- well-formed operands must give a well-formed (or empty) result container
    match parseContTok c1, (if c2 == "-" then some none else (parseContTok c2).map some) with
    | some ca, some cb =>
      if !ca.wf || !(match cb with | some c => c.wf | none => true) then some (st, none) else
      match got.splitOn " " with
      | [resS, _, _, _, _] =>
        if resS == "-" then some (st, none) else
        match parseContTok resS with
        | none => some (st, some "parsable result")
        | some c =>
          if c.card == 0 then some (st, none)   -- empty results are dropped by the callers
          else if c.wf then some (st, none)
          else some (st, some ("well-formed result of " ++ op))
      | _ => some (st, if got.startsWith "skip" || got.startsWith "panic" then none else some "<res> ...")
    | _, _ => some (skipV st got)
  | ["popcnt", _, _, _] =>
    match (got.splitOn " ").map String.toNat? with
    | [some f, some p] => some (st, if f == p then none else some "assembly popcount == portable popcount")
    | _ => some (st, if got.startsWith "skip" then none else some "<fast> <portable>")
  | ["dense", x] =>
    match st.bm[x]? with
    | none => some (skipV st got)
    | some s =>
      let n := match BSet.maximum s with | some m => (m + 1 + 63) / 64 | none => 0
      some (st, expect (toString n ++ " " ++ toString n ++ " " ++ digest s ++ " true") got)
  | ["fromdense", y, _, ws] | ["fromdense", y, _, ws, "spare"] | ["frombitset", y, ws] =>
    match parseWords ws with
    | some words =>
      let s := boundsOfBits 0 false (words.flatMap wordBits)
      some ({ st with bm := st.bm.insert y s }, expect (digest s ++ " true") got)
    | none => some (skipV st got)
  | ["densechk"] => some (st, expect "ok" got)
  | ["mkrepr", x, reprS] =>
    match parseRep reprS with
    | some r => let s := r.toBSetFast
                some ({ st with bm := st.bm.insert x s }, expect (digest s) got)
    | none => some (skipV st got)
  | _ => none

end RModel.Driver
