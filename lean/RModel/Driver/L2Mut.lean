import RModel.Driver.State
import RModel.Driver.Ser
import RModel.Impl.RepMut
/-!
Bitmap-level exact-representation tie of the MUTATORS and the in-place binary operations:

`l2mut <add|cadd|rem|crem> x v`, `l2mut <addr|remr|flip> x lo hi`, `l2mut <opt|detach> x`, `l2mut setcow x <0|1>`:
Go prints `<repr(x) before> <repr(x) after> <true|false|->`.  `l2mut clone x y`: `<repr(x) before> <repr(x) after> <repr(y)>`.
`l2iop <iand|ior|ixor|iandnot> x y`: Go prints `<repr(x) before> <repr(y) before> <repr(x) after> <repr(y) after>`.

Checked, in this order:
1. the representations parse; the abstraction of every "before" representation is the model state of that name;
2. SET semantics: the abstraction of `repr(x) after` is the L1 operation (verified `BSet`) applied to the model state(s); the
   boolean of the Checked* forms is `!mem` / `mem`; the abstraction of the argument `y` (of the source of `clone`) is unchanged;
3. for a well-formed receiver (and argument) (`Rep.wf`; any copy-on-write switch / flag pattern):
   `renderRep (Rep.<op> …)` is literally the "after" token — same keys, kinds, payloads, cached cardinalities, flags, switch —
   for the receiver AND for the argument (`Rep.shareTail`: only flags may change, and only as modelled; `clone`: `Rep.cloneSrc`),
   and the result is well-formed (`Rep.wf`, property C09 at bitmap level).
   `x op x` (the same object on both sides): `ixor` / `iandnot` are `Clear()` (`Rep.cleared`); `iand` / `ior` run the walk with the
   receiver's own containers as arguments.
The model state of `x` (and of `y` for `clone`) is updated as the corresponding L1 command does.
Out-of-domain ranges (`AddRange` / `Flip` beyond 2^32) must panic, as in the L1 commands.
-/
namespace RModel.Driver
open RModel RModel.Impl

/-- what a unary mutator does: L1 set function, L2 representation function, expected third token (from the set before) -/
structure L2MutSem where
  f1 : BSet → BSet
  f2 : Rep → Rep
  third : BSet → Rep → String := fun _ _ => "-"
  /-- the L2 boolean (compared with the Go token for a well-formed receiver) -/
  third2 : Rep → String := fun _ => "-"

inductive L2MutParse where
  | ok (s : L2MutSem)
  | panics
  | bad

def l2MutSem (op : String) (args : List String) : L2MutParse :=
  match op, args.mapM nat? with
  | "add", some [v] => if v < U32 then .ok { f1 := (BSet.add · v), f2 := (Rep.add · v) } else .bad
  | "rem", some [v] => if v < U32 then .ok { f1 := (BSet.remove · v), f2 := (Rep.remove · v) } else .bad
  | "cadd", some [v] =>
      if v < U32 then .ok { f1 := (BSet.add · v), f2 := (Rep.add · v),
                            third := fun s _ => bstr (!BSet.mem s v), third2 := fun r => bstr (r.checkedAdd v).2 } else .bad
  | "crem", some [v] =>
      if v < U32 then .ok { f1 := (BSet.remove · v), f2 := (Rep.remove · v),
                            third := fun s _ => bstr (BSet.mem s v), third2 := fun r => bstr (r.checkedRemove v).2 } else .bad
  | "addr", some [lo, hi] =>
      if lo < hi && hi > U32 then .panics else .ok { f1 := (BSet.addRange · lo hi), f2 := (Rep.addRange · lo hi) }
  | "remr", some [lo, hi] => .ok { f1 := (BSet.removeRange · lo (min hi U32)), f2 := (Rep.removeRange · lo hi) }
  | "flip", some [lo, hi] =>
      if hi > U32 || lo > U32 then .panics else .ok { f1 := (BSet.flipRange · lo hi), f2 := (Rep.flip · lo hi) }
  | "opt", some [] => .ok { f1 := id, f2 := Rep.runOptimize }
  | "detach", some [] => .ok { f1 := id, f2 := Rep.detach }
  | "setcow", some [v] => .ok { f1 := id, f2 := (Rep.setCow · (v == 1)) }
  | _, _ => .bad

def l2IopSem (op : String) : Option ((BSet → BSet → BSet) × (Rep → Rep → Rep) × (Rep → Rep → Rep) × Bool) :=
  match op with
  | "iand" => some (BSet.inter, Rep.iand, fun _ b => b, false)
  | "ior" => some (BSet.union, Rep.ior, Rep.shareTail, false)
  | "ixor" => some (BSet.xor, Rep.ixor, Rep.shareTail, true)
  | "iandnot" => some (BSet.diff, Rep.iandNot, fun _ b => b, true)
  | _ => none

def stepL2Mut (st : St) (cmd : List String) (got : String) : Option (St × Verdict) :=
  match cmd with
  | ["l2mut", "clone", x, y] =>
    match st.bm[x]? with
    | none => some (skipV st got)
    | some sx =>
      let st' := { st with bm := st.bm.insert y sx }
      match got.splitOn " " with
      | [rbS, raS, ryS] =>
        match parseRep rbS, parseRep raS, parseRep ryS with
        | some rb, some ra, some ry =>
          let exact : Verdict :=
            if rb.wf then
              let r1 := renderRep rb.cloneSrc
              let r2 := renderRep rb.clone
              if !ry.wf || !ra.wf then some "well-formed clone and source"
              else if r1 != raS then some ("L2 model of the clone SOURCE = Go representation; model: " ++ r1.take 400)
              else if r2 != ryS then some ("L2 model of the clone = Go representation; model: " ++ r2.take 400)
              else none
            else none
          some (st', firstFail [
            failIf (rb.toBSetFast != sx) ("abs(repr " ++ x ++ ")=" ++ digest sx),
            failIf (ra.toBSetFast != sx) ("abs(repr source after)=" ++ digest sx),
            failIf (ry.toBSetFast != sx) ("abs(repr clone)=" ++ digest sx),
            exact])
        | _, _, _ => some (st', some "three parsable representations")
      | _ => some (st', some "<repr x before> <repr x after> <repr y>")
  | "l2mut" :: op :: x :: args =>
    match l2MutSem op args, st.bm[x]? with
    | .bad, _ => some (skipV st got)
    | _, none => some (skipV st got)
    | .panics, some _ => some (st, expect "panic" got)
    | .ok sem, some sx =>
      let expSet := sem.f1 sx
      let st' := { st with bm := st.bm.insert x expSet }
      match got.splitOn " " with
      | [rbS, raS, third] =>
        match parseRep rbS, parseRep raS with
        | some rb, some ra =>
          let exact : Verdict :=
            if rb.wf then
              let r := renderRep (sem.f2 rb)
              if !ra.wf then some ("well-formed result of " ++ op ++ " on a well-formed receiver")
              else if sem.third2 rb != third then some ("L2 model boolean " ++ sem.third2 rb)
              else if r != raS then some ("L2 mutator model = Go representation; model: " ++ r.take 400)
              else none
            else none
          some (st', firstFail [
            failIf (rb.toBSetFast != sx) ("abs(repr " ++ x ++ ")=" ++ digest sx),
            failIf (ra.toBSetFast != expSet) ("abs(repr after)=" ++ digest expSet ++ " = " ++ (dump expSet).take 300),
            failIf (sem.third sx rb != third) ("returned " ++ sem.third sx rb),
            exact])
        | _, _ => some (st', some "two parsable representations")
      | _ => some (st', some "<repr x before> <repr x after> <bool|->")
  | ["l2iop", op, x, y] =>
    match l2IopSem op, st.bm[x]?, st.bm[y]? with
    | some (f1, f2, fArg, selfClears), some sx, some sy =>
      let expSet := f1 sx sy
      let st' := { st with bm := st.bm.insert x expSet }
      let self := x == y
      let expY := if self then expSet else sy
      match got.splitOn " " with
      | [rxS, ryS, rxaS, ryaS] =>
        match parseRep rxS, parseRep ryS, parseRep rxaS, parseRep ryaS with
        | some rx, some ry, some rxa, some rya =>
          let exact : Verdict :=
            if rx.wf && ry.wf then
              let mx := if self && selfClears then Rep.cleared else f2 rx ry
              let my := if self then mx else fArg rx ry
              let r1 := renderRep mx
              let r2 := renderRep my
              if !rxa.wf then some ("well-formed result of " ++ op ++ " on well-formed operands")
              else if !rya.wf then some ("well-formed argument after " ++ op)
              else if r1 != rxaS then some ("L2 in-place model = Go representation; model: " ++ r1.take 400)
              else if r2 != ryaS then some ("L2 model of the ARGUMENT afterwards = Go representation; model: " ++ r2.take 400)
              else none
            else none
          some (st', firstFail [
            failIf (rx.toBSetFast != sx) ("abs(repr " ++ x ++ ")=" ++ digest sx),
            failIf (ry.toBSetFast != sy) ("abs(repr " ++ y ++ ")=" ++ digest sy),
            failIf (rxa.toBSetFast != expSet) ("abs(repr result)=" ++ digest expSet ++ " = " ++ (dump expSet).take 300),
            failIf (rya.toBSetFast != expY) ("abs(repr argument after)=" ++ digest expY ++ " (argument content unchanged)"),
            exact])
        | _, _, _, _ => some (st', some "four parsable representations")
      | _ => some (st', some "<repr x> <repr y> <repr x after> <repr y after>")
    | _, _, _ => some (skipV st got)
  | _ => none

end RModel.Driver
