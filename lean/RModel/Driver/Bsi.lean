import RModel.Driver.State
/-! bit-sliced index command family. -/
namespace RModel.Driver
open RModel

def stepBsi (_st : St) (_cmd : List String) (_got : String) : Option (St × Verdict) := none

end RModel.Driver
