import RModel.Driver.State
/-! Bit-sliced index command family (properties C19 / C20).

The model of an index is the finite map `column → Int` (association list sorted by column).  Every expected
output is computed from the map semantics (lookup / filter / min / max / sum / histogram); bit planes, sign
planes, widths and worker counts are deliberately NOT modelled here. -/
namespace RModel.Driver
open RModel

abbrev BMap := List (Nat × Int)


def mget : BMap → Nat → Option Int
  | [], _ => none
  | (c, v) :: t, k => if c == k then some v else if k < c then none else mget t k

def mset : BMap → Nat → Int → BMap
  | [], k, v => [(k, v)]
  | (c, x) :: t, k, v =>
    if k < c then (k, v) :: (c, x) :: t
    else if k == c then (k, v) :: t
    else (c, x) :: mset t k v

def mcols (m : BMap) : List Nat := m.map (·.1)

def mrender (m : BMap) : String :=
  if m.isEmpty then "-" else ",".intercalate (m.map fun (c, v) => toString c ++ ":" ++ toString v)

/-- pointwise update with a default for absent columns -/
def mupd (m : BMap) (c : Nat) (f : Int → Int) : BMap := mset m c (f ((mget m c).getD 0))


def fnvStr (s : String) : UInt64 :=
  s.toUTF8.foldl (fun h b => (h ^^^ b.toUInt64) * P64) 14695981039346656037

/-- digest of a map: number of columns and a hash of the canonical dump -/
def mdig (m : BMap) : String := toString m.length ++ ":" ++ hex16 (fnvStr (mrender m))

def I64MIN : Int := -9223372036854775808
def I64MAX : Int := 9223372036854775807
def isI64 (v : Int) : Bool := I64MIN ≤ v && v ≤ I64MAX

def int? (s : String) : Option Int := s.toInt?
def i64? (s : String) : Option Int := do
  let v ← s.toInt?
  if isI64 v then some v else none
def ints? (l : List String) : Option (List Int) := l.mapM int?
def i64s? (l : List String) : Option (List Int) := l.mapM i64?

/-- column bound of an implementation -/
def colBound (is64 : Bool) : Nat := if is64 then U64 else U32

def col? (is64 : Bool) (s : String) : Option Nat := do
  let c ← nat? s
  if c < colBound is64 then some c else none

def fsGet (st : St) (is64 : Bool) (n : String) : Option BSet := if is64 then st.bm64[n]? else st.bm[n]?
def fsPut (st : St) (is64 : Bool) (n : String) (s : BSet) : St :=
  if is64 then { st with bm64 := st.bm64.insert n s } else { st with bm := st.bm.insert n s }

/-- found-set token: `-` = nil, `@` = the index's own existence bitmap, otherwise a named bitmap.
    outer `none` = undefined name (skip) -/
def fsTok (st : St) (b : BsiSt) (tok : String) : Option (Option BSet) :=
  if tok == "-" then some none
  else if tok == "@" then some (some (ofVals (mcols b.vals)))
  else (fsGet st b.is64 tok).map some

/-- digest of a found-set as printed AFTER the command (`@` follows the index) -/
def fsd (tok : String) (f : Option BSet) (after : BMap) : String :=
  if tok == "@" then digest (ofVals (mcols after))
  else match f with
    | none => "-"
    | some s => digest s

/-- restriction of a map to a found-set (nil = everything) -/
def sel (m : BMap) (f : Option BSet) : BMap :=
  match f with
  | none => m
  | some s => m.filter (fun p => BSet.mem s p.1)

def pred (op : String) (k k2 : Int) (v : Int) : Option Bool :=
  match op with
  | "LT" => some (v < k)
  | "LE" => some (v ≤ k)
  | "EQ" => some (v == k)
  | "GE" => some (v ≥ k)
  | "GT" => some (v > k)
  | "RANGE" => some (k ≤ v && v ≤ k2)
  | _ => none

def minOf : List Int → Option Int
  | [] => none
  | a :: t => some (t.foldl (fun x y => if y < x then y else x) a)
def maxOf : List Int → Option Int
  | [] => none
  | a :: t => some (t.foldl (fun x y => if y > x then y else x) a)

def joinOr (l : List String) : String := if l.isEmpty then "-" else ",".intercalate l

/-- histogram value ↦ count (as a map keyed by the value, which must be a natural number) -/
def hist (vs : List Int) : BMap :=
  vs.foldl (fun h v => mupd h v.toNat (· + 1)) []

def putB (st : St) (n : String) (b : BsiSt) : St := { st with bsi := st.bsi.insert n b }

/-- the part of a Go output before the informational suffix " | ..." -/
def beforeBar (got : String) : String :=
  match got.splitOn " |" with
  | h :: _ => h
  | [] => got

/-- bsetmany / bsetmanybig -/
def doSetMany (st : St) (big : Bool) (s f v : String) : Option (St × String) := do
  let b ← st.bsi[s]?
  guard (!big || b.is64)
  let fs ← fsTok st b f
  let fset ← fs          -- nil is not allowed
  let v ← (if big then int? v else i64? v)
  let m := (BSet.toList fset).foldl (fun m c => mset m c v) b.vals
  pure (putB st s { b with vals := m }, mdig m ++ " " ++ fsd f fs m)

/-- bcmp / bcmpbig r s w op k [k2] [f] -/
def doCmp (st : St) (big : Bool) (r s w op : String) (rest : List String) : Option (St × String) := do
  let b ← st.bsi[s]?
  let _ ← nat? w
  guard (!big || b.is64)
  let parse := if big then int? else i64?
  let (k, k2, ftok) ← (match op, rest with
    | "RANGE", [a, c] => do pure ((← parse a), (← parse c), "-")
    | "RANGE", [a, c, f] => do pure ((← parse a), (← parse c), f)
    | "RANGE", _ => none
    | _, [a] => do pure ((← parse a), (0 : Int), "-")
    | _, [a, f] => do pure ((← parse a), (0 : Int), f)
    | _, _ => none)
  let _ ← pred op k k2 0
  let fs ← fsTok st b ftok
  let res := ofVals (((sel b.vals fs).filter (fun p => (pred op k k2 p.2).getD false)).map (·.1))
  pure (fsPut st b.is64 r res, digest res ++ " same " ++ fsd ftok fs b.vals)

/-- bcmpbsi r s op t [f] : columns present in both (and in f) where s[c] op t[c] -/
def doCmpBsi (st : St) (r s op t : String) (rest : List String) : Option (St × String) := do
  let b ← st.bsi[s]?
  let o ← st.bsi[t]?
  guard (b.is64 && o.is64)
  guard (op == "LT" || op == "LE" || op == "EQ" || op == "GE" || op == "GT")
  let ftok ← (match rest with | [] => some "-" | [f] => some f | _ => none)
  let fs ← fsTok st b ftok
  let res := ofVals ((sel b.vals fs).filterMap (fun p =>
    match mget o.vals p.1 with
    | some ov => if (pred op ov 0 p.2).getD false then some p.1 else none
    | none => none))
  pure (fsPut st true r res,
    digest res ++ " same same " ++ fsd ftok fs b.vals)

def doBatchEq (st : St) (big : Bool) (r s w : String) (vals : List String) : Option (St × String) := do
  let b ← st.bsi[s]?
  let _ ← nat? w
  guard (!big || b.is64)
  let vs ← (if big then ints? vals else i64s? vals)
  let res := ofVals ((b.vals.filter (fun p => vs.contains p.2)).map (·.1))
  pure (fsPut st b.is64 r res, digest res ++ " same")

def doMinMax (st : St) (big : Bool) (s w op f got : String) : St × Verdict :=
  match st.bsi[s]?, nat? w with
  | some b, some _ =>
    if (big && !b.is64) || !(op == "MIN" || op == "MAX") then (st, expect "skip" got)
    else match fsTok st b f with
      | none => (st, expect "skip" got)
      | some fs =>
        let vs := (sel b.vals fs).map (·.2)
        match (if op == "MIN" then minOf vs else maxOf vs) with
        | some v => (st, expect (toString v) got)
        | none => (st, none)      -- empty set: outside the statement (unchecked)
  | _, _ => (st, expect "skip" got)

def transposable (b : BsiSt) (vs : List Int) : Bool := vs.all (fun v => 0 ≤ v && v.toNat < colBound b.is64)

def doTwc (st : St) (t s w f g : String) : Option (St × String) := do
  let b ← st.bsi[s]?
  let _ ← nat? w
  guard (b.is64 || g == "-")
  let fs ← fsTok st b f
  let gs ← fsTok st b g
  -- a nil filter set means "the index's own existence bitmap" (the roaring64 default);
  -- the 32-bit implementation has no filter
  let filt : Int → Bool := fun v =>
    if !b.is64 then true
    else match gs with
      | some x => BSet.mem x v.toNat
      | none => (mget b.vals v.toNat).isSome
  let vs := (sel b.vals fs).map (·.2)
  guard (transposable b vs)
  let h := hist (vs.filter filt)
  pure (putB st t { vals := h, is64 := b.is64 }, mdig h ++ " same")

def doSum (st : St) (big : Bool) (s f : String) : Option (St × String) := do
  let b ← st.bsi[s]?
  guard (!big || b.is64)
  let fs ← fsTok st b f
  let m := sel b.vals fs
  pure (st, toString (m.foldl (fun a p => a + p.2) (0 : Int)) ++ " " ++ toString m.length)

def stepBsi (st : St) (cmd : List String) (got : String) : Option (St × Verdict) :=
  let fin (r : Option (St × String)) : Option (St × Verdict) :=
    some (match r with
      | some (st', e) => (st', expect e got)
      | none => (st, expect "skip" got))
  match cmd with
  -- ---------------------------------------------------------------- found-set helpers
  | "fs64" :: f :: vs => fin do
      let l ← nats? vs
      guard (l.all (· < U64))
      let s := ofVals l
      pure ({ st with bm64 := st.bm64.insert f s }, digest s)
  | "fs32" :: f :: vs => fin do
      let l ← nats? vs
      guard (l.all (· < U32))
      let s := ofVals l
      pure ({ st with bm := st.bm.insert f s }, digest s)
  | "fsflip64" :: f :: vs => fin do
      let s ← st.bm64[f]?
      let l ← nats? vs
      guard (l.all (· < U64))
      let s' := l.foldl (fun a v => BSet.xor a (BSet.single v)) s
      pure ({ st with bm64 := st.bm64.insert f s' }, digest s')
  | "fsflip32" :: f :: vs => fin do
      let s ← st.bm[f]?
      let l ← nats? vs
      guard (l.all (· < U32))
      let s' := l.foldl (fun a v => BSet.xor a (BSet.single v)) s
      pure ({ st with bm := st.bm.insert f s' }, digest s')
  | ["fsr64", f, lo, hi] => fin do
      let lo ← nat? lo
      let hi ← nat? hi
      guard (lo < U64 && hi < U64)
      let s := BSet.range lo hi
      pure ({ st with bm64 := st.bm64.insert f s }, digest s)
  | ["fsr32", f, lo, hi] => fin do
      let lo ← nat? lo
      let hi ← nat? hi
      guard (lo < U64 && hi ≤ U32)
      let s := BSet.range lo hi
      pure ({ st with bm := st.bm.insert f s }, digest s)
  | ["fsdig64", f] => fin do
      let s ← st.bm64[f]?
      pure (st, digest s)
  | ["fsdump64", f] => fin do
      let s ← st.bm64[f]?
      pure (st, dump s)
  -- ---------------------------------------------------------------- construction
  | ["bnew", s, w] => fin do
      guard (w == "64" || w == "32")
      pure (putB st s { vals := [], is64 := w == "64" }, mdig [])
  | ["bnew", s, w, mx, mn] => fin do
      guard (w == "64" || w == "32")
      let _ ← i64? mx
      let _ ← i64? mn
      pure (putB st s { vals := [], is64 := w == "64" }, mdig [])
  -- ---------------------------------------------------------------- updates
  | ["bset", s, c, v] => fin do
      let b ← st.bsi[s]?
      let c ← col? b.is64 c
      let v ← i64? v
      let m := mset b.vals c v
      pure (putB st s { b with vals := m }, mdig m)
  | ["bsetbig", s, c, v] => fin do
      let b ← st.bsi[s]?
      guard b.is64
      let c ← col? true c
      let v ← int? v
      let m := mset b.vals c v
      pure (putB st s { b with vals := m }, mdig m)
  | ["bsetmany", s, f, v] => fin (doSetMany st false s f v)
  | ["bsetmanybig", s, f, v] => fin (doSetMany st true s f v)
  | ["bclr", s, f] => fin do
      let b ← st.bsi[s]?
      let fs ← fsTok st b f
      let fset ← fs
      let m := b.vals.filter (fun p => !BSet.mem fset p.1)
      pure (putB st s { b with vals := m }, mdig m ++ " " ++ fsd f fs m)
  | ["bretain", s, f] => fin do
      let b ← st.bsi[s]?
      guard b.is64
      let fs ← fsTok st b f
      let _ ← fs
      let m := sel b.vals fs
      pure (putB st s { b with vals := m },
        toString (b.vals.length - m.length) ++ " " ++ mdig m ++ " " ++ fsd f fs m)
  | "bparor" :: s :: w :: ts => fin do
      let b ← st.bsi[s]?
      let _ ← nat? w
      guard (!ts.isEmpty)
      let bs ← ts.mapM (fun t => st.bsi[t]?)
      guard (bs.all (fun t => t.is64 == b.is64))
      let m := bs.foldl (fun m t => t.vals.foldl (fun m p => mset m p.1 p.2) m) b.vals
      pure (putB st s { b with vals := m },
        " ".intercalate (mdig m :: bs.map (fun t => mdig t.vals)))
  | ["badd", s, t] => fin do
      let b ← st.bsi[s]?
      let o ← st.bsi[t]?
      guard (o.is64 == b.is64)
      let m := o.vals.foldl (fun m p => mupd m p.1 (· + p.2)) b.vals
      let o' := if s == t then m else o.vals
      pure (putB st s { b with vals := m }, mdig m ++ " " ++ mdig o')
  | ["binc", s, f] => fin do
      let b ← st.bsi[s]?
      let fs ← fsTok st b f
      let targets := match fs with
        | none => mcols b.vals
        | some x => BSet.toList x
      let m := targets.foldl (fun m c => mupd m c (· + 1)) b.vals
      pure (putB st s { b with vals := m }, mdig m ++ " " ++ fsd f fs m)
  | ["bopt", s] => fin do
      let b ← st.bsi[s]?
      pure (st, mdig b.vals)
  | ["bincall", s] => fin do
      let b ← st.bsi[s]?
      let m := b.vals.map (fun p => (p.1, p.2 + 1))
      pure (putB st s { b with vals := m }, mdig m)
  -- ---------------------------------------------------------------- point queries
  | ["bget", s, c] => fin do
      let b ← st.bsi[s]?
      let c ← col? b.is64 c
      pure (st, match mget b.vals c with
        | none => "0 false"
        | some v => if isI64 v then toString v ++ " true" else "panic")
  | ["bgetbig", s, c] => fin do
      let b ← st.bsi[s]?
      guard b.is64
      let c ← col? true c
      pure (st, match mget b.vals c with
        | none => "nil false"
        | some v => toString v ++ " true")
  | "bgets" :: s :: cs => fin do
      let b ← st.bsi[s]?
      guard b.is64
      let cs ← cs.mapM (col? true)
      let vs := cs.map (mget b.vals)
      if vs.any (fun o => match o with | some v => !isI64 v | none => false) then pure (st, "panic")
      else pure (st, joinOr (vs.map fun o => match o with | some v => toString v | none => "-"))
  | "bgetsbig" :: s :: cs => fin do
      let b ← st.bsi[s]?
      guard b.is64
      let cs ← cs.mapM (col? true)
      pure (st, joinOr (cs.map fun c => match mget b.vals c with | some v => toString v | none => "-"))
  | ["bexists", s, c] => fin do
      let b ← st.bsi[s]?
      let c ← col? b.is64 c
      pure (st, bstr (mget b.vals c).isSome)
  | ["bcard", s] => fin do
      let b ← st.bsi[s]?
      pure (st, toString b.vals.length)
  | ["bbits", s] =>
      -- informational only (printed so that a reader can see the index's width)
      match st.bsi[s]? with
      | some _ => some (st, if got.startsWith "bits=" then none else some "bits=<n>")
      | none => fin none
  | ["bdump", s] => fin do
      let b ← st.bsi[s]?
      pure (st, if b.vals.length > 32 then mdig b.vals else mrender b.vals)
  | ["bchk", s] => fin do
      let _ ← st.bsi[s]?
      pure (st, "ok")
  -- ---------------------------------------------------------------- copies
  | ["bclone", t, s] | ["bmarsh", t, s] => fin do
      let b ← st.bsi[s]?
      pure (putB st t b, mdig b.vals ++ " " ++ mdig b.vals)
  | ["bretainset", t, s, f] => fin do
      let b ← st.bsi[s]?
      let fs ← fsTok st b f
      let _ ← fs
      let m := sel b.vals fs
      pure (putB st t { b with vals := m }, mdig m ++ " " ++ mdig b.vals ++ " " ++ fsd f fs b.vals)
  | ["bstream", t, s] =>
      match st.bsi[s]? with
      | some b =>
        if b.is64 then
          some (putB st t b, expect (mdig b.vals ++ " " ++ mdig b.vals ++ " ok") (beforeBar got))
        else fin none
      | none => fin none
  -- the same two loaders with a previously used index `u` as the receiver (consumed: the name `u` disappears)
  | ["bmarsh", t, s, u] => fin do
      let b ← st.bsi[s]?
      let o ← st.bsi[u]?
      guard (o.is64 == b.is64 && s != u)
      pure (putB { st with bsi := st.bsi.erase u } t b, mdig b.vals ++ " " ++ mdig b.vals)
  | ["bstream", t, s, u] =>
      match st.bsi[s]?, st.bsi[u]? with
      | some b, some o =>
        if b.is64 && o.is64 && s != u then
          some (putB { st with bsi := st.bsi.erase u } t b, expect (mdig b.vals ++ " " ++ mdig b.vals ++ " ok") (beforeBar got))
        else fin none
      | _, _ => fin none
  | ["bequals", s, t] => fin do
      let b ← st.bsi[s]?
      let o ← st.bsi[t]?
      guard (b.is64 && o.is64)
      pure (st, bstr (b.vals == o.vals))
  -- ---------------------------------------------------------------- queries
  | "bcmp" :: r :: s :: w :: op :: rest => fin (doCmp st false r s w op rest)
  | "bcmpbig" :: r :: s :: w :: op :: rest => fin (doCmp st true r s w op rest)
  | "bcmpbsi" :: r :: s :: op :: t :: rest => fin (doCmpBsi st r s op t rest)
  | "beq" :: r :: s :: w :: vals => fin (doBatchEq st false r s w vals)
  | "beqbig" :: r :: s :: w :: vals => fin (doBatchEq st true r s w vals)
  | "beqvals" :: s :: w :: f :: vals => fin do
      let b ← st.bsi[s]?
      guard b.is64
      let _ ← nat? w
      let fs ← fsTok st b f
      let vs ← i64s? vals
      pure (st, mrender ((sel b.vals fs).filter (fun p => vs.contains p.2)))
  | ["bminmax", s, w, op, f] => some (doMinMax st false s w op f got)
  | ["bminmaxbig", s, w, op, f] => some (doMinMax st true s w op f got)
  | ["bsum", s, f] => fin (doSum st false s f)
  | ["bsumbig", s, f] => fin (doSum st true s f)
  | ["btrans", r, s] => fin do
      let b ← st.bsi[s]?
      let vs := b.vals.map (·.2)
      guard (transposable b vs)
      let res := ofVals (vs.map Int.toNat)
      pure (fsPut st b.is64 r res, digest res ++ " same")
  | ["bitrans", r, s, w, f] => fin do
      let b ← st.bsi[s]?
      let _ ← nat? w
      let fs ← fsTok st b f
      let vs := (sel b.vals fs).map (·.2)
      guard (transposable b vs)
      let res := ofVals (vs.map Int.toNat)
      pure (fsPut st b.is64 r res, digest res ++ " same " ++ fsd f fs b.vals)
  | ["btwc", t, s, w, f, g] => fin (doTwc st t s w f g)
  | _ => none

end RModel.Driver
