import RModel.Spec.Agg
import RProofs.BSet
/-! Meaning of the aggregate folds in terms of membership, and closure of the canonical form (C11). -/
namespace RModel.BSet

theorem canon_foldl_union (U : Nat) : ∀ (l : List BSet) (acc : BSet), Canon U acc → (∀ s ∈ l, Canon U s) →
    Canon U (l.foldl union acc)
  | [], _, h, _ => h
  | s :: t, acc, h, hl => by
      simp only [List.foldl_cons]
      exact canon_foldl_union U t _ (canon_union U acc s h (hl s (by simp))) (fun s' hs' => hl s' (by simp [hs']))

theorem mem_foldl_union (U : Nat) : ∀ (l : List BSet) (acc : BSet), Canon U acc → (∀ s ∈ l, Canon U s) → ∀ x,
    mem (l.foldl union acc) x = (mem acc x || l.any (fun s => mem s x))
  | [], _, _, _, x => by simp
  | s :: t, acc, h, hl, x => by
      have hs := hl s (by simp)
      simp only [List.foldl_cons, List.any_cons]
      rw [mem_foldl_union U t _ (canon_union U acc s h hs) (fun s' hs' => hl s' (by simp [hs'])) x,
          mem_union acc s h.1 hs.1 x, Bool.or_assoc]

theorem canon_foldl_inter (U : Nat) : ∀ (l : List BSet) (acc : BSet), Canon U acc → (∀ s ∈ l, Canon U s) →
    Canon U (l.foldl inter acc)
  | [], _, h, _ => h
  | s :: t, acc, h, hl => by
      simp only [List.foldl_cons]
      exact canon_foldl_inter U t _ (canon_inter U acc s h (hl s (by simp))) (fun s' hs' => hl s' (by simp [hs']))

theorem mem_foldl_inter (U : Nat) : ∀ (l : List BSet) (acc : BSet), Canon U acc → (∀ s ∈ l, Canon U s) → ∀ x,
    mem (l.foldl inter acc) x = (mem acc x && l.all (fun s => mem s x))
  | [], _, _, _, x => by simp
  | s :: t, acc, h, hl, x => by
      have hs := hl s (by simp)
      simp only [List.foldl_cons, List.all_cons]
      rw [mem_foldl_inter U t _ (canon_inter U acc s h hs) (fun s' hs' => hl s' (by simp [hs'])) x,
          mem_inter acc s h.1 hs.1 x, Bool.and_assoc]

theorem canon_foldl_xor (U : Nat) : ∀ (l : List BSet) (acc : BSet), Canon U acc → (∀ s ∈ l, Canon U s) →
    Canon U (l.foldl xor acc)
  | [], _, h, _ => h
  | s :: t, acc, h, hl => by
      simp only [List.foldl_cons]
      exact canon_foldl_xor U t _ (canon_xor U acc s h (hl s (by simp))) (fun s' hs' => hl s' (by simp [hs']))

/-- parity of the number of members containing `x`, starting from `b` -/
def parity (l : List BSet) (x : Nat) (b : Bool) : Bool := l.foldl (fun p s => p != mem s x) b

theorem mem_foldl_xor (U : Nat) : ∀ (l : List BSet) (acc : BSet), Canon U acc → (∀ s ∈ l, Canon U s) → ∀ x,
    mem (l.foldl xor acc) x = parity l x (mem acc x)
  | [], _, _, _, x => by simp [parity]
  | s :: t, acc, h, hl, x => by
      have hs := hl s (by simp)
      simp only [List.foldl_cons, parity]
      rw [mem_foldl_xor U t _ (canon_xor U acc s h hs) (fun s' hs' => hl s' (by simp [hs'])) x,
          mem_xor acc s h.1 hs.1 x]
      rfl

/-- FastOr / HeapOr / ParOr / ParHeapOr: `x` is in the result iff some member contains it -/
theorem mem_unionL (U : Nat) (l : List BSet) (hl : ∀ s ∈ l, Canon U s) (x : Nat) :
    mem (unionL l) x = l.any (fun s => mem s x) := by
  simp [unionL, mem_foldl_union U l [] (canon_nil U) hl x]

theorem canon_unionL (U : Nat) (l : List BSet) (hl : ∀ s ∈ l, Canon U s) : Canon U (unionL l) :=
  canon_foldl_union U l [] (canon_nil U) hl

/-- FastAnd / ParAnd on a non-empty list: `x` is in the result iff every member contains it -/
theorem mem_interL (U : Nat) (a : BSet) (t : List BSet) (hl : ∀ s ∈ a :: t, Canon U s) (x : Nat) :
    mem (interL (a :: t)) x = (a :: t).all (fun s => mem s x) := by
  simp [interL, mem_foldl_inter U t a (hl a (by simp)) (fun s hs => hl s (by simp [hs])) x]

theorem canon_interL (U : Nat) (l : List BSet) (hl : ∀ s ∈ l, Canon U s) : Canon U (interL l) := by
  cases l with
  | nil => exact canon_nil U
  | cons a t => exact canon_foldl_inter U t a (hl a (by simp)) (fun s hs => hl s (by simp [hs]))

/-- HeapXor: `x` is in the result iff an odd number of members contain it -/
theorem mem_xorL (U : Nat) (l : List BSet) (hl : ∀ s ∈ l, Canon U s) (x : Nat) :
    mem (xorL l) x = parity l x false := by
  simp [xorL, mem_foldl_xor U l [] (canon_nil U) hl x]

theorem canon_xorL (U : Nat) (l : List BSet) (hl : ∀ s ∈ l, Canon U s) : Canon U (xorL l) :=
  canon_foldl_xor U l [] (canon_nil U) hl

/-- AndAny: `v` stays iff it was in the receiver and some member of the list contains it -/
theorem mem_andAny (U : Nat) (x : BSet) (l : List BSet) (hx : Canon U x) (hl : ∀ s ∈ l, Canon U s) (v : Nat) :
    mem (andAny x l) v = (mem x v && l.any (fun s => mem s v)) := by
  simp [andAny, mem_inter x (unionL l) hx.1 (canon_unionL U l hl).1 v, mem_unionL U l hl v]

theorem canon_andAny (U : Nat) (x : BSet) (l : List BSet) (hx : Canon U x) (hl : ∀ s ∈ l, Canon U s) :
    Canon U (andAny x l) :=
  canon_inter U x (unionL l) hx (canon_unionL U l hl)

/-- the folds do not depend on the order of the list: any two lists with the same members (as multisets for xor,
as sets for union / intersection) give the same canonical result; stated through membership + `canon_ext` -/
theorem unionL_perm (U : Nat) (l l' : List BSet) (hl : ∀ s ∈ l, Canon U s) (hl' : ∀ s ∈ l', Canon U s)
    (h : ∀ s, s ∈ l ↔ s ∈ l') : unionL l = unionL l' := by
  apply canon_ext U _ _ (canon_unionL U l hl) (canon_unionL U l' hl')
  intro x
  rw [mem_unionL U l hl, mem_unionL U l' hl', Bool.eq_iff_iff]
  simp only [List.any_eq_true]
  constructor
  · rintro ⟨s, hs, hx⟩; exact ⟨s, (h s).1 hs, hx⟩
  · rintro ⟨s, hs, hx⟩; exact ⟨s, (h s).2 hs, hx⟩

end RModel.BSet
