import RProofs.ContQuery
import RProofs.RepOps
import RProofs.Iter
import RProofs.IterAdv
import RModel.Impl.RepQuery
/-!
`Cont.equalsQ` (the container kernel `equals` for the 3×3 pairings of container kinds) decides extensional equality of
the membership functions of well-formed containers:

  `Cont.equalsQ_has : a.wf → b.wf → (a.equalsQ b = true ↔ ∀ x, a.has x = b.has x)`.

* same kind: the field-wise comparison (`==` on the value list / cached cardinality and word list / run list) — a
  well-formed container of a given kind is determined by its members (`sorted_ext`, `words_ext`, `runs_ext`);
* mixed kinds: the cardinality test gives equal lengths of the member lists; the lock-step iterator loop `iterEq` then
  decides equality of the two remaining lists (`iterEq_spec`).
-/
namespace RModel.Impl
open RModel RModel.BSet ContOps ContQuery RepQuery It

namespace RepQuery

/-! ### the lock-step loop -/

theorem iterEq_succ (fuel : Nat) (d o : CIt) :
    iterEq (fuel + 1) d o =
      if d.hasNext then (if o.next.1 != d.next.1 then false else iterEq fuel d.next.2 o.next.2) else true := rfl

/-- with equally many values left on both sides (and enough fuel) the loop decides equality of the remaining lists -/
theorem iterEq_spec : ∀ (fuel : Nat) (d o : CIt), d.Inv → o.Inv → d.rem.length = o.rem.length → d.rem.length ≤ fuel →
    iterEq fuel d o = decide (d.rem = o.rem)
  | 0, d, o, _, _, hl, hf => by
    have h1 : d.rem = [] := List.length_eq_zero_iff.mp (by omega)
    have h2 : o.rem = [] := List.length_eq_zero_iff.mp (by omega)
    rw [h1, h2]; rfl
  | fuel + 1, d, o, hd, ho, hl, hf => by
    rw [iterEq_succ]
    cases hr : d.rem with
    | nil =>
      have h2 : o.rem = [] := List.length_eq_zero_iff.mp (by rw [← hl, hr]; rfl)
      have : d.hasNext = false := by
        cases hh : d.hasNext
        · rfl
        · exact absurd hr ((CIt.hasNext_iff hd).mp hh)
      rw [this, h2]; rfl
    | cons v t =>
      cases hr' : o.rem with
      | nil => rw [hr, hr'] at hl; cases hl
      | cons v' t' =>
        have hh : d.hasNext = true := (CIt.hasNext_iff hd).mpr (by rw [hr]; simp)
        obtain ⟨d1, d2, d3⟩ := CIt.next_spec hd hr
        obtain ⟨o1, o2, o3⟩ := CIt.next_spec ho hr'
        rw [hr, hr'] at hl
        rw [hr] at hf
        simp only [List.length_cons] at hl hf
        rw [hh, if_pos rfl, d1, o1,
          iterEq_spec fuel d.next.2 o.next.2 d2 o2 (by rw [d3, o3]; omega) (by rw [d3]; omega), d3, o3]
        by_cases hv : v' = v
        · subst hv; simp
        · have hv' : ¬ v = v' := fun e => hv e.symm
          simp [hv, hv']

/-! ### member lists and cardinalities -/

theorem card_eq_length {c : Cont} (h : c.wf = true) : c.getCardinalityQ = ((valsOfCont c).length : Int) := by
  have e : cnt c.has 65536 = (valsOfCont c).length := by
    apply cnt_eq_length (sorted_valsOfCont h)
    intro x
    rw [mem_valsOfCont]
    constructor
    · intro hx; exact ⟨has_lt h hx, hx⟩
    · intro hx; exact hx.2
  rw [has_card c (wfQ_of_wf h), e]

theorem length_valsOfCont_le {c : Cont} (h : c.wf = true) : (valsOfCont c).length ≤ 65536 := by
  have h1 := card_eq_length h
  rw [has_card c (wfQ_of_wf h)] at h1
  have h2 := cnt_le c.has 65536
  omega

theorem vals_eq_iff {a b : Cont} (ha : a.wf = true) (hb : b.wf = true) :
    valsOfCont a = valsOfCont b ↔ ∀ x, a.has x = b.has x := by
  constructor
  · intro h x
    have h1 := mem_valsOfCont a x
    have h2 := mem_valsOfCont b x
    rw [h] at h1
    cases ha' : a.has x <;> cases hb' : b.has x <;> simp_all
  · intro h
    apply sorted_ext _ _ (sorted_valsOfCont ha) (sorted_valsOfCont hb)
    intro x
    rw [mem_valsOfCont, mem_valsOfCont, h x]

/-- the generic comparison: cardinalities, then the two iterators in lock step -/
theorem mixed_spec (a b : Cont) (ha : a.wf = true) (hb : b.wf = true) :
    (a.getCardinalityQ = b.getCardinalityQ ∧ iterEq 65537 (CIt.ofCont a) (CIt.ofCont b) = true) ↔
      ∀ x, a.has x = b.has x := by
  obtain ⟨ia, ra⟩ := CIt.ofCont_spec ha
  obtain ⟨ib, rb⟩ := CIt.ofCont_spec hb
  rw [← vals_eq_iff ha hb, card_eq_length ha, card_eq_length hb]
  constructor
  · rintro ⟨hc, hi⟩
    have hl : (valsOfCont a).length = (valsOfCont b).length := by omega
    have hle := length_valsOfCont_le ha
    rw [iterEq_spec 65537 _ _ ia ib (by rw [ra, rb]; exact hl) (by rw [ra]; omega), ra, rb] at hi
    exact of_decide_eq_true hi
  · intro h
    have hle := length_valsOfCont_le ha
    refine ⟨by rw [h], ?_⟩
    rw [iterEq_spec 65537 _ _ ia ib (by rw [ra, rb, h]) (by rw [ra]; omega), ra, rb]
    exact decide_eq_true h

/-! ### word lists are determined by their bits -/

theorem testBit_at (ws : List (BitVec 64)) {i j : Nat} (hi : i < ws.length) (hj : j < 64) :
    testBit ws (64 * i + j) = ws[i].getLsbD j := by
  have e1 : (64 * i + j) / 64 = i := by omega
  have e2 : (64 * i + j) % 64 = j := by omega
  simp [testBit, e1, e2, List.getD_eq_getElem?_getD, List.getElem?_eq_getElem hi]

theorem words_ext {w1 w2 : List (BitVec 64)} (hl : w1.length = w2.length)
    (h : ∀ x, testBit w1 x = testBit w2 x) : w1 = w2 := by
  apply List.ext_getElem hl
  intro i h1 h2
  apply BitVec.eq_of_getLsbD_eq
  intro j hj
  rw [← testBit_at w1 h1 hj, ← testBit_at w2 h2 hj]
  exact h _

/-! ### separated run lists are determined by their members -/

theorem runs_ext : ∀ (a b : List (Nat × Nat)), RunSep a → RunSep b → (∀ x, inRuns a x = inRuns b x) → a = b
  | [], [], _, _, _ => rfl
  | [], (s, l) :: t, _, _, h => by
    have := h s
    rw [inRuns_cons] at this
    simp [inRuns_nil] at this
  | (s, l) :: t, [], _, _, h => by
    have := h s
    rw [inRuns_cons] at this
    simp [inRuns_nil] at this
  | (s, l) :: ta, (s', l') :: tb, ha, hb, h => by
    have ta_gt : ∀ x, inRuns ta x = true → s + l + 1 < x := fun x hx => inRuns_tail_gt ha hx
    have tb_gt : ∀ x, inRuns tb x = true → s' + l' + 1 < x := fun x hx => inRuns_tail_gt hb hx
    have hx : ∀ x, ((s ≤ x ∧ x ≤ s + l) ∨ inRuns ta x = true) ↔ ((s' ≤ x ∧ x ≤ s' + l') ∨ inRuns tb x = true) := by
      intro x
      have := h x
      rw [inRuns_cons, inRuns_cons, Bool.eq_iff_iff] at this
      simpa only [Bool.or_eq_true, Bool.and_eq_true, decide_eq_true_eq] using this
    -- the least member
    have hs : s = s' := by
      have h1 : s' ≤ s := by
        rcases (hx s).mp (Or.inl ⟨Nat.le_refl _, by omega⟩) with h1 | h1
        · exact h1.1
        · have := tb_gt _ h1; omega
      have h2 : s ≤ s' := by
        rcases (hx s').mpr (Or.inl ⟨Nat.le_refl _, by omega⟩) with h2 | h2
        · exact h2.1
        · have := ta_gt _ h2; omega
      omega
    subst hs
    -- the first non-member above it
    have hl : l = l' := by
      have h1 : ¬ l < l' := by
        intro hlt
        rcases (hx (s + l + 1)).mpr (Or.inl ⟨by omega, by omega⟩) with h1 | h1
        · omega
        · have := ta_gt _ h1; omega
      have h2 : ¬ l' < l := by
        intro hlt
        rcases (hx (s + l' + 1)).mp (Or.inl ⟨by omega, by omega⟩) with h2 | h2
        · omega
        · have := tb_gt _ h2; omega
      omega
    subst hl
    congr 1
    apply runs_ext ta tb (List.pairwise_cons.mp ha).2 (List.pairwise_cons.mp hb).2
    intro x
    rw [Bool.eq_iff_iff]
    constructor
    · intro hx1
      have := ta_gt _ hx1
      rcases (hx x).mp (Or.inr hx1) with h1 | h1
      · omega
      · exact h1
    · intro hx1
      have := tb_gt _ hx1
      rcases (hx x).mpr (Or.inr hx1) with h1 | h1
      · omega
      · exact h1

end RepQuery

/-! ### the pairings -/

theorem Cont.equalsQ_has_arr (xs ys : List Nat) (ha : (Cont.arr xs).wf = true) (hb : (Cont.arr ys).wf = true) :
    (Cont.arr xs).equalsQ (.arr ys) = true ↔ ∀ x, (Cont.arr xs).has x = (Cont.arr ys).has x := by
  rw [← vals_eq_iff ha hb]
  simp only [Cont.equalsQ, beq_iff_eq, valsOfCont]

theorem Cont.equalsQ_has_run (r1 r2 : List (Nat × Nat)) (ha : (Cont.run r1).wf = true) (hb : (Cont.run r2).wf = true) :
    (Cont.run r1).equalsQ (.run r2) = true ↔ ∀ x, (Cont.run r1).has x = (Cont.run r2).has x := by
  simp only [Cont.equalsQ, beq_iff_eq, Cont.has]
  constructor
  · intro h x; rw [h]
  · intro h; exact runs_ext r1 r2 (wf_run ha).sep (wf_run hb).sep h

theorem Cont.equalsQ_has_bmp (c1 c2 : Int) (w1 w2 : List (BitVec 64)) (ha : (Cont.bmp c1 w1).wf = true)
    (hb : (Cont.bmp c2 w2).wf = true) :
    (Cont.bmp c1 w1).equalsQ (.bmp c2 w2) = true ↔ ∀ x, (Cont.bmp c1 w1).has x = (Cont.bmp c2 w2).has x := by
  obtain ⟨l1, k1, -⟩ := wf_bmp ha
  obtain ⟨l2, k2, -⟩ := wf_bmp hb
  simp only [Cont.equalsQ, Bool.and_eq_true, beq_iff_eq, Cont.has]
  constructor
  · rintro ⟨-, h⟩ x; rw [h]
  · intro h
    have hw : w1 = w2 := words_ext (by rw [l1, l2]) h
    subst hw
    exact ⟨by rw [k1, k2], rfl⟩

/-- **`c.equals(o)` decides equality of the member sets** of well-formed containers, for all 3×3 pairings of kinds -/
theorem Cont.equalsQ_has (a b : Cont) (ha : a.wf = true) (hb : b.wf = true) :
    a.equalsQ b = true ↔ ∀ x, a.has x = b.has x := by
  cases a with
  | arr xs =>
    cases b with
    | arr ys => exact Cont.equalsQ_has_arr xs ys ha hb
    | bmp c ws =>
      rw [← mixed_spec _ _ ha hb]
      simp only [Cont.equalsQ, Bool.and_eq_true, beq_iff_eq]
      exact and_congr_left fun _ => eq_comm
    | run rs =>
      rw [← mixed_spec _ _ ha hb]
      simp only [Cont.equalsQ, Bool.and_eq_true, beq_iff_eq]
      exact and_congr_left fun _ => eq_comm
  | bmp c ws =>
    cases b with
    | arr ys =>
      have e : (∀ x, (Cont.bmp c ws).has x = (Cont.arr ys).has x) ↔ ∀ x, (Cont.arr ys).has x = (Cont.bmp c ws).has x :=
        forall_congr' fun _ => eq_comm
      rw [e, ← mixed_spec _ _ hb ha]
      simp only [Cont.equalsQ, Bool.and_eq_true, beq_iff_eq]
      exact and_congr_left fun _ => eq_comm
    | bmp c2 w2 => exact Cont.equalsQ_has_bmp c c2 ws w2 ha hb
    | run rs =>
      have e : (∀ x, (Cont.bmp c ws).has x = (Cont.run rs).has x) ↔ ∀ x, (Cont.run rs).has x = (Cont.bmp c ws).has x :=
        forall_congr' fun _ => eq_comm
      rw [e, ← mixed_spec _ _ hb ha]
      simp only [Cont.equalsQ, Bool.and_eq_true, beq_iff_eq]
      exact and_congr_left fun _ => eq_comm
  | run rs =>
    cases b with
    | arr ys =>
      rw [← mixed_spec _ _ ha hb]
      simp only [Cont.equalsQ, Bool.and_eq_true, beq_iff_eq]
      exact and_congr_left fun _ => eq_comm
    | bmp c ws =>
      rw [← mixed_spec _ _ ha hb]
      simp only [Cont.equalsQ, Bool.and_eq_true, beq_iff_eq]
      exact and_congr_left fun _ => eq_comm
    | run r2 => exact Cont.equalsQ_has_run rs r2 ha hb

end RModel.Impl
