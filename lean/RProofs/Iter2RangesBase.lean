import RProofs.BSetQuery
import RModel.Impl.Iter2
/-!
`Bitmap.Ranges()` (model: `rangesRep` in `RModel/Impl/Iter2.lean`), part 1: the container-independent layer.

* `pairsOf s`      : the half-open pairs `(lo, hi)` of a boundary list;
* `memPairs l x`   : `x` lies in one of the pairs of `l`;
* `Sep l`          : every pair is non-empty and the pairs are ascending and NON-TOUCHING (`b_i < a_{i+1}`);
  `WSep l`         : the same with `b_i ≤ a_{i+1}` (touching allowed);
* `sep_ext`        : UNIQUENESS — two separated lists with the same members are equal;
* `sep_pairsOf`, `memPairs_pairsOf` : `pairsOf s` is separated and has the members of `s`;
* `coalesceP`      : the pure specification of the closure `emit` (merge a pair into the pending one when it starts at or
                     before the pending end), `coalesceP_spec` : on a weakly separated list the result is separated and has
                     the same members;
* `foldUntil2`     : hand pairs to a state-transforming callback until it answers `false`;
* `rangesList_spec`: folding `rangesEmit` over a candidate list and yielding the pending range at the end is `foldUntil2`
                     over the coalesced list.
Core Lean only; no `native_decide`, `bv_decide`, axioms.
-/
namespace RModel.Impl.It
open RModel RModel.Impl

/-! ### pairs, membership, separation -/

/-- the half-open intervals of a boundary list -/
def pairsOf : BSet → List (Nat × Nat)
  | lo :: hi :: t => (lo, hi) :: pairsOf t
  | _ => []

def inPair (x : Nat) (p : Nat × Nat) : Bool := decide (p.1 ≤ x) && decide (x < p.2)

/-- `x` lies in one of the half-open pairs -/
def memPairs (l : List (Nat × Nat)) (x : Nat) : Bool := l.any (inPair x)

/-- non-empty, ascending, non-touching -/
def Sep (l : List (Nat × Nat)) : Prop := (∀ p ∈ l, p.1 < p.2) ∧ l.Pairwise (fun p q => p.2 < q.1)

/-- non-empty, ascending, possibly touching -/
def WSep (l : List (Nat × Nat)) : Prop := (∀ p ∈ l, p.1 < p.2) ∧ l.Pairwise (fun p q => p.2 ≤ q.1)

theorem memPairs_nil (x : Nat) : memPairs [] x = false := rfl

theorem memPairs_cons (p : Nat × Nat) (t : List (Nat × Nat)) (x : Nat) :
    memPairs (p :: t) x = ((decide (p.1 ≤ x) && decide (x < p.2)) || memPairs t x) := rfl

theorem memPairs_append (a b : List (Nat × Nat)) (x : Nat) : memPairs (a ++ b) x = (memPairs a x || memPairs b x) := by
  simp only [memPairs, List.any_append]

theorem memPairs_iff (l : List (Nat × Nat)) (x : Nat) : memPairs l x = true ↔ ∃ p ∈ l, p.1 ≤ x ∧ x < p.2 := by
  simp only [memPairs, inPair, List.any_eq_true, Bool.and_eq_true, decide_eq_true_eq]

theorem memPairs_false_of_lt {l : List (Nat × Nat)} {x : Nat} (h : ∀ q ∈ l, x < q.1) : memPairs l x = false := by
  cases hm : memPairs l x with
  | false => rfl
  | true =>
    obtain ⟨p, hp, h1, _⟩ := (memPairs_iff l x).mp hm
    have := h p hp
    omega

theorem memPairs_false_of_ge {l : List (Nat × Nat)} {x : Nat} (h : ∀ q ∈ l, q.2 ≤ x) : memPairs l x = false := by
  cases hm : memPairs l x with
  | false => rfl
  | true =>
    obtain ⟨p, hp, _, h2⟩ := (memPairs_iff l x).mp hm
    have := h p hp
    omega

theorem memPairs_start {l : List (Nat × Nat)} {p : Nat × Nat} (hp : p ∈ l) (h : p.1 < p.2) : memPairs l p.1 = true :=
  (memPairs_iff l p.1).mpr ⟨p, hp, Nat.le_refl _, h⟩

theorem Sep.nil : Sep [] := ⟨fun _ h => (nomatch h), List.Pairwise.nil⟩
theorem WSep.nil : WSep [] := ⟨fun _ h => (nomatch h), List.Pairwise.nil⟩

theorem Sep.tail {p : Nat × Nat} {t : List (Nat × Nat)} (h : Sep (p :: t)) : Sep t :=
  ⟨fun q hq => h.1 q (List.mem_cons_of_mem _ hq), (List.pairwise_cons.mp h.2).2⟩

theorem Sep.head {p : Nat × Nat} {t : List (Nat × Nat)} (h : Sep (p :: t)) : p.1 < p.2 := h.1 p (List.mem_cons_self ..)

theorem Sep.head_lt {p : Nat × Nat} {t : List (Nat × Nat)} (h : Sep (p :: t)) : ∀ q ∈ t, p.2 < q.1 :=
  (List.pairwise_cons.mp h.2).1

theorem Sep.cons {p : Nat × Nat} {t : List (Nat × Nat)} (hp : p.1 < p.2) (hlt : ∀ q ∈ t, p.2 < q.1) (ht : Sep t) :
    Sep (p :: t) :=
  ⟨fun q hq => by
    rcases List.mem_cons.mp hq with rfl | h'
    · exact hp
    · exact ht.1 q h', List.pairwise_cons.mpr ⟨hlt, ht.2⟩⟩

theorem WSep.tail {p : Nat × Nat} {t : List (Nat × Nat)} (h : WSep (p :: t)) : WSep t :=
  ⟨fun q hq => h.1 q (List.mem_cons_of_mem _ hq), (List.pairwise_cons.mp h.2).2⟩

theorem WSep.head {p : Nat × Nat} {t : List (Nat × Nat)} (h : WSep (p :: t)) : p.1 < p.2 := h.1 p (List.mem_cons_self ..)

theorem WSep.head_le {p : Nat × Nat} {t : List (Nat × Nat)} (h : WSep (p :: t)) : ∀ q ∈ t, p.2 ≤ q.1 :=
  (List.pairwise_cons.mp h.2).1

theorem WSep.cons {p : Nat × Nat} {t : List (Nat × Nat)} (hp : p.1 < p.2) (hlt : ∀ q ∈ t, p.2 ≤ q.1) (ht : WSep t) :
    WSep (p :: t) :=
  ⟨fun q hq => by
    rcases List.mem_cons.mp hq with rfl | h'
    · exact hp
    · exact ht.1 q h', List.pairwise_cons.mpr ⟨hlt, ht.2⟩⟩

theorem Sep.wsep {l : List (Nat × Nat)} (h : Sep l) : WSep l := ⟨h.1, h.2.imp (fun h => Nat.le_of_lt h)⟩

theorem WSep.append {a b : List (Nat × Nat)} (ha : WSep a) (hb : WSep b) (hab : ∀ p ∈ a, ∀ q ∈ b, p.2 ≤ q.1) :
    WSep (a ++ b) :=
  ⟨fun p hp => by
    rcases List.mem_append.mp hp with h | h
    · exact ha.1 p h
    · exact hb.1 p h, List.pairwise_append.mpr ⟨ha.2, hb.2, hab⟩⟩

/-- membership in a separated list, read off from the head -/
theorem memPairs_cons_sep {p : Nat × Nat} {t : List (Nat × Nat)} (h : Sep (p :: t)) (x : Nat) :
    memPairs (p :: t) x = if x < p.1 then false else if x < p.2 then true else memPairs t x := by
  rw [memPairs_cons]
  have hp := h.head
  by_cases h1 : x < p.1
  · rw [if_pos h1, memPairs_false_of_lt (fun q hq => by have := h.head_lt q hq; omega)]
    simp only [Bool.or_false, Bool.and_eq_false_imp, decide_eq_true_eq, decide_eq_false_iff_not]
    omega
  · rw [if_neg h1]
    by_cases h2 : x < p.2
    · rw [if_pos h2]; simp only [h2, decide_true, Bool.and_true, Bool.or_eq_true, decide_eq_true_eq]; omega
    · rw [if_neg h2]; simp [h2]

/-- **uniqueness**: a separated pair list is determined by its members -/
theorem sep_ext : ∀ (l1 l2 : List (Nat × Nat)), Sep l1 → Sep l2 → (∀ x, memPairs l1 x = memPairs l2 x) → l1 = l2
  | [], [], _, _, _ => rfl
  | [], q :: u, _, h2, h => by
    have := h q.1
    rw [memPairs_start (List.mem_cons_self ..) h2.head, memPairs_nil] at this
    cases this
  | p :: t, [], h1, _, h => by
    have := h p.1
    rw [memPairs_start (List.mem_cons_self ..) h1.head, memPairs_nil] at this
    cases this
  | p :: t, q :: u, h1, h2, h => by
    have hp := h1.head
    have hq := h2.head
    have e1 : p.1 = q.1 := by
      have a := h p.1
      have b := h q.1
      rw [memPairs_cons_sep h1, memPairs_cons_sep h2] at a b
      simp only [Nat.lt_irrefl, if_false, if_pos hp, if_pos hq] at a b
      by_cases c1 : p.1 < q.1
      · rw [if_pos c1] at a; cases a
      · by_cases c2 : q.1 < p.1
        · rw [if_pos c2] at b; cases b
        · omega
    have tp : memPairs t p.2 = false := memPairs_false_of_lt (fun r hr => h1.head_lt r hr)
    have tq : memPairs u q.2 = false := memPairs_false_of_lt (fun r hr => h2.head_lt r hr)
    have e2 : p.2 = q.2 := by
      have a := h p.2
      have b := h q.2
      rw [memPairs_cons_sep h1, memPairs_cons_sep h2] at a b
      by_cases c1 : p.2 < q.2
      · rw [if_neg (by omega), if_neg (by omega), tp, if_neg (by omega), if_pos c1] at a; cases a
      · by_cases c2 : q.2 < p.2
        · rw [if_neg (by omega), if_pos c2, if_neg (by omega), if_neg (by omega), tq] at b; cases b
        · omega
    have e : p = q := Prod.ext e1 e2
    subst e
    congr 1
    apply sep_ext t u h1.tail h2.tail
    intro x
    by_cases c : x < p.2
    · rw [memPairs_false_of_lt (fun r hr => by have := h1.head_lt r hr; omega),
        memPairs_false_of_lt (fun r hr => by have := h2.head_lt r hr; omega)]
    · have a := h x
      rw [memPairs_cons_sep h1, memPairs_cons_sep h2, if_neg (by omega), if_neg c, if_neg (by omega), if_neg c] at a
      exact a

/-! ### `pairsOf` -/

theorem mem_pairsOf : ∀ (s : BSet) (q : Nat × Nat), q ∈ pairsOf s → q.1 ∈ s ∧ q.2 ∈ s
  | [], q, h => by simp [pairsOf] at h
  | [_], q, h => by simp [pairsOf] at h
  | lo :: hi :: t, q, h => by
    simp only [pairsOf, List.mem_cons] at h
    rcases h with rfl | h
    · simp
    · have := mem_pairsOf t q h
      simp [this.1, this.2]

theorem sep_pairsOf : ∀ (s : BSet), BSet.SInc s → Sep (pairsOf s)
  | [], _ => Sep.nil
  | [_], _ => Sep.nil
  | lo :: hi :: t, hs => by
    have h1 := List.pairwise_cons.mp hs
    have h2 := List.pairwise_cons.mp h1.2
    simp only [pairsOf]
    refine Sep.cons (h1.1 hi (by simp)) ?_ (sep_pairsOf t h2.2)
    intro q hq
    exact h2.1 q.1 (mem_pairsOf t q hq).1

theorem memPairs_pairsOf : ∀ (s : BSet), BSet.SInc s → BSet.Even s → ∀ x, memPairs (pairsOf s) x = BSet.mem s x
  | [], _, _, x => rfl
  | [_], _, he, _ => by simp [BSet.Even] at he
  | lo :: hi :: t, hs, he, x => by
    have h1 := List.pairwise_cons.mp hs
    have h2 := List.pairwise_cons.mp h1.2
    have he' : BSet.Even t := by simp only [BSet.Even, List.length_cons] at he ⊢; omega
    have hlh : lo < hi := h1.1 hi (by simp)
    have hsep := sep_pairsOf (lo :: hi :: t) hs
    simp only [pairsOf] at hsep ⊢
    rw [memPairs_cons_sep hsep, BSet.mem_cons2, memPairs_pairsOf t h2.2 he' x]

/-! ### coalescing -/

/-- the closure `emit` as a list function: `pend` is the pending range -/
def coalesceGo (pend : Nat × Nat) : List (Nat × Nat) → List (Nat × Nat)
  | [] => [pend]
  | p :: t =>
    if p.1 ≤ pend.2 then coalesceGo (pend.1, if p.2 > pend.2 then p.2 else pend.2) t
    else pend :: coalesceGo p t

/-- merge every candidate that starts at or before the end of the pending range into it -/
def coalesceP : List (Nat × Nat) → List (Nat × Nat)
  | [] => []
  | p :: t => coalesceGo p t

theorem coalesceGo_spec : ∀ (l : List (Nat × Nat)) (pend : Nat × Nat), WSep (pend :: l) →
    Sep (coalesceGo pend l) ∧ (∀ q ∈ coalesceGo pend l, pend.1 ≤ q.1) ∧
      ∀ x, memPairs (coalesceGo pend l) x = memPairs (pend :: l) x
  | [], pend, h => by
    rw [coalesceGo]
    refine ⟨Sep.cons h.head (fun _ hq => nomatch hq) Sep.nil, ?_, fun x => rfl⟩
    intro q hq
    rw [List.mem_singleton.mp hq]
    exact Nat.le_refl _
  | p :: t, pend, h => by
    have hp := h.head
    have hpp : p.1 < p.2 := h.tail.head
    have hle : pend.2 ≤ p.1 := h.head_le p (List.mem_cons_self ..)
    simp only [coalesceGo]
    by_cases c : p.1 ≤ pend.2
    · rw [if_pos c, if_pos (show p.2 > pend.2 by omega)]
      have hw : WSep ((pend.1, p.2) :: t) :=
        WSep.cons (show pend.1 < p.2 by omega) (fun q hq => h.tail.head_le q hq) h.tail.tail
      obtain ⟨i1, i2, i3⟩ := coalesceGo_spec t (pend.1, p.2) hw
      refine ⟨i1, i2, ?_⟩
      intro x
      rw [i3 x, memPairs_cons, memPairs_cons, memPairs_cons, ← Bool.or_assoc]
      congr 1
      have e : pend.2 = p.1 := by omega
      by_cases a1 : pend.1 ≤ x <;> by_cases a2 : x < p.2 <;> by_cases a3 : x < pend.2 <;> by_cases a4 : p.1 ≤ x <;>
        simp [a1, a2, a3, a4] <;> omega
    · rw [if_neg c]
      obtain ⟨i1, i2, i3⟩ := coalesceGo_spec t p h.tail
      refine ⟨Sep.cons hp (fun q hq => by have := i2 q hq; omega) i1, ?_, ?_⟩
      · intro q hq
        rcases List.mem_cons.mp hq with rfl | h'
        · exact Nat.le_refl _
        · have := i2 q h'; omega
      · intro x
        rw [memPairs_cons, i3 x, memPairs_cons pend]

theorem coalesceP_spec (l : List (Nat × Nat)) (h : WSep l) :
    Sep (coalesceP l) ∧ ∀ x, memPairs (coalesceP l) x = memPairs l x := by
  cases l with
  | nil => exact ⟨Sep.nil, fun _ => rfl⟩
  | cons p t =>
    obtain ⟨i1, _, i3⟩ := coalesceGo_spec t p h
    exact ⟨i1, i3⟩

/-! ### the early-terminating fold over pairs -/

/-- hand the pairs of a list to a state-transforming callback until it answers `false`:
(did it run to the end?, final state) -/
def foldUntil2 {σ : Type} (cb : σ → Nat → Nat → Bool × σ) : List (Nat × Nat) → σ → Bool × σ
  | [], s => (true, s)
  | p :: t, s => if (cb s p.1 p.2).1 then foldUntil2 cb t (cb s p.1 p.2).2 else (false, (cb s p.1 p.2).2)

theorem foldUntil2_congr {σ : Type} {cb cb' : σ → Nat → Nat → Bool × σ} : ∀ (l : List (Nat × Nat)) (s : σ),
    (∀ s, ∀ p ∈ l, cb s p.1 p.2 = cb' s p.1 p.2) → foldUntil2 cb l s = foldUntil2 cb' l s
  | [], _, _ => rfl
  | p :: t, s, h => by
    simp only [foldUntil2]
    rw [h s p (by simp)]
    by_cases hc : (cb' s p.1 p.2).1 = true
    · simp only [hc, if_true]
      exact foldUntil2_congr t _ (fun s q hq => h s q (by simp [hq]))
    · simp [hc]

/-- `yield(uint32(pendingStart), pendingEnd)` -/
def cbm {σ : Type} (cb : σ → Nat → Nat → Bool × σ) (s : σ) (a b : Nat) : Bool × σ := cb s (a % 4294967296) b

/-- `for … { if !emit(a, b) { return } }` over a candidate list (`rangesCont` without the offset) -/
def rangesList {σ : Type} (cb : σ → Nat → Nat → Bool × σ) :
    List (Nat × Nat) → Option (Nat × Nat) × σ → Bool × (Option (Nat × Nat) × σ)
  | [], st => (true, st)
  | p :: t, st =>
    let r := rangesEmit cb st p.1 p.2
    if r.1 then rangesList cb t r.2 else r

/-- the tail of `Ranges()`: `if hasPending { yield(uint32(pendingStart), pendingEnd) }` unless the loop was left early -/
def rangesFinish {σ : Type} (cb : σ → Nat → Nat → Bool × σ) (res : Bool × (Option (Nat × Nat) × σ)) : σ :=
  if res.1 then
    match res.2.1 with
    | some (ps, pe) => (cb res.2.2 (ps % 4294967296) pe).2
    | none => res.2.2
  else res.2.2

theorem rangesList_append {σ : Type} (cb : σ → Nat → Nat → Bool × σ) : ∀ (l1 l2 : List (Nat × Nat))
    (st : Option (Nat × Nat) × σ),
    rangesList cb (l1 ++ l2) st =
      if (rangesList cb l1 st).1 then rangesList cb l2 (rangesList cb l1 st).2 else rangesList cb l1 st
  | [], l2, st => by simp [rangesList]
  | p :: t, l2, st => by
    simp only [List.cons_append, rangesList]
    by_cases h : (rangesEmit cb st p.1 p.2).1 = true
    · simp only [h, if_true]; exact rangesList_append cb t l2 _
    · simp [h]

theorem rangesList_some {σ : Type} (cb : σ → Nat → Nat → Bool × σ) : ∀ (l : List (Nat × Nat)) (pend : Nat × Nat) (s : σ),
    rangesFinish cb (rangesList cb l (some pend, s)) = (foldUntil2 (cbm cb) (coalesceGo pend l) s).2
  | [], pend, s => by
    obtain ⟨ps, pe⟩ := pend
    simp only [rangesList, rangesFinish, coalesceGo, foldUntil2, cbm, if_true]
    by_cases hc : (cb s (ps % 4294967296) pe).1 = true <;> simp [hc]
  | p :: t, pend, s => by
    obtain ⟨a, b⟩ := p
    obtain ⟨ps, pe⟩ := pend
    simp only [rangesList, rangesEmit, coalesceGo]
    by_cases h : a ≤ pe
    · simp only [h, if_true]
      exact rangesList_some cb t _ s
    · simp only [h, if_false]
      by_cases hc : (cb s (ps % 4294967296) pe).1 = true
      · simp only [hc, if_true, foldUntil2, cbm]
        exact rangesList_some cb t (a, b) _
      · simp [hc, foldUntil2, cbm, rangesFinish]

/-- folding `emit` over the candidates and yielding the pending range at the end hands the coalesced list to the yield
function until it answers `false` -/
theorem rangesList_spec {σ : Type} (cb : σ → Nat → Nat → Bool × σ) (l : List (Nat × Nat)) (s : σ) :
    rangesFinish cb (rangesList cb l (none, s)) = (foldUntil2 (cbm cb) (coalesceP l) s).2 := by
  cases l with
  | nil => rfl
  | cons p t =>
    simp only [rangesList, rangesEmit, coalesceP, if_true]
    exact rangesList_some cb t p s

/-! ### the recording yield function -/

theorem foldUntil2_seen_none : ∀ (l : List (Nat × Nat)) (n : Nat) (acc : List (Nat × Nat)),
    foldUntil2 (seenCb2 none) l (n, acc) = (true, (n + l.length, l.reverse ++ acc))
  | [], n, acc => by simp [foldUntil2]
  | v :: t, n, acc => by
    simp only [foldUntil2, seenCb2, ↓reduceIte]
    rw [foldUntil2_seen_none t (n + 1) (v :: acc)]
    simp only [List.length_cons, List.reverse_cons, List.append_assoc, List.singleton_append]
    congr 2
    omega

theorem foldUntil2_seen_some (k : Nat) : ∀ (l : List (Nat × Nat)) (n : Nat) (acc : List (Nat × Nat)),
    (foldUntil2 (seenCb2 (some k)) l (n, acc)).2.2 = (l.take (max (k - n) 1)).reverse ++ acc
  | [], n, acc => by simp [foldUntil2]
  | v :: t, n, acc => by
    simp only [foldUntil2, seenCb2]
    by_cases hc : n + 1 < k
    · simp only [hc, decide_true, ↓reduceIte]
      rw [foldUntil2_seen_some k t (n + 1) (v :: acc)]
      have e : max (k - n) 1 = max (k - (n + 1)) 1 + 1 := by omega
      rw [e, List.take_succ_cons]
      simp
    · simp only [hc, decide_false, Bool.false_eq_true, ↓reduceIte]
      have e : max (k - n) 1 = 0 + 1 := by omega
      rw [e, List.take_succ_cons]
      simp

/-- what the recording yield function sees in an early-terminating fold -/
theorem foldUntil2_seen (k : Option Nat) (l : List (Nat × Nat)) :
    (foldUntil2 (seenCb2 k) l (0, [])).2.2.reverse =
      match k with
      | none => l
      | some k => l.take (max k 1) := by
  cases k with
  | none => simp [foldUntil2_seen_none]
  | some k =>
    rw [foldUntil2_seen_some k _ 0 []]
    simp

end RModel.Impl.It
