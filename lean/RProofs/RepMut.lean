import RProofs.RepOps
import RProofs.ContMut
import RProofs.ContQuery
import RProofs.ContEfficient
import RProofs.LazyOps
import RModel.Impl.RepMut
/-!
Bitmap-level (roaringArray) L2 theorems for the MUTATORS and the in-place binary operations (`RModel/Impl/RepMut.lean`):
for a well-formed receiver (and argument) and in-domain arguments the representation the Go method leaves behind denotes
the L1 result (`Rep.toBSet_*`), is well-formed (`Rep.wf_*`, property C09 at bitmap level), the Checked* booleans are
`!mem` / `mem`, and the in-place binary operations leave the abstraction (indeed the keys and containers) of their
argument alone (`Rep.toBSet_shareTail`).
Core Lean only; no `native_decide`, `bv_decide`, axioms.
-/
namespace RModel.Impl
open RModel RModel.BSet RModel.Driver ContOps ContMut RepOps LazyOps RepMut

/- helper lemmas live in `RModel.Impl.RepMut`; the theorems about `Rep.*` / `Cont.*` are exported to `RModel.Impl` -/
namespace RepMut

/-! ### generic facts about slot lists -/

/-- membership in an optional slot -/
def optHas (o : Option Slot) (y : Nat) : Bool :=
  match o with
  | some s => s.c.has y
  | none => false

/-- the slot stored under key `k` -/
def findSlot (l : List Slot) (k : Nat) : Option Slot := l.find? (·.key == k)

theorem slotsHas_append (a b : List Slot) (x : Nat) : slotsHas (a ++ b) x = (slotsHas a x || slotsHas b x) := by
  simp [slotsHas, List.any_append]

theorem slotsHas_toList (o : Option Slot) (k : Nat) (hk : ∀ s, o = some s → s.key = k) (x : Nat) :
    slotsHas o.toList x = (k == x / 65536 && optHas o (x % 65536)) := by
  cases o with
  | none => simp [slotsHas, optHas]
  | some s => simp [slotsHas, optHas, hk s rfl]

theorem findSlot_gt {l : List Slot} {k : Nat} (h : ∀ s ∈ l, k < s.key) : findSlot l k = none := by
  unfold findSlot
  rw [List.find?_eq_none]
  intro s hs
  have := h s hs
  simp; omega

theorem findSlot_cons_ne {s : Slot} {t : List Slot} {k : Nat} (h : s.key ≠ k) : findSlot (s :: t) k = findSlot t k := by
  unfold findSlot
  have : (s.key == k) = false := beq_false_of_ne' h
  simp [this]

theorem findSlot_cons_eq {s : Slot} {t : List Slot} {k : Nat} (h : s.key = k) : findSlot (s :: t) k = some s := by
  unfold findSlot
  have : (s.key == k) = true := beq_true_of_eq' h
  simp [this]

/-- chunk-wise membership = look the chunk up, ask the container (sorted keys) -/
theorem slotsHas_eq_find (l : List Slot) (hs : l.Pairwise (fun s t => s.key < t.key)) (x : Nat) :
    slotsHas l x = optHas (findSlot l (x / 65536)) (x % 65536) := by
  induction l with
  | nil => rfl
  | cons s t ih =>
    have hlt := (List.pairwise_cons.mp hs).1
    rw [slotsHas_cons]
    by_cases hk : s.key = x / 65536
    · rw [findSlot_cons_eq hk, slotsHas_gt hlt (by omega), beq_true_of_eq' hk]
      simp [optHas]
    · rw [findSlot_cons_ne hk, beq_false_of_ne' hk, ← ih (List.pairwise_cons.mp hs).2]
      simp

theorem findSlot_mem {l : List Slot} {k : Nat} {s : Slot} (h : findSlot l k = some s) : s ∈ l ∧ s.key = k := by
  unfold findSlot at h
  have h1 := List.mem_of_find?_eq_some h
  have h2 := List.find?_some h
  exact ⟨h1, by simpa using h2⟩

/-! ### the walk `alterWalk` -/

/-- what `f` stores under `hb` carries the key `hb` -/
def KeyOk (f : Nat → Option Slot → Option Slot) : Prop := ∀ hb o s, f hb o = some s → s.key = hb

theorem has_alterWalk (f : Nat → Option Slot → Option Slot) (hf : KeyOk f) (hb n : Nat) (l : List Slot)
    (hs : l.Pairwise (fun s t => s.key < t.key)) (x : Nat) :
    slotsHas (alterWalk f hb n l) x =
      if hb ≤ x / 65536 ∧ x / 65536 < hb + n then optHas (f (x / 65536) (findSlot l (x / 65536))) (x % 65536)
      else slotsHas l x := by
  fun_induction alterWalk f hb n l with
  | case1 hb l =>
    have : ¬ (hb ≤ x / 65536 ∧ x / 65536 < hb + 0) := by omega
    rw [if_neg this]
  | case2 hb n ih =>
    rw [slotsHas_append, slotsHas_toList _ hb (hf hb none), ih List.Pairwise.nil]
    by_cases h1 : hb = x / 65536
    · subst h1
      have c1 : x / 65536 ≤ x / 65536 ∧ x / 65536 < x / 65536 + (n + 1) := by omega
      have c2 : ¬ (x / 65536 + 1 ≤ x / 65536 ∧ x / 65536 < x / 65536 + 1 + n) := by omega
      rw [if_pos c1, if_neg c2]
      simp [findSlot, slotsHas]
    · rw [beq_false_of_ne' h1, Bool.false_and, Bool.false_or]
      by_cases h2 : hb + 1 ≤ x / 65536 ∧ x / 65536 < hb + 1 + n
      · rw [if_pos h2, if_pos (by omega)]
      · rw [if_neg h2, if_neg (by omega)]
  | case3 hb n s t hlt ih =>
    have hst := List.pairwise_cons.mp hs
    rw [slotsHas_cons, ih hst.2]
    by_cases h2 : hb ≤ x / 65536 ∧ x / 65536 < hb + (n + 1)
    · have hne : s.key ≠ x / 65536 := by omega
      rw [if_pos h2, if_pos h2, findSlot_cons_ne hne, beq_false_of_ne' hne]
      simp
    · rw [if_neg h2, if_neg h2, slotsHas_cons]
  | case4 n s t hlt ih =>
    have hst := List.pairwise_cons.mp hs
    rw [slotsHas_append, slotsHas_toList _ s.key (hf s.key (some s)), ih hst.2]
    by_cases h1 : s.key = x / 65536
    · have c1 : s.key ≤ x / 65536 ∧ x / 65536 < s.key + (n + 1) := by omega
      have c2 : ¬ (s.key + 1 ≤ x / 65536 ∧ x / 65536 < s.key + 1 + n) := by omega
      rw [if_pos c1, if_neg c2, slotsHas_gt hst.1 (by omega), beq_true_of_eq' h1, ← h1, findSlot_cons_eq rfl]
      simp
    · rw [beq_false_of_ne' h1, Bool.false_and, Bool.false_or]
      by_cases h2 : s.key + 1 ≤ x / 65536 ∧ x / 65536 < s.key + 1 + n
      · rw [if_pos h2, if_pos (by omega), findSlot_cons_ne h1]
      · rw [if_neg h2, if_neg (by omega), slotsHas_cons, beq_false_of_ne' h1]
        simp
  | case5 hb n s t hlt hne ih =>
    have hgt : hb < s.key := by omega
    have hall : ∀ s' ∈ s :: t, hb < s'.key := by
      intro s' hs'
      rcases List.mem_cons.mp hs' with rfl | h'
      · exact hgt
      · have := (List.pairwise_cons.mp hs).1 s' h'; omega
    rw [slotsHas_append, slotsHas_toList _ hb (hf hb none), ih hs]
    by_cases h1 : hb = x / 65536
    · have c1 : hb ≤ x / 65536 ∧ x / 65536 < hb + (n + 1) := by omega
      have c2 : ¬ (hb + 1 ≤ x / 65536 ∧ x / 65536 < hb + 1 + n) := by omega
      rw [if_pos c1, if_neg c2, slotsHas_gt hall (by omega), beq_true_of_eq' h1, ← h1, findSlot_gt hall]
      simp
    · rw [beq_false_of_ne' h1, Bool.false_and, Bool.false_or]
      by_cases h2 : hb + 1 ≤ x / 65536 ∧ x / 65536 < hb + 1 + n
      · rw [if_pos h2, if_pos (by omega)]
      · rw [if_neg h2, if_neg (by omega)]

theorem gt_alterWalk (f : Nat → Option Slot → Option Slot) (hf : KeyOk f) (k hb n : Nat) (l : List Slot)
    (hk : k < hb) (hl : ∀ s ∈ l, k < s.key) : ∀ s ∈ alterWalk f hb n l, k < s.key := by
  fun_induction alterWalk f hb n l with
  | case1 hb l => exact hl
  | case2 hb n ih =>
    intro s hs
    rcases List.mem_append.mp hs with h | h
    · have := hf hb none s (by simpa using h); omega
    · exact ih (by omega) hl s h
  | case3 hb n s t hlt ih =>
    intro s' hs'
    rcases List.mem_cons.mp hs' with rfl | h
    · exact hl _ (by simp)
    · exact ih hk (fun s'' h'' => hl s'' (by simp [h''])) s' h
  | case4 n s t hlt ih =>
    intro s' hs'
    rcases List.mem_append.mp hs' with h | h
    · have := hf s.key (some s) s' (by simpa using h); omega
    · exact ih (by omega) (fun s'' h'' => hl s'' (by simp [h''])) s' h
  | case5 hb n s t hlt hne ih =>
    intro s' hs'
    rcases List.mem_append.mp hs' with h | h
    · have := hf hb none s' (by simpa using h); omega
    · exact ih (by omega) hl s' h

/-- `f` stores well-formed containers: for a chunk inside the universe, given a well-formed slot with that key or nothing -/
def WfOk (f : Nat → Option Slot → Option Slot) : Prop :=
  ∀ hb o s, hb < 65536 → (∀ s0, o = some s0 → s0.key = hb ∧ s0.c.wf = true) → f hb o = some s → s.c.wf = true

theorem SlotsWf.toList_append {o : Option Slot} {k : Nat} {rest : List Slot} (hk : k < 65536)
    (ho : ∀ s, o = some s → s.key = k ∧ s.c.wf = true) (hr : SlotsWf rest) (hlt : ∀ s ∈ rest, k < s.key) :
    SlotsWf (o.toList ++ rest) := by
  cases o with
  | none => simpa using hr
  | some s =>
    obtain ⟨h1, h2⟩ := ho s rfl
    simp only [Option.toList_some, List.singleton_append]
    exact SlotsWf.cons ⟨by omega, h2⟩ hr (fun s' hs' => by have := hlt s' hs'; omega)

theorem wf_alterWalk (f : Nat → Option Slot → Option Slot) (hf : KeyOk f) (hw : WfOk f) (hb n : Nat) (l : List Slot)
    (hl : SlotsWf l) (hbn : hb + n ≤ 65536) : SlotsWf (alterWalk f hb n l) := by
  fun_induction alterWalk f hb n l with
  | case1 hb l => exact hl
  | case2 hb n ih =>
    refine SlotsWf.toList_append (k := hb) (by omega) (fun s hs => ⟨hf _ _ _ hs, hw _ _ _ (by omega) (by simp) hs⟩)
      (ih SlotsWf.nil (by omega)) (gt_alterWalk f hf hb _ _ _ (by omega) (by simp))
  | case3 hb n s t hlt ih =>
    exact SlotsWf.cons hl.head (ih hl.tail hbn) (gt_alterWalk f hf s.key _ _ _ hlt hl.head_lt)
  | case4 n s t hlt ih =>
    refine SlotsWf.toList_append (k := s.key) (by omega)
      (fun s' hs' => ⟨hf _ _ _ hs', hw _ _ _ (by omega) (by intro s0 h0; cases h0; exact ⟨rfl, hl.head.2⟩) hs'⟩)
      (ih hl.tail (by omega)) (gt_alterWalk f hf s.key _ _ _ (by omega) hl.head_lt)
  | case5 hb n s t hlt hne ih =>
    have hgt : hb < s.key := by omega
    refine SlotsWf.toList_append (k := hb) (by omega) (fun s' hs' => ⟨hf _ _ _ hs', hw _ _ _ (by omega) (by simp) hs'⟩)
      (ih hl (by omega)) (gt_alterWalk f hf hb _ _ _ (by omega) (hl.gt_of_lt_head hgt))

/-! ### `isEmpty()` answers truthfully on the results of the mutation kernels -/

theorem cardOk_toEfficient_bmp {c : Int} {ws : List (BitVec 64)} (hc : c = (wordsCard ws : Int)) :
    (Cont.bmp c ws).toEfficient.CardOk := by
  simp only [Cont.toEfficient]
  split
  · exact cardOk_run _
  · split
    · exact cardOk_arr _
    · exact cardOk_bmp hc

theorem cardOk_iremoveRM (a : Cont) (ha : a.wf = true) (x : Nat) : (a.iremoveRM x).CardOk := by
  cases a with
  | arr xs => exact cardOk_arr _
  | bmp c ws =>
    obtain ⟨hl, hc, hgt⟩ := wf_bmp ha
    have hcard := wordsCard_clearBit ws x
    simp only [Cont.iremoveRM, bmpRemoveRM]
    split
    · rename_i hb
      rw [hb] at hcard
      simp only [if_true] at hcard
      split
      · exact cardOk_arr _
      · exact cardOk_bmp (by omega)
    · exact cardOk_of_wf ha
  | run rs =>
    have hrs := wf_run ha
    exact cardOk_runToEfficient _ (sep_runDiff _ _ hrs.sep (sep_single x)) (bound_runRemove rs hrs.bound x)

theorem emptyOrWf_iremoveRM (a : Cont) (ha : a.wf = true) (x : Nat) : (a.iremoveRM x).EmptyOrWf :=
  emptyOrWf_of (wf_iremoveRM a ha x) (cardOk_iremoveRM a ha x)

theorem cardOk_bmpNot {c : Int} {ws : List (BitVec 64)} (hl : ws.length = 1024) (hc : c = (wordsCard ws : Int))
    (lo hi : Nat) (hlh : lo ≤ hi) (hhi : hi ≤ 65536) : (bmpNot c ws lo hi).CardOk := by
  simp only [bmpNot]
  generalize hc' : (if ((hi : Int) - (lo : Int) == 65536) = true then 65536 - c
      else if (hi : Int) - (lo : Int) > 32768 then (wordsCard (flipRangeW ws lo hi) : Int)
      else c + cardDelta ws (flipRangeW ws lo hi)) = c'
  have hcc : c' = (wordsCard (flipRangeW ws lo hi) : Int) := by
    rw [← hc']
    split
    · rename_i h
      simp only [beq_iff_eq] at h
      have h0 : lo = 0 := by omega
      have h1 : hi = 65536 := by omega
      subst h0; subst h1
      have := wordsCard_flip_full ws hl
      omega
    · split
      · rfl
      · simp only [cardDelta]; omega
  split
  · exact cardOk_arr _
  · exact cardOk_bmp hcc

theorem cardOk_inotRange (a : Cont) (ha : a.wf = true) (lo hi : Nat) (hlh : lo ≤ hi) (hhi : hi ≤ 65536) :
    (a.inotRange lo hi).CardOk := by
  cases a with
  | arr xs =>
    have hxs := wf_arr ha
    simp only [Cont.inotRange, Cont.notRange, arrNot]
    split
    · exact cardOk_arr _
    · split
      · exact cardOk_bmpNot (length_wordsOfArr xs) (by rw [wordsCard_wordsOfArr xs hxs]) lo hi hlh hhi
      · exact cardOk_arr _
  | bmp c ws =>
    obtain ⟨hl, hc, hgt⟩ := wf_bmp ha
    exact cardOk_bmpNot hl hc lo hi hlh hhi
  | run rs =>
    have hrs := wf_run ha
    exact cardOk_runToEfficient _ (sep_runFlip rs hrs.sep lo hi) (bound_runFlip rs hrs.bound lo hi hhi)

theorem emptyOrWf_inotRange (a : Cont) (ha : a.wf = true) (lo hi : Nat) (hlh : lo ≤ hi) (hhi : hi ≤ 65536) :
    (a.inotRange lo hi).EmptyOrWf :=
  emptyOrWf_of (wf_inotRange a ha lo hi hlh hhi) (cardOk_inotRange a ha lo hi hlh hhi)

theorem cardOk_iand2 (a b : Cont) (ha : a.wf = true) (hb : b.wf = true) : (a.iand2 b).CardOk := by
  cases a with
  | arr xs => rw [iand2_arr]; exact cardOk_and2 _ _ ha hb
  | run rs => rw [iand2_run]; exact cardOk_and2 _ _ ha hb
  | bmp c ws =>
    cases b with
    | bmp c2 ws2 => exact cardOk_and2 _ _ ha hb
    | arr ys => simp only [Cont.iand2]; exact cardOk_ofWordsAB _
    | run rs =>
      simp only [Cont.iand2]
      split
      · exact cardOk_of_wf ha
      · exact cardOk_ofWordsAB _

theorem emptyOrWf_iand2 (a b : Cont) (ha : a.wf = true) (hb : b.wf = true) : (a.iand2 b).EmptyOrWf :=
  emptyOrWf_of (wf_iand2 a b ha hb) (cardOk_iand2 a b ha hb)

theorem cardOk_ixor2 (a b : Cont) (ha : a.wf = true) (hb : b.wf = true) : (a.ixor2 b).CardOk := by
  cases a with
  | arr xs =>
    cases b with
    | arr ys =>
      have : (Cont.arr xs).ixor2 (.arr ys) = (Cont.arr xs).xor2 (.arr ys) := by unfold Cont.ixor2; rfl
      rw [this]; exact cardOk_xor2 _ _ ha hb
    | bmp c2 ws2 =>
      have : (Cont.arr xs).ixor2 (.bmp c2 ws2) = (Cont.arr xs).xor2 (.bmp c2 ws2) := by unfold Cont.ixor2; rfl
      rw [this]; exact cardOk_xor2 _ _ ha hb
    | run rs =>
      have : (Cont.arr xs).ixor2 (.run rs) = ofWordsAB (xorW (wordsOfRuns rs) (wordsOfArr xs)) := by
        unfold Cont.ixor2; rfl
      rw [this]; exact cardOk_ofWordsAB _
  | bmp c ws =>
    have : (Cont.bmp c ws).ixor2 b = ofWordsAB (xorW (Cont.bmp c ws).toBitmapWords b.toBitmapWords) := by
      unfold Cont.ixor2; cases b <;> rfl
    rw [this]; exact cardOk_ofWordsAB _
  | run rs =>
    cases b with
    | bmp c2 ws2 =>
      have : (Cont.run rs).ixor2 (.bmp c2 ws2) = ofWordsXor (xorW (Cont.run rs).toBitmapWords (Cont.bmp c2 ws2).toBitmapWords) := by
        unfold Cont.ixor2; rfl
      rw [this]; exact cardOk_ofWordsXor _
    | arr ys =>
      have : (Cont.run rs).ixor2 (.arr ys) = ofWordsAB (xorW (Cont.run rs).toBitmapWords (Cont.arr ys).toBitmapWords) := by
        unfold Cont.ixor2; rfl
      rw [this]; exact cardOk_ofWordsAB _
    | run rs2 =>
      have : (Cont.run rs).ixor2 (.run rs2) = ofWordsAB (xorW (Cont.run rs).toBitmapWords (Cont.run rs2).toBitmapWords) := by
        unfold Cont.ixor2; rfl
      rw [this]; exact cardOk_ofWordsAB _

theorem emptyOrWf_ixor2 (a b : Cont) (ha : a.wf = true) (hb : b.wf = true) : (a.ixor2 b).EmptyOrWf :=
  emptyOrWf_of (wf_ixor2 a b ha hb) (cardOk_ixor2 a b ha hb)

theorem cardOk_iandNot2 (a b : Cont) (ha : a.wf = true) (hb : b.wf = true) : (a.iandNot2 b).CardOk := by
  cases a with
  | arr xs =>
    cases b with
    | arr ys =>
      have : (Cont.arr xs).iandNot2 (.arr ys) = (Cont.arr xs).andNot2 (.arr ys) := by unfold Cont.iandNot2; rfl
      rw [this]; exact cardOk_andNot2 _ _ ha hb
    | bmp c2 ws2 =>
      have : (Cont.arr xs).iandNot2 (.bmp c2 ws2) = (Cont.arr xs).andNot2 (.bmp c2 ws2) := by unfold Cont.iandNot2; rfl
      rw [this]; exact cardOk_andNot2 _ _ ha hb
    | run rs =>
      have : (Cont.arr xs).iandNot2 (.run rs) = .arr (xs.filter fun v => !inRuns rs v) := by unfold Cont.iandNot2; rfl
      rw [this]; exact cardOk_arr _
  | bmp c ws =>
    obtain ⟨hl, hc, hgt⟩ := wf_bmp ha
    cases b with
    | arr ys =>
      have : (Cont.bmp c ws).iandNot2 (.arr ys) = (Cont.bmp c ws).andNot2 (.arr ys) := by unfold Cont.iandNot2; rfl
      rw [this]; exact cardOk_andNot2 _ _ ha hb
    | bmp c2 ws2 =>
      have : (Cont.bmp c ws).iandNot2 (.bmp c2 ws2) = (Cont.bmp c ws).andNot2 (.bmp c2 ws2) := by unfold Cont.iandNot2; rfl
      rw [this]; exact cardOk_andNot2 _ _ ha hb
    | run rs =>
      have : (Cont.bmp c ws).iandNot2 (.run rs) =
          (if c + cardDelta ws (andNotW ws (wordsOfRuns rs)) ≤ (arrayMax : Int) then Cont.arr (valsOfWords (andNotW ws (wordsOfRuns rs)))
           else Cont.bmp (c + cardDelta ws (andNotW ws (wordsOfRuns rs))) (andNotW ws (wordsOfRuns rs))) := by
        unfold Cont.iandNot2; rfl
      rw [this, wordsCard_of_cardDelta hc]
      split
      · exact cardOk_arr _
      · exact cardOk_bmp rfl
  | run rs =>
    have hw : ∀ b : Cont, b.isRunC = false → ((Cont.run rs).iandNot2 b).CardOk := by
      intro b hk
      rw [iandNot2_run_words rs b hk]
      exact cardOk_toEfficient_bmp rfl
    cases b with
    | arr ys => exact hw _ rfl
    | bmp c2 ws2 => exact hw _ rfl
    | run rs2 =>
      have : (Cont.run rs).iandNot2 (.run rs2) = (Cont.run rs).andNot2 (.run rs2) := by unfold Cont.iandNot2; rfl
      rw [this]; exact cardOk_andNot2 _ _ ha hb

theorem emptyOrWf_iandNot2 (a b : Cont) (ha : a.wf = true) (hb : b.wf = true) : (a.iandNot2 b).EmptyOrWf :=
  emptyOrWf_of (wf_iandNot2 a b ha hb) (cardOk_iandNot2 a b ha hb)

/-- `isEmpty()` answers truthfully and a non-empty container is well-formed up to run minimality -/
def _root_.RModel.Impl.Cont.EmptyOrLoose (c : Cont) : Prop :=
  (c.isEmptyGo = true ∧ ∀ y, c.has y = false) ∨ (c.isEmptyGo = false ∧ c.wfLoose = true)

theorem cardOk_iremoveRange (a : Cont) (ha : a.wf = true) (lo hi : Nat) : (a.iremoveRange lo hi).CardOk := by
  cases a with
  | arr xs => exact cardOk_arr _
  | bmp c ws =>
    obtain ⟨hl, hc, hgt⟩ := wf_bmp ha
    simp only [Cont.iremoveRange, bmpRemoveRange]
    split
    · exact cardOk_arr _
    · exact cardOk_bmp (wordsCard_of_cardDelta hc)
  | run rs => exact cardOk_run _

theorem emptyOrLoose_iremoveRange (a : Cont) (ha : a.wf = true) (lo hi : Nat) : (a.iremoveRange lo hi).EmptyOrLoose := by
  have hc := cardOk_iremoveRange a ha lo hi
  rcases wf_iremoveRange a ha lo hi with h | h
  · -- cardinality 0: `emptyOrWf_of` gives the empty branch
    rcases emptyOrWf_of (Or.inl h) hc with h' | ⟨he, hw⟩
    · exact Or.inl h'
    · exact Or.inr ⟨he, wfLoose_of_wf hw⟩
  · right
    refine ⟨?_, h⟩
    generalize a.iremoveRange lo hi = c at h hc
    cases c with
    | arr vs => exact isEmptyGo_of_wf h
    | bmp k ws => exact isEmptyGo_of_wf h
    | run rs =>
      simp only [Cont.wfLoose, Bool.and_eq_true, Bool.not_eq_true', List.isEmpty_eq_false_iff] at h
      cases rs with
      | nil => exact absurd rfl h.1
      | cons p t => rfl

theorem has_minimizeRun (c : Cont) (h : c.wfLoose = true) (y : Nat) : (minimizeRun c).has y = c.has y := by
  cases c with
  | arr vs => rfl
  | bmp k ws => rfl
  | run rs =>
    simp only [Cont.wfLoose, Bool.and_eq_true] at h
    exact has_runToEfficient rs (runsOk_spec rs h.2).2 y

theorem wf_minimizeRun (c : Cont) (h : c.wfLoose = true) : (minimizeRun c).wf = true := by
  cases c with
  | arr vs => exact h
  | bmp k ws => exact h
  | run rs =>
    simp only [Cont.wfLoose, Bool.and_eq_true, Bool.not_eq_true', List.isEmpty_eq_false_iff] at h
    obtain ⟨hs, hb⟩ := runsOk_spec rs h.2
    rcases wfe_runToEfficient rs hs hb with h0 | hw
    · exfalso
      cases rs with
      | nil => exact h.1 rfl
      | cons p t =>
        have hh : (runToEfficient (p :: t)).has p.1 = true := by
          rw [has_runToEfficient _ hb]; simp [inRuns]
        rw [has_of_card_zero _ h0] at hh; cases hh
    · exact hw

/-! ### a walk applied to a well-formed representation -/

theorem _root_.RModel.Impl.Rep.wf_alter (r : Rep) (hr : r.wf = true) (f : Nat → Option Slot → Option Slot) (hf : KeyOk f) (hw : WfOk f)
    (hb n : Nat) (hbn : hb + n ≤ 65536) (c : Bool) :
    ({ cow := c, slots := alterWalk f hb n r.slots } : Rep).wf = true :=
  (slotsWf_iff _).mpr (wf_alterWalk f hf hw hb n _ ((slotsWf_iff r).mp hr) hbn)

theorem _root_.RModel.Impl.Rep.mem_alter (r : Rep) (hr : r.wf = true) (f : Nat → Option Slot → Option Slot) (hf : KeyOk f) (hw : WfOk f)
    (hb n : Nat) (hbn : hb + n ≤ 65536) (c : Bool) (v : Nat) :
    mem ({ cow := c, slots := alterWalk f hb n r.slots } : Rep).toBSet v =
      if hb ≤ v / 65536 ∧ v / 65536 < hb + n then optHas (f (v / 65536) (findSlot r.slots (v / 65536))) (v % 65536)
      else mem r.toBSet v := by
  have hwr := (slotsWf_iff r).mp hr
  have hw' := wf_alterWalk f hf hw hb n _ hwr hbn
  rw [mem_rep_slots _ hw'.bounded, mem_rep_slots r hwr.bounded]
  exact has_alterWalk f hf hb n _ hwr.sorted v

theorem _root_.RModel.Impl.Rep.mem_find (r : Rep) (hr : r.wf = true) (v : Nat) :
    mem r.toBSet v = optHas (findSlot r.slots (v / 65536)) (v % 65536) := by
  have hwr := (slotsWf_iff r).mp hr
  rw [mem_rep_slots r hwr.bounded, slotsHas_eq_find _ hwr.sorted]

theorem findSlot_wf {r : Rep} (hr : r.wf = true) {k : Nat} {s : Slot} (h : findSlot r.slots k = some s) :
    s.key = k ∧ s.c.wf = true ∧ k < 65536 := by
  have hwr := (slotsWf_iff r).mp hr
  obtain ⟨hm, hk⟩ := findSlot_mem h
  have := hwr.ok s hm
  exact ⟨hk, this.2, by omega⟩

theorem _root_.RModel.Impl.Rep.find_eq (r : Rep) (k : Nat) : r.find k = (findSlot r.slots k).map (·.c) := rfl

/-! ### `Add` / `CheckedAdd` -/

theorem keyOk_addF (lb : Nat) : KeyOk (addF lb) := by
  intro hb o s h
  cases o <;> simp only [addF, Option.some.injEq] at h <;> subst h <;> rfl

theorem wfOk_addF (lb : Nat) (hlb : lb < 65536) : WfOk (addF lb) := by
  intro hb o s _ ho h
  cases o with
  | none =>
    simp only [addF, Option.some.injEq] at h; subst h
    simp [Cont.wf, strictInc]; omega
  | some s0 =>
    simp only [addF, Option.some.injEq] at h; subst h
    exact wf_iaddRM _ (ho s0 rfl).2 _ hlb

theorem optHas_addF (lb k : Nat) (hlb : lb < 65536) (o : Option Slot) (ho : ∀ s0, o = some s0 → s0.c.wf = true) (y : Nat) :
    optHas (addF lb k o) y = (optHas o y || decide (y = lb)) := by
  cases o with
  | none => simp [addF, optHas, Cont.has]
  | some s0 => simp only [addF, optHas]; exact has_iaddRM _ (ho s0 rfl) _ hlb y

/-- **C09**: `Add` keeps the bitmap well-formed -/
theorem _root_.RModel.Impl.Rep.wf_add (r : Rep) (hr : r.wf = true) (x : Nat) (hx : x < 4294967296) : (r.add x).wf = true :=
  Rep.wf_alter r hr _ (keyOk_addF _) (wfOk_addF _ (Nat.mod_lt _ (by omega))) _ _ (by omega) _

theorem _root_.RModel.Impl.Rep.mem_add (r : Rep) (hr : r.wf = true) (x : Nat) (hx : x < 4294967296) (v : Nat) :
    mem (r.add x).toBSet v = (mem r.toBSet v || decide (v = x)) := by
  have hlb : x % 65536 < 65536 := Nat.mod_lt _ (by omega)
  unfold Rep.add
  rw [Rep.mem_alter r hr _ (keyOk_addF _) (wfOk_addF _ hlb) _ _ (by omega)]
  split <;> rename_i hc
  · rw [optHas_addF _ _ hlb _ (fun s0 h0 => (findSlot_wf hr h0).2.1), ← Rep.mem_find r hr]
    congr 1
    apply decide_eq_decide.mpr; omega
  · have : decide (v = x) = false := by apply decide_eq_false; omega
    rw [this, Bool.or_false]

/-- `Add` of a value below 2^32 to a well-formed bitmap denotes `BSet.add` -/
theorem _root_.RModel.Impl.Rep.toBSet_add (r : Rep) (hr : r.wf = true) (x : Nat) (hx : x < 4294967296) :
    (r.add x).toBSet = BSet.add r.toBSet x :=
  canon_ext_sinc _ _ (sinc_rep _) (sinc_add _ (sinc_rep r) x)
    (fun v => by rw [Rep.mem_add r hr x hx, BSet.mem_add _ (sinc_rep r)])

theorem cnt_insert (p : Nat → Bool) (x n : Nat) (hx : x < n) :
    cnt (fun y => p y || decide (y = x)) n = cnt p n + (if p x then 0 else 1) := by
  induction n with
  | zero => omega
  | succ n ih =>
    rw [cnt_succ, cnt_succ]
    by_cases h : x < n
    · rw [ih h]
      have : decide (n = x) = false := by apply decide_eq_false; omega
      rw [this, Bool.or_false]; omega
    · have hxn : x = n := by omega
      subst hxn
      rw [cnt_congr (p := fun y => p y || decide (y = x)) (q := p) x (fun y hy => by
        have : decide (y = x) = false := by apply decide_eq_false; omega
        simp [this])]
      cases p x <;> simp

theorem cnt_erase (p : Nat → Bool) (x n : Nat) (hx : x < n) :
    cnt (fun y => p y && !decide (y = x)) n + (if p x then 1 else 0) = cnt p n := by
  induction n with
  | zero => omega
  | succ n ih =>
    rw [cnt_succ, cnt_succ]
    by_cases h : x < n
    · have : decide (n = x) = false := by apply decide_eq_false; omega
      rw [this, Bool.not_false, Bool.and_true]
      have := ih h; omega
    · have hxn : x = n := by omega
      subst hxn
      rw [cnt_congr (p := fun y => p y && !decide (y = x)) (q := p) x (fun y hy => by
        have : decide (y = x) = false := by apply decide_eq_false; omega
        simp [this])]
      cases p x <;> simp

/-- `CheckedAdd` mutates like `Add` -/
theorem _root_.RModel.Impl.Rep.checkedAdd_fst (r : Rep) (x : Nat) : (r.checkedAdd x).1 = r.add x := rfl

/-- `CheckedAdd` answers "was absent" -/
theorem _root_.RModel.Impl.Rep.checkedAdd_snd (r : Rep) (hr : r.wf = true) (x : Nat) :
    (r.checkedAdd x).2 = !mem r.toBSet x := by
  have hlb : x % 65536 < 65536 := Nat.mod_lt _ (by omega)
  rw [Rep.mem_find r hr]
  simp only [Rep.checkedAdd, Rep.find_eq]
  cases hf : findSlot r.slots (x / 65536) with
  | none => simp [optHas]
  | some s =>
    have hw := (findSlot_wf hr hf).2.1
    have hw' := wf_iaddRM s.c hw _ hlb
    simp only [Option.map_some, optHas]
    rw [has_card _ (wfQ_of_wf hw), has_card _ (wfQ_of_wf hw'),
      show (s.c.iaddRM (x % 65536)).has = (fun y => s.c.has y || decide (y = x % 65536)) from
        funext (fun y => has_iaddRM s.c hw _ hlb y),
      cnt_insert _ _ _ hlb]
    cases s.c.has (x % 65536) <;> simp <;> omega

/-! ### `Remove` / `CheckedRemove` -/

theorem keepOpt_some {k : Nat} {c : Cont} {s : Slot} (h : keepOpt k c = some s) :
    s.key = k ∧ s.c = c ∧ c.isEmptyGo = false := by
  unfold keepOpt at h
  split at h
  · cases h
  · rename_i he
    simp only [Option.some.injEq] at h; subst h
    exact ⟨rfl, rfl, by simpa using he⟩

theorem optHas_keepOpt (k : Nat) (c : Cont) (hc : c.EmptyOrWf) (y : Nat) : optHas (keepOpt k c) y = c.has y := by
  unfold keepOpt
  rcases hc with ⟨he, hh⟩ | ⟨he, _⟩
  · simp [he, hh, optHas]
  · simp [he, optHas]

theorem wf_of_keepOpt {k : Nat} {c : Cont} (hc : c.EmptyOrWf) {s : Slot} (h : keepOpt k c = some s) : s.c.wf = true := by
  obtain ⟨_, h2, h3⟩ := keepOpt_some h
  rcases hc with ⟨he, _⟩ | ⟨_, hw⟩
  · rw [he] at h3; cases h3
  · rw [h2]; exact hw

theorem keyOk_removeF (lb : Nat) : KeyOk (removeF lb) := by
  intro hb o s h
  cases o with
  | none => simp [removeF] at h
  | some s0 => exact (keepOpt_some h).1

theorem wfOk_removeF (lb : Nat) : WfOk (removeF lb) := by
  intro hb o s _ ho h
  cases o with
  | none => simp [removeF] at h
  | some s0 => exact wf_of_keepOpt (emptyOrWf_iremoveRM _ (ho s0 rfl).2 lb) h

theorem optHas_removeF (lb k : Nat) (o : Option Slot) (ho : ∀ s0, o = some s0 → s0.c.wf = true) (y : Nat) :
    optHas (removeF lb k o) y = (optHas o y && !decide (y = lb)) := by
  cases o with
  | none => simp [removeF, optHas]
  | some s0 =>
    simp only [removeF]
    rw [optHas_keepOpt _ _ (emptyOrWf_iremoveRM _ (ho s0 rfl) lb)]
    exact has_iremoveRM _ (ho s0 rfl) lb y

/-- **C09**: `Remove` keeps the bitmap well-formed -/
theorem _root_.RModel.Impl.Rep.wf_remove (r : Rep) (hr : r.wf = true) (x : Nat) (hx : x < 4294967296) : (r.remove x).wf = true :=
  Rep.wf_alter r hr _ (keyOk_removeF _) (wfOk_removeF _) _ _ (by omega) _

theorem _root_.RModel.Impl.Rep.mem_remove (r : Rep) (hr : r.wf = true) (x : Nat) (hx : x < 4294967296) (v : Nat) :
    mem (r.remove x).toBSet v = (mem r.toBSet v && !decide (v = x)) := by
  unfold Rep.remove
  rw [Rep.mem_alter r hr _ (keyOk_removeF _) (wfOk_removeF _) _ _ (by omega)]
  split <;> rename_i hc
  · rw [optHas_removeF _ _ _ (fun s0 h0 => (findSlot_wf hr h0).2.1), ← Rep.mem_find r hr]
    congr 2
    apply decide_eq_decide.mpr; omega
  · have : decide (v = x) = false := by apply decide_eq_false; omega
    rw [this, Bool.not_false, Bool.and_true]

/-- `Remove` of a value below 2^32 from a well-formed bitmap denotes `BSet.remove` -/
theorem _root_.RModel.Impl.Rep.toBSet_remove (r : Rep) (hr : r.wf = true) (x : Nat) (hx : x < 4294967296) :
    (r.remove x).toBSet = BSet.remove r.toBSet x :=
  canon_ext_sinc _ _ (sinc_rep _) (sinc_remove _ (sinc_rep r) x)
    (fun v => by rw [Rep.mem_remove r hr x hx, BSet.mem_remove _ (sinc_rep r)])

/-- `CheckedRemove` mutates like `Remove` -/
theorem _root_.RModel.Impl.Rep.checkedRemove_fst (r : Rep) (x : Nat) : (r.checkedRemove x).1 = r.remove x := rfl

/-- `CheckedRemove` answers "was present" -/
theorem _root_.RModel.Impl.Rep.checkedRemove_snd (r : Rep) (hr : r.wf = true) (x : Nat) :
    (r.checkedRemove x).2 = mem r.toBSet x := by
  have hlb : x % 65536 < 65536 := Nat.mod_lt _ (by omega)
  rw [Rep.mem_find r hr]
  simp only [Rep.checkedRemove, Rep.find_eq]
  cases hf : findSlot r.slots (x / 65536) with
  | none => simp [optHas]
  | some s =>
    have hw := (findSlot_wf hr hf).2.1
    simp only [Option.map_some, optHas]
    rcases emptyOrWf_iremoveRM s.c hw (x % 65536) with ⟨he, hh⟩ | ⟨he, hw'⟩
    · rw [he, if_pos rfl]
      -- the container had a member; it is gone, so it was `x`
      obtain ⟨y, hy⟩ := exists_has_of_wf hw
      have := hh y
      rw [has_iremoveRM _ hw, hy, Bool.true_and] at this
      have hyx : y = x % 65536 := by simpa using this
      rw [← hyx, hy]
    · rw [he]
      simp only [Bool.false_eq_true, if_false]
      rw [has_card _ (wfQ_of_wf hw), has_card _ (wfQ_of_wf hw'),
        show (s.c.iremoveRM (x % 65536)).has = (fun y => s.c.has y && !decide (y = x % 65536)) from
          funext (fun y => has_iremoveRM s.c hw _ y)]
      have := cnt_erase s.c.has (x % 65536) 65536 hlb
      cases hh : s.c.has (x % 65536) <;> simp [hh] at this ⊢ <;> omega

/-! ### the in-place binary walks -/

theorem has_iandSlots2 (a b : List Slot) (ha : SlotsWf a) (hb : SlotsWf b) (x : Nat) :
    slotsHas (iandSlots2 a b) x = (slotsHas a x && slotsHas b x) := by
  fun_induction iandSlots2 a b with
  | case1 b => rw [slotsHas_nil, Bool.false_and]
  | case2 a h => rw [slotsHas_nil, Bool.and_false]
  | case3 sa ta sb tb hlt ih =>
    rw [ih ha.tail hb, slotsHas_cons sa]
    by_cases hk : sa.key = x / 65536
    · rw [slotsHas_gt (hb.gt_of_lt_head hlt) (by omega)]
      simp
    · rw [beq_false_of_ne' hk]; simp
  | case4 sa ta sb tb hlt hlt2 ih =>
    have hlt' : sb.key < sa.key := by omega
    rw [ih ha hb.tail, slotsHas_cons sb tb]
    by_cases hk : sb.key = x / 65536
    · rw [slotsHas_gt (ha.gt_of_lt_head hlt') (by omega)]
      simp
    · rw [beq_false_of_ne' hk]; simp
  | case5 sa ta sb tb hlt hlt2 ih =>
    have hk : sb.key = sa.key := by omega
    rw [slotsHas_keep _ _ _ _ (emptyOrWf_iand2 _ _ ha.head.2 hb.head.2), ih ha.tail hb.tail,
      slotsHas_cons sa, slotsHas_cons sb, hk, has_iand2 _ _ ha.head.2 hb.head.2]
    by_cases hx : sa.key = x / 65536
    · rw [slotsHas_gt ha.head_lt (by omega), slotsHas_gt hb.head_lt (by omega), beq_true_of_eq' hx]
      simp
    · rw [beq_false_of_ne' hx]; simp

theorem gt_iandSlots2 (k : Nat) (a b : List Slot) (ha : ∀ s ∈ a, k < s.key) :
    ∀ s ∈ iandSlots2 a b, k < s.key := by
  fun_induction iandSlots2 a b with
  | case1 b => intro s hs; cases hs
  | case2 a h => intro s hs; cases hs
  | case3 sa ta sb tb hlt ih => exact ih (gt_tail ha)
  | case4 sa ta sb tb hlt hlt2 ih => exact ih ha
  | case5 sa ta sb tb hlt hlt2 ih =>
    intro s hs
    rcases mem_keep hs with h' | h'
    · rw [h']; exact ha sa (by simp)
    · exact ih (gt_tail ha) s h'

theorem wf_iandSlots2 (a b : List Slot) (ha : SlotsWf a) (hb : SlotsWf b) : SlotsWf (iandSlots2 a b) := by
  fun_induction iandSlots2 a b with
  | case1 b => exact SlotsWf.nil
  | case2 a h => exact SlotsWf.nil
  | case3 sa ta sb tb hlt ih => exact ih ha.tail hb
  | case4 sa ta sb tb hlt hlt2 ih => exact ih ha hb.tail
  | case5 sa ta sb tb hlt hlt2 ih =>
    exact wf_keep ha.head.1 (emptyOrWf_iand2 _ _ ha.head.2 hb.head.2) (ih ha.tail hb.tail)
      (gt_iandSlots2 _ _ _ ha.head_lt)

theorem has_iandNotSlots2 (a b : List Slot) (ha : SlotsWf a) (hb : SlotsWf b) (x : Nat) :
    slotsHas (iandNotSlots2 a b) x = (slotsHas a x && !slotsHas b x) := by
  fun_induction iandNotSlots2 a b with
  | case1 b => rw [slotsHas_nil, Bool.false_and]
  | case2 a h => rw [slotsHas_nil]; simp
  | case3 sa ta sb tb hlt ih =>
    rw [slotsHas_cons, ih ha.tail hb, slotsHas_cons sa]
    by_cases hk : sa.key = x / 65536
    · rw [slotsHas_gt (hb.gt_of_lt_head hlt) (by omega), slotsHas_gt ha.head_lt (by omega)]
      simp
    · rw [beq_false_of_ne' hk]; simp
  | case4 sa ta sb tb hlt hlt2 ih =>
    have hlt' : sb.key < sa.key := by omega
    rw [ih ha hb.tail, slotsHas_cons sb tb]
    by_cases hk : sb.key = x / 65536
    · rw [slotsHas_gt (ha.gt_of_lt_head hlt') (by omega)]
      simp
    · rw [beq_false_of_ne' hk]; simp
  | case5 sa ta sb tb hlt hlt2 ih =>
    have hk : sb.key = sa.key := by omega
    rw [slotsHas_keep _ _ _ _ (emptyOrWf_iandNot2 _ _ ha.head.2 hb.head.2), ih ha.tail hb.tail,
      slotsHas_cons sa, slotsHas_cons sb, hk, has_iandNot2 _ _ ha.head.2 hb.head.2]
    by_cases hx : sa.key = x / 65536
    · rw [slotsHas_gt ha.head_lt (by omega), slotsHas_gt hb.head_lt (by omega), beq_true_of_eq' hx]
      simp
    · rw [beq_false_of_ne' hx]; simp

theorem gt_iandNotSlots2 (k : Nat) (a b : List Slot) (ha : ∀ s ∈ a, k < s.key) :
    ∀ s ∈ iandNotSlots2 a b, k < s.key := by
  fun_induction iandNotSlots2 a b with
  | case1 b => intro s hs; cases hs
  | case2 a h => exact ha
  | case3 sa ta sb tb hlt ih =>
    intro s hs
    rcases List.mem_cons.mp hs with h | h'
    · rw [h]; exact ha sa (by simp)
    · exact ih (gt_tail ha) s h'
  | case4 sa ta sb tb hlt hlt2 ih => exact ih ha
  | case5 sa ta sb tb hlt hlt2 ih =>
    intro s hs
    rcases mem_keep hs with h' | h'
    · rw [h']; exact ha sa (by simp)
    · exact ih (gt_tail ha) s h'

theorem wf_iandNotSlots2 (a b : List Slot) (ha : SlotsWf a) (hb : SlotsWf b) : SlotsWf (iandNotSlots2 a b) := by
  fun_induction iandNotSlots2 a b with
  | case1 b => exact SlotsWf.nil
  | case2 a h => exact ha
  | case3 sa ta sb tb hlt ih =>
    exact SlotsWf.cons ha.head (ih ha.tail hb) (gt_iandNotSlots2 _ _ _ ha.head_lt)
  | case4 sa ta sb tb hlt hlt2 ih => exact ih ha hb.tail
  | case5 sa ta sb tb hlt hlt2 ih =>
    exact wf_keep ha.head.1 (emptyOrWf_iandNot2 _ _ ha.head.2 hb.head.2) (ih ha.tail hb.tail)
      (gt_iandNotSlots2 _ _ _ ha.head_lt)

theorem has_unionedWritable (s : Slot) (c2 : Cont) (hs : s.c.wf = true) (h2 : c2.wf = true) (y : Nat) :
    (unionedWritable s c2).has y = (s.c.has y || c2.has y) := by
  unfold unionedWritable
  split
  · exact has_or2 _ _ hs h2 y
  · exact has_ior2 _ _ hs h2 y

theorem wf_ior2_ne (a b : Cont) (ha : a.wf = true) (hb : b.wf = true) : (a.ior2 b).wf = true := by
  rcases wf_ior2 a b ha hb with h0 | h
  · exfalso
    obtain ⟨y, hy⟩ := exists_has_of_wf ha
    have hor := has_ior2 a b ha hb y
    rw [hy, Bool.true_or, has_of_card_zero _ h0] at hor
    cases hor
  · exact h

theorem wf_unionedWritable (s : Slot) (c2 : Cont) (hs : s.c.wf = true) (h2 : c2.wf = true) :
    (unionedWritable s c2).wf = true := by
  unfold unionedWritable
  split
  · exact wf_or2_ne _ _ hs h2
  · exact wf_ior2_ne _ _ hs h2

theorem has_iorSlots2 (c1 c2 : Bool) (a b : List Slot) (ha : ∀ s ∈ a, s.c.wf = true)
    (hb : ∀ s ∈ b, s.c.wf = true) (x : Nat) :
    slotsHas (iorSlots2 c1 c2 a b) x = (slotsHas a x || slotsHas b x) := by
  fun_induction iorSlots2 c1 c2 a b with
  | case1 b => rw [slotsHas_map_same _ (appendCopySlot_same c1 c2), slotsHas_nil, Bool.false_or]
  | case2 a h => rw [slotsHas_nil, Bool.or_false]
  | case3 sa ta sb tb hlt ih =>
    rw [slotsHas_cons, ih (fun s hs => ha s (by simp [hs])) hb, slotsHas_cons sa, Bool.or_assoc]
  | case4 sa ta sb tb hlt hlt2 ih =>
    rw [slotsHas_cons, ih ha (fun s hs => hb s (by simp [hs])), slotsHas_cons sb tb]
    simp only
    cases (sb.key == x / 65536 && sb.c.has (x % 65536)) <;> cases slotsHas (sa :: ta) x <;> simp
  | case5 sa ta sb tb hlt hlt2 ih =>
    have hk : sb.key = sa.key := by omega
    rw [slotsHas_cons, ih (fun s hs => ha s (by simp [hs])) (fun s hs => hb s (by simp [hs])),
      slotsHas_cons sa, slotsHas_cons sb, hk]
    simp only [has_unionedWritable _ _ (ha sa (by simp)) (hb sb (by simp))]
    cases (sa.key == x / 65536) <;> cases sa.c.has (x % 65536) <;> cases sb.c.has (x % 65536) <;>
      cases slotsHas ta x <;> cases slotsHas tb x <;> rfl

theorem gt_iorSlots2 (c1 c2 : Bool) (k : Nat) (a b : List Slot) (ha : ∀ s ∈ a, k < s.key) (hb : ∀ s ∈ b, k < s.key) :
    ∀ s ∈ iorSlots2 c1 c2 a b, k < s.key := by
  fun_induction iorSlots2 c1 c2 a b with
  | case1 b =>
    intro s hs
    obtain ⟨s0, hs0, rfl⟩ := List.mem_map.mp hs
    exact hb s0 hs0
  | case2 a h => exact ha
  | case3 sa ta sb tb hlt ih =>
    intro s hs
    rcases List.mem_cons.mp hs with h | h'
    · rw [h]; exact ha sa (by simp)
    · exact ih (gt_tail ha) hb s h'
  | case4 sa ta sb tb hlt hlt2 ih =>
    intro s hs
    rcases List.mem_cons.mp hs with h | h'
    · rw [h]; exact hb sb (by simp)
    · exact ih ha (gt_tail hb) s h'
  | case5 sa ta sb tb hlt hlt2 ih =>
    intro s hs
    rcases List.mem_cons.mp hs with h | h'
    · rw [h]; exact ha sa (by simp)
    · exact ih (gt_tail ha) (gt_tail hb) s h'

theorem wf_map_appendCopy (c1 c2 : Bool) (b : List Slot) (hb : SlotsWf b) : SlotsWf (b.map (appendCopySlot c1 c2)) := by
  refine ⟨List.Pairwise.map _ (fun s t h => h) hb.sorted, ?_⟩
  intro s hs
  obtain ⟨s0, hs0, rfl⟩ := List.mem_map.mp hs
  exact hb.ok s0 hs0

theorem wf_iorSlots2 (c1 c2 : Bool) (a b : List Slot) (ha : SlotsWf a) (hb : SlotsWf b) :
    SlotsWf (iorSlots2 c1 c2 a b) := by
  fun_induction iorSlots2 c1 c2 a b with
  | case1 b => exact wf_map_appendCopy c1 c2 b hb
  | case2 a h => exact ha
  | case3 sa ta sb tb hlt ih =>
    exact SlotsWf.cons ha.head (ih ha.tail hb) (gt_iorSlots2 _ _ _ _ _ ha.head_lt (hb.gt_of_lt_head hlt))
  | case4 sa ta sb tb hlt hlt2 ih =>
    have hlt' : sb.key < sa.key := by omega
    exact SlotsWf.cons hb.head (ih ha hb.tail) (gt_iorSlots2 _ _ _ _ _ (ha.gt_of_lt_head hlt') hb.head_lt)
  | case5 sa ta sb tb hlt hlt2 ih =>
    have hk : sb.key = sa.key := by omega
    refine SlotsWf.cons ⟨ha.head.1, wf_unionedWritable _ _ ha.head.2 hb.head.2⟩ (ih ha.tail hb.tail)
      (gt_iorSlots2 _ _ _ _ _ ha.head_lt (fun s hs => by have := hb.head_lt s hs; simp only; omega))

theorem has_ixorSlots2 (c1 c2 : Bool) (a b : List Slot) (ha : SlotsWf a) (hb : SlotsWf b) (x : Nat) :
    slotsHas (ixorSlots2 c1 c2 a b) x = (slotsHas a x != slotsHas b x) := by
  fun_induction ixorSlots2 c1 c2 a b with
  | case1 b => rw [slotsHas_map_same _ (appendCopySlot_same c1 c2), slotsHas_nil]; simp
  | case2 a h => rw [slotsHas_nil]; simp
  | case3 sa ta sb tb hlt ih =>
    rw [slotsHas_cons, ih ha.tail hb, slotsHas_cons sa]
    by_cases hk : sa.key = x / 65536
    · rw [slotsHas_gt (hb.gt_of_lt_head hlt) (by omega), slotsHas_gt ha.head_lt (by omega)]
      simp
    · rw [beq_false_of_ne' hk]; simp
  | case4 sa ta sb tb hlt hlt2 ih =>
    have hlt' : sb.key < sa.key := by omega
    rw [slotsHas_cons, ih ha hb.tail, slotsHas_cons sb tb]
    simp only
    by_cases hk : sb.key = x / 65536
    · rw [slotsHas_gt (ha.gt_of_lt_head hlt') (by omega), slotsHas_gt hb.head_lt (by omega)]
      simp
    · rw [beq_false_of_ne' hk]; simp
  | case5 sa ta sb tb hlt hlt2 ih =>
    have hk : sb.key = sa.key := by omega
    rw [slotsHas_keep _ _ _ _ (emptyOrWf_ixor2 _ _ ha.head.2 hb.head.2), ih ha.tail hb.tail,
      slotsHas_cons sa, slotsHas_cons sb, hk, has_ixor2 _ _ ha.head.2 hb.head.2]
    by_cases hx : sa.key = x / 65536
    · rw [slotsHas_gt ha.head_lt (by omega), slotsHas_gt hb.head_lt (by omega), beq_true_of_eq' hx]
      simp
    · rw [beq_false_of_ne' hx]; simp

theorem gt_ixorSlots2 (c1 c2 : Bool) (k : Nat) (a b : List Slot) (ha : ∀ s ∈ a, k < s.key) (hb : ∀ s ∈ b, k < s.key) :
    ∀ s ∈ ixorSlots2 c1 c2 a b, k < s.key := by
  fun_induction ixorSlots2 c1 c2 a b with
  | case1 b =>
    intro s hs
    obtain ⟨s0, hs0, rfl⟩ := List.mem_map.mp hs
    exact hb s0 hs0
  | case2 a h => exact ha
  | case3 sa ta sb tb hlt ih =>
    intro s hs
    rcases List.mem_cons.mp hs with h | h'
    · rw [h]; exact ha sa (by simp)
    · exact ih (gt_tail ha) hb s h'
  | case4 sa ta sb tb hlt hlt2 ih =>
    intro s hs
    rcases List.mem_cons.mp hs with h | h'
    · rw [h]; exact hb sb (by simp)
    · exact ih ha (gt_tail hb) s h'
  | case5 sa ta sb tb hlt hlt2 ih =>
    intro s hs
    rcases mem_keep hs with h' | h'
    · rw [h']; exact ha sa (by simp)
    · exact ih (gt_tail ha) (gt_tail hb) s h'

theorem wf_ixorSlots2 (c1 c2 : Bool) (a b : List Slot) (ha : SlotsWf a) (hb : SlotsWf b) :
    SlotsWf (ixorSlots2 c1 c2 a b) := by
  fun_induction ixorSlots2 c1 c2 a b with
  | case1 b => exact wf_map_appendCopy c1 c2 b hb
  | case2 a h => exact ha
  | case3 sa ta sb tb hlt ih =>
    exact SlotsWf.cons ha.head (ih ha.tail hb) (gt_ixorSlots2 _ _ _ _ _ ha.head_lt (hb.gt_of_lt_head hlt))
  | case4 sa ta sb tb hlt hlt2 ih =>
    have hlt' : sb.key < sa.key := by omega
    exact SlotsWf.cons hb.head (ih ha hb.tail) (gt_ixorSlots2 _ _ _ _ _ (ha.gt_of_lt_head hlt') hb.head_lt)
  | case5 sa ta sb tb hlt hlt2 ih =>
    have hk : sb.key = sa.key := by omega
    exact wf_keep ha.head.1 (emptyOrWf_ixor2 _ _ ha.head.2 hb.head.2) (ih ha.tail hb.tail)
      (gt_ixorSlots2 _ _ _ _ _ ha.head_lt (fun s hs => by have := hb.head_lt s hs; omega))

/-! ### in-place `And`, `Or`, `Xor`, `AndNot`: well-formedness (C09) and set semantics -/

theorem _root_.RModel.Impl.Rep.wf_iand (a b : Rep) (ha : a.wf = true) (hb : b.wf = true) : (a.iand b).wf = true :=
  (slotsWf_iff _).mpr (wf_iandSlots2 _ _ ((slotsWf_iff a).mp ha) ((slotsWf_iff b).mp hb))
theorem _root_.RModel.Impl.Rep.wf_ior (a b : Rep) (ha : a.wf = true) (hb : b.wf = true) : (a.ior b).wf = true :=
  (slotsWf_iff _).mpr (wf_iorSlots2 _ _ _ _ ((slotsWf_iff a).mp ha) ((slotsWf_iff b).mp hb))
theorem _root_.RModel.Impl.Rep.wf_ixor (a b : Rep) (ha : a.wf = true) (hb : b.wf = true) : (a.ixor b).wf = true :=
  (slotsWf_iff _).mpr (wf_ixorSlots2 _ _ _ _ ((slotsWf_iff a).mp ha) ((slotsWf_iff b).mp hb))
theorem _root_.RModel.Impl.Rep.wf_iandNot (a b : Rep) (ha : a.wf = true) (hb : b.wf = true) : (a.iandNot b).wf = true :=
  (slotsWf_iff _).mpr (wf_iandNotSlots2 _ _ ((slotsWf_iff a).mp ha) ((slotsWf_iff b).mp hb))

theorem _root_.RModel.Impl.Rep.mem_iand (a b : Rep) (ha : a.wf = true) (hb : b.wf = true) (x : Nat) :
    mem (a.iand b).toBSet x = (mem a.toBSet x && mem b.toBSet x) := by
  have hwa := (slotsWf_iff a).mp ha
  have hwb := (slotsWf_iff b).mp hb
  rw [mem_rep_slots _ (wf_iandSlots2 _ _ hwa hwb).bounded, mem_rep_slots a hwa.bounded, mem_rep_slots b hwb.bounded]
  exact has_iandSlots2 _ _ hwa hwb x

theorem _root_.RModel.Impl.Rep.mem_ior (a b : Rep) (ha : a.wf = true) (hb : b.wf = true) (x : Nat) :
    mem (a.ior b).toBSet x = (mem a.toBSet x || mem b.toBSet x) := by
  have hwa := (slotsWf_iff a).mp ha
  have hwb := (slotsWf_iff b).mp hb
  rw [mem_rep_slots _ (wf_iorSlots2 _ _ _ _ hwa hwb).bounded, mem_rep_slots a hwa.bounded, mem_rep_slots b hwb.bounded]
  exact has_iorSlots2 _ _ _ _ (fun s hs => (hwa.ok s hs).2) (fun s hs => (hwb.ok s hs).2) x

theorem _root_.RModel.Impl.Rep.mem_ixor (a b : Rep) (ha : a.wf = true) (hb : b.wf = true) (x : Nat) :
    mem (a.ixor b).toBSet x = (mem a.toBSet x != mem b.toBSet x) := by
  have hwa := (slotsWf_iff a).mp ha
  have hwb := (slotsWf_iff b).mp hb
  rw [mem_rep_slots _ (wf_ixorSlots2 _ _ _ _ hwa hwb).bounded, mem_rep_slots a hwa.bounded, mem_rep_slots b hwb.bounded]
  exact has_ixorSlots2 _ _ _ _ hwa hwb x

theorem _root_.RModel.Impl.Rep.mem_iandNot (a b : Rep) (ha : a.wf = true) (hb : b.wf = true) (x : Nat) :
    mem (a.iandNot b).toBSet x = (mem a.toBSet x && !mem b.toBSet x) := by
  have hwa := (slotsWf_iff a).mp ha
  have hwb := (slotsWf_iff b).mp hb
  rw [mem_rep_slots _ (wf_iandNotSlots2 _ _ hwa hwb).bounded, mem_rep_slots a hwa.bounded, mem_rep_slots b hwb.bounded]
  exact has_iandNotSlots2 _ _ hwa hwb x

/-- in-place `And` of two well-formed bitmaps denotes the intersection -/
theorem _root_.RModel.Impl.Rep.toBSet_iand (a b : Rep) (ha : a.wf = true) (hb : b.wf = true) :
    (a.iand b).toBSet = BSet.inter a.toBSet b.toBSet :=
  canon_ext_sinc _ _ (sinc_rep _) (sinc_combine _ _ _ _ _ (sinc_rep a) (sinc_rep b))
    (fun x => by rw [Rep.mem_iand a b ha hb, mem_inter _ _ (sinc_rep a) (sinc_rep b)])

/-- in-place `Or` of two well-formed bitmaps denotes the union -/
theorem _root_.RModel.Impl.Rep.toBSet_ior (a b : Rep) (ha : a.wf = true) (hb : b.wf = true) :
    (a.ior b).toBSet = BSet.union a.toBSet b.toBSet :=
  canon_ext_sinc _ _ (sinc_rep _) (sinc_combine _ _ _ _ _ (sinc_rep a) (sinc_rep b))
    (fun x => by rw [Rep.mem_ior a b ha hb, mem_union _ _ (sinc_rep a) (sinc_rep b)])

/-- in-place `Xor` of two well-formed bitmaps (different objects) denotes the symmetric difference -/
theorem _root_.RModel.Impl.Rep.toBSet_ixor (a b : Rep) (ha : a.wf = true) (hb : b.wf = true) :
    (a.ixor b).toBSet = BSet.xor a.toBSet b.toBSet :=
  canon_ext_sinc _ _ (sinc_rep _) (sinc_combine _ _ _ _ _ (sinc_rep a) (sinc_rep b))
    (fun x => by rw [Rep.mem_ixor a b ha hb, mem_xor _ _ (sinc_rep a) (sinc_rep b)])

/-- in-place `AndNot` of two well-formed bitmaps (different objects) denotes the difference -/
theorem _root_.RModel.Impl.Rep.toBSet_iandNot (a b : Rep) (ha : a.wf = true) (hb : b.wf = true) :
    (a.iandNot b).toBSet = BSet.diff a.toBSet b.toBSet :=
  canon_ext_sinc _ _ (sinc_rep _) (sinc_combine _ _ _ _ _ (sinc_rep a) (sinc_rep b))
    (fun x => by rw [Rep.mem_iandNot a b ha hb, mem_diff _ _ (sinc_rep a) (sinc_rep b)])

/-! ### the same object on both sides: `Clear()` agrees with the mathematics -/

theorem _root_.RModel.Impl.Rep.wf_cleared : Rep.cleared.wf = true := rfl

/-- `x.Xor(x)` / `x.AndNot(x)` leave the empty set -/
theorem _root_.RModel.Impl.Rep.toBSet_cleared : Rep.cleared.toBSet = [] := rfl

theorem _root_.RModel.Impl.Rep.cleared_xor_self (a : Rep) : BSet.xor a.toBSet a.toBSet = Rep.cleared.toBSet := by
  refine canon_ext_sinc _ _ (sinc_combine _ _ _ _ _ (sinc_rep a) (sinc_rep a)) (by simp [Rep.toBSet_cleared, SInc]) (fun x => ?_)
  rw [mem_xor _ _ (sinc_rep a) (sinc_rep a), Rep.toBSet_cleared]
  simp [mem]

theorem _root_.RModel.Impl.Rep.cleared_diff_self (a : Rep) : BSet.diff a.toBSet a.toBSet = Rep.cleared.toBSet := by
  refine canon_ext_sinc _ _ (sinc_combine _ _ _ _ _ (sinc_rep a) (sinc_rep a)) (by simp [Rep.toBSet_cleared, SInc]) (fun x => ?_)
  rw [mem_diff _ _ (sinc_rep a) (sinc_rep a), Rep.toBSet_cleared]
  simp [mem]

/-! ### the argument of an in-place binary operation: only flags change -/

/-- `Or` / `Xor` leave the keys and containers of their argument alone -/
theorem _root_.RModel.Impl.Rep.shareTail_same (a b : Rep) :
    (a.shareTail b).cow = b.cow ∧ (a.shareTail b).slots.map (fun s => (s.key, s.c)) = b.slots.map (fun s => (s.key, s.c)) := by
  unfold Rep.shareTail
  split
  · refine ⟨rfl, ?_⟩
    simp only [List.map_map]
    apply List.map_congr_left
    intro s _
    simp only [Function.comp]
    split <;> rfl
  · exact ⟨rfl, rfl⟩

theorem toBSet_of_same (r1 r2 : Rep)
    (h : r1.slots.map (fun s => (s.key, s.c)) = r2.slots.map (fun s => (s.key, s.c))) : r1.toBSet = r2.toBSet := by
  unfold Rep.toBSet
  have e : ∀ l : List Slot, l.map (fun s => s.c.toBSet (s.key * 65536)) =
      (l.map (fun s => (s.key, s.c))).map (fun p => p.2.toBSet (p.1 * 65536)) := by
    intro l; simp [List.map_map, Function.comp]
  rw [e r1.slots, e r2.slots, h]

theorem wf_of_same (r1 r2 : Rep)
    (h : r1.slots.map (fun s => (s.key, s.c)) = r2.slots.map (fun s => (s.key, s.c))) : r1.wf = r2.wf := by
  unfold Rep.wf
  have e1 : ∀ l : List Slot, l.map (·.key) = (l.map (fun s => (s.key, s.c))).map (·.1) := by
    intro l; simp [List.map_map, Function.comp]
  have e2 : ∀ l : List Slot, l.all (fun s => decide (s.key < 65536) && s.c.wf) =
      (l.map (fun s => (s.key, s.c))).all (fun p => decide (p.1 < 65536) && p.2.wf) := by
    intro l; rw [List.all_map]; rfl
  rw [e1 r1.slots, e1 r2.slots, e2 r1.slots, e2 r2.slots, h]

/-- the argument of `Or` / `Xor` denotes the same set afterwards (no hypotheses) -/
theorem _root_.RModel.Impl.Rep.toBSet_shareTail (a b : Rep) : (a.shareTail b).toBSet = b.toBSet :=
  toBSet_of_same _ _ (Rep.shareTail_same a b).2

/-- … and stays well-formed -/
theorem _root_.RModel.Impl.Rep.wf_shareTail (a b : Rep) : (a.shareTail b).wf = b.wf :=
  wf_of_same _ _ (Rep.shareTail_same a b).2

/-! ### ranges: chunk arithmetic -/

theorem chunk_lt (lo hi hb : Nat) (hlh : lo < hi) : chunkLo lo hb < chunkHi hi hb ∧ chunkHi hi hb ≤ 65536 := by
  unfold chunkLo chunkHi
  split <;> split <;> omega

theorem inRange_chunk (lo hi v : Nat) (hlh : lo < hi) (h1 : lo / 65536 ≤ v / 65536) (h2 : v / 65536 ≤ (hi - 1) / 65536) :
    inRange (chunkLo lo (v / 65536)) (chunkHi hi (v / 65536)) (v % 65536) = inRange lo hi v := by
  unfold chunkLo chunkHi
  simp only [inRange]
  split <;> split <;> (congr 1 <;> apply decide_eq_decide.mpr <;> omega)

theorem inRange_out (lo hi v : Nat) (hlh : lo < hi)
    (h : ¬ (lo / 65536 ≤ v / 65536 ∧ v / 65536 < lo / 65536 + nChunks lo hi)) : inRange lo hi v = false := by
  unfold nChunks at h
  simp only [inRange]
  by_cases h1 : lo ≤ v
  · have : ¬ v < hi := by omega
    simp [this]
  · simp [h1]

theorem walk_bound (lo hi : Nat) (hlh : lo < hi) (hhi : hi ≤ 4294967296) : lo / 65536 + nChunks lo hi ≤ 65536 := by
  unfold nChunks; omega

theorem has_rangeOfOnes (st la : Nat) (h1 : st ≤ la) (h2 : la ≤ 65535) (y : Nat) :
    (rangeOfOnes st la).has y = inRange st (la + 1) y := by
  unfold rangeOfOnes
  rw [has_runToEfficient _ (by intro p hp; simp at hp; subst hp; simp; omega)]
  simp only [inRuns, List.any_cons, List.any_nil, Bool.or_false, inRange]
  congr 1
  apply decide_eq_decide.mpr; omega

theorem wf_rangeOfOnes (st la : Nat) (h1 : st ≤ la) (h2 : la ≤ 65535) : (rangeOfOnes st la).wf = true := by
  have : rangeOfOnes st la = minimizeRun (.run [(st, la - st)]) := rfl
  rw [this]
  apply wf_minimizeRun
  simp only [Cont.wfLoose, List.isEmpty_cons, Bool.not_false, Bool.true_and, runsOk, decide_eq_true_eq]
  omega

/-! ### `AddRange` -/

theorem keyOk_addRangeF (lo hi : Nat) : KeyOk (addRangeF lo hi) := by
  intro hb o s h
  cases o <;> simp only [addRangeF, Option.some.injEq] at h <;> subst h <;> rfl

theorem wfOk_addRangeF (lo hi : Nat) (hlh : lo < hi) : WfOk (addRangeF lo hi) := by
  intro hb o s _ ho h
  obtain ⟨hc1, hc2⟩ := chunk_lt lo hi hb hlh
  cases o with
  | none =>
    simp only [addRangeF, Option.some.injEq] at h; subst h
    exact wf_rangeOfOnes _ _ (by omega) (by omega)
  | some s0 =>
    simp only [addRangeF, Option.some.injEq] at h; subst h
    exact wf_minimizeRun _ (wf_iaddRange' _ (ho s0 rfl).2 _ _ hc2)

theorem optHas_addRangeF (lo hi k : Nat) (hlh : lo < hi) (o : Option Slot) (ho : ∀ s0, o = some s0 → s0.c.wf = true) (y : Nat) :
    optHas (addRangeF lo hi k o) y = (optHas o y || inRange (chunkLo lo k) (chunkHi hi k) y) := by
  obtain ⟨hc1, hc2⟩ := chunk_lt lo hi k hlh
  cases o with
  | none =>
    simp only [addRangeF, optHas, Bool.false_or]
    rw [has_rangeOfOnes _ _ (by omega) (by omega), show chunkHi hi k - 1 + 1 = chunkHi hi k by omega]
  | some s0 =>
    simp only [addRangeF, optHas]
    rw [has_minimizeRun _ (wf_iaddRange' _ (ho s0 rfl) _ _ hc2)]
    exact has_iaddRange _ (ho s0 rfl) _ _ hc2 y

/-- **C09**: `AddRange` keeps the bitmap well-formed -/
theorem _root_.RModel.Impl.Rep.wf_addRange (r : Rep) (hr : r.wf = true) (lo hi : Nat) (hhi : hi ≤ 4294967296) : (r.addRange lo hi).wf = true := by
  unfold Rep.addRange
  split
  · exact hr
  · rename_i hlh
    exact Rep.wf_alter r hr _ (keyOk_addRangeF _ _) (wfOk_addRangeF _ _ (by omega)) _ _ (walk_bound lo hi (by omega) hhi) _

theorem _root_.RModel.Impl.Rep.mem_addRange (r : Rep) (hr : r.wf = true) (lo hi : Nat) (hhi : hi ≤ 4294967296) (v : Nat) :
    mem (r.addRange lo hi).toBSet v = (mem r.toBSet v || inRange lo hi v) := by
  unfold Rep.addRange
  split
  · rename_i hle
    rw [inRange_false_of_le hle, Bool.or_false]
  · rename_i hlh
    have hlh' : lo < hi := by omega
    rw [Rep.mem_alter r hr _ (keyOk_addRangeF _ _) (wfOk_addRangeF _ _ hlh') _ _ (walk_bound lo hi hlh' hhi)]
    split <;> rename_i hc
    · rw [optHas_addRangeF _ _ _ hlh' _ (fun s0 h0 => (findSlot_wf hr h0).2.1), ← Rep.mem_find r hr,
        inRange_chunk lo hi v hlh' hc.1 (by unfold nChunks at hc; omega)]
    · rw [inRange_out lo hi v hlh' hc, Bool.or_false]

/-- `AddRange(lo, hi)`, `hi ≤ 2^32`, on a well-formed bitmap denotes `BSet.addRange` -/
theorem _root_.RModel.Impl.Rep.toBSet_addRange (r : Rep) (hr : r.wf = true) (lo hi : Nat) (hhi : hi ≤ 4294967296) :
    (r.addRange lo hi).toBSet = BSet.addRange r.toBSet lo hi :=
  canon_ext_sinc _ _ (sinc_rep _) (sinc_addRange _ (sinc_rep r) lo hi)
    (fun v => by rw [Rep.mem_addRange r hr lo hi hhi, BSet.mem_addRange _ (sinc_rep r)])

/-! ### `Flip` -/

theorem keyOk_flipF (lo hi : Nat) : KeyOk (flipF lo hi) := by
  intro hb o s h
  cases o with
  | none => simp only [flipF, Option.some.injEq] at h; subst h; rfl
  | some s0 => exact (keepOpt_some h).1

theorem wfOk_flipF (lo hi : Nat) (hlh : lo < hi) : WfOk (flipF lo hi) := by
  intro hb o s _ ho h
  obtain ⟨hc1, hc2⟩ := chunk_lt lo hi hb hlh
  cases o with
  | none =>
    simp only [flipF, Option.some.injEq] at h; subst h
    exact wf_rangeOfOnes _ _ (by omega) (by omega)
  | some s0 => exact wf_of_keepOpt (emptyOrWf_inotRange _ (ho s0 rfl).2 _ _ (by omega) hc2) h

theorem optHas_flipF (lo hi k : Nat) (hlh : lo < hi) (o : Option Slot) (ho : ∀ s0, o = some s0 → s0.c.wf = true) (y : Nat) :
    optHas (flipF lo hi k o) y = (optHas o y != inRange (chunkLo lo k) (chunkHi hi k) y) := by
  obtain ⟨hc1, hc2⟩ := chunk_lt lo hi k hlh
  cases o with
  | none =>
    simp only [flipF, optHas, Bool.false_bne]
    rw [has_rangeOfOnes _ _ (by omega) (by omega), show chunkHi hi k - 1 + 1 = chunkHi hi k by omega]
  | some s0 =>
    simp only [flipF]
    rw [optHas_keepOpt _ _ (emptyOrWf_inotRange _ (ho s0 rfl) _ _ (by omega) hc2)]
    exact has_inotRange _ (ho s0 rfl) _ _ hc2 y

/-- **C09**: `Flip` keeps the bitmap well-formed -/
theorem _root_.RModel.Impl.Rep.wf_flip (r : Rep) (hr : r.wf = true) (lo hi : Nat) (hhi : hi ≤ 4294967296) : (r.flip lo hi).wf = true := by
  unfold Rep.flip
  split
  · exact hr
  · rename_i hlh
    exact Rep.wf_alter r hr _ (keyOk_flipF _ _) (wfOk_flipF _ _ (by omega)) _ _ (walk_bound lo hi (by omega) hhi) _

theorem _root_.RModel.Impl.Rep.mem_flip (r : Rep) (hr : r.wf = true) (lo hi : Nat) (hhi : hi ≤ 4294967296) (v : Nat) :
    mem (r.flip lo hi).toBSet v = (mem r.toBSet v != inRange lo hi v) := by
  unfold Rep.flip
  split
  · rename_i hle
    rw [inRange_false_of_le hle, Bool.bne_false]
  · rename_i hlh
    have hlh' : lo < hi := by omega
    rw [Rep.mem_alter r hr _ (keyOk_flipF _ _) (wfOk_flipF _ _ hlh') _ _ (walk_bound lo hi hlh' hhi)]
    split <;> rename_i hc
    · rw [optHas_flipF _ _ _ hlh' _ (fun s0 h0 => (findSlot_wf hr h0).2.1), ← Rep.mem_find r hr,
        inRange_chunk lo hi v hlh' hc.1 (by unfold nChunks at hc; omega)]
    · rw [inRange_out lo hi v hlh' hc, Bool.bne_false]

/-- `Flip(lo, hi)`, `hi ≤ 2^32`, on a well-formed bitmap denotes `BSet.flipRange` -/
theorem _root_.RModel.Impl.Rep.toBSet_flip (r : Rep) (hr : r.wf = true) (lo hi : Nat) (hhi : hi ≤ 4294967296) :
    (r.flip lo hi).toBSet = BSet.flipRange r.toBSet lo hi :=
  canon_ext_sinc _ _ (sinc_rep _) (sinc_flipRange _ (sinc_rep r) lo hi)
    (fun v => by rw [Rep.mem_flip r hr lo hi hhi, BSet.mem_flipRange _ (sinc_rep r)])

/-! ### `RemoveRange` -/

theorem removeRangeF_some {lo hi hb : Nat} {s0 s : Slot} (h : removeRangeF lo hi hb (some s0) = some s) :
    s.key = hb ∧ (s0.c.iremoveRange (chunkLo lo hb) (chunkHi hi hb)).isEmptyGo = false ∧
      s.c = minimizeRun (s0.c.iremoveRange (chunkLo lo hb) (chunkHi hi hb)) := by
  simp only [removeRangeF] at h
  split at h
  · cases h
  · split at h
    · cases h
    · rename_i he
      simp only [Option.some.injEq] at h; subst h
      exact ⟨rfl, by simpa using he, rfl⟩

theorem keyOk_removeRangeF (lo hi : Nat) : KeyOk (removeRangeF lo hi) := by
  intro hb o s h
  cases o with
  | none => simp [removeRangeF] at h
  | some s0 => exact (removeRangeF_some h).1

theorem wfOk_removeRangeF (lo hi : Nat) : WfOk (removeRangeF lo hi) := by
  intro hb o s _ ho h
  cases o with
  | none => simp [removeRangeF] at h
  | some s0 =>
    obtain ⟨_, he, hc⟩ := removeRangeF_some h
    rw [hc]
    rcases emptyOrLoose_iremoveRange s0.c (ho s0 rfl).2 (chunkLo lo hb) (chunkHi hi hb) with ⟨he', _⟩ | ⟨_, hw⟩
    · rw [he'] at he; cases he
    · exact wf_minimizeRun _ hw

theorem optHas_removeRangeF (lo hi k : Nat) (hlh : lo < hi) (o : Option Slot) (ho : ∀ s0, o = some s0 → s0.c.wf = true) (y : Nat) :
    optHas (removeRangeF lo hi k o) y = (optHas o y && !inRange (chunkLo lo k) (chunkHi hi k) y) := by
  obtain ⟨hc1, hc2⟩ := chunk_lt lo hi k hlh
  cases o with
  | none => simp [removeRangeF, optHas]
  | some s0 =>
    have hw := ho s0 rfl
    simp only [removeRangeF]
    split
    · rename_i hcond
      -- the whole chunk goes
      simp only [optHas]
      cases hh : s0.c.has y with
      | false => rfl
      | true =>
        have := bounded_of_wf hw y hh
        have : inRange (chunkLo lo k) (chunkHi hi k) y = true := by
          rw [hcond.2.1, hcond.2.2]; simp [inRange]; omega
        rw [this]; rfl
    · rcases emptyOrLoose_iremoveRange s0.c hw (chunkLo lo k) (chunkHi hi k) with ⟨he, hh⟩ | ⟨he, hl⟩
      · rw [he, if_pos rfl]
        simp only [optHas]
        rw [← has_iremoveRange _ hw _ _ hc2 y, hh y]
      · rw [he]
        simp only [Bool.false_eq_true, if_false, optHas]
        rw [has_minimizeRun _ hl]
        exact has_iremoveRange _ hw _ _ hc2 y

/-- **C09**: `RemoveRange` keeps the bitmap well-formed -/
theorem _root_.RModel.Impl.Rep.wf_removeRange (r : Rep) (hr : r.wf = true) (lo hi : Nat) : (r.removeRange lo hi).wf = true := by
  unfold Rep.removeRange
  simp only
  split
  · exact hr
  · rename_i hlh
    exact Rep.wf_alter r hr _ (keyOk_removeRangeF _ _) (wfOk_removeRangeF _ _) _ _
      (walk_bound lo _ (by omega) (Nat.min_le_right _ _)) _

theorem _root_.RModel.Impl.Rep.mem_removeRange (r : Rep) (hr : r.wf = true) (lo hi : Nat) (v : Nat) :
    mem (r.removeRange lo hi).toBSet v = (mem r.toBSet v && !inRange lo (min hi 4294967296) v) := by
  unfold Rep.removeRange
  simp only
  split
  · rename_i hle
    rw [inRange_false_of_le hle, Bool.not_false, Bool.and_true]
  · rename_i hlh
    have hlh' : lo < min hi 4294967296 := by omega
    rw [Rep.mem_alter r hr _ (keyOk_removeRangeF _ _) (wfOk_removeRangeF _ _) _ _
      (walk_bound lo _ hlh' (Nat.min_le_right _ _))]
    split <;> rename_i hc
    · rw [optHas_removeRangeF _ _ _ hlh' _ (fun s0 h0 => (findSlot_wf hr h0).2.1), ← Rep.mem_find r hr,
        inRange_chunk lo _ v hlh' hc.1 (by unfold nChunks at hc; omega)]
    · rw [inRange_out lo _ v hlh' hc, Bool.not_false, Bool.and_true]

/-- `RemoveRange(lo, hi)` on a well-formed bitmap denotes `BSet.removeRange` (with `hi` clamped to 2^32, as the L1 command) -/
theorem _root_.RModel.Impl.Rep.toBSet_removeRange (r : Rep) (hr : r.wf = true) (lo hi : Nat) :
    (r.removeRange lo hi).toBSet = BSet.removeRange r.toBSet lo (min hi 4294967296) :=
  canon_ext_sinc _ _ (sinc_rep _) (sinc_removeRange _ (sinc_rep r) lo _)
    (fun v => by rw [Rep.mem_removeRange r hr lo hi, BSet.mem_removeRange _ (sinc_rep r)])

/-- in the documented domain `hi ≤ 2^32` no clamping happens -/
theorem _root_.RModel.Impl.Rep.toBSet_removeRange' (r : Rep) (hr : r.wf = true) (lo hi : Nat) (hhi : hi ≤ 4294967296) :
    (r.removeRange lo hi).toBSet = BSet.removeRange r.toBSet lo hi := by
  rw [Rep.toBSet_removeRange r hr, Nat.min_eq_left hhi]

/-! ### `Clone`, `SetCopyOnWrite`, `CloneCopyOnWriteContainers`: the set and well-formedness are untouched

(`Rep.toBSet_clone`, `Rep.wf_clone`, `Rep.toBSet_cloneSrc` are in `RProofs/LazyOps.lean`.) -/

/-- the SOURCE of a `Clone` stays well-formed (only flags are raised) -/
theorem _root_.RModel.Impl.Rep.wf_cloneSrc (r : Rep) : r.cloneSrc.wf = r.wf := by
  unfold Rep.cloneSrc
  split
  · simp only [Rep.wf, List.map_map, List.all_map]; rfl
  · rfl

theorem _root_.RModel.Impl.Rep.toBSet_setCow (r : Rep) (v : Bool) : (r.setCow v).toBSet = r.toBSet := rfl
theorem _root_.RModel.Impl.Rep.wf_setCow (r : Rep) (v : Bool) : (r.setCow v).wf = r.wf := rfl

theorem _root_.RModel.Impl.Rep.toBSet_detach (r : Rep) : r.detach.toBSet = r.toBSet := by
  simp only [Rep.detach, Rep.toBSet, List.map_map]; rfl

theorem _root_.RModel.Impl.Rep.wf_detach (r : Rep) : r.detach.wf = r.wf := by
  simp only [Rep.detach, Rep.wf, List.map_map, List.all_map]; rfl

/-! ### `RunOptimize`: `toEfficientContainer` of every kind keeps the members and well-formedness -/

theorem svb_acc (base : Nat) (vals : List Nat) : ∀ (cur : Option (Nat × Nat)) (acc : List Nat),
    sortedValsBounds base vals cur acc = acc.reverse ++ sortedValsBounds base vals cur [] := by
  induction vals with
  | nil =>
    intro cur acc
    cases cur with
    | none => simp [sortedValsBounds]
    | some p => obtain ⟨lo, hi⟩ := p; simp [sortedValsBounds]
  | cons v t ih =>
    intro cur acc
    cases cur with
    | none => simp only [sortedValsBounds]; exact ih _ _
    | some p =>
      obtain ⟨lo, hi⟩ := p
      simp only [sortedValsBounds]
      split
      · exact ih _ _
      · rw [ih _ (hi :: lo :: acc), ih _ [hi, lo]]
        simp

theorem any_eq_false_of_lt (base x hi : Nat) (l : List Nat) (hl : ∀ a ∈ l, hi ≤ base + a) (hx : x < hi) :
    l.any (fun a => x == base + a) = false := by
  rw [List.any_eq_false]
  intro a ha
  have := hl a ha
  simp; omega

theorem svb_some (base : Nat) : ∀ (vals : List Nat) (lo hi : Nat), lo < hi → vals.Pairwise (· < ·) →
    (∀ v ∈ vals, hi ≤ base + v) →
    SInc (sortedValsBounds base vals (some (lo, hi)) []) ∧
    (∀ b ∈ sortedValsBounds base vals (some (lo, hi)) [], lo ≤ b) ∧
    (∀ x, mem (sortedValsBounds base vals (some (lo, hi)) []) x =
      ((decide (lo ≤ x) && decide (x < hi)) || vals.any (fun a => x == base + a))) := by
  intro vals
  induction vals with
  | nil =>
    intro lo hi hlt _ _
    simp only [sortedValsBounds, List.reverse_cons, List.reverse_nil, List.nil_append, List.cons_append]
    refine ⟨by simp [SInc]; omega, by intro b hb; simp at hb; omega, ?_⟩
    intro x
    simp only [mem, List.any_nil, Bool.or_false]
    by_cases h1 : x < lo
    · have : ¬ lo ≤ x := by omega
      simp [h1, this]
    · by_cases h2 : x < hi
      · have : lo ≤ x := by omega
        simp [h1, h2, this]
      · have : lo ≤ x := by omega
        simp [h1, h2, this]
  | cons v t ih =>
    intro lo hi hlt hs hb
    have hst := List.pairwise_cons.mp hs
    have hv := hb v (by simp)
    simp only [sortedValsBounds]
    split
    · rename_i heq
      have heq' : base + v = hi := by simpa using heq
      obtain ⟨h1, h2, h3⟩ := ih lo (hi + 1) (by omega) hst.2
        (fun a ha => by have := hst.1 a ha; omega)
      refine ⟨h1, h2, ?_⟩
      intro x
      rw [h3 x, List.any_cons]
      have e : (x == base + v) = decide (x = hi) := by rw [nat_beq_decide]; apply decide_eq_decide.mpr; omega
      rw [e]
      by_cases hx : x = hi
      · subst hx
        have : lo ≤ x := by omega
        simp [this]
      · have e1 : decide (x < hi + 1) = decide (x < hi) := by apply decide_eq_decide.mpr; omega
        simp [hx, e1]
    · rename_i hne
      have hne' : hi < base + v := by
        have : base + v ≠ hi := by simpa using hne
        omega
      rw [svb_acc]
      obtain ⟨h1, h2, h3⟩ := ih (base + v) (base + v + 1) (by omega) hst.2
        (fun a ha => by have := hst.1 a ha; omega)
      simp only [List.reverse_cons, List.reverse_nil, List.nil_append, List.cons_append]
      refine ⟨?_, ?_, ?_⟩
      · refine List.pairwise_cons.mpr ⟨?_, List.pairwise_cons.mpr ⟨?_, h1⟩⟩
        · intro b hb'
          rcases List.mem_cons.mp hb' with rfl | hb'
          · exact hlt
          · have := h2 b hb'; omega
        · intro b hb'; have := h2 b hb'; omega
      · intro b hb'
        rcases List.mem_cons.mp hb' with rfl | hb'
        · omega
        · rcases List.mem_cons.mp hb' with rfl | hb'
          · omega
          · have := h2 b hb'; omega
      · intro x
        simp only [mem]
        rw [h3 x, List.any_cons]
        by_cases hx1 : x < lo
        · have hf := any_eq_false_of_lt base x hi (v :: t) hb (by omega)
          rw [List.any_cons] at hf
          have : ¬ lo ≤ x := by omega
          simp [hx1, this, hf]
        · by_cases hx2 : x < hi
          · have hf := any_eq_false_of_lt base x hi (v :: t) hb hx2
            rw [List.any_cons] at hf
            have : lo ≤ x := by omega
            simp [hx1, hx2, this, hf]
          · have hlo : lo ≤ x := by omega
            have e : (decide (base + v ≤ x) && decide (x < base + v + 1)) = (x == base + v) := by
              rw [nat_beq_decide]
              by_cases hxe : x = base + v
              · subst hxe; simp
              · have : ¬ (base + v ≤ x ∧ x < base + v + 1) := by omega
                simp [hxe]; omega
            simp [hx1, hx2, e]

theorem svb_none (vals : List Nat) (hs : vals.Pairwise (· < ·)) :
    sortedValsBounds 0 vals none [] = (Cont.arr vals).toBSet 0 := by
  cases vals with
  | nil => simp [sortedValsBounds, Cont.toBSet, unionAll, unionAllFuel]
  | cons v t =>
    have hst := List.pairwise_cons.mp hs
    simp only [sortedValsBounds]
    obtain ⟨h1, _, h3⟩ := svb_some 0 t (0 + v) (0 + v + 1) (by omega) hst.2 (fun a ha => by have := hst.1 a ha; omega)
    refine canon_ext_sinc _ _ h1 (sinc_toBSet _) (fun x => ?_)
    rw [h3 x, mem_toBSet_arr, List.any_cons]
    congr 1
    rw [nat_beq_decide, ← Bool.decide_and]
    apply decide_eq_decide.mpr; omega

theorem runsOfVals_eq (vals : List Nat) (hs : vals.Pairwise (· < ·)) :
    runsOfVals vals = runsOfBounds ((Cont.arr vals).toBSet 0) := by
  unfold runsOfVals; rw [svb_none vals hs]

theorem inRuns_runsOfVals {xs : List Nat} (hxs : ArrWf xs) (hw : (Cont.arr xs).wf = true) (x : Nat) :
    inRuns (runsOfVals xs) x = xs.contains x := by
  rw [runsOfVals_eq xs hxs.sorted, inRuns_runsOfBounds _ (sinc_toBSet _) (even_toBSet hw), mem_toBSet]; rfl

theorem sep_runsOfVals {xs : List Nat} (hxs : ArrWf xs) : RunSep (runsOfVals xs) := by
  rw [runsOfVals_eq xs hxs.sorted]; exact sep_runsOfBounds _ (sinc_toBSet _)

theorem bound_runsOfVals {xs : List Nat} (hxs : ArrWf xs) (hw : (Cont.arr xs).wf = true) : RunBound 65535 (runsOfVals xs) := by
  rw [runsOfVals_eq xs hxs.sorted]; exact bound_runsOfBounds _ (sinc_toBSet _) (canon_toBSet hw).2.1

theorem runsCard_runsOfVals {xs : List Nat} (hxs : ArrWf xs) (hw : (Cont.arr xs).wf = true) :
    runsCard (runsOfVals xs) = xs.length := by
  rw [runsCard_eq_cnt _ (sep_runsOfVals hxs) (bound_runsOfVals hxs hw), ← cnt_arr_all hxs.sorted 65536 hxs.bound]
  exact cnt_congr _ (fun x _ => inRuns_runsOfVals hxs hw x)

/-- `toEfficientContainer` keeps the members -/
theorem has_toEfficient (c : Cont) (hc : c.wf = true) (y : Nat) : c.toEfficient.has y = c.has y := by
  cases c with
  | arr xs =>
    have hxs := wf_arr hc
    simp only [Cont.toEfficient]
    split
    · simp only [has_run, has_arr]; exact inRuns_runsOfVals hxs hc y
    · split
      · rfl
      · rename_i h; simp only [arrayMax] at h; have := hxs.le; omega
  | bmp k ws => exact has_toEfficient_bmp k ws y
  | run rs => exact has_runToEfficient rs (wf_run hc).bound y

/-- `toEfficientContainer` of a well-formed container is well-formed -/
theorem wf_toEfficient (c : Cont) (hc : c.wf = true) : c.toEfficient.wf = true := by
  obtain ⟨y, hy⟩ := exists_has_of_wf hc
  have hy' : c.toEfficient.has y = true := by rw [has_toEfficient c hc]; exact hy
  have key : c.toEfficient.card = 0 ∨ c.toEfficient.wf = true := by
    cases c with
    | arr xs =>
      have hxs := wf_arr hc
      simp only [Cont.toEfficient]
      split <;> rename_i hmin
      · right
        have hcard := runsCard_runsOfVals hxs hc
        have hne : runsOfVals xs ≠ [] := by
          intro h
          rw [h] at hmin
          simp only [List.length_nil] at hmin
          have := hxs.pos
          rw [h] at hcard
          simp only [runsCard, List.map_nil, List.sum_nil] at hcard
          omega
        simp only [Cont.wf, Bool.and_eq_true, Bool.not_eq_true', List.isEmpty_eq_false_iff, runMinimal, decide_eq_true_eq]
        refine ⟨⟨hne, runsOk_of _ (sep_runsOfVals hxs) (bound_runsOfVals hxs hc)⟩, ?_⟩
        rw [runsCard_eq, hcard]
        omega
      · split
        · right; exact hc
        · rename_i h; simp only [arrayMax] at h; have := hxs.le; omega
    | bmp k ws =>
      obtain ⟨hl, hk, _⟩ := wf_bmp hc
      exact wfe_toEfficient_bmp hl hk
    | run rs =>
      have hrs := wf_run hc
      exact wfe_runToEfficient rs hrs.sep hrs.bound
  rcases key with h0 | h
  · rw [has_of_card_zero _ h0] at hy'; cases hy'
  · exact h

theorem _root_.RModel.Impl.Rep.runOptimize_slots (r : Rep) :
    r.runOptimize.slots = r.slots.map (fun s => { key := s.key, c := s.c.toEfficient, flag := s.flag }) := rfl

theorem slotsWf_runOptimize (l : List Slot) (h : SlotsWf l) :
    SlotsWf (l.map (fun s => ({ key := s.key, c := s.c.toEfficient, flag := s.flag } : Slot))) := by
  refine ⟨List.Pairwise.map _ (fun s t h => h) h.sorted, ?_⟩
  intro s hs
  obtain ⟨s0, hs0, rfl⟩ := List.mem_map.mp hs
  exact ⟨(h.ok s0 hs0).1, wf_toEfficient _ (h.ok s0 hs0).2⟩

/-- **C09**: `RunOptimize` keeps the bitmap well-formed -/
theorem _root_.RModel.Impl.Rep.wf_runOptimize (r : Rep) (hr : r.wf = true) : r.runOptimize.wf = true :=
  (slotsWf_iff _).mpr (slotsWf_runOptimize _ ((slotsWf_iff r).mp hr))

theorem slotsHas_runOptimize (l : List Slot) (h : ∀ s ∈ l, s.c.wf = true) (x : Nat) :
    slotsHas (l.map (fun s => ({ key := s.key, c := s.c.toEfficient, flag := s.flag } : Slot))) x = slotsHas l x := by
  induction l with
  | nil => rfl
  | cons s t ih =>
    rw [List.map_cons, slotsHas_cons, slotsHas_cons, ih (fun s' hs' => h s' (by simp [hs'])),
      has_toEfficient _ (h s (by simp))]

/-- `RunOptimize` does not change the set -/
theorem _root_.RModel.Impl.Rep.toBSet_runOptimize (r : Rep) (hr : r.wf = true) : r.runOptimize.toBSet = r.toBSet :=
  canon_ext_sinc _ _ (sinc_rep _) (sinc_rep _) (fun x => by
    have hw := (slotsWf_iff r).mp hr
    have hw' := slotsWf_runOptimize _ hw
    rw [mem_rep_slots _ (by rw [Rep.runOptimize_slots]; exact hw'.bounded), mem_rep_slots r hw.bounded, Rep.runOptimize_slots]
    exact slotsHas_runOptimize _ (fun s hs => (hw.ok s hs).2) x)

end RepMut

end RModel.Impl
