import RProofs.RepQueryBase
import RProofs.RepQueryPair
import RProofs.RepQueryRange
/-!
# The bitmap-level READ-ONLY drivers compute the set-level queries

`RModel/Impl/RepQuery.lean` models the drivers of `roaring.go` / `roaringarray.go` as the Go code runs them (binary search over
the key array, `getIndex`, `advanceUntil` gallop + bisect, loops accumulating container cardinalities, the first / last
container logic of `Minimum` / `Maximum`, the key arithmetic of the four neighbour searches, the container-based
`CardinalityInRange`, the iterator-based `IntersectsWithInterval`, the key-merging walks of `Equals` / `Intersects` /
`AndCardinality` / `OrCardinality`, and the container kernels `andCardinality` / `intersects` / `equals` of the 3×3 pairings);
the `l2q` / `l2q2` correspondence check (`Driver/L2Q.lean`) ties these models to the real Go functions line by line.

This file collects the theorems: for every well-formed `r` (and `s`) — `Rep.wf`, property C09 — and in-domain arguments the
model returns the verified `BSet` query on the abstraction `r.toBSet`; the right-hand sides are literally the expressions the
L1 commands `card empty has min max rank sel cir iwi nv pv nav pav andcard orcard isect eq` compare Go with.  In particular no
driver returns the "Go panics" value `undef` on well-formed operands (the `undef` branches of the walks are unreachable).

| Go                         | theorem                              | file            |
|----------------------------|--------------------------------------|-----------------|
| `GetCardinality`           | `Rep.card_spec`                      | RepQueryBase    |
| `IsEmpty`                  | `Rep.isEmpty_spec`                   | RepQueryBase    |
| `Contains`                 | `Rep.contains_spec`                  | RepQueryBase    |
| `Minimum` / `Maximum`      | `Rep.minimum_spec`, `Rep.maximum_spec` (`none` = the panic on an empty bitmap) | RepQueryBase |
| `Rank`                     | `Rep.rank_spec`                      | RepQueryBase    |
| `Select`                   | `Rep.select_spec` (`none` = the error result, exactly when `i ≥` cardinality) | RepQueryBase |
| `NextValue` / `PreviousValue` | `Rep.nextValue_spec`, `Rep.previousValue_spec` | RepQueryBase |
| `NextAbsentValue` / `PreviousAbsentValue` | `Rep.nextAbsentValue_spec`, `Rep.previousAbsentValue_spec` | RepQueryBase |
| `CardinalityInRange`       | `Rep.cardInRange_spec`               | RepQueryRange   |
| `IntersectsWithInterval`   | `Rep.intersectsWithInterval_spec`    | RepQueryRange   |
| `AndCardinality` / `OrCardinality` | `Rep.andCardinality_spec`, `Rep.orCardinality_spec` | RepQueryPair |
| `Intersects`               | `Rep.intersects_spec`                | RepQueryPair    |
| `Equals`                   | `Rep.equals_spec : x.equals y = (x.toBSet == y.toBSet)` (uniqueness of canonical forms) | RepQueryPair |
| container `andCardinality` / `intersects` / `equals`, all pairings | `Cont.andCardinalityQ_spec`, `Cont.intersectsQ_spec`, `Cont.equalsQ_spec` (set level, RepQueryBase); `Cont.andCardinalityQ_has`, `Cont.intersectsQ_has`, `Cont.intersectsQ_eq_and2`, `Cont.equalsQ_has` (membership level, RepQueryKern / RepQueryEq / RepQueryIsect / RepQueryCardA / RepQueryCardB) | |
| `advanceUntil` from any `lower` (also `pos = -1`) | `advFrom_spec`      | RepQueryCardA   |

Core Lean only; no `native_decide`, `bv_decide`, axioms, `sorry`.
-/
namespace RModel.Impl
open RModel

/-- the four answers of the L1 checker for a pair, from the L2 drivers, in one statement -/
theorem Rep.pair_queries_spec (x y : Rep) (hx : x.wf = true) (hy : y.wf = true) :
    x.andCardinality y = (BSet.card (BSet.inter x.toBSet y.toBSet) : Int) ∧
    x.orCardinality y = (BSet.card (BSet.union x.toBSet y.toBSet) : Int) ∧
    x.intersects y = (!BSet.isEmpty (BSet.inter x.toBSet y.toBSet)) ∧
    x.equals y = (x.toBSet == y.toBSet) :=
  ⟨Rep.andCardinality_spec x y hx hy, Rep.orCardinality_spec x y hx hy, Rep.intersects_spec x y hx hy,
    Rep.equals_spec x y hx hy⟩

end RModel.Impl
