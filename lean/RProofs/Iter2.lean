import RProofs.Iter2Iterate
import RProofs.Iter2R64
import RProofs.Iter2Unset
import RProofs.Iter2Ranges
/-!
Iteration protocols, second round (models: `RModel/Impl/Iter2.lean`; tie: `harness/l2iter.go`, `RModel/Driver/Iter2.lean`,
suite `l2iter2`).  This file collects the headline theorems; the proofs live in

* `RProofs/Iter2UnsetBase.lean`, `RProofs/Iter2UnsetCont.lean`, `RProofs/Iter2Unset.lean` — the unset iterator
  (`arrayContainerUnsetIterator`, `bitmapContainerUnsetIterator`, `runUnsetIterator16`, `unsetIterator`);
* `RProofs/Iter2Iterate.lean` — `Iterate(cb)` and the range-over-func forms `Values`, `Backward`, `Unset`;
* `RProofs/Iter2RangesBase.lean`, `RProofs/Iter2RangesBmp.lean`, `RProofs/Iter2Ranges.lean` — `Ranges()`;
* `RProofs/Iter2R64.lean` — the roaring64 iterators `intIterator`, `intReverseIterator`, `manyIntIterator`.

All statements are about the executable Go-state-machine models and hold for every well-formed representation
(`Rep.wf` / `Rep64.wf`); windows of the unset iterator need `end ≤ 2^32` (Go panics above) and nothing else (`start ≥ end`
gives the empty enumeration).
-/
namespace RModel.Impl.It
open RModel RModel.Impl

/-! ## the unset iterator -/

/-- draining `UnsetIterator(a, b)` yields exactly the values of `[a, b)` that are not in the bitmap, in increasing order -/
theorem UnsetIt.drain_create' (r : Rep) (h : r.wf = true) (a b : Nat) (hb : b ≤ 4294967296) (fuel : Nat) (hf : b - a ≤ fuel) :
    ((UnsetIt.create r a b).drain fuel).1 = (List.range' a (b - a)).filter (fun x => !r.has x) :=
  UnsetIt.drain_create r h a b hb fuel hf

/-- … which is the enumeration of the set the L1 checker compares Go with (`Driver/Iter.lean`, command `uit`) -/
theorem UnsetIt.drain_create_oracle (r : Rep) (h : r.wf = true) (a b : Nat) (hb : b ≤ 4294967296) (fuel : Nat)
    (hf : b - a ≤ fuel) :
    ((UnsetIt.create r a b).drain fuel).1 = BSet.toList (BSet.restrict (BSet.compl 4294967296 r.toBSet) a b) := by
  rw [UnsetIt.drain_create r h a b hb fuel hf, absVals_eq_toList r h a b hb]

/-- `HasNext` (which skips exhausted containers) never changes what remains and answers whether something remains;
`Next` delivers the head; `AdvanceIfNeeded(m)` leaves exactly the remaining values `≥ m` -/
theorem UnsetIt.protocol {iui : UnsetIt} (hi : iui.Inv) :
    ((UnsetIt.hasNext iui).2.Inv ∧ (UnsetIt.hasNext iui).2.rem = iui.rem ∧ ((UnsetIt.hasNext iui).1 = true ↔ iui.rem ≠ [])) ∧
    (∀ v t, iui.rem = v :: t → (UnsetIt.next iui).1 = v ∧ (UnsetIt.next iui).2.Inv ∧ (UnsetIt.next iui).2.rem = t) ∧
    (∀ m, m < 4294967296 → (iui.advanceIfNeeded m).Inv ∧
      (iui.advanceIfNeeded m).rem = iui.rem.dropWhile (fun x => decide (x < m))) :=
  ⟨UnsetIt.hasNext_spec hi, fun _ _ h => UnsetIt.next_spec hi h, fun m hm => UnsetIt.advanceIfNeeded_spec hi m hm⟩

/-- `PeekNext` after a failed `HasNext` is the Go panic (`none`) -/
theorem UnsetIt.peekNext_nil {iui : UnsetIt} (hi : iui.Inv) (h : iui.rem = []) : (UnsetIt.peekNext iui).1 = none := by
  obtain ⟨-, -, j3⟩ := UnsetIt.hasNext_spec hi
  have hf : (UnsetIt.hasNext iui).1 = false := by
    cases hh : (UnsetIt.hasNext iui).1
    · rfl
    · exact absurd h (j3.mp hh)
  unfold UnsetIt.peekNext
  simp [hf]

/-- the checker's comparison (b) (`Driver/Iter2.lean`, `l2AgreeU`): a state that represents "the values `≥ c` of the
enumerated set `s`" answers `HasNext` / `PeekNext` exactly like the set-level cursor `BSet.nextValue s c` -/
theorem UnsetIt.peek_eq_nextValue {iui : UnsetIt} (hi : iui.Inv) (s : BSet) (hs : BSet.SInc s) (he : BSet.Even s) (c : Nat)
    (h : iui.rem = remFrom (BSet.toList s) c) :
    (UnsetIt.peekNext iui).1 = BSet.nextValue s c := by
  rw [← remFrom_toList_head s hs he c, ← h]
  cases hr : iui.rem with
  | nil => rw [UnsetIt.peekNext_nil hi hr]; rfl
  | cons v t => rw [(UnsetIt.peekNext_spec hi hr).1]; rfl

/-! ## `Iterate(cb)` -/

/-- `Iterate` with a callback that answers `false` on its `k`-th call (`k ≥ 1`): the values the callback sees are the
first `k` members in increasing order — all members when there are fewer, or when it never answers `false` -/
theorem iterate_spec (r : Rep) (h : r.wf = true) (k : Option Nat) :
    iterateSeen r k =
      match k with
      | none => BSet.toList r.toBSet
      | some k => (BSet.toList r.toBSet).take (max k 1) :=
  iterateSeen_spec r h k

/-- for ANY state-transforming callback: `Iterate` = early-terminating fold over the sorted member list -/
theorem iterate_fold {σ : Type} (r : Rep) (h : r.wf = true) (cb : σ → Nat → Bool × σ) (s : σ) :
    iterateRep r cb s = (foldUntil cb (BSet.toList r.toBSet) s).2 :=
  iterateRep_spec r h cb s

/-! ## `Ranges()` -/

/-- `Ranges()` hands the yield function the maximal runs of consecutive members (the boundary pairs of the canonical
interval list), merged across container boundaries, in increasing order, until it answers `false` -/
theorem ranges_spec (r : Rep) (h : r.wf = true) (k : Option Nat) :
    rangesSeen r k =
      match k with
      | none => pairsOf r.toBSet
      | some k => (pairsOf r.toBSet).take (max k 1) :=
  rangesSeen_spec r h k

/-! ## roaring64 -/

theorem IntIt64.drain_create'' (r : Rep64) (h : r.wf = true) (fuel : Nat) (hf : BSet.card r.toBSet ≤ fuel) :
    ((IntIt64.create r).drain fuel).1 = BSet.toList r.toBSet :=
  IntIt64.drain_create r h fuel hf

theorem IntIt64.advance (ii : IntIt64) (hi : ii.Inv) (m : Nat) (hm : m < 18446744073709551616) :
    (ii.advanceIfNeeded m).Inv ∧ (ii.advanceIfNeeded m).rem = ii.rem.dropWhile (fun x => decide (x < m)) :=
  IntIt64.advanceIfNeeded_spec hi m hm

theorem IntRevIt64.drain_create'' (r : Rep64) (h : r.wf = true) (fuel : Nat) (hf : BSet.card r.toBSet ≤ fuel) :
    ((IntRevIt64.create r).drain fuel).1 = (BSet.toList r.toBSet).reverse :=
  IntRevIt64.drain_create r h fuel hf

theorem ManyIt64.nextManySeq_create'' (r : Rep64) (h : r.wf = true) (caps : List Nat) (hc : BSet.card r.toBSet ≤ caps.sum) :
    ((ManyIt64.create r).nextManySeq caps).1 = BSet.toList r.toBSet :=
  ManyIt64.nextManySeq_create r h caps hc

end RModel.Impl.It
